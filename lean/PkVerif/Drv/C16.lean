import PkVerif.Drv.Common
import PkVerif.Model.JsonSign
import PkVerif.Gen.Facts
/-!
`pkmodel-c16`: the jsonsign model behind a line protocol.

    key <reftext> <kind>      declare a blob the key fetcher serves: 0 not a key, 1 public key only,
                              2 public key whose secret key the EntityFetcher has        -> ok
    doc <hex>                 set the base document for `v`                              -> ok <len>
    trim <hex>                strings.TrimRightFunc(s, unicode.IsSpace)                  -> <hex>
    rearmor <hex>             reArmor                                                    -> <hex>
    json <hex>                json.Unmarshal into map[string]any                         -> err | ok k=kind,… (sorted)
    sign <unsigned> <armored> <unixtime>  Sign (the time only matters to the real code);
                              <armored> is what openpgp.ArmoredDetachSign returns  -> ok <doc> | err <class>
    docp <pre> <seed> <len> <suf>   like doc, the document being pre ++ pad(seed,len) ++ suf       -> ok <len>
    signp <pre> <seed> <len> <suf> <armored> <unixtime>   like sign on pre ++ pad ++ suf          -> ok <len>:<fnv> | err <class>
    v <mut> <fact>            NewVerificationRequest + Verify of the mutated base document;
                              mut = b | s<pos>:<byte> | i<pos>:<byte> | d<pos> | x<hex>;
                              fact = - | <cls>@<digest>: "the OpenPGP check of the (signer, BP,
                              armored) triple with that FNV digest has outcome cls (0 = good)"
                                                   -> <class> i=<sigIndex> sig=<len>:<fnv> signer=<hex>
-/
namespace Pk.Drv.C16
open Pk Pk.JsonSign

def tbl : Ref.Tbl := ⟨Gen.refSizes, Gen.testRefTypes, Gen.maxOtherDigestLen⟩

structure S where
  keys : List (Bytes × Nat) := []
  doc : Bytes := []

def fnv (b : Bytes) : Nat :=
  b.foldl (fun h x => ((h ^^^ x) * 16777619) % 4294967296) 2166136261

def factDigest (signer bp armored : Bytes) : Nat := fnv (signer ++ 0 :: bp ++ 0 :: armored)

def S.fetch (s : S) (ref : Bytes) : KeyRes (Bytes × Nat) :=
  match s.keys.find? (fun p => p.1 == ref) with
  | none => .missing
  | some (_, 0) => .notkey
  | some (r, k) => .key (r, k)

def showSignErr : SignErr → String
  | .jsonparse => "jsonparse" | .nosigner => "nosigner" | .malformed => "malformed"
  | .nokey => "nokey" | .badkey => "badkey" | .nobrace => "nobrace" | .noentity => "noentity"
  | .gpgparse => "gpgparse" | .panic => "panic"

def showVErr : VErr → String
  | .nosep => "nosep" | .sigjson => "sigjson" | .sigkeys => "sigkeys" | .nocamlisig => "nocamlisig"
  | .signotstring => "signotstring" | .payloadjson => "payloadjson" | .noversion => "noversion"
  | .nosigner => "nosigner" | .signernotstring => "signernotstring"
  | .signermalformed => "signermalformed" | .missingkey => "missingkey" | .badkey => "badkey"
  | .sig c => s!"sig:{c}"

def showKind : JV → String
  | .null => "z"
  | .bool b => if b then "t" else "f"
  | .num _ => "n"
  | .str s => "s" ++ toHexString s
  | .arr _ => "a"
  | .obj _ => "o"

def insertSorted (k : Bytes) : List Bytes → List Bytes
  | [] => [k]
  | x :: xs => if ltB k x then k :: x :: xs else if k == x then x :: xs else x :: insertSorted k xs

def showMap (m : List (Bytes × JV)) : String :=
  let keys := m.foldl (fun acc p => insertSorted p.1 acc) []
  if keys.isEmpty then "ok -" else
  "ok " ++ ",".intercalate (keys.map fun k =>
    toHexString k ++ "=" ++ (match lookup k m with | some v => showKind v | none => "?"))

/-- strict decimal (digits only; `String.toNat?` would accept `_`) -/
def decNat? (w : String) : Option Nat :=
  if w.isEmpty || !w.all Char.isDigit then none else w.toNat?

def decInt? (w : String) : Bool :=
  (decNat? w).isSome || (match w.toList with | '-' :: r => (decNat? (String.ofList r)).isSome | _ => false)

/-- generated content (kept out of the op lines): `len` lower-case letters determined by `seed` -/
def padBytes (seed len : Nat) : Bytes :=
  (List.range len).map (fun i => 97 + (seed + 7 * i + i / 26) % 26)

def parsePosByte (w : String) : Option (Nat × Nat) :=
  match w.splitOn ":" with
  | [a, b] => (match decNat? a, decNat? b with
    | some p, some v => if v < 256 then some (p, v) else none
    | _, _ => none)
  | _ => none

/-- apply the mutation word to the base document -/
def mutate (doc : Bytes) (w : String) : Option Bytes :=
  if w == "b" then some doc
  else match w.toList with
  | 's' :: rest => (match parsePosByte (String.ofList rest) with
      | some (p, v) => if p < doc.length then some (doc.take p ++ v :: doc.drop (p + 1)) else none
      | none => none)
  | 'i' :: rest => (match parsePosByte (String.ofList rest) with
      | some (p, v) => if p ≤ doc.length then some (doc.take p ++ v :: doc.drop p) else none
      | none => none)
  | 'd' :: rest => (match decNat? (String.ofList rest) with
      | some p => if p < doc.length then some (doc.take p ++ doc.drop (p + 1)) else none
      | none => none)
  | 'x' :: rest => hexArg (String.ofList rest)
  | _ => none

/-- `-` or `<cls>@<digest>` -/
def parseFact (w : String) : Option (Option (Nat × Nat)) :=
  if w == "-" then some none
  else match w.splitOn "@" with
  | [a, b] => (match decNat? a, decNat? b with
    | some c, some d => some (some (c, d))
    | _, _ => none)
  | _ => none

def showVResult (r : VResult) : String :=
  let cls := match r.err with | none => "ok" | some e => showVErr e
  let idx := match r.sigIndex with | none => "-" | some i => toString i
  let sg := match r.signer with | none => "-" | some s => toHexString s
  s!"{cls} i={idx} sig={r.camliSig.length}:{fnv r.camliSig} signer={sg}"

def step (s : S) (ws : List String) : S × String :=
  match ws with
  | ["key", r, k] =>
    (match hexArg r, (if k == "0" then some 0 else if k == "1" then some 1 else if k == "2" then some 2 else none) with
     | some ref, some kind => ({ s with keys := (ref, kind) :: s.keys }, "ok")
     | _, _ => (s, "bad-op"))
  | ["doc", d] =>
    (match hexArg d with
     | some b => ({ s with doc := b }, s!"ok {b.length}")
     | none => (s, "bad-op"))
  | ["trim", d] => (s, match hexArg d with | some b => toHexString (trimRightSpace b) | none => "bad-op")
  | ["rearmor", d] => (s, match hexArg d with | some b => toHexString (reArmor b) | none => "bad-op")
  | ["json", d] =>
    (s, match hexArg d with
      | some b => (match unmarshalMap b with | none => "err" | some m => showMap m)
      | none => "bad-op")
  | ["sign", u, a, t] =>
    (s, match hexArg u, hexArg a, decInt? t with
      | some unsigned, some armored, true =>
        (match sign tbl s.fetch (fun (pk : Bytes × Nat) => if pk.2 = 2 then some pk else none)
            (fun _ _ => armored) unsigned with
         | .ok doc => "ok " ++ toHexString doc
         | .error e => "err " ++ showSignErr e)
      | _, _, _ => "bad-op")
  | ["docp", p, sd, n, sx] =>
    (match hexArg p, decNat? sd, decNat? n, hexArg sx with
     | some pre, some seed, some len, some suf =>
       let b := pre ++ padBytes seed len ++ suf
       ({ s with doc := b }, s!"ok {b.length}")
     | _, _, _, _ => (s, "bad-op"))
  | ["signp", p, sd, n, sx, a, t] =>
    (s, match hexArg p, decNat? sd, decNat? n, hexArg sx, hexArg a, decInt? t with
      | some pre, some seed, some len, some suf, some armored, true =>
        (match sign tbl s.fetch (fun (pk : Bytes × Nat) => if pk.2 = 2 then some pk else none)
            (fun _ _ => armored) (pre ++ padBytes seed len ++ suf) with
         | .ok doc => s!"ok {doc.length}:{fnv doc}"
         | .error e => "err " ++ showSignErr e)
      | _, _, _, _, _, _ => "bad-op")
  | ["v", m, f] =>
    (s, match mutate s.doc m, parseFact f with
      | some d, some fact =>
        let check : (Bytes × Nat) → Bytes → Bytes → Option Nat := fun pk bp armored =>
          match fact with
          | none => some 999
          | some (cls, dg) =>
            if factDigest pk.1 bp armored = dg then (if cls = 0 then none else some cls) else some 998
        showVResult (verify tbl s.fetch check d)
      | _, _ => "bad-op")
  | _ => (s, "bad-op")

def machine : Machine := { σ := S, init := {}, step := step }

end Pk.Drv.C16
