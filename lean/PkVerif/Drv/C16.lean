import PkVerif.Drv.Common
/-! `pkmodel-c16`: stub (property not built yet). -/
namespace Pk.Drv.C16
def machine : Machine := { σ := Unit, init := (), step := fun s _ => (s, "bad-op") }
end Pk.Drv.C16
