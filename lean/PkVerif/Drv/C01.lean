import PkVerif.Drv.Common
/-! `pkmodel-c01`: stub (property not built yet). -/
namespace Pk.Drv.C01
def machine : Machine := { σ := Unit, init := (), step := fun s _ => (s, "bad-op") }
end Pk.Drv.C01
