import PkVerif.Drv.Common
import PkVerif.Model.Stores
import PkVerif.Model.Files
import PkVerif.Model.DiskPacked
import PkVerif.Model.Ref
import PkVerif.Gen.Facts
/-! `pkmodel-c01`: storage configurations behind a line protocol.

    cfg <prefix expression>       e.g.  cfg overlay mem shard2 mem ns mem
                                  shardN <n> <kid0> … <kid n-1> | replicaN <n> <kid0> … <kid n-1>:
                                  n-way nodes, built as the right-nested tree of two-way nodes
                                  (Cfg.shardNest / Cfg.replicaNest; theorems C01_shardN_tree, C01_replicaN_tree)
    recv <keyhex> <valhex> | fetch <k> | stat <k>… | enum <afterhex> <limit> | rm <k>…
-/
namespace Pk.Drv.C01
open Pk Pk.RefMap Pk.Stores

def tbl : Pk.Ref.Tbl := ⟨Gen.refSizes, Gen.testRefTypes, Gen.maxOtherDigestLen⟩

/-- shard.go:74 `b.Sum32() % uint32(len(shards))` with two shards (token `shard2`; `shardN` uses `sum32`) -/
def route (k : Bytes) : Bool :=
  match Pk.Ref.parse tbl k true with
  | some r => (match Pk.Ref.sum32 r with | some v => v % 2 == 1 | none => false)
  | none => false

/-- `b.Sum32()` of a ref text (0 when the text is not a ref: the harness sends refs only) -/
def sum32 (k : Bytes) : Nat :=
  match Pk.Ref.parse tbl k true with
  | some r => (match Pk.Ref.sum32 r with | some v => v | none => 0)
  | none => 0

/-- the driver's instance of cond's sniffing predicate: the generated schema blobs all start with
`{"camliVersion"` and no generated non-schema blob does -/
def isSchema (v : Bytes) : Bool :=
  (ofString "{\"camliVersion\"").isPrefixOf v

mutual
partial def parseKids : Nat → List String → Option (List Cfg × List String)
  | 0, r => some ([], r)
  | n + 1, r =>
    match parseCfg r with
    | some (c, r1) => (parseKids n r1).map (fun (cs, r2) => (c :: cs, r2))
    | none => none
partial def parseCfg : List String → Option (Cfg × List String)
  | "mem" :: r => some (.mem, r)
  | "files" :: r => some (.leaf (Pk.Files.filesImpl tbl), r)
  | "diskpacked" :: n :: r => n.toNat?.map (fun m => (.leaf (Pk.DiskPacked.diskpackedImpl m), r))
  | "memcache" :: n :: r => n.toNat?.map (fun m => (.memCache m, r))
  | "ns" :: r => (parseCfg r).map (fun (c, r') => (.ns c, r'))
  | "proxy" :: n :: r =>
    match n.toNat?, parseCfg r with
    | some m, some (o, r1) => (parseCfg r1).map (fun (c, r2) => (.proxy o c m, r2))
    | _, _ => none
  | "overlay" :: r =>
    match parseCfg r with
    | some (l, r1) => (parseCfg r1).map (fun (u, r2) => (.overlay l u, r2))
    | none => none
  | "shard2" :: r =>
    match parseCfg r with
    | some (a, r1) => (parseCfg r1).map (fun (b, r2) => (.shard2 a b, r2))
    | none => none
  | "replica2" :: r =>
    match parseCfg r with
    | some (a, r1) => (parseCfg r1).map (fun (b, r2) => (.replica2 a b, r2))
    | none => none
  | "cond2" :: r =>
    match parseCfg r with
    | some (a, r1) => (parseCfg r1).map (fun (b, r2) => (.cond2 a b, r2))
    | none => none
  | "shardN" :: n :: r =>
    -- shard.go:74 `b.Sum32() % uint32(len(shards))` picks the sub-store
    match n.toNat? with
    | some m =>
      if 1 ≤ m ∧ m ≤ 16 then
        match parseKids m r with
        | some (k :: ks, r1) => some (Cfg.shardNest sum32 m 0 k ks, r1)
        | _ => none
      else none
    | none => none
  | "replicaN" :: n :: r =>
    match n.toNat? with
    | some m =>
      if 1 ≤ m ∧ m ≤ 16 then
        match parseKids m r with
        | some (k :: ks, r1) => some (Cfg.replicaNest k ks, r1)
        | _ => none
      else none
    | none => none
  | _ => none
end

def showPairs (l : List (Bytes × Nat)) : String :=
  " ".intercalate (l.map (fun p => s!"{toHexString p.1}:{p.2}"))

def showOut : Out → String
  | .sized n => s!"sized {n}"
  | .bytes b => s!"bytes {toHexString b}"
  | .notExist => "notexist"
  | .refs l => ("refs " ++ showPairs l).trimRight
  | .ok => "ok"
  | .err => "err"

/-- the running model: a configuration with the current state of its model -/
structure Running where
  c : Cfg
  s : (interp route isSchema c).σ

def Running.I (r : Running) : Impl := interp route isSchema r.c

/-- pre-populate the lower layer of a root-level overlay (the blob is received by the lower store
directly, as if it had been there before the overlay was put on top) -/
def seedLower : (r : Running) → Bytes → Bytes → Option Running
  | ⟨.overlay l u, (ls, us, del)⟩, k, v =>
    some ⟨.overlay l u, (((interp route isSchema l).step ls (.recv k v)).1, us, del)⟩
  | _, _, _ => none

abbrev St := Option Running

def allHex (ws : List String) : Option (List Bytes) := ws.mapM hexArg

def insSorted (p : Bytes × Nat) : List (Bytes × Nat) → List (Bytes × Nat)
  | [] => [p]
  | q :: r => if ltB p.1 q.1 then p :: q :: r else q :: insSorted p r

def step (st : St) (ws : List String) : St × String :=
  match ws with
  | "cfg" :: rest =>
    -- everything after `//` describes the real tree (leaf kinds, sizes) for the harness only
    match parseCfg (rest.takeWhile (· != "//")) with
    | some (c, []) => (some ⟨c, (interp route isSchema c).init⟩, "ok")
    | _ => (st, "bad-op")
  | _ =>
    match st with
    | none => (st, "bad-op")
    | some ⟨c, s⟩ =>
      let I := interp route isSchema c
      match ws with
      | ["seedlower", k, v] =>
        (match hexArg k, hexArg v with
         | some k, some v =>
           (match seedLower ⟨c, s⟩ k v with
            | some r => (some r, "ok")
            | none => (st, "bad-op"))
         | _, _ => (st, "bad-op"))
      | ["recv", k, v] =>
        (match hexArg k, hexArg v with
         | some k, some v => let (s', o) := I.step s (.recv k v); (some ⟨c, s'⟩, showOut o)
         | _, _ => (st, "bad-op"))
      | ["fetch", k] =>
        (match hexArg k with
         | some k => let (s', o) := I.step s (.fetch k); (some ⟨c, s'⟩, showOut o)
         | none => (st, "bad-op"))
      | ["sub", k, off, len] =>
        -- ranged fetch (blob.SubFetcher): a read-only projection of fetch – no store changes its state
        -- on SubFetch (proxycache neither populates nor touches, memory's cache mode does not touch)
        (match hexArg k, off.toInt?, len.toInt? with
         | some k, some off, some len =>
           if off < 0 || len < 0 then (st, "neg") else
           (match (I.step s (.fetch k)).2 with
            | .bytes v =>
              if off.toNat > v.length then (st, "range")
              else (st, "bytes " ++ toHexString ((v.drop off.toNat).take len.toNat))
            | .notExist => (st, "notexist")
            | _ => (st, "err"))
         | _, _, _ => (st, "bad-op"))
      | ["enum", a, n] =>
        (match hexArg a, n.toNat? with
         | some a, some n => let (s', o) := I.step s (.enum a n); (some ⟨c, s'⟩, showOut o)
         | _, _ => (st, "bad-op"))
      | "stat" :: ks =>
        (match allHex ks with
         | none => (st, "bad-op")
         | some ks =>
           -- a batch is the sequence of single stats; the answer is canonicalised by key
           let (s', acc, bad) := ks.foldl (fun (s, acc, bad) k =>
             match I.step s (.stat k) with
             | (s', .sized n) => (s', insSorted (k, n) acc, bad)
             | (s', .notExist) => (s', acc, bad)
             | (s', _) => (s', acc, true)) (s, [], false)
           (some ⟨c, s'⟩, if bad then "err" else ("stats " ++ showPairs acc).trimRight))
      | "rm" :: ks =>
        (match allHex ks with
         | none => (st, "bad-op")
         | some ks =>
           let (s', bad) := ks.foldl (fun (s, bad) k =>
             match I.step s (.rm k) with
             | (s', .ok) => (s', bad)
             | (s', _) => (s', true)) (s, false)
           (some ⟨c, s'⟩, if bad then "err" else "ok"))
      | _ => (st, "bad-op")

def machine : Machine := { σ := St, init := none, step := step }

end Pk.Drv.C01
