import PkVerif.Base.Bytes
/-! Driver helpers shared by all `pkmodel` sub-commands (core only). -/
namespace Pk.Drv

def words (line : String) : List String :=
  (line.splitOn " ").filter (fun w => !w.isEmpty)

def hexArg (w : String) : Option Bytes := ofHexString w

def showBool (b : Bool) : String := if b then "true" else "false"

def showOptBool : Option Bool → String
  | none => "panic"
  | some b => showBool b

/-- a stateful line interpreter -/
structure Machine.{u} where
  σ : Type u
  init : σ
  step : σ → List String → σ × String

/-- the stdin/stdout loop of every `pkmodel-cXX`: one output line per op line; a line starting with
`#` is a case marker: it is echoed and resets the state -/
partial def loop (m : Machine) (h : IO.FS.Stream) (out : IO.FS.Stream) (s : m.σ) : IO Unit := do
  let line ← h.getLine
  if line.isEmpty then return ()
  let l := line.dropRightWhile (fun c => c == '\n' || c == '\r')
  if l.startsWith "#" then
    out.putStrLn l
    loop m h out m.init
  else
    let (s', o) := m.step s (words l)
    out.putStrLn o
    loop m h out s'

def runMachine (m : Machine) : IO UInt32 := do
  let out ← IO.getStdout
  loop m (← IO.getStdin) out m.init
  out.flush
  return 0

end Pk.Drv
