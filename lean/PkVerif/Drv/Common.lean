import PkVerif.Base.Bytes
/-! Driver helpers shared by all `pkmodel` sub-commands (core only). -/
namespace Pk.Drv

def words (line : String) : List String :=
  (line.splitOn " ").filter (fun w => !w.isEmpty)

def hexArg (w : String) : Option Bytes := ofHexString w

def showBool (b : Bool) : String := if b then "true" else "false"

def showOptBool : Option Bool → String
  | none => "panic"
  | some b => showBool b

/-- a stateful line interpreter -/
structure Machine where
  σ : Type
  init : σ
  step : σ → List String → σ × String

end Pk.Drv
