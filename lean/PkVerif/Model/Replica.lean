import PkVerif.Model.MergedEnum
/-!
# Model of pkg/blobserver/replica/replica.go (core Lean only)

One definition per Go function.  A sub-store (a replica) is the ascending list of the `(key, size)`
entries it holds plus a `down` flag (harness fault injection: every read / remove call on it returns an
error).  Keys are sha224 digests (28 bytes); `blob.Ref.Less` on refs of one hash is `bytes.Compare` on
the digests (ref.go:910-921) = `Pk.ltB`.

`ReceiveBlob` is modelled as the fold it is: a tally over the results of the per-replica uploads **in
the order in which they arrive on `resc`** – that order is an input (`List Res`), nothing is assumed
about it.
-/
namespace Pk.Replica
open Pk.MergedEnum

/-! ## sub-stores -/

abbrev Store := List SR

/-- what a replica holds for `k` -/
def Store.get? (s : Store) (k : Bytes) : Option Nat :=
  match s.find? (fun e => e.1 == k) with
  | some e => some e.2
  | none => none

def Store.has (s : Store) (k : Bytes) : Bool := (s.get? k).isSome

/-- a sub-store receiving a copy of a blob: kept ascending; the copy written last replaces an earlier
one (a harness sub-store holds, per ref, either the good copy or a truncated one – never both) -/
def Store.insert (e : SR) : Store → Store
  | [] => [e]
  | a :: t => if ltB e.1 a.1 then e :: a :: t else if e.1 == a.1 then e :: t else a :: Store.insert e t

def Store.remove (ks : List Bytes) (s : Store) : Store := s.filter (fun e => !ks.contains e.1)

/-- a sub-store of the harness: contents + fault flag -/
structure Sub where
  store : Store
  down : Bool
deriving Repr

/-! ## configuration: `newFromConfig` (replica.go:93-135) -/

/-- `replicaStorage` (replica.go:61-73): the replicas are indices into the world's sub-stores -/
structure Cfg where
  /-- `sto.replicas` -/
  writes : List Nat
  /-- `sto.readReplicas` -/
  reads : List Nat
  /-- `sto.minWritesForSuccess` -/
  min : Nat
deriving Repr, DecidableEq

/-- `newFromConfig` with `nStores` loadable prefixes; `minCfg = none` when `minWritesForSuccess` is
absent.  `none` = the constructor returns an error.  (Since the `fix:` commit of F-C12-1 a value
outside `0..len(backends)` is rejected; `0` means "all".) -/
def effMin (n : Nat) (m : Int) : Nat := if m = 0 then n else m.toNat

def effReads (backends readBackends : List Nat) : List Nat :=
  if readBackends.isEmpty then backends else readBackends

/-- the range check added by the fix -/
def minOk (n : Nat) (m : Int) : Bool := decide (0 ≤ m) && decide (m ≤ (n : Int))

def newFromConfig (nStores : Nat) (backends readBackends : List Nat) (minCfg : Option Int) : Option Cfg :=
  if backends.isEmpty then none
  else if !minOk backends.length (minCfg.getD backends.length) then none
  else if !(backends.all (· < nStores) && (effReads backends readBackends).all (· < nStores)) then none
  else some ⟨backends, effReads backends readBackends, effMin backends.length (minCfg.getD backends.length)⟩

/-- the constructor as it was before the fix: any integer was accepted (`minOld` may be negative) -/
def newFromConfigOld (nStores : Nat) (backends readBackends : List Nat) (minCfg : Option Int) :
    Option (List Nat × List Nat × Int) :=
  let n := backends.length
  let m : Int := minCfg.getD n
  if n = 0 then none
  else
    let min : Int := if m = 0 then n else m
    let reads := if readBackends.isEmpty then backends else readBackends
    if backends.all (· < nStores) && reads.all (· < nStores) then some (backends, reads, min) else none

/-! ## ReceiveBlob (replica.go:192-238) -/

/-- what `blobserver.ReceiveNoHash(ctx, dst, br, …)` returned for one replica -/
inductive Reply where
  /-- `err == nil`, reported `sb.Size` -/
  | ok (size : Nat)
  | err
deriving Repr, DecidableEq

/-- the result of one replica's upload: `idx` as in `sizedBlobAndError.idx` (position in
`sto.replicas`), whether the replica actually stored the blob, and what it replied -/
structure Res where
  idx : Nat
  stores : Bool
  reply : Reply
deriving Repr, DecidableEq

/-- the `case res.err == nil && int64(res.sb.Size) == size` of the tally -/
def Res.good (size : Nat) (r : Res) : Bool :=
  match r.reply with
  | .ok sz => sz == size
  | .err => false

/-- the value of the named result `err` -/
inductive Fail where
  /-- `err = res.err` of replica `idx` -/
  | replica (idx : Nat)
  /-- `replica: upload shard reported size %d, expected %d` -/
  | wrongSize (got want : Nat)
deriving Repr, DecidableEq

inductive RecvOut where
  /-- `return res.sb, nil` of replica `idx`, after `consumed` results had been taken from `resc` -/
  | ack (idx : Nat) (consumed : Nat)
  /-- fell out of the loop with `err != nil` -/
  | fail (e : Fail)
  /-- fell out of the loop with `err == nil`: returns the ZERO SizedRef and a nil error -/
  | zero
deriving Repr, DecidableEq

def RecvOut.isAck : RecvOut → Bool
  | .ack _ _ => true
  | _ => false

/-- `err == nil` for the caller -/
def RecvOut.noError : RecvOut → Bool
  | .fail _ => false
  | _ => true

/-- the loop `for range sto.replicas { res := <-resc; switch … }` (replica.go:213-232) over the results
in arrival order; state = `nSuccess`, the named result `err`, number of results consumed -/
def tally (min size : Nat) : List Res → Nat → Option Fail → Nat → RecvOut
  | [], _, err, _ =>
    match err with
    | none => .zero
    | some e => .fail e
  | r :: rest, nSuccess, err, consumed =>
    match r.reply with
    | .ok sz =>
      if sz = size then
        if nSuccess + 1 = min then .ack r.idx (consumed + 1)
        else tally min size rest (nSuccess + 1) err (consumed + 1)
      else tally min size rest nSuccess (some (.wrongSize sz size)) (consumed + 1)
    | .err => tally min size rest nSuccess (some (.replica r.idx)) (consumed + 1)

/-- `ReceiveBlob`'s outcome for the results in arrival order -/
def receiveBlob (min size : Nat) (arrivals : List Res) : RecvOut := tally min size arrivals 0 none 0

/-- how many results `ReceiveBlob` had consumed when it returned -/
def consumedAtReturn (out : RecvOut) (n : Nat) : Nat :=
  match out with
  | .ack _ c => c
  | _ => n

/-- positions (in `sto.replicas`) of the replicas that hold the blob because of this receive at the
moment `ReceiveBlob` returns: the replicas whose result had arrived and that stored -/
def holdersAtReturn (min size : Nat) (arrivals : List Res) : List Nat :=
  ((arrivals.take (consumedAtReturn (receiveBlob min size arrivals) arrivals.length)).filter (·.stores)).map (·.idx)

/-! ## the world: sub-stores and one replica storage over them -/

structure World where
  subs : List Sub
  cfg : Option Cfg
deriving Repr

def World.store (w : World) (i : Nat) : Store := (w.subs.getD i ⟨[], false⟩).store
def World.isDown (w : World) (i : Nat) : Bool := (w.subs.getD i ⟨[], false⟩).down

/-- sub-stores `ids` receive entry `e` -/
def storeAt (subs : List Sub) (ids : List Nat) (e : SR) : List Sub :=
  subs.mapIdx (fun j s => if ids.contains j then { s with store := s.store.insert e } else s)

/-- sub-store ids of the write replicas at positions `ps` -/
def idsOf (writes : List Nat) (ps : List Nat) : List Nat := ps.filterMap (fun p => writes[p]?)

/-- the uploads that run to completion: all of them, or – when the caller cancels its context as
soon as `ReceiveBlob` returns (`late = false`) – only those that had arrived by then -/
def completed (min size : Nat) (arrivals : List Res) (lateRun : Bool) : List Nat :=
  if lateRun then (arrivals.filter (·.stores)).map (·.idx) else holdersAtReturn min size arrivals

/-! ## Fetch (replica.go:137-146) -/

inductive FetchErr where
  | notExist | down
deriving Repr, DecidableEq

inductive FetchOut where
  /-- `err == nil` from the `tried`-th read replica -/
  | ok (size : Nat) (tried : Nat)
  /-- no read replica served the blob: the first failure other than "not exist" if there was one,
  else the last error -/
  | err (e : FetchErr) (tried : Nat)
  /-- no read replica at all: `(nil, 0, nil)` -/
  | nilNil
deriving Repr, DecidableEq

def Sub.fetch (s : Sub) (k : Bytes) : Except FetchErr Nat :=
  if s.down then .error .down
  else match s.store.get? k with
    | some sz => .ok sz
    | none => .error .notExist

/-- the loop of `Fetch` (replica.go:143-161, as it is after fix b37d745): state = the named result `err`
(the last error), `failErr` (the FIRST error other than "not exist"), number of replicas tried.
After the loop a remembered failure wins over the last error. -/
def fetchLoop (k : Bytes) : List Sub → Option FetchErr → Option FetchErr → Nat → FetchOut
  | [], last, failErr, tried =>
    match failErr with
    | some f => .err f tried
    | none =>
      match last with
      | none => .nilNil
      | some e => .err e tried
  | s :: rest, _, failErr, tried =>
    match s.fetch k with
    | .ok sz => .ok sz (tried + 1)
    | .error e =>
      fetchLoop k rest (some e) (if failErr.isNone && e != .notExist then some e else failErr) (tried + 1)

def fetch (reads : List Sub) (k : Bytes) : FetchOut := fetchLoop k reads none none 0

/-- `Fetch` as it was before fix b37d745: every read replica failed ⇒ the LAST error -/
def fetchLoopOld (k : Bytes) : List Sub → Option FetchErr → Nat → FetchOut
  | [], none, _ => .nilNil
  | [], some e, tried => .err e tried
  | s :: rest, _, tried =>
    match s.fetch k with
    | .ok sz => .ok sz (tried + 1)
    | .error e => fetchLoopOld k rest (some e) (tried + 1)

def fetchOld (reads : List Sub) (k : Bytes) : FetchOut := fetchLoopOld k reads none 0

/-! ## StatBlobs (replica.go:149-185) -/

/-- what one read replica's `StatBlobs(ctx, blobs, fn)` reports (memory store: request order) -/
def Sub.statReports (s : Sub) (blobs : List Bytes) : List SR :=
  blobs.filterMap (fun k => (s.store.get? k).map (fun sz => (k, sz)))

/-- the callback under `mu` (replica.go:165-181) folded over the reports of all read replicas in the
order in which they happen to be delivered: `need` shrinks, a report for a ref no longer needed is a
"dup, lost race from other replica".  Returns what was passed to the caller's `fn`, in order. -/
def statFold : List Bytes → List SR → List SR
  | _, [] => []
  | need, sb :: rest =>
    if need.contains sb.1 then sb :: statFold (need.filter (· != sb.1)) rest
    else statFold need rest

/-- `StatBlobs` for one delivery order `reports`; the error is the first error of any read replica -/
def statBlobs (reads : List Sub) (blobs : List Bytes) (reports : List SR) : List SR × Bool :=
  (statFold blobs reports, reads.all (!·.down))

/-- the delivery order "replica by replica" (one of the possible ones; used by the driver) -/
def seqReports (reads : List Sub) (blobs : List Bytes) : List SR :=
  (reads.filter (!·.down)).flatMap (·.statReports blobs)

/-- the delivery order "read replica by read replica, in the order `order` of positions" -/
def orderedReports (reads : List Sub) (blobs : List Bytes) (order : List Nat) : List SR :=
  seqReports (order.filterMap (fun p => reads[p]?)) blobs

/-! ## RemoveBlobs (replica.go:240-267) -/

/-- every write replica is asked; `nil` if any of them succeeded ("best effort"), else the last error -/
def removeBlobs (subs : List Sub) (writes : List Nat) (ks : List Bytes) : List Sub × Bool :=
  (subs.mapIdx (fun j s => if writes.contains j && !s.down then { s with store := s.store.remove ks } else s),
   writes.any (fun i => !(subs.getD i ⟨[], false⟩).down))

/-! ## EnumerateBlobs (replica.go:269-271) -/

def enumerateBlobs (reads : List Sub) (after : Option Bytes) (limit : Nat) : List SR :=
  mergedEnumerateStorage (reads.map (·.store)) after limit

end Pk.Replica
