import PkVerif.Base.Eff
/-!
# Model of perkeep's asynchronous sync handler (pkg/server/sync.go) as a state machine

Blobs are identified by a `Nat` id; a ref is a content address, so "the bytes of blob `i`" are
modelled by the number `i` itself and a payload `d ≠ i` is a corrupted read of blob `i`.

The steps are the *micro-steps* at which the real code touches shared state, so that every
interleaving of uploads (`blobserver.receive` → hub hook → `enqueue`) with the copy loop
(`copyBlob` → deferred `setError`) and with crashes is a step sequence:

* `srcRecv`  – pkg/blobserver/receive.go:59 `dst.ReceiveBlob` on the source store succeeded
* `qSet`     – pkg/server/sync.go:707 `enqueue`: `sh.queue.Set`
* `memAdd`   – pkg/server/sync.go:688 `addBlobToCopy` (and the return of `enqueue` to the uploader)
* `cpStart`  – pkg/server/sync.go:626 `copyBlob`: `sh.copying[br] = cs`
* `cpXfer`   – pkg/server/sync.go:640-672: fetch, size check, read, digest check, `sh.to.ReceiveBlob`, size check
* `qDel`     – pkg/server/sync.go:943 `setError`: `sh.queue.Delete` (only when the copy succeeded)
* `cpEnd`    – pkg/server/sync.go:955-984 `setError`: the in-memory updates
* `restart`  – crash (memory and in-flight operations lost) + pkg/server/sync.go:346 `readQueueToMemory`

Failures of either side are arguments of the steps (an arbitrary oracle).
-/
namespace Pk.Sync

/-- which `enqueue` is modelled: `orig` = in-memory entry first, duplicate short-cut, then the row
(perkeep before the fix of finding F-C19-1); `fixed` = row first and always, then memory. -/
inductive Variant | orig | fixed
deriving DecidableEq, Repr

/-- the variant is read off the regenerated effect list of `enqueue` -/
def variantOf (l : List EffAt) : Option Variant :=
  if spine l = [.queueSet, .memEnqueue] then some .fixed
  else if spine l = [.memEnqueue, .queueSet] then some .orig
  else none

/-- the kind of an injected error value: every sentinel / error class that Go code commonly
distinguishes with `errors.Is` / `==`. The CURRENT `copyBlob` / `setError` / `enqueue` distinguish
none of them (any non-nil error is a failure); the kinds exist so that the correspondence exercises
each of them on the real code. -/
inductive ErrKind
  | generic        -- an opaque error
  | notExist       -- `os.ErrNotExist`
  | pathNotExist   -- `&fs.PathError{Err: syscall.ENOENT}` (satisfies `errors.Is(err, os.ErrNotExist)`)
  | canceled       -- `context.Canceled`
  | deadline       -- `context.DeadlineExceeded`
  | eof            -- `io.EOF`
  | unexpectedEOF  -- `io.ErrUnexpectedEOF`
  | corruptBlob    -- `blobserver.ErrCorruptBlob`
  | notFound       -- `sorted.ErrNotFound`
deriving DecidableEq, Repr

/-- outcome of one copy attempt, chosen by the environment (pkg/server/sync.go:640-672) -/
inductive Fault
  | ok
  | fetchErr (k : ErrKind)   -- `sh.from.Fetch` fails with an error of kind `k`
  | fetchSize                -- `fromSize != sb.Size`
  | shortRead (k : ErrKind)  -- the source reader fails half way with an error of kind `k` (`io.ReadFull` fails)
  | readEmpty                -- the source reader returns `io.EOF` before the first byte
  | corrupt                  -- right size, wrong bytes
  | destErr (k : ErrKind)    -- `sh.to.ReceiveBlob` fails with an error of kind `k`, nothing stored
  | destSize                 -- destination stored the blob but reports another size
deriving DecidableEq, Repr

/-- progress of one in-flight upload -/
inductive UpPhase
  | stored              -- in the source store, hook not yet run
  | rowed (ok : Bool)   -- (fixed) `queue.Set` returned (ok = without error)
  | memmed              -- (orig) in `needCopy`, `queue.Set` not yet run
deriving DecidableEq, Repr

/-- progress of one in-flight copy -/
inductive CpPhase
  | started | xferred | qdone | failed
deriving DecidableEq, Repr

structure St where
  /-- blobs in the source store -/
  src : List Nat
  /-- destination store: (id, payload) -/
  dst : List (Nat × Nat)
  /-- persistent queue rows -/
  rows : List Nat
  /-- in-memory `needCopy` -/
  need : List Nat
  /-- in-memory `copying` -/
  copying : List Nat
  /-- ghost: uploads that returned without error to the uploader -/
  acked : List Nat
  /-- in-flight uploads (a multiset) -/
  upl : List (Nat × UpPhase)
  /-- in-flight copies -/
  cps : List (Nat × CpPhase)
deriving DecidableEq, Repr

def init : St := ⟨[], [], [], [], [], [], [], []⟩

/-- set insertion -/
def ins (a : Nat) (l : List Nat) : List Nat := if a ∈ l then l else l ++ [a]
/-- set removal -/
def del (a : Nat) (l : List Nat) : List Nat := l.filter (· != a)

def dstIds (s : St) : List Nat := s.dst.map (·.1)

/-- a store keeps what it already has under a ref -/
def dstIns (i d : Nat) (l : List (Nat × Nat)) : List (Nat × Nat) :=
  if i ∈ l.map (·.1) then l else l ++ [(i, d)]

def replaceFirst {α} [DecidableEq α] (a b : α) : List α → List α
  | [] => []
  | x :: xs => if x = a then b :: xs else x :: replaceFirst a b xs

/-- pkg/server/sync.go:346 `readQueueToMemory`: every queue row through `addBlobToCopy` -/
def readQueueToMemory (need rows : List Nat) : List Nat := rows.foldl (fun n i => ins i n) need

/-- the id of the zero-length blob (there is exactly one: a ref is a content address). Sizes matter
to the transfer in two places: reading zero bytes cannot fail (`io.ReadFull` on an empty buffer never
calls the reader), and there is no *other* content of length zero, so a "corrupt read of the right
size" of the empty blob does not exist (the harness delivers a size mismatch instead). -/
def emptyBlob : Nat := 0

/-- what the digest check of `copyBlob` sees: `none` = the copy failed before the check -/
def fetched (f : Fault) (i : Nat) : Option Nat :=
  match f with
  | .fetchErr _ | .fetchSize => none
  | .shortRead _ | .readEmpty => if i = emptyBlob then some i else none
  | .corrupt => if i = emptyBlob then none else some (i + 1)
  | _ => some i

/-- pkg/blob `br.HashMatches(hash)`: a ref is the address of exactly one content -/
def hashMatches (i d : Nat) : Bool := d == i

/-- pkg/server/sync.go:640-672: the transfer part of `copyBlob`; returns the new destination and
whether `copyBlob` returns nil -/
def xfer (src : List Nat) (dst : List (Nat × Nat)) (i : Nat) (f : Fault) : List (Nat × Nat) × Bool :=
  if i ∈ src then
    match fetched f i with
    | none => (dst, false)
    | some d =>
      if hashMatches i d then
        match f with
        | .destErr _ => (dst, false)
        | .destSize => (dstIns i d dst, false)
        | _ => (dstIns i d dst, true)
      else (dst, false)
  else (dst, false)

inductive Step
  | srcRecv (i : Nat)
  | qSet (i : Nat) (ok : Bool)
  | memAdd (i : Nat) (ok : Bool)
  | cpStart (i : Nat)
  | cpXfer (i : Nat) (f : Fault)
  | qDel (i : Nat) (ok : Bool)
  | cpEnd (i : Nat)
  | restart
deriving DecidableEq, Repr

/-- one micro-step; a step that is not enabled leaves the state unchanged -/
def step (v : Variant) (s : St) : Step → St
  | .srcRecv i => { s with src := ins i s.src, upl := s.upl ++ [(i, .stored)] }
  | .qSet i ok =>
    match v with
    | .fixed =>
      if (i, UpPhase.stored) ∈ s.upl then
        { s with rows := if ok then ins i s.rows else s.rows,
                 upl := replaceFirst (i, .stored) (i, .rowed ok) s.upl }
      else s
    | .orig =>
      if (i, UpPhase.memmed) ∈ s.upl then
        { s with rows := if ok then ins i s.rows else s.rows,
                 acked := if ok then ins i s.acked else s.acked,
                 upl := s.upl.erase (i, .memmed) }
      else s
  | .memAdd i ok =>
    match v with
    | .fixed =>
      if (i, UpPhase.rowed ok) ∈ s.upl then
        { s with need := ins i s.need,
                 acked := if ok then ins i s.acked else s.acked,
                 upl := s.upl.erase (i, .rowed ok) }
      else s
    | .orig =>
      if (i, UpPhase.stored) ∈ s.upl then
        if i ∈ s.need then
          { s with acked := ins i s.acked, upl := s.upl.erase (i, .stored) }
        else
          { s with need := ins i s.need, upl := replaceFirst (i, .stored) (i, .memmed) s.upl }
      else s
  | .cpStart i =>
    if i ∈ s.need ∧ i ∉ s.copying then
      { s with copying := ins i s.copying, cps := s.cps ++ [(i, .started)] }
    else s
  | .cpXfer i f =>
    if (i, CpPhase.started) ∈ s.cps then
      let r := xfer s.src s.dst i f
      { s with dst := r.1,
               cps := replaceFirst (i, .started) (i, if r.2 then .xferred else .failed) s.cps }
    else s
  | .qDel i ok =>
    if (i, CpPhase.xferred) ∈ s.cps then
      { s with rows := if ok then del i s.rows else s.rows,
               cps := replaceFirst (i, .xferred) (i, .qdone) s.cps }
    else s
  | .cpEnd i =>
    if (i, CpPhase.qdone) ∈ s.cps then
      if i ∈ s.need then
        { s with copying := del i s.copying, need := del i s.need, cps := s.cps.erase (i, .qdone) }
      else { s with cps := s.cps.erase (i, .qdone) }   -- "IGNORING DUPLICATE UPLOAD": `copying` is not cleared
    else if (i, CpPhase.failed) ∈ s.cps then
      if i ∈ s.need then
        { s with copying := del i s.copying, cps := s.cps.erase (i, .failed) }
      else { s with cps := s.cps.erase (i, .failed) }
    else s
  | .restart =>
    { s with need := readQueueToMemory [] s.rows, copying := [], upl := [], cps := [] }

def run (v : Variant) (s : St) (l : List Step) : St := l.foldl (step v) s

/-- the four micro-steps of one failure-free copy of blob `i` -/
def copyOkSteps (i : Nat) : List Step := [.cpStart i, .cpXfer i .ok, .qDel i true, .cpEnd i]

/-- the failure-free continuation: restart, then copy every reloaded blob once -/
def recoverSteps (s : St) : List Step :=
  .restart :: (readQueueToMemory [] s.rows).flatMap copyOkSteps

def recover (v : Variant) (s : St) : St := run v s (recoverSteps s)

/-- one whole upload as one sync handler sees it: the source stored the blob, then this handler's
hook (`enqueue`) ran with its own queue write succeeding (`ok`) or failing -/
def uploadOne (v : Variant) (s : St) (i : Nat) (ok : Bool) : St :=
  step v (step v (step v s (.srcRecv i)) (.qSet i ok)) (.memAdd i ok)

/-- a source with several sync destinations is a product of independent machines over one upload
stream (pkg/blobserver/blobhub.go:121 `NotifyBlobReceived` runs every receive hook): the upload of
`i` during which the queue write of handler number `h` (1-based; 0 = none) fails -/
def uploadAll (v : Variant) (ms : List St) (i h : Nat) : List St :=
  ms.mapIdx (fun j s => uploadOne v s i (j + 1 != h))

/-- a step is failure-free -/
def Step.clean : Step → Bool
  | .qSet _ ok | .memAdd _ ok | .qDel _ ok => ok
  | .cpXfer _ f => f == .ok
  | _ => true

end Pk.Sync
