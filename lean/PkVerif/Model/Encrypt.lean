import PkVerif.Base.SMap
import PkVerif.Base.Eff
/-!
# Model of pkg/blobserver/encrypt (encrypt.go, meta.go)

Core Lean only (linked into `pkmodel-c11`).  One definition per Go function, same name.

* The cipher is an abstract `AEAD` (a structure whose laws are hypothesis FIELDS, never axioms);
  `toyAEAD` shows the structure is inhabited.  Randomness is explicit: every encryption consumes the
  state's `nonce` counter.
* The two wrapped stores are raw maps `name ↦ bytes` (`SMap`): they verify nothing, so a tampered
  store is just another map.  Every call made to them is also appended to `St.trace`.
* The meta index is a map `plain ref text ↦ "size/encref"`.
* `recordMeta`'s heap is Go's `container/heap` on a slice, modelled exactly (`up`/`down`).
* Concurrency: `ReceiveBlob` and `makePackedMetaBlob` are lists of micro-steps taken from the
  REGENERATED effect lists (`recvSteps`, `packSteps`); packers are `Job`s in `St.jobs`.  The driver runs
  one particular schedule (`receiveBlob`, `drain`); `Props/C11.lean` quantifies over all of them and
  over crashes between any two steps.  A packer's reads of the index and its encryption are folded
  into its upload step (index rows are never modified once set, so this loses no behaviour).
* Not modelled: `blobserver.MaxBlobSize` (a plaintext whose ciphertext exceeds it is refused by
  `ReceiveNoHash`), non-sha224 plaintext refs.  Of the errors of the wrapped stores only a transient
  failure of a `ReceiveBlob` of either store is modelled (`St.failBlobs`, `St.failMeta`); the rest is C13's.
-/
namespace Pk.Encrypt
open Pk Pk.SMap

/-! ## decimal (`%d`, `strconv.ParseUint(s, 10, 32)`) -/

def decEncAux : Nat → Nat → Bytes → Bytes
  | 0, _, acc => acc
  | fuel + 1, n, acc =>
    if n < 10 then (48 + n) :: acc else decEncAux fuel (n / 10) ((48 + n % 10) :: acc)

/-- `fmt.Sprintf("%d", n)` -/
def decEnc (n : Nat) : Bytes := decEncAux (n + 1) n []

def isDigit (c : Nat) : Bool := 48 ≤ c && c ≤ 57

def parseDigits (acc : Nat) : Bytes → Option Nat
  | [] => some acc
  | c :: cs => if isDigit c then parseDigits (acc * 10 + (c - 48)) cs else none

/-- `strconv.ParseUint(s, 10, 32)`: digits only, non-empty, value < 2^32 -/
def parseUint32 (s : Bytes) : Option Nat :=
  if s.isEmpty then none
  else match parseDigits 0 s with
    | some v => if v < 4294967296 then some v else none
    | none => none

/-! ## the cipher -/

/-- an authenticated cipher with explicit randomness.  `dec_enc` is correctness; `integrity` is the
idealised statement that only honest encryptions decrypt (every string that decrypts under `k` IS
`enc k r p` for its plaintext `p` and some randomness `r`). -/
structure AEAD where
  enc : Bytes → Nat → Bytes → Bytes
  dec : Bytes → Bytes → Option Bytes
  dec_enc : ∀ k r p, dec k (enc k r p) = some p
  integrity : ∀ k c p, dec k c = some p → ∃ r, c = enc k r p

/-- toy cipher: `len k ‖ k ‖ r (four base-256 limbs) ‖ p` in the clear (no secrecy whatsoever; it
only shows that the laws are jointly satisfiable and gives the driver something to run) -/
def toyEnc (k : Bytes) (r : Nat) (p : Bytes) : Bytes :=
  k.length :: (k ++ (r % 256) :: (r / 256 % 256) :: (r / 65536 % 256) :: (r / 16777216) :: p)

def toyDec (k c : Bytes) : Option Bytes :=
  match c with
  | [] => none
  | n :: rest =>
    if n = k.length ∧ rest.take n = k then
      match rest.drop n with
      | a :: b :: c :: _ :: p => if a < 256 ∧ b < 256 ∧ c < 256 then some p else none
      | _ => none
    else none

theorem toy_dec_enc (k : Bytes) (r : Nat) (p : Bytes) : toyDec k (toyEnc k r p) = some p := by
  have h1 : r % 256 < 256 := Nat.mod_lt _ (by decide)
  have h2 : r / 256 % 256 < 256 := Nat.mod_lt _ (by decide)
  have h3 : r / 65536 % 256 < 256 := Nat.mod_lt _ (by decide)
  simp [toyDec, toyEnc, h1, h2, h3]

theorem toy_integrity (k c p : Bytes) (h : toyDec k c = some p) : ∃ r, c = toyEnc k r p := by
  cases c with
  | nil => simp [toyDec] at h
  | cons n rest =>
    simp only [toyDec] at h
    split at h
    · rename_i hc
      obtain ⟨hn, ht⟩ := hc
      split at h
      · rename_i a b c d p' hd
        split at h
        · rename_i hlt
          injection h with h
          subst h
          refine ⟨a + 256 * b + 65536 * c + 16777216 * d, ?_⟩
          have := List.take_append_drop n rest
          rw [ht, hd] at this
          have e1 : (a + 256 * b + 65536 * c + 16777216 * d) % 256 = a := by omega
          have e2 : (a + 256 * b + 65536 * c + 16777216 * d) / 256 % 256 = b := by omega
          have e3 : (a + 256 * b + 65536 * c + 16777216 * d) / 65536 % 256 = c := by omega
          have e4 : (a + 256 * b + 65536 * c + 16777216 * d) / 16777216 = d := by omega
          simp only [toyEnc, e1, e2, e3, e4, hn, this]
        · cases h
      · cases h
    · cases h

def toyAEAD : AEAD := ⟨toyEnc, toyDec, toy_dec_enc, toy_integrity⟩

/-! ## parameters -/

structure Params where
  A : AEAD
  /-- the identity (encrypt.go:73) -/
  key : Bytes
  /-- `blob.RefFromBytes(b).String()` -/
  digest : Bytes → Bytes
  /-- `blob.ParseKnown(s)` succeeds (meta.go:245) -/
  parseKnown : Bytes → Bool
  /-- `blob.ParseOrZero(s).Valid()` (meta.go:187) -/
  parseValid : Bytes → Bool
  /-- the version byte (encrypt.go:96) -/
  version : Nat
  /-- `FullMetaBlobSize` (meta.go:46) -/
  full : Nat
  /-- `SmallMetaCountLimit` (meta.go:48) -/
  small : Nat

variable (P : Params)

/-- encryptBlob encrypt.go:99: `version ‖ age(plaintext)` -/
def encryptBlob (r : Nat) (plain : Bytes) : Bytes := P.version :: P.A.enc P.key r plain

/-- decryptBlob encrypt.go:117 (`none` = any of its errors) -/
def decryptBlob (c : Bytes) : Option Bytes :=
  match c with
  | [] => none
  | v :: rest => if v = P.version then P.A.dec P.key rest else none

/-! ## text formats -/

/-- `#camlistore/encmeta=2` (without its newline) meta.go:43 -/
def headerLine : Bytes := [35, 99, 97, 109, 108, 105, 115, 116, 111, 114, 101, 47, 101, 110, 99, 109, 101, 116, 97, 61, 50]

/-- `strings.Split(s, sep)` for a one-byte separator -/
def splitOn (sep : Nat) : Bytes → List Bytes
  | [] => [[]]
  | c :: cs =>
    if c = sep then [] :: splitOn sep cs
    else match splitOn sep cs with
      | [] => [[c]]
      | p :: ps => (c :: p) :: ps

/-- packIndexEntry meta.go:171 -/
def packIndexEntry (plainSize : Nat) (encBR : Bytes) : Bytes := decEnc plainSize ++ 47 :: encBR

/-- unpackIndexEntry meta.go:175 (`none` = error) -/
def unpackIndexEntry (s : Bytes) : Option (Nat × Bytes) :=
  match splitOn 47 s with
  | [a, b] =>
    match parseUint32 a with
    | some size => if P.parseValid b then some (size, b) else none
    | none => none
  | _ => none

/-- one line of a meta blob -/
def metaLine (pv : Bytes × Bytes) : Bytes := pv.1 ++ 47 :: (pv.2 ++ [10])

/-- the plaintext of a meta blob: header and lines `plain/size/enc` -/
def fmtMeta (ls : List (Bytes × Bytes)) : Bytes :=
  headerLine ++ 10 :: (ls.map metaLine).flatten

/-- one line of processEncryptedMetaBlob's loop (meta.go:233-249): `plain ↦ size/enc` -/
def parseLine (l : Bytes) : Option (Bytes × Bytes) :=
  match splitOn 47 l with
  | [a, b, c] => if P.parseKnown a then some (a, b ++ 47 :: c) else none
  | _ => none

/-- the newline-terminated lines after the header, and what follows the last newline -/
def bodyLines (text : Bytes) : Option (List Bytes × Bytes) :=
  match splitOn 10 text with
  | [] => none
  | [_] => none                                   -- "No first line"
  | h :: rest => if h = headerLine then some (rest.dropLast, rest.getLast?.getD []) else none

def parseAll : List Bytes → Option (List (Bytes × Bytes))
  | [] => some []
  | l :: ls =>
    match parseLine P l, parseAll ls with
    | some pv, some r => some (pv :: r)
    | _, _ => none

/-- every line of a well-formed meta plaintext -/
def parseMeta (text : Bytes) : Option (List (Bytes × Bytes)) :=
  match bodyLines text with
  | some (ls, []) => parseAll P ls
  | _ => none

/-- the rows an encrypted meta blob contributes, when the start-up scan accepts it -/
def linesOf (c : Bytes) : Option (List (Bytes × Bytes)) :=
  (decryptBlob P c).bind (parseMeta P)

def setAll (ls : List (Bytes × Bytes)) (idx : SMap Bytes) : SMap Bytes :=
  ls.foldl (fun m pv => ins pv.1 pv.2 m) idx

/-! ## the heap of small meta blobs (meta.go:50-81, container/heap) -/

structure MetaBlob where
  br : Bytes
  plains : List Bytes
deriving Repr, DecidableEq

def swap {α : Type} (l : List α) (i j : Nat) : List α :=
  match l[i]?, l[j]? with
  | some a, some b => (l.set i b).set j a
  | _, _ => l

/-- metaBlobHeap.Less meta.go:72 -/
def less (h : List MetaBlob) (i j : Nat) : Bool :=
  match h[i]?, h[j]? with
  | some a, some b => a.plains.length < b.plains.length
  | _, _ => false

/-- container/heap.up -/
def up : Nat → List MetaBlob → Nat → List MetaBlob
  | 0, h, _ => h
  | fuel + 1, h, j =>
    let i := (j - 1) / 2
    if i = j || !less h j i then h else up fuel (swap h i j) i

/-- container/heap.down -/
def down : Nat → List MetaBlob → Nat → Nat → List MetaBlob
  | 0, h, _, _ => h
  | fuel + 1, h, i, n =>
    let j1 := 2 * i + 1
    if j1 ≥ n then h
    else
      let j := if j1 + 1 < n && less h (j1 + 1) j1 then j1 + 1 else j1
      if !less h j i then h else down fuel (swap h i j) j n

/-- heap.Push -/
def push (h : List MetaBlob) (x : MetaBlob) : List MetaBlob := up (h.length + 1) (h ++ [x]) h.length

/-- heap.Pop -/
def pop (h : List MetaBlob) : Option (MetaBlob × List MetaBlob) :=
  let n := h.length - 1
  let h2 := down h.length (swap h 0 n) 0 n
  match h2.getLast? with
  | none => none
  | some m => some (m, h2.dropLast)

/-! ## state -/

/-- a call made to a wrapped store -/
inductive Call where
  | putBlobs (name bytes : Bytes)
  | putMeta (name bytes : Bytes)
  | rmMeta (names : List Bytes)
deriving Repr, DecidableEq

/-- micro-steps of makePackedMetaBlob, in source order of their calls -/
inductive PStep where
  | upload | record | remove
deriving Repr, DecidableEq

/-- micro-steps of ReceiveBlob -/
inductive RStep where
  | putBlobs | putMeta | record | setIndex
deriving Repr, DecidableEq

/-- a running `makePackedMetaBlob(plains, toDelete)` goroutine -/
structure Job where
  plains : List Bytes
  toDelete : List Bytes
  /-- ref of the packed blob once uploaded -/
  packed : Option Bytes
  rest : List PStep
deriving Repr, DecidableEq

/-- a ReceiveBlob in flight -/
structure Recv where
  plainBR : Bytes
  size : Nat
  encBytes : Bytes
  encBR : Bytes
  /-- ref of the single-line meta blob once written -/
  metaBR : Option Bytes
  rest : List RStep
deriving Repr, DecidableEq

structure St where
  index : SMap Bytes := []
  blobs : SMap Bytes := []
  metas : SMap Bytes := []
  heap : List MetaBlob := []
  nonce : Nat := 0
  jobs : List Job := []
  recv : Option Recv := none
  /-- newest first -/
  trace : List Call := []
  /-- transient fault of the wrapped `blobs` store: its k-th next ReceiveBlob fails (0 = none armed) -/
  failBlobs : Nat := 0
  /-- the same for the wrapped `meta` store -/
  failMeta : Nat := 0
  /-- transient fault of the meta index: its k-th next `Set` made by ReceiveBlob fails (driver only: the
  histories of `Props/C11.lean` have no failing index) -/
  failIndex : Nat := 0
  /-- the last ReceiveBlob returned an error of a wrapped store or of the index -/
  lastFailed : Bool := false
deriving Repr, DecidableEq

/-- the ReceiveBlob program read off the regenerated facts: the effect list (sub-store receives,
recordMeta, index.Set in source order) and the store each `ReceiveNoHash` call targets
(encrypt.go:176 `s.blobs`, encrypt.go:186 `s.meta`) -/
def recvStepsAux : List String → List Eff → List RStep
  | ts, .storeReceive :: r =>
    (match ts.head? with
     | some "s.blobs" => [RStep.putBlobs]
     | some "s.meta" => [RStep.putMeta]
     | _ => []) ++ recvStepsAux ts.tail r
  | ts, .recordMeta :: r => .record :: recvStepsAux ts r
  | ts, .indexSet :: r => .setIndex :: recvStepsAux ts r
  | ts, _ :: r => recvStepsAux ts r
  | _, [] => []

def recvSteps (effs : List EffAt) (targets : List String) : List RStep :=
  recvStepsAux targets (effs.map (·.e))

/-- the makePackedMetaBlob program read off the regenerated effect list -/
def packSteps : List EffAt → List PStep
  | [] => []
  | x :: r =>
    match x.e with
    | .recvMeta => .upload :: packSteps r
    | .recordMeta => .record :: packSteps r
    | .removeMeta => .remove :: packSteps r
    | _ => packSteps r

/-! ## recordMeta (meta.go:83) -/

/-- the `for s.smallMeta.Len() > 0` loop meta.go:96-104 -/
def compactLoop : Nat → List MetaBlob → List Bytes → List Bytes → List (List Bytes × List Bytes) →
    List MetaBlob × List Bytes × List Bytes × List (List Bytes × List Bytes)
  | 0, h, pl, td, js => (h, pl, td, js)
  | fuel + 1, h, pl, td, js =>
    match pop h with
    | none => (h, pl, td, js)
    | some (m, h') =>
      let pl' := pl ++ m.plains
      let td' := td ++ [m.br]
      if pl'.length > P.full then compactLoop fuel h' [] [] (js ++ [(pl', td')])
      else compactLoop fuel h' pl' td' js

/-- recordMeta: the new heap and the `(plains, toDelete)` of every packer it starts -/
def recordMeta (heap : List MetaBlob) (b : MetaBlob) : List MetaBlob × List (List Bytes × List Bytes) :=
  if b.plains.length > P.full then (heap, [])
  else
    let h := push heap b
    if h.length > P.small then
      match compactLoop P h.length h [] [] [] with
      | (h', pl, td, js) =>
        match td with
        | [] => (h', js)
        | [x] => (push h' ⟨x, pl⟩, js)
        | _ => (h', js ++ [(pl, td)])
    else (h, [])

def mkJobs (psteps : List PStep) (l : List (List Bytes × List Bytes)) : List Job :=
  l.map (fun x => ⟨x.1, x.2, none, psteps⟩)

/-- recordMeta on a state: new packers are queued -/
def St.record (psteps : List PStep) (s : St) (b : MetaBlob) : St :=
  { s with heap := (recordMeta P s.heap b).1, jobs := s.jobs ++ mkJobs psteps (recordMeta P s.heap b).2 }

/-! ## makePackedMetaBlob (meta.go:113) -/

/-- merge of two ascending lists (fuel ≥ the two lengths together) -/
def mergeRefs : Nat → List Bytes → List Bytes → List Bytes
  | 0, xs, ys => xs ++ ys
  | _ + 1, [], ys => ys
  | _ + 1, xs, [] => xs
  | fuel + 1, x :: xs, y :: ys =>
    if ltB y x then y :: mergeRefs fuel (x :: xs) ys else x :: mergeRefs fuel xs (y :: ys)

/-- top-down merge sort by Go's string order (fuel ≥ the length) -/
def msortRefs : Nat → List Bytes → List Bytes
  | 0, l => l
  | fuel + 1, l =>
    if l.length ≤ 1 then l
    else
      let h := l.length / 2
      mergeRefs l.length (msortRefs fuel (l.take h)) (msortRefs fuel (l.drop h))

/-- `sort.Sort(blob.ByRef(plains))` (refs of one hash type: text order) -/
def sortRefs (l : List Bytes) : List Bytes := msortRefs l.length l

/-- the lines `p/<index value>`; `none` = "failed to find the index entry" -/
def packedLines (idx : SMap Bytes) : List Bytes → Option (List (Bytes × Bytes))
  | [] => some []
  | p :: ps =>
    match get idx p, packedLines idx ps with
    | some v, some r => some ((p, v) :: r)
    | _, _ => none

/-- one micro-step of packer `j`; `none` = the goroutine is over -/
def jobStep (psteps : List PStep) (s : St) (j : Job) : St × Option Job :=
  match j.rest with
  | [] => (s, none)
  | .upload :: rest =>
    match packedLines s.index (sortRefs j.plains) with
    | none => (s, none)
    | some ls =>
      -- "failed to upload a packed meta": the goroutine logs and returns (meta.go:148)
      if s.failMeta = 1 then ({ s with failMeta := 0 }, none)
      else
      let enc := encryptBlob P s.nonce (fmtMeta ls)
      let br := P.digest enc
      ({ s with metas := ins br enc s.metas, nonce := s.nonce + 1, trace := .putMeta br enc :: s.trace,
                failMeta := s.failMeta - 1 },
       some { j with packed := some br, rest := rest })
  | .record :: rest =>
    match j.packed with
    | some br =>
      if j.plains.length < P.full then (St.record P psteps s ⟨br, j.plains⟩, some { j with rest := rest })
      else (s, some { j with rest := rest })
    | none => (s, some { j with rest := rest })
  | .remove :: rest =>
    ({ s with metas := j.toDelete.foldl (fun m n => del n m) s.metas, trace := .rmMeta j.toDelete :: s.trace },
     some { j with rest := rest })

/-- run packer number `i` of the queue for one micro-step -/
def stepJob (psteps : List PStep) (s : St) (i : Nat) : St :=
  match s.jobs[i]? with
  | none => s
  | some j =>
    let s0 := { s with jobs := s.jobs.eraseIdx i }
    match jobStep P psteps s0 j with
    | (s1, none) => s1
    | (s1, some j') => { s1 with jobs := (s1.jobs.take i) ++ j' :: s1.jobs.drop i }

/-- run the first packer of the queue to its end, then the next … (the driver's schedule) -/
def drain (psteps : List PStep) : Nat → St → St
  | 0, s => s
  | fuel + 1, s => if s.jobs.isEmpty then s else drain psteps fuel (stepJob P psteps s 0)

/-! ## ReceiveBlob (encrypt.go:153) -/

/-- fetchMeta meta.go:196 -/
inductive MetaRes where
  | ok (size : Nat) (encBR : Bytes)
  | notExist
  | err
deriving Repr, DecidableEq

def fetchMeta (idx : SMap Bytes) (b : Bytes) : MetaRes :=
  match get idx b with
  | none => .notExist
  | some v => match unpackIndexEntry P v with
    | some (sz, e) => .ok sz e
    | none => .err

/-- the answers of the storage API -/
inductive Res where
  | sized (n : Nat)
  | bytes (b : Bytes) (size : Nat)
  | notExist
  | corrupt
  | err
  | refs (l : List (Bytes × Nat))
deriving Repr, DecidableEq

/-- makeSingleMetaBlob meta.go:161 -/
def makeSingleMetaBlob (r : Nat) (plainBR encBR : Bytes) (plainSize : Nat) : Bytes :=
  encryptBlob P r (fmtMeta [(plainBR, packIndexEntry plainSize encBR)])

/-- ReceiveBlob up to its first write: duplicate check, digest check, encryption -/
def recvBegin (rsteps : List RStep) (s : St) (plainBR plain : Bytes) : St × Option Res :=
  match fetchMeta P s.index plainBR with
  | .ok sz _ => (s, some (.sized sz))
  | _ =>
    if P.digest plain ≠ plainBR then (s, some .corrupt)
    else
      let enc := encryptBlob P s.nonce plain
      ({ s with nonce := s.nonce + 1, lastFailed := false,
                recv := some ⟨plainBR, plain.length, enc, P.digest enc, none, rsteps⟩ }, none)

/-- one micro-step of the ReceiveBlob in flight -/
def recvStep (psteps : List PStep) (s : St) : St :=
  match s.recv with
  | none => s
  | some x =>
    match x.rest with
    | [] => { s with recv := none }
    | .putBlobs :: rest =>
      -- a failing wrapped store: ReceiveBlob returns its error, nothing else happens (encrypt.go:177)
      if s.failBlobs = 1 then { s with failBlobs := 0, lastFailed := true, recv := some { x with rest := [] } }
      else
      { s with blobs := ins x.encBR x.encBytes s.blobs, trace := .putBlobs x.encBR x.encBytes :: s.trace,
               recv := some { x with rest := rest }, failBlobs := s.failBlobs - 1 }
    | .putMeta :: rest =>
      if s.failMeta = 1 then { s with failMeta := 0, lastFailed := true, recv := some { x with rest := [] } }
      else
      let m := makeSingleMetaBlob P s.nonce x.plainBR x.encBR x.size
      let br := P.digest m
      { s with metas := ins br m s.metas, nonce := s.nonce + 1, trace := .putMeta br m :: s.trace,
               recv := some { x with metaBR := some br, rest := rest }, failMeta := s.failMeta - 1 }
    | .record :: rest =>
      match x.metaBR with
      | some br => St.record P psteps { s with recv := some { x with rest := rest } } ⟨br, [x.plainBR]⟩
      | none => { s with recv := some { x with rest := rest } }
    | .setIndex :: rest =>
      -- "error updating index" (encrypt.go:196): the meta blob is written and recorded, the row is not set
      if s.failIndex = 1 then { s with failIndex := 0, lastFailed := true, recv := some { x with rest := [] } }
      else
      { s with index := ins x.plainBR (packIndexEntry x.size x.encBR) s.index,
               recv := some { x with rest := rest }, failIndex := s.failIndex - 1 }

/-- ReceiveBlob under the driver's schedules: `late = false`: the packers it starts run after it
returned; `late = true`: they run as soon as they are started, i.e. before `index.Set` -/
def recvRun (psteps : List PStep) (late : Bool) : Nat → St → St
  | 0, s => s
  | fuel + 1, s =>
    match s.recv with
    | none => s
    | some _ =>
      let s1 := recvStep P psteps s
      let s2 := if late then drain P psteps (4 * (s1.jobs.length + 1) + 4 * s1.heap.length + 8) s1 else s1
      recvRun psteps late fuel s2

def drainFuel (s : St) : Nat := 4 * (s.jobs.length + 1) + 4 * s.heap.length + 64

def receiveBlob (rsteps : List RStep) (psteps : List PStep) (late : Bool) (s : St) (plainBR plain : Bytes) :
    St × Res :=
  match recvBegin P rsteps s plainBR plain with
  | (s', some r) => (s', r)
  | (s', none) =>
    let s1 := recvRun P psteps late (rsteps.length + 1) s'
    (drain P psteps (drainFuel s1) s1, if s1.lastFailed then .err else .sized plain.length)

/-- a ReceiveBlob whose duplicate check ran BEFORE another ReceiveBlob of the same ref set the index row
(two overlapping uploads of one blob): it goes on although the index has the row by now -/
def receiveBlobForced (rsteps : List RStep) (psteps : List PStep) (s : St) (plainBR plain : Bytes) : St × Res :=
  if P.digest plain ≠ plainBR then (s, .corrupt)
  else
    let enc := encryptBlob P s.nonce plain
    let s' := { s with nonce := s.nonce + 1, lastFailed := false,
                       recv := some ⟨plainBR, plain.length, enc, P.digest enc, none, rsteps⟩ }
    let s1 := recvRun P psteps false (rsteps.length + 1) s'
    (drain P psteps (drainFuel s1) s1, if s1.lastFailed then .err else .sized plain.length)

/-- two overlapping ReceiveBlob calls of the same blob: A passes the duplicate check and hangs in the
wrapped blobs store; B runs from start to end; A resumes.  Answers of (A, B). -/
def receiveOverlapping (rsteps : List RStep) (psteps : List PStep) (s : St) (plainBR plain : Bytes) :
    St × Res × Res :=
  match fetchMeta P s.index plainBR with
  | .ok sz _ => (s, .sized sz, .sized sz)
  | _ =>
    let b := receiveBlob P rsteps psteps false s plainBR plain
    let a := receiveBlobForced P rsteps psteps b.1 plainBR plain
    (a.1, a.2, b.2)

/-! ## Fetch, StatBlobs, EnumerateBlobs -/

/-- Fetch encrypt.go:204 (with the plaintext check of the fix) -/
def fetch (s : St) (plainBR : Bytes) : Res :=
  match fetchMeta P s.index plainBR with
  | .notExist => .notExist
  | .err => .err
  | .ok plainSize encBR =>
    match get s.blobs encBR with
    | none => .err
    | some encBytes =>
      if P.digest encBytes ≠ encBR then .corrupt
      else match decryptBlob P encBytes with
        | none => .err
        | some plain =>
          if P.digest plain ≠ plainBR ∨ plain.length ≠ plainSize then .corrupt
          else .bytes plain plainSize

/-- Fetch before the fix: the plaintext was returned unchecked -/
def fetchOld (s : St) (plainBR : Bytes) : Res :=
  match fetchMeta P s.index plainBR with
  | .notExist => .notExist
  | .err => .err
  | .ok plainSize encBR =>
    match get s.blobs encBR with
    | none => .err
    | some encBytes =>
      if P.digest encBytes ≠ encBR then .corrupt
      else match decryptBlob P encBytes with
        | none => .err
        | some plain => .bytes plain plainSize

/-- StatBlobs encrypt.go:139, one ref -/
def statBlob (s : St) (br : Bytes) : Res :=
  match fetchMeta P s.index br with
  | .ok sz _ => .sized sz
  | .notExist => .notExist
  | .err => .err

def enumRows (limit : Nat) : Nat → List (Bytes × Bytes) → Option (List (Bytes × Nat))
  | _, [] => some []
  | n, (k, v) :: rest =>
    match unpackIndexEntry P v with
    | none => none
    | some (sz, _) =>
      if limit ≠ 0 ∧ n + 1 ≥ limit then some [(k, sz)]
      else (enumRows limit (n + 1) rest).map ((k, sz) :: ·)

/-- EnumerateBlobs encrypt.go:241: keys ≥ after, skipping `after` itself; limit 0 = no limit -/
def enumerateBlobs (s : St) (after : Bytes) (limit : Nat) : Res :=
  match enumRows P limit 0 (s.index.filter (fun kv => ltB after kv.1)) with
  | some l => .refs l
  | none => .err

/-! ## start-up: processEncryptedMetaBlob (meta.go:209), readAllMetaBlobs (meta.go:262) -/

/-- the loop of processEncryptedMetaBlob: rows are set as the lines are read -/
def processLines (idx : SMap Bytes) (acc : List Bytes) : List Bytes → SMap Bytes × Option (List Bytes)
  | [] => (idx, some acc)
  | l :: ls =>
    match parseLine P l with
    | none => (idx, none)
    | some pv => processLines (ins pv.1 pv.2 idx) (acc ++ [pv.1]) ls

/-- processEncryptedMetaBlob: the index afterwards, and the plains when it succeeded -/
def processEncryptedMetaBlob (idx : SMap Bytes) (dat : Bytes) : SMap Bytes × Option (List Bytes) :=
  match decryptBlob P dat with
  | none => (idx, none)
  | some text =>
    match bodyLines text with
    | none => (idx, none)
    | some (ls, trailing) =>
      match processLines P idx [] ls with
      | (idx', none) => (idx', none)
      | (idx', some plains) => if trailing = [] then (idx', some plains) else (idx', none)

/-- readAllMetaBlobs with the meta blobs arriving in `order`; `false` = start-up failed -/
def readAllMetaBlobs (psteps : List PStep) : List Bytes → St → St × Bool
  | [], s => (s, true)
  | n :: rest, s =>
    match get s.metas n with
    | none => (s, false)
    | some dat =>
      match processEncryptedMetaBlob P s.index dat with
      | (idx, none) => ({ s with index := idx }, false)
      | (idx, some plains) =>
        readAllMetaBlobs psteps rest (St.record P psteps { s with index := idx } ⟨n, plains⟩)

/-- the process dies: goroutines and the heap are gone; the index survives unless `wipe` -/
def crash (wipe : Bool) (s : St) : St :=
  { s with heap := [], jobs := [], recv := none, index := if wipe then [] else s.index }

/-- crash, then newFromConfig's scan -/
def restart (psteps : List PStep) (wipe : Bool) (order : List Bytes) (s : St) : St × Bool :=
  readAllMetaBlobs P psteps order (crash wipe s)

end Pk.Encrypt
