import PkVerif.Base.Bytes
import PkVerif.Model.Ref
/-!
# Model of pkg/jsonsign  (C16)

`sign.go`: the string surgery of `(*SignRequest).Sign` (trim, JSON check, drop `}`, strip the armor
of the detached signature, append `,"camliSig":"…"}\n`).
`verify.go`: `reArmor`, `NewVerificationRequest` (last separator; BP / BPJ / BS), `ParseSigMap`,
`ParsePayloadMap`, `FindAndParsePublicKeyBlob`, `VerifySignature`, `Verify`.

`encoding/json` (`json.Unmarshal` into `map[string]any`) is modelled as the byte-at-a-time pushdown
machine of Go's `scanner.go` extended with the values that `decode.go` builds (`JV`), including
Go's peculiarities: invalid UTF-8 and lone surrogates become U+FFFD, duplicate keys: last wins,
nesting deeper than 10000 and numbers outside float64 are errors, a top-level `null` leaves the
map empty.  `strings.TrimRightFunc(·, unicode.IsSpace)` is `trimRightSpace`.

OpenPGP is NOT modelled: armoring, packet parsing, hashing and the RSA check are the parameters
`signArmored` / `check` of the functions below (instantiated by the driver from an oracle column
and by the theorems from an abstract `Scheme`).
Core Lean only.
-/
namespace Pk.JsonSign
open Pk

/-! ## byte-string search -/

/-- `bytes.Index(s, pat)` for a non-empty `pat` -/
def index (pat : Bytes) : Bytes → Option Nat
  | [] => none
  | c :: cs =>
    if pat.isPrefixOf (c :: cs) then some 0
    else match index pat cs with
      | some i => some (i + 1)
      | none => none

/-- `bytes.LastIndex(s, pat)` for a non-empty `pat` (verify.go:196) -/
def lastIndex (pat : Bytes) : Bytes → Option Nat
  | [] => none
  | c :: cs =>
    match lastIndex pat cs with
    | some i => some (i + 1)
    | none => if pat.isPrefixOf (c :: cs) then some 0 else none

/-- `const sigSeparator = ,"camliSig":"` (verify.go:37); compared with the regenerated
`Gen.sigSeparator` in `C16_gen_separator` -/
def sigSeparator : Bytes := [44, 34, 99, 97, 109, 108, 105, 83, 105, 103, 34, 58, 34]

/-- the three bytes `"}\n` that `Sign` appends after the signature (sign.go:222) -/
def sigSuffix : Bytes := [34, 125, 10]

/-! ## strings.TrimRightFunc(s, unicode.IsSpace)  (sign.go:133) -/

def isAsciiSpace (c : Nat) : Bool := (9 ≤ c && c ≤ 13) || c == 32

/-- number of bytes of the white-space rune that ends the string whose REVERSE is given (0: none).
`utf8.DecodeLastRune` finds exactly the canonical encodings; the `unicode.IsSpace` runes are
U+0009–000D, 0020, 0085, 00A0, 1680, 2000–200A, 2028, 2029, 202F, 205F, 3000. -/
def spaceSuffixLen : Bytes → Nat
  | [] => 0
  | [c] => if isAsciiSpace c then 1 else 0
  | [c, d] =>
    if isAsciiSpace c then 1
    else if d = 0xC2 ∧ (c = 0x85 ∨ c = 0xA0) then 2 else 0
  | c :: d :: e :: _ =>
    if isAsciiSpace c then 1
    else if d = 0xC2 ∧ (c = 0x85 ∨ c = 0xA0) then 2
    else if e = 0xE1 ∧ d = 0x9A ∧ c = 0x80 then 3
    else if e = 0xE2 ∧ d = 0x80 ∧ ((0x80 ≤ c ∧ c ≤ 0x8A) ∨ c = 0xA8 ∨ c = 0xA9 ∨ c = 0xAF) then 3
    else if e = 0xE2 ∧ d = 0x81 ∧ c = 0x9F then 3
    else if e = 0xE3 ∧ d = 0x80 ∧ c = 0x80 then 3
    else 0

def trimRev : Nat → Bytes → Bytes
  | 0, r => r
  | fuel + 1, r =>
    match spaceSuffixLen r with
    | 0 => r
    | n => trimRev fuel (r.drop n)

def trimRightSpace (s : Bytes) : Bytes := (trimRev s.length s.reverse).reverse

/-! ## encoding/json -/

/-- what `json.Unmarshal` into `any` builds (numbers keep their text) -/
inductive JV where
  | null
  | bool (b : Bool)
  | num (raw : Bytes)
  | str (s : Bytes)
  | arr (xs : List JV)
  | obj (kvs : List (Bytes × JV))

/-- one open container (scanner.go `parseState`, plus what decode.go has collected so far; the
collected members/elements are in reverse order) -/
inductive Frame where
  | arr (done : List JV)
  | objK (done : List (Bytes × JV))                 -- a key is expected / being read
  | objC (done : List (Bytes × JV)) (key : Bytes)   -- key read, `:` expected
  | objV (done : List (Bytes × JV)) (key : Bytes)   -- value expected / being read
  | objE (done : List (Bytes × JV))                 -- member complete: `,` or `}` expected

inductive StrSub where
  | normal
  | esc
  | u (left : Nat)          -- after `\u`, `left` hex digits still to come (4..1)

inductive NumPh where
  | neg | zero | int | dot | frac | e | esign | exp

inductive LitKind where
  | tt | ff | nul

def LitKind.val : LitKind → JV
  | .tt => .bool true
  | .ff => .bool false
  | .nul => .null

inductive Mode where
  | bv                       -- stateBeginValue
  | bvOrEmpty                -- stateBeginValueOrEmpty (after `[`)
  | bsOrEmpty                -- stateBeginStringOrEmpty (after `{`)
  | bs                       -- stateBeginString (after `,` in an object)
  | ev                       -- stateEndValue with a non-empty stack
  | top (v : JV)             -- stateEndTop: the top-level value is complete
  | str (raw : Bytes) (sub : StrSub)      -- in a string literal; `raw` reversed, without quotes
  | num (raw : Bytes) (ph : NumPh)        -- in a number; `raw` reversed
  | lit (rest : Bytes) (k : LitKind)      -- in true/false/null: bytes still expected
  | err

structure St where
  mode : Mode
  stack : List Frame

def St.error : St := ⟨.err, []⟩

def maxNestingDepth : Nat := 10000

def isWs (c : Nat) : Bool := c == 32 || c == 9 || c == 13 || c == 10
def isDigit (c : Nat) : Bool := 48 ≤ c && c ≤ 57
def isHex (c : Nat) : Bool := (48 ≤ c && c ≤ 57) || (97 ≤ c && c ≤ 102) || (65 ≤ c && c ≤ 70)

/-! ### string literals: `unquoteBytes` (decode.go) -/

def hexv (c : Nat) : Option Nat :=
  if 48 ≤ c ∧ c ≤ 57 then some (c - 48)
  else if 97 ≤ c ∧ c ≤ 102 then some (c - 87)
  else if 65 ≤ c ∧ c ≤ 70 then some (c - 55)
  else none

/-- `getu4`: the code unit of a leading `\uXXXX`, if there is one -/
def getu4 : Bytes → Option Nat
  | 92 :: 117 :: a :: b :: c :: d :: _ =>
    match hexv a, hexv b, hexv c, hexv d with
    | some w, some x, some y, some z => some (((w * 16 + x) * 16 + y) * 16 + z)
    | _, _, _, _ => none
  | _ => none

/-- `utf8.EncodeRune` for a scalar value (callers pass U+FFFD for anything else) -/
def utf8Enc (r : Nat) : Bytes :=
  if r < 0x80 then [r]
  else if r < 0x800 then [0xC0 + r / 64, 0x80 + r % 64]
  else if r < 0x10000 then [0xE0 + r / 4096, 0x80 + r / 64 % 64, 0x80 + r % 64]
  else [0xF0 + r / 262144, 0x80 + r / 4096 % 64, 0x80 + r / 64 % 64, 0x80 + r % 64]

def isCont (c : Nat) : Bool := 0x80 ≤ c && c ≤ 0xBF

/-- length of the well-formed UTF-8 sequence at the head (`utf8.DecodeRune` size when the rune is
not an error), 0 if the head byte starts no well-formed sequence -/
def utf8SeqLen : Bytes → Nat
  | [] => 0
  | a :: rest =>
    if a < 0x80 then 1
    else if 0xC2 ≤ a ∧ a ≤ 0xDF then
      match rest with
      | b :: _ => if isCont b then 2 else 0
      | _ => 0
    else if 0xE0 ≤ a ∧ a ≤ 0xEF then
      match rest with
      | b :: c :: _ =>
        let lo := if a = 0xE0 then 0xA0 else 0x80
        let hi := if a = 0xED then 0x9F else 0xBF
        if lo ≤ b ∧ b ≤ hi ∧ isCont c then 3 else 0
      | _ => 0
    else if 0xF0 ≤ a ∧ a ≤ 0xF4 then
      match rest with
      | b :: c :: d :: _ =>
        let lo := if a = 0xF0 then 0x90 else 0x80
        let hi := if a = 0xF4 then 0x8F else 0xBF
        if lo ≤ b ∧ b ≤ hi ∧ isCont c ∧ isCont d then 4 else 0
      | _ => 0
    else 0

def replacement : Bytes := [0xEF, 0xBF, 0xBD]

def escChar (c : Nat) : Nat :=
  if c = 98 then 8 else if c = 102 then 12 else if c = 110 then 10
  else if c = 114 then 13 else if c = 116 then 9 else c

/-- `unquoteBytes` on the text between the quotes of a literal the scanner has accepted -/
def unquoteAux : Nat → Bytes → Bytes
  | 0, _ => []
  | _ + 1, [] => []
  | fuel + 1, c :: rest =>
    if c = 92 then
      match rest with
      | [] => []
      | e :: rest' =>
        if e = 117 then
          match getu4 (c :: rest) with
          | none => []
          | some rr =>
            let after := rest'.drop 4
            if 0xD800 ≤ rr ∧ rr < 0xE000 then
              match getu4 after with
              | some rr1 =>
                if rr < 0xDC00 ∧ 0xDC00 ≤ rr1 ∧ rr1 < 0xE000 then
                  utf8Enc ((rr - 0xD800) * 1024 + (rr1 - 0xDC00) + 0x10000) ++ unquoteAux fuel (after.drop 6)
                else replacement ++ unquoteAux fuel after
              | none => replacement ++ unquoteAux fuel after
            else utf8Enc rr ++ unquoteAux fuel after
        else escChar e :: unquoteAux fuel rest'
    else if c < 0x80 then c :: unquoteAux fuel rest
    else
      match utf8SeqLen (c :: rest) with
      | 0 => replacement ++ unquoteAux fuel rest
      | n => (c :: rest).take n ++ unquoteAux fuel ((c :: rest).drop n)

def unquote (s : Bytes) : Bytes := unquoteAux s.length s

/-! ### numbers: `strconv.ParseFloat(s, 64)` fails exactly on overflow -/

def digitsVal (ds : Bytes) : Nat := ds.foldl (fun a d => a * 10 + (d - 48)) 0

/-- 2^1024 − 2^970: the smallest real that rounds (to nearest even) to +Inf -/
def f64Overflow : Nat := 2 ^ 1024 - 2 ^ 970

/-- does the JSON number literal fit float64 (`convertNumber`, decode.go) -/
def numOK (raw : Bytes) : Bool :=
  let s := match raw with | 45 :: t => t | _ => raw
  let ip := s.takeWhile isDigit
  let r1 := s.dropWhile isDigit
  let fp := match r1 with | 46 :: t => t.takeWhile isDigit | _ => []
  let r2 := match r1 with | 46 :: t => t.dropWhile isDigit | _ => r1
  let negE := match r2 with | _ :: 45 :: _ => true | _ => false
  let ed := match r2 with
    | _ :: 45 :: t => t
    | _ :: 43 :: t => t
    | _ :: t => t
    | [] => []
  let ds := ip ++ fp
  let m := digitsVal ds
  let e := digitsVal ed
  if m = 0 then true
  else if negE then
    -- value = m / 10^(e + |fp|)
    if e + fp.length > ds.length then true else decide (m < f64Overflow * 10 ^ (e + fp.length))
  else if fp.length ≤ e then
    -- value = m * 10^(e - |fp|)
    if e - fp.length > 400 then false else decide (m * 10 ^ (e - fp.length) < f64Overflow)
  else
    if fp.length - e > ds.length then true else decide (m < f64Overflow * 10 ^ (fp.length - e))

/-! ### the machine -/

/-- a value is complete: hand it to the enclosing container (or finish) -/
def complete (v : JV) : List Frame → St
  | [] => ⟨.top v, []⟩
  | .arr done :: r => ⟨.ev, .arr (v :: done) :: r⟩
  | .objK done :: r =>
    match v with
    | .str k => ⟨.ev, .objC done k :: r⟩
    | _ => St.error
  | .objV done k :: r => ⟨.ev, .objE ((k, v) :: done) :: r⟩
  | .objC _ _ :: _ => St.error
  | .objE _ :: _ => St.error

/-- `pushParseState` with the depth check -/
def push (f : Frame) (m : Mode) (stk : List Frame) : St :=
  if stk.length + 1 ≤ maxNestingDepth then ⟨m, f :: stk⟩ else St.error

/-- stateBeginValue on a non-space byte -/
def beginValue (stk : List Frame) (c : Nat) : St :=
  if c = 123 then push (.objK []) .bsOrEmpty stk
  else if c = 91 then push (.arr []) .bvOrEmpty stk
  else if c = 34 then ⟨.str [] .normal, stk⟩
  else if c = 45 then ⟨.num [c] .neg, stk⟩
  else if c = 48 then ⟨.num [c] .zero, stk⟩
  else if 49 ≤ c ∧ c ≤ 57 then ⟨.num [c] .int, stk⟩
  else if c = 116 then ⟨.lit [114, 117, 101] .tt, stk⟩
  else if c = 102 then ⟨.lit [97, 108, 115, 101] .ff, stk⟩
  else if c = 110 then ⟨.lit [117, 108, 108] .nul, stk⟩
  else St.error

/-- stateEndValue / stateEndTop -/
def stepEnd (s : St) (c : Nat) : St :=
  match s.mode with
  | .top _ => if isWs c then s else St.error
  | .ev =>
    if isWs c then s else
    match s.stack with
    | .objC done k :: r => if c = 58 then ⟨.bv, .objV done k :: r⟩ else St.error
    | .objE done :: r =>
      if c = 44 then ⟨.bs, .objK done :: r⟩
      else if c = 125 then complete (.obj done.reverse) r
      else St.error
    | .arr done :: r =>
      if c = 44 then ⟨.bv, .arr done :: r⟩
      else if c = 93 then complete (.arr done.reverse) r
      else St.error
    | _ => St.error
  | _ => St.error

/-- the end of a number: range check, then the byte is handled by stateEndValue -/
def endNum (raw : Bytes) (stk : List Frame) (c : Nat) : St :=
  if numOK raw.reverse then stepEnd (complete (.num raw.reverse) stk) c else St.error

def stepNum (raw : Bytes) (ph : NumPh) (stk : List Frame) (c : Nat) : St :=
  match ph with
  | .neg =>
    if c = 48 then ⟨.num (c :: raw) .zero, stk⟩
    else if 49 ≤ c ∧ c ≤ 57 then ⟨.num (c :: raw) .int, stk⟩
    else St.error
  | .int =>
    if isDigit c then ⟨.num (c :: raw) .int, stk⟩
    else if c = 46 then ⟨.num (c :: raw) .dot, stk⟩
    else if c = 101 ∨ c = 69 then ⟨.num (c :: raw) .e, stk⟩
    else endNum raw stk c
  | .zero =>
    if c = 46 then ⟨.num (c :: raw) .dot, stk⟩
    else if c = 101 ∨ c = 69 then ⟨.num (c :: raw) .e, stk⟩
    else endNum raw stk c
  | .dot => if isDigit c then ⟨.num (c :: raw) .frac, stk⟩ else St.error
  | .frac =>
    if isDigit c then ⟨.num (c :: raw) .frac, stk⟩
    else if c = 101 ∨ c = 69 then ⟨.num (c :: raw) .e, stk⟩
    else endNum raw stk c
  | .e =>
    if c = 43 ∨ c = 45 then ⟨.num (c :: raw) .esign, stk⟩
    else if isDigit c then ⟨.num (c :: raw) .exp, stk⟩
    else St.error
  | .esign => if isDigit c then ⟨.num (c :: raw) .exp, stk⟩ else St.error
  | .exp => if isDigit c then ⟨.num (c :: raw) .exp, stk⟩ else endNum raw stk c

def stepStr (raw : Bytes) (sub : StrSub) (stk : List Frame) (c : Nat) : St :=
  match sub with
  | .normal =>
    if c = 34 then complete (.str (unquote raw.reverse)) stk
    else if c = 92 then ⟨.str (c :: raw) .esc, stk⟩
    else if c < 32 then St.error
    else ⟨.str (c :: raw) .normal, stk⟩
  | .esc =>
    if c = 98 ∨ c = 102 ∨ c = 110 ∨ c = 114 ∨ c = 116 ∨ c = 92 ∨ c = 47 ∨ c = 34 then
      ⟨.str (c :: raw) .normal, stk⟩
    else if c = 117 then ⟨.str (c :: raw) (.u 4), stk⟩
    else St.error
  | .u n =>
    if isHex c then ⟨.str (c :: raw) (if n ≤ 1 then .normal else .u (n - 1)), stk⟩
    else St.error

/-- one byte through the scanner/decoder -/
def step (s : St) (c : Nat) : St :=
  match s.mode with
  | .err => St.error
  | .top _ => stepEnd s c
  | .ev => stepEnd s c
  | .bv => if isWs c then s else beginValue s.stack c
  | .bvOrEmpty =>
    if isWs c then s
    else if c = 93 then
      match s.stack with
      | .arr _ :: r => complete (.arr []) r
      | _ => St.error
    else beginValue s.stack c
  | .bsOrEmpty =>
    if isWs c then s
    else if c = 125 then
      match s.stack with
      | .objK _ :: r => complete (.obj []) r
      | _ => St.error
    else if c = 34 then ⟨.str [] .normal, s.stack⟩
    else St.error
  | .bs =>
    if isWs c then s
    else if c = 34 then ⟨.str [] .normal, s.stack⟩
    else St.error
  | .str raw sub => stepStr raw sub s.stack c
  | .num raw ph => stepNum raw ph s.stack c
  | .lit rest k =>
    match rest with
    | [] => St.error
    | r :: rs =>
      if c = r then (if rs.isEmpty then complete k.val s.stack else ⟨.lit rs k, s.stack⟩)
      else St.error

def St.init : St := ⟨.bv, []⟩

def run (s : St) (data : Bytes) : St := data.foldl step s

/-- `scanner.eof`: a pending top-level number is ended by a virtual space -/
def finish (s : St) : Option JV :=
  match (step s 32).mode with
  | .top v => some v
  | _ => none

/-- `json.Unmarshal(data, &v)` with `v any`-like: the value, or `none` on any error -/
def parseJSON (data : Bytes) : Option JV := finish (run St.init data)

/-- `json.Unmarshal(data, &m)` with `m map[string]any`: the members in document order (`none`: any
error, including a top-level value that is not an object; a top-level `null` leaves `m` empty) -/
def unmarshalMap (data : Bytes) : Option (List (Bytes × JV)) :=
  match parseJSON data with
  | some (.obj kvs) => some kvs
  | some .null => some []
  | _ => none

/-- `m[k]` of the Go map built from the members: the LAST member with that key wins -/
def lookup (k : Bytes) : List (Bytes × JV) → Option JV
  | [] => none
  | (k', v) :: rest =>
    match lookup k rest with
    | some v' => some v'
    | none => if k' = k then some v else none

/-- `len(m)`: number of distinct keys -/
def numKeys : List (Bytes × JV) → Nat
  | [] => 0
  | (k, _) :: rest => if (lookup k rest).isSome then numKeys rest else numKeys rest + 1

/-! ## sign.go -/

inductive SignErr where
  | jsonparse        -- "json parse error"
  | nosigner         -- json lacks "camliSigner"
  | malformed        -- "camliSigner" malformed or unsupported
  | nokey            -- failed to find public key
  | badkey           -- failed to parse public key
  | nobrace          -- json parameter lacks trailing '}'  (unreachable, `C16_sign_brace_check_redundant`)
  | noentity         -- EntityFetcher has no secret key for the fingerprint
  | gpgparse         -- "Failed to parse signature from gpg."
  | panic            -- slice bounds out of range in output[index1+2:index2]
deriving DecidableEq, Repr

/-- what `Fetcher.Fetch(camliSigner)` + `openArmoredPublicKeyFile` give -/
inductive KeyRes (κ : Type) where
  | missing
  | notkey
  | key (k : κ)

/-- the armor stripping of sign.go:211-220: the text between the first blank line and the first
`\n-----`, newlines removed -/
def stripArmor (output : Bytes) : Except SignErr Bytes :=
  match index [10, 10] output, index [10, 45, 45, 45, 45, 45] output with
  | some i1, some i2 =>
    if i2 < i1 + 2 then .error .panic
    else .ok (((output.take i2).drop (i1 + 2)).filter (· != 10))
  | _, _ => .error .gpgparse

/-- the final `fmt.Sprintf("%s,\"camliSig\":\"%s\"}\n", trimmedJSON, signature)` -/
def assemble (t sig : Bytes) : Bytes := t ++ sigSeparator ++ sig ++ sigSuffix

def strOf : Option JV → Bytes
  | some (.str s) => s
  | _ => []

/-- `(*SignRequest).Sign` (sign.go:132).  `fetch` is the public-key fetcher keyed by the text of the
parsed `camliSigner`, `secret` the EntityFetcher, `signArmored` is `openpgp.ArmoredDetachSign`. -/
def sign {κ σ : Type} (tbl : Ref.Tbl) (fetch : Bytes → KeyRes κ) (secret : κ → Option σ)
    (signArmored : σ → Bytes → Bytes) (unsigned : Bytes) : Except SignErr Bytes :=
  let trimmed := trimRightSpace unsigned
  match unmarshalMap trimmed with
  | none => .error .jsonparse
  | some jmap =>
    match lookup [99, 97, 109, 108, 105, 83, 105, 103, 110, 101, 114] jmap with
    | none => .error .nosigner
    | some signer =>
      match Ref.parse tbl (strOf (some signer)) true with
      | none => .error .malformed
      | some ref =>
        match fetch (Ref.toText ref) with
        | .missing => .error .nokey
        | .notkey => .error .badkey
        | .key pk =>
          if trimmed.getLast? ≠ some 125 then .error .nobrace else
          let t := trimmed.dropLast
          match secret pk with
          | none => .error .noentity
          | some sk =>
            match stripArmor (signArmored sk t) with
            | .error e => .error e
            | .ok sig => .ok (assemble t sig)

/-! ## verify.go -/

def chunks60 : Nat → Bytes → Bytes
  | 0, _ => []
  | fuel + 1, p => if p.isEmpty then [] else p.take 60 ++ 10 :: chunks60 fuel (p.drop 60)

/-- `-----BEGIN PGP SIGNATURE-----\n\n` -/
def armorBegin : Bytes :=
  [45, 45, 45, 45, 45, 66, 69, 71, 73, 78, 32, 80, 71, 80, 32, 83, 73, 71, 78, 65, 84, 85, 82, 69, 45, 45, 45, 45, 45, 10, 10]
/-- `\n-----END PGP SIGNATURE-----\n` -/
def armorEnd : Bytes :=
  [10, 45, 45, 45, 45, 45, 69, 78, 68, 32, 80, 71, 80, 32, 83, 73, 71, 78, 65, 84, 85, 82, 69, 45, 45, 45, 45, 45, 10]

/-- reArmor (verify.go:41) -/
def reArmor (line : Bytes) : Bytes :=
  match lastIndex [61] line with
  | none => []
  | some lastEq =>
    armorBegin ++ chunks60 line.length (line.take lastEq) ++ line.drop lastEq ++ armorEnd

/-- the three slices of NewVerificationRequest (verify.go:188) -/
structure Parts where
  sigIndex : Nat
  bp : Bytes
  bpj : Bytes
  bs : Bytes
deriving DecidableEq, Repr

def newVerificationRequest (sjson : Bytes) : Option Parts :=
  match lastIndex sigSeparator sjson with
  | none => none
  | some i => some ⟨i, sjson.take i, sjson.take i ++ [125], 123 :: sjson.drop (i + 1)⟩

inductive VErr where
  | nosep | sigjson | sigkeys | nocamlisig | signotstring
  | payloadjson | noversion | nosigner | signernotstring | signermalformed
  | missingkey | badkey
  | sig (cls : Nat)     -- VerifySignature failed; `cls` is the library's reason
deriving DecidableEq, Repr

def kCamliSig : Bytes := [99, 97, 109, 108, 105, 83, 105, 103]
def kCamliSigner : Bytes := [99, 97, 109, 108, 105, 83, 105, 103, 110, 101, 114]
def kCamliVersion : Bytes := [99, 97, 109, 108, 105, 86, 101, 114, 115, 105, 111, 110]

/-- ParseSigMap (verify.go:85): the `camliSig` string -/
def parseSigMap (bs : Bytes) : Except VErr Bytes :=
  match unmarshalMap bs with
  | none => .error .sigjson
  | some m =>
    if numKeys m ≠ 1 then .error .sigkeys else
    match lookup kCamliSig m with
    | none => .error .nocamlisig
    | some (.str s) => .ok s
    | some _ => .error .signotstring

/-- ParsePayloadMap (verify.go:109): the text of the parsed `camliSigner` ref -/
def parsePayloadMap (tbl : Ref.Tbl) (bpj : Bytes) : Except VErr Bytes :=
  match unmarshalMap bpj with
  | none => .error .payloadjson
  | some m =>
    match lookup kCamliVersion m with
    | none => .error .noversion
    | some _ =>
      match lookup kCamliSigner m with
      | none => .error .nosigner
      | some (.str s) =>
        (match Ref.parse tbl s true with
         | none => .error .signermalformed
         | some r => .ok (Ref.toText r))
      | some _ => .error .signernotstring

/-- everything a `VerifyRequest` holds after `Verify` -/
structure VResult where
  err : Option VErr            -- `none`: verified
  sigIndex : Option Nat
  camliSig : Bytes             -- vr.CamliSig ("" until ParseSigMap succeeded)
  signer : Option Bytes        -- text of vr.CamliSigner (set once ParsePayloadMap succeeded)
deriving DecidableEq, Repr

/-- NewVerificationRequest + Verify (verify.go:188-250).  `check pk bp armored` is VerifySignature's
use of the OpenPGP library: `none` = the signature is good, `some cls` = rejected. -/
def verify {κ : Type} (tbl : Ref.Tbl) (fetch : Bytes → KeyRes κ)
    (check : κ → Bytes → Bytes → Option Nat) (sjson : Bytes) : VResult :=
  match newVerificationRequest sjson with
  | none => ⟨some .nosep, none, [], none⟩
  | some p =>
    match parseSigMap p.bs with
    | .error e => ⟨some e, some p.sigIndex, [], none⟩
    | .ok sig =>
      match parsePayloadMap tbl p.bpj with
      | .error e => ⟨some e, some p.sigIndex, sig, none⟩
      | .ok signer =>
        match fetch signer with
        | .missing => ⟨some .missingkey, some p.sigIndex, sig, some signer⟩
        | .notkey => ⟨some .badkey, some p.sigIndex, sig, some signer⟩
        | .key pk =>
          match check pk p.bp (reArmor sig) with
          | some cls => ⟨some (.sig cls), some p.sigIndex, sig, some signer⟩
          | none => ⟨none, some p.sigIndex, sig, some signer⟩

end Pk.JsonSign
