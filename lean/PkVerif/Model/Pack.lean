import PkVerif.Base.Bytes
import PkVerif.Base.Eff
/-!
# Model of pkg/blobserver/diskpacked: pack format, walker, index, append, delete, reindex, stream

Core Lean only (linked into `pkmodel-c03`).  A pack file is a `Bytes`; a store is its list of pack
files plus the index rows.  Every function is named after the Go function it models.
-/
namespace Pk.Pack

/-! ## decimal -/

/-- digits of `n`, most significant first (`fmt` `%v` of an unsigned integer); `fuel > n` suffices -/
def decEncAux : Nat → Nat → Bytes → Bytes
  | 0, _, acc => acc
  | fuel + 1, n, acc =>
    if n < 10 then (48 + n) :: acc else decEncAux fuel (n / 10) ((48 + n % 10) :: acc)

def decEnc (n : Nat) : Bytes := decEncAux (n + 1) n []

def isDigit (c : Nat) : Bool := 48 ≤ c && c ≤ 57

def parseDigits (acc : Nat) : Bytes → Option Nat
  | [] => some acc
  | c :: cs => if isDigit c then parseDigits (acc * 10 + (c - 48)) cs else none

/-- `strconv.ParseUint(s, 10, 32)` / `strutil.ParseUintBytes(s, 10, 32)`: digits only, non-empty,
value < 2^32; `none` = error -/
def parseUint32 (s : Bytes) : Option Nat :=
  if s.isEmpty then none
  else match parseDigits 0 s with
    | some v => if v < 4294967296 then some v else none
    | none => none

/-! ## record format -/

/-- position of the first `d` -/
def indexOf (d : Nat) : Bytes → Option Nat
  | [] => none
  | c :: cs => if c = d then some 0 else (indexOf d cs).map (· + 1)

/-- `fmt.Fprintf(w, "[%v %v]", ref, size)` diskpacked.go:676 -/
def encodeHeader (ref : Bytes) (size : Nat) : Bytes := 91 :: (ref ++ 32 :: (decEnc size ++ [93]))

structure Rec where
  ref : Bytes
  body : Bytes
deriving DecidableEq, Repr

def encodeRecord (r : Rec) : Bytes := encodeHeader r.ref r.body.length ++ r.body

def encodePack : List Rec → Bytes
  | [] => []
  | r :: rs => encodeRecord r ++ encodePack rs

/-- `deletedBlobRef = ^x+-0+$` diskpacked.go:520 -/
def allEq (c : Nat) : Bytes → Bool
  | [] => true
  | x :: xs => x == c && allEq c xs

def isDeletedRef (s : Bytes) : Bool :=
  match indexOf 45 s with
  | none => false
  | some i => i != 0 && allEq 120 (s.take i) && !(s.drop (i + 1)).isEmpty && allEq 48 (s.drop (i + 1))

/-- the result of `bufio.Reader.ReadSlice(delim)` on a reader whose buffer holds `cap` bytes -/
inductive Slice where
  | line (l : Bytes)   -- up to and including the delimiter
  | eof                -- input ended before a delimiter (err = io.EOF)
  | full               -- `cap` bytes without a delimiter (bufio.ErrBufferFull)
deriving DecidableEq, Repr

def readSlice (cap d : Nat) (rest : Bytes) : Slice :=
  match indexOf d rest with
  | some i => if i < cap then .line (rest.take (i + 1)) else .full
  | none => if rest.length < cap then .eof else .full

/-- what `walkPack` hands to its walker: `ref = none` is a deleted record (zero `blob.Ref`) -/
structure Entry where
  ref : Option Bytes
  offset : Nat
  size : Nat
deriving DecidableEq, Repr

inductive WalkErr where
  | notBracket | bufferFull | noSpace | badSize | badRef
deriving DecidableEq, Repr

/-- the header part of one `walkPack` iteration reindex.go:199-232, after the `[` was read: `tl` is the
file after that byte.  `okRef` is `blob.Parse`'s acceptance. -/
inductive Hdr where
  | stop                                  -- EOF inside the header: the loop ends silently
  | err (e : WalkErr)
  | hdr (m : Nat) (ref : Bytes) (size : Nat)   -- m = bytes of the header after `[`, up to and including `]`
deriving DecidableEq, Repr

def walkHeader (okRef : Bytes → Bool) (tl : Bytes) : Hdr :=
  match readSlice 512 93 tl with
  | .eof => .stop
  | .full => .err .bufferFull
  | .line l =>
    let chunk := l.dropLast
    match indexOf 32 chunk with
    | none => .err .noSpace
    | some i =>
      if i = 0 then .err .noSpace else
      match parseUint32 (chunk.drop (i + 1)) with
      | none => .err .badSize
      | some size =>
        let r := chunk.take i
        if !isDeletedRef r && !okRef r then .err .badRef else .hdr l.length r size

/-- `(*storage).walkPack` reindex.go:161.  `rest` is the file from `pos` on.  `checkFit` = the walker
refuses a record whose body extends beyond the end of the file (the repaired code; `false` = the
code before the repair: the walker was called before the body was known to exist).  Returns the
walker calls made, and the error if the walk stopped with one. -/
def walk (okRef : Bytes → Bool) (checkFit : Bool) : Nat → Nat → Bytes → List Entry × Option WalkErr
  | 0, _, _ => ([], none)
  | fuel + 1, pos, rest =>
    match rest with
    | [] => ([], none)
    | b :: tl =>
      if b ≠ 91 then ([], some .notBracket) else
      match walkHeader okRef tl with
      | .stop => ([], none)
      | .err e => ([], some e)
      | .hdr m r size =>
        if checkFit && rest.length < 1 + m + size then ([], none) else
        let res := walk okRef checkFit fuel (pos + 1 + m + size) (rest.drop (1 + m + size))
        (⟨if isDeletedRef r then none else some r, pos + 1 + m, size⟩ :: res.1, res.2)

def walkPack (okRef : Bytes → Bool) (checkFit : Bool) (data : Bytes) : List Entry × Option WalkErr :=
  walk okRef checkFit (data.length + 1) 0 data

/-! ## index rows -/

structure Meta where
  file : Nat
  offset : Nat
  size : Nat
deriving DecidableEq, Repr

abbrev Index := List (Bytes × Meta)

def Index.get : Index → Bytes → Option Meta
  | [], _ => none
  | (k', v) :: t, k => if k = k' then some v else Index.get t k

/-- `index.Set`; rows are kept in key order (the order `Find` iterates in) -/
def Index.set : Index → Bytes → Meta → Index
  | [], k, v => [(k, v)]
  | (k', v') :: t, k, v =>
    if k = k' then (k, v) :: t
    else if ltB k k' then (k, v) :: (k', v') :: t
    else (k', v') :: Index.set t k v

def Index.del (idx : Index) (k : Bytes) : Index := idx.filter (fun p => p.1 ≠ k)

/-! ## the store -/

structure Store where
  packs : List Bytes
  index : Index
  maxSize : Nat
deriving DecidableEq, Repr

def defaultMaxFileSize : Nat := 536870912

def Store.init (max : Nat) : Store := ⟨[[]], [], if max = 0 then defaultMaxFileSize else max⟩

inductive FetchRes where
  | notExist
  | err                       -- row names a pack that does not exist
  | ok (size : Nat) (body : Bytes)   -- `body.length < size` is a short read (EOF before `size` bytes)
deriving DecidableEq, Repr

def extent (pack : Bytes) (off size : Nat) : Bytes := (pack.drop off).take size

/-- `(*storage).fetch` diskpacked.go:372: a `SectionReader` over the row's extent -/
def Store.fetch (st : Store) (ref : Bytes) : FetchRes :=
  match st.index.get ref with
  | none => .notExist
  | some m =>
    match st.packs[m.file]? with
    | none => .err
    | some p => .ok m.size (extent p m.offset m.size)

def Store.stat (st : Store) (ref : Bytes) : Option Nat := (st.index.get ref).map (·.size)

def setLast (packs : List Bytes) (p : Bytes) : List Bytes := packs.dropLast ++ [p]

/-- `(*storage).append` diskpacked.go:664, success path: header, body, Sync, roll-over, index row -/
def Store.append (st : Store) (ref body : Bytes) : Store :=
  let last := st.packs.getLast?.getD []
  let hdr := encodeHeader ref body.length
  let newLast := last ++ hdr ++ body
  let packs1 := setLast st.packs newLast
  let packs2 := if newLast.length > st.maxSize then packs1 ++ [[]] else packs1
  { st with packs := packs2,
            index := st.index.set ref ⟨st.packs.length - 1, last.length + hdr.length, body.length⟩ }

/-- `(*storage).ReceiveBlob` diskpacked.go:640: a duplicate is skipped only if its indexed extent lies
within the pack file -/
def Store.receive (st : Store) (ref body : Bytes) : Store :=
  match st.index.get ref with
  | some m =>
    (match st.packs[m.file]? with
     | some p => if p.length ≥ m.offset + m.size then st else st.append ref body
     | none => st.append ref body)
  | none => st.append ref body

def replaceAt (l : Bytes) (off : Nat) (new : Bytes) : Bytes :=
  l.take off ++ new ++ l.drop (off + new.length)

/-- the header rewrite of `(*storage).delete` dele.go:35-78 on the `k` header bytes `b`;
`none` = one of its error returns -/
def deletedHeader (b : Bytes) : Option Bytes :=
  if b.head? ≠ some 91 ∨ b.getLast? ≠ some 93 then none else
  let inner := (b.drop 1).dropLast
  match indexOf 45 inner with
  | none => none
  | some dash =>
    match indexOf 32 (inner.drop (dash + 1)) with
    | none => none
    | some space =>
      some (91 :: (List.replicate dash 120 ++ 45 :: (List.replicate space 48 ++ inner.drop (dash + 1 + space))) ++ [93])

/-- header rewrite on the pack: `none` if `delete` returns before writing -/
def deleteHeaderAt (pack : Bytes) (ref : Bytes) (m : Meta) : Option Bytes :=
  let k := 1 + ref.length + 1 + (decEnc m.size).length + 1
  if m.offset < k then none else
  let off := m.offset - k
  let b := (pack.drop off).take k
  if b.length < k then none else
  match deletedHeader b with
  | none => none
  | some b' => some (replaceAt pack off b')

/-- hole punch with FALLOC_FL_KEEP_SIZE (punch_linux.go): bytes of the extent that lie inside the
file read as zero afterwards; the file is not extended -/
def zeroExtent (pack : Bytes) (off size : Nat) : Bytes :=
  let n := (extent pack off size).length
  if n = 0 then pack else replaceAt pack off (List.replicate n 0)

def modifyNth (l : List Bytes) (i : Nat) (f : Bytes → Bytes) : List Bytes :=
  match l, i with
  | [], _ => []
  | x :: xs, 0 => f x :: xs
  | x :: xs, i + 1 => x :: modifyNth xs i f

/-- `(*storage).delete` dele.go:35 on the pack files (`hdr`/`body`: which of its two writes are
applied – both for the completed call) -/
def Store.deletePack (st : Store) (ref : Bytes) (hdr body : Bool) : List Bytes :=
  match st.index.get ref with
  | none => st.packs
  | some m =>
    match st.packs[m.file]? with
    | none => st.packs
    | some p =>
      match deleteHeaderAt p ref m with
      | none => st.packs
      | some p1 =>
        modifyNth st.packs m.file (fun _ =>
          let q := if hdr then p1 else p
          if body then zeroExtent q m.offset m.size else q)

/-- `(*storage).RemoveBlobs` diskpacked.go:457: every listed blob's pack bytes are rewritten, then the
batch of row deletions is committed (also when a `delete` returned an error) -/
def Store.remove (st : Store) (refs : List Bytes) : Store :=
  let st1 := refs.foldl (fun s r => { s with packs := s.deletePack r true true }) st
  { st1 with index := refs.foldl Index.del st1.index }

/-- `reindexOne` with `overwrite = true` reindex.go:74: rows of one pack (the batch) -/
def setEntries (idx : Index) (packId : Nat) : List Entry → Index
  | [] => idx
  | e :: es =>
    match e.ref with
    | none => setEntries idx packId es
    | some r => setEntries (idx.set r ⟨packId, e.offset, e.size⟩) packId es

/-- `Reindex(ctx, root, overwrite=true)` reindex.go:41: pack by pack; a pack whose walk fails
contributes nothing and stops the run with an error -/
def reindexFrom (okRef : Bytes → Bool) (checkFit : Bool) : Nat → List Bytes → Index → Index × Bool
  | _, [], idx => (idx, true)
  | i, p :: ps, idx =>
    match walkPack okRef checkFit p with
    | (es, none) => reindexFrom okRef checkFit (i + 1) ps (setEntries idx i es)
    | (_, some _) => (idx, false)

def Store.reindex (okRef : Bytes → Bool) (checkFit : Bool) (st : Store) (fresh : Bool) : Store × Bool :=
  let r := reindexFrom okRef checkFit 0 st.packs (if fresh then [] else st.index)
  ({ st with index := r.1 }, r.2)

/-! ## StreamBlobs -/

/-- `readHeader` diskpacked.go:500 (bufio reader of 256 KiB): consumed bytes, digest, size -/
def readHeader (rest : Bytes) : Option (Nat × Bytes × Nat) :=
  match readSlice 262144 93 rest with
  | .line line =>
    match indexOf 32 line with
    | none => none
    | some sp =>
      match parseUint32 ((line.drop (sp + 1)).dropLast) with
      | none => none
      | some size =>
        if line.length < 7 ∨ line.head? ≠ some 91 then none
        else some (line.length, (line.take sp).drop 1, size)
  | _ => none

/-- `StreamBlobs` diskpacked.go:524 over one pack: blobs sent, and whether the pack was read to its
end without error -/
def streamPack (okRefB : Bytes → Bool) : Nat → Bytes → List (Bytes × Bytes) × Bool
  | 0, _ => ([], true)
  | fuel + 1, rest =>
    if rest.isEmpty then ([], true) else
    match readHeader rest with
    | none => ([], false)
    | some (consumed, digest, size) =>
      let after := rest.drop consumed
      if after.length < size then ([], false) else
      if isDeletedRef digest then streamPack okRefB fuel (after.drop size)
      else if !okRefB digest then ([], false)
      else
        let res := streamPack okRefB fuel (after.drop size)
        ((digest, after.take size) :: res.1, res.2)

def streamPacks (okRefB : Bytes → Bool) : List Bytes → List (Bytes × Bytes) × Bool
  | [] => ([], true)
  | p :: ps =>
    match streamPack okRefB (p.length + 1) p with
    | (bs, true) => let r := streamPacks okRefB ps; (bs ++ r.1, r.2)
    | (bs, false) => (bs, false)

/-! ## crash states -/

/-- the bytes `append` adds to the last pack -/
def appendBytes (ref body : Bytes) : Bytes := encodeHeader ref body.length ++ body

/-- the on-disk state if the process dies during `append`: the first `keep` of the added bytes are in
the pack, the next pack file exists or not, the row is written or not -/
def Store.crashAppend (st : Store) (ref body : Bytes) (keep : Nat) (newPack row : Bool) : Store :=
  let last := st.packs.getLast?.getD []
  let hdr := encodeHeader ref body.length
  let packs1 := setLast st.packs (last ++ (appendBytes ref body).take keep)
  { st with packs := if newPack then packs1 ++ [[]] else packs1,
            index := if row then st.index.set ref ⟨st.packs.length - 1, last.length + hdr.length, body.length⟩
                     else st.index }

/-- the on-disk state if the process dies during `RemoveBlobs [ref]`: header rewritten or not, body
zeroed or not, row deleted or not -/
def Store.crashDelete (st : Store) (ref : Bytes) (hdr body rowDeleted : Bool) : Store :=
  { st with packs := st.deletePack ref hdr body,
            index := if rowDeleted then st.index.del ref else st.index }

/-- durability bookkeeping of the writer while the effects of `append` run, in source order:
bytes written so far, bytes known to be on disk (`Sync`), index row written, next pack created -/
structure AppSt where
  written : Nat
  synced : Nat
  row : Bool
  newPack : Bool
deriving DecidableEq, Repr

def appStep (hdrLen bodyLen : Nat) (s : AppSt) : Eff → AppSt
  | .writeHeader => { s with written := s.written + hdrLen }
  | .copy => { s with written := s.written + bodyLen }
  | .sync => { s with synced := s.written }
  | .nextPack => { s with newPack := true }
  | .indexSet => { s with row := true }
  | _ => s

def appRun (hdrLen bodyLen : Nat) (effs : List Eff) : AppSt :=
  effs.foldl (appStep hdrLen bodyLen) ⟨0, 0, false, false⟩

/-- decidable obligation on an effect order (phase `p`: 0 nothing written, 1 header written, 2 header
and body written, 3 row set; `d`: something written is not yet synced): the header is written once,
then the body once, the index row is set only after both and only when everything written has been
synced, and nothing is written after it -/
def appSafe : Nat → Bool → List Eff → Bool
  | _, _, [] => true
  | p, _, .writeHeader :: t => p == 0 && appSafe 1 true t
  | p, _, .copy :: t => p == 1 && appSafe 2 true t
  | p, _, .sync :: t => appSafe p false t
  | p, d, .indexSet :: t => p == 2 && !d && appSafe 3 d t
  | p, d, _ :: t => appSafe p d t

end Pk.Pack
