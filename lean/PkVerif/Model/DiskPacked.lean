import PkVerif.Model.Pack
import PkVerif.Spec.RefMap
/-!
# Model of pkg/blobserver/diskpacked as a storage leaf of C01

The state is the byte-level store of `PkVerif.Model.Pack` (pack files as byte lists, the index rows
`ref ↦ (pack, offset, size)`, `maxFileSize`), reused unchanged: `Store.receive` (duplicate check
against the index and the pack's size, `append` with roll-over), `Store.fetch` (the extent of the row),
`Store.stat`, `Store.remove` (header rewrite, zeroing, row deletion).  This file adds the storage API
view (`RefMap.Op` → `RefMap.Out`) and `EnumerateBlobs`.

The index of `Pack.Store` is an association list that `Index.set` keeps in key order (a sorted
insert, replacing an equal key), i.e. exactly the iteration order of the sorted KV; `EnumerateBlobs` is
modelled on it as the loop of diskpacked.go:464-496: `index.Find(after, "")` (rows with key ≥ after,
ascending), `continue` on every row with `key <= after`, send `(key, size)`, stop when `limit` rows
were sent.

Core Lean only; executable.
-/
namespace Pk.DiskPacked
open Pk Pk.RefMap Pk.Pack

/-- `Fetch` diskpacked.go:360 as the harness observes it (`io.ReadAll` of the section reader, then the
size comparison): a row naming a missing pack and a short read are errors -/
def fetchOut (st : Store) (k : Bytes) : Out :=
  match st.fetch k with
  | .notExist => .notExist
  | .err => .err
  | .ok size body => if body.length = size then .bytes body else .err

/-- `StatBlobs` diskpacked.go:451 for one ref: the size of the row, nothing for `os.ErrNotExist` -/
def statOut (st : Store) (k : Bytes) : Out :=
  match st.stat k with
  | some n => .sized n
  | none => .notExist

/-- `index.Find(after, "")`: the rows with key ≥ `after`, in key order -/
def find (idx : Index) (after : Bytes) : Index := idx.filter (fun p => !ltB p.1 after)

/-- the loop of `EnumerateBlobs` diskpacked.go:474-494 over the iterator's rows: `n` = how many more
rows may be sent (`i < limit`); a row with `key <= after` is skipped without counting -/
def enumLoop (after : Bytes) : Nat → Index → List (Bytes × Nat)
  | 0, _ => []
  | _ + 1, [] => []
  | n + 1, (k, m) :: rest =>
    if leB k after then enumLoop after (n + 1) rest
    else (k, m.size) :: enumLoop after n rest

def enumerate (st : Store) (after : Bytes) (limit : Nat) : List (Bytes × Nat) :=
  enumLoop after limit (find st.index after)

/-- the answer of `RemoveBlobs [k]` diskpacked.go:427-447: the error of `delete` (dele.go:35) unless it
is `os.ErrNotExist` (no index row, or the pack file the row names does not exist); `delete` fails when
it cannot read the `k` header bytes before the extent or does not find `[`, `-`, ` `, `]` in them
(`deleteHeaderAt = none`).  The row deletion is committed in either case.  I/O errors of the writes
are not modelled. -/
def rmOut (st : Store) (k : Bytes) : Out :=
  match st.index.get k with
  | none => .ok
  | some m =>
    match st.packs[m.file]? with
    | none => .ok
    | some p => if (deleteHeaderAt p k m).isSome then .ok else .err

/-- the shape of a ref text `delete` relies on: there is a `-`, and no space after the first one
(every `blob.Ref.String()` is `hashname-hexdigits`) -/
def keyForm (k : Bytes) : Bool :=
  match indexOf 45 k with
  | none => false
  | some i => !(k.drop (i + 1)).contains 32

/-- one storage API call -/
def step (st : Store) : Op → Store × Out
  | .recv k v => (st.receive k v, .sized v.length)        -- diskpacked.go:646
  | .fetch k => (st, fetchOut st k)
  | .stat k => (st, statOut st k)
  | .rm k => (st.remove [k], rmOut st k)                   -- diskpacked.go:427
  | .enum after limit => (st, .refs (enumerate st after limit))

/-- diskpacked with `maxFileSize = max` (0 = the default of 512 MiB), on an empty directory -/
def diskpackedImpl (max : Nat) : Impl where
  σ := Store
  init := Store.init max
  step := step

end Pk.DiskPacked
