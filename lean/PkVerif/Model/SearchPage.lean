import PkVerif.Base.Bytes
import PkVerif.Base.Order
import PkVerif.Model.Ref
/-!
# Model of search paging: continue tokens and Around windows  (C09)

pkg/search/query.go (`parsePermanodeContinueToken`, `addContinueConstraint`, the `Continue` branch of
`PermanodeConstraint.blobMatches`, the callback of `Handler.Query`, `setResultContinue`) and
pkg/index/corpus.go (`byPermanodeTime`, `lazySortedPermanodes.sorted`, `PermanodeModtime`,
`PermanodeAnyTime`).

A `time.Time` instant is an `Int`: its TRUE number of nanoseconds since the Unix epoch (unbounded –
Go's `Time` covers far more than int64 nanoseconds).  `Time.UnixNano()` is that number wrapped to
int64 (`wrap64`), exactly what Go computes (`sec*1e9 + nsec` in int64 arithmetic).

`signed = true` is the code as it is now (`strconv.ParseInt`, /repo commit cb45160 "fix: search: continue
token of a pre-1970 permanode time is parsed as a signed integer"); `signed = false` is the code
before the fix (`strconv.ParseUint`), kept for the counterexample theorem.  Likewise `fixed` in
`aroundPos` (/repo commit bc93a45 "fix: search: Around on results not sorted by blobref no longer panics").
-/
namespace Pk.SearchPage
open Pk Pk.Ref

/-! ## decimal codec (`%d`, strconv.ParseUint / ParseInt, base 10, 64 bits) -/

/-- decimal digits, least significant first (fuel ≥ number of digits) -/
def revDigitsF : Nat → Nat → List Nat
  | 0, _ => []
  | f + 1, n => if n < 10 then [n] else (n % 10) :: revDigitsF f (n / 10)

def revDigits (n : Nat) : List Nat := revDigitsF (n + 1) n

/-- `%d` of a non-negative integer -/
def decEnc (n : Nat) : Bytes := (revDigits n).reverse.map (· + 48)

/-- `%d` of an int64 -/
def showInt (n : Int) : Bytes := if n < 0 then 45 :: decEnc n.natAbs else decEnc n.natAbs

def digitVal (c : Nat) : Option Nat := if 48 ≤ c ∧ c ≤ 57 then some (c - 48) else none

/-- the digit loop of strconv.ParseUint for base 10 (`n = n*10 + d`; any other byte – also `_`, which
is only legal for base 0 – is a syntax error) -/
def parseDigits : Bytes → Nat → Option Nat
  | [], acc => some acc
  | c :: cs, acc =>
    match digitVal c with
    | none => none
    | some d => parseDigits cs (acc * 10 + d)

/-- strconv.ParseUint(s, 10, 64); `none` = any error (syntax or range) -/
def parseUint (s : Bytes) : Option Nat :=
  if s.isEmpty then none else
  match parseDigits s 0 with
  | none => none
  | some n => if n < 18446744073709551616 then some n else none

/-- strconv.ParseInt(s, 10, 64); `none` = any error (syntax or range) -/
def parseInt (s : Bytes) : Option Int :=
  if s.isEmpty then none else
  let neg := s.head? == some 45
  let s' := if s.head? == some 43 || s.head? == some 45 then s.tail else s
  match parseUint s' with
  | none => none
  | some un =>
    if !neg && 9223372036854775808 ≤ un then none
    else if neg && 9223372036854775808 < un then none
    else some (if neg then -(un : Int) else (un : Int))

/-! ## time -/

/-- `time.Time{}` (0001-01-01T00:00:00Z) -/
def zeroTime : Int := -62135596800000000000

/-- two's-complement wrap to int64 -/
def wrap64 (n : Int) : Int := (n + 9223372036854775808) % 18446744073709551616 - 9223372036854775808

/-- Time.UnixNano -/
def unixNano (t : Int) : Int := wrap64 t

def InInt64 (n : Int) : Prop := -9223372036854775808 ≤ n ∧ n ≤ 9223372036854775807

instance (n : Int) : Decidable (InInt64 n) := by unfold InInt64; infer_instance

/-! ## the continue token (query.go:172-199, 1395) -/

def pnPrefix : Bytes := [112, 110, 58]   -- "pn:"

/-- `fmt.Sprintf("pn:%d:%v", t.UnixNano(), lastpn)` (setResultContinue, query.go:1404) -/
def encodeToken (t : Int) (r : Ref) : Bytes := pnPrefix ++ (showInt (unixNano t) ++ 58 :: toText r)

/-- `col := strings.Index(v, ":")`, `v[:col]`, `v[col+1:]` -/
def splitColon : Bytes → Option (Bytes × Bytes)
  | [] => none
  | c :: cs =>
    if c = 58 then some ([], cs)
    else match splitColon cs with
      | none => none
      | some (n, h) => some (c :: n, h)

/-- parsePermanodeContinueToken (query.go:182): the time (as true nanoseconds: `time.Unix(0, nano)`)
and the ref of the last item of the previous page.  `signed = false`: the old `ParseUint` +
`int64(nano)` conversion. -/
def parsePermanodeContinueToken (tbl : Tbl) (signed : Bool) (v : Bytes) : Option (Int × Ref) :=
  match cutPrefix pnPrefix v with
  | none => none
  | some v =>
    match splitColon v with
    | none => none
    | some (num, rest) =>
      let nano : Option Int :=
        if signed then parseInt num else (parseUint num).map (fun n => wrap64 (n : Int))
      match nano with
      | none => none
      | some nano =>
        match parse tbl rest true with
        | none => none
        | some br => some (nano, br)

/-! ## the world: permanodes and their times (corpus.go) -/

/-- the ref of a permanode: always the output of a hash constructor (never an odd-length digest) -/
structure RefKey where
  name : Bytes
  sum : Bytes
deriving DecidableEq, Repr

def RefKey.toRef (k : RefKey) : Ref := ⟨k.name, k.sum, false⟩

/-- the `camliContent` of a permanode: the date of the (single) set-claim, the time the file schema
blob carries (`unixMtime`, which the indexer stores as FileInfo.Time when it is the only time of the
file), and whether the file blob has been indexed yet – blobs arrive in any order -/
structure CC where
  claimDate : Int
  fileTime : Option Int
  indexed : Bool
deriving Repr

/-- a permanode as the corpus sees it: the parsed `dateCreated` attribute (if set), the dates of its
(non-deleted) claims, whether it carries `tag=a` / `tag=b` / `camliNodeType=foo`, and its camliContent -/
structure PN where
  ref : RefKey
  dc : Option Int
  tagA : Bool
  tagB : Bool
  dates : List Int
  tagY : Bool
  cc : Option CC
deriving Repr

/-- Corpus.PermanodeModtime (corpus.go:1230): the latest claim date; not ok when there is none -/
def permanodeModtime (p : PN) : Option Int :=
  let t := p.dates.foldl (fun t d => if t < d then d else t) zeroTime
  if t = zeroTime then none else some t

/-- Corpus.PermanodeTime (corpus.go:1143) for permanodes whose time-bearing attributes are
`dateCreated` and `camliContent` (a plain file): dateCreated, else FileInfo.Time of the content file
once it is indexed.  The documented last resort "camliContent claim set time" is dead code as
written – the `ok` of pnCamliContent is overwritten by the later `t, ok = c.pnTimeAttr(…)` calls, so
`if ok { return ccTime, true }` never fires – and the model follows the code. -/
def permanodeTime (p : PN) : Option Int :=
  match p.dc with
  | some t => some t
  | none =>
    match p.cc with
    | none => none
    | some c =>
      match c.indexed, c.fileTime with
      | true, some ft => some ft
      | _, _ => none

/-- Corpus.PermanodeAnyTime (corpus.go:1192): PermanodeTime, else the modtime -/
def permanodeAnyTime (p : PN) : Option Int :=
  match permanodeTime p with
  | some t => some t
  | none => permanodeModtime p

/-! ### deletions (corpus.go:146 IsDeleted)

`PN.dates` are the dates of the NON-deleted claims: PermanodeModtime skips `c.IsDeleted(cl.BlobRef)`.
Attribute values (dateCreated, tag, camliNodeType, camliContent) are folded over all claims without
looking at deletions, so a deleted attribute claim keeps its effect on them – only the modtime (and
the creation time of a permanode that has neither dateCreated nor an indexed content file) moves. -/

/-- what a delete claim targets: the `ci`-th claim of the `pn`-th permanode, or the `j`-th delete claim -/
inductive DelTarget where
  | claim (pn ci : Nat)
  | del (j : Nat)
deriving DecidableEq, Repr

/-- Corpus.IsDeleted of the `j`-th delete claim: it has a deleter that is not itself deleted.  A deleter
is always a later delete claim, so `fuel = number of delete claims` suffices. -/
def delDeleted (dels : List DelTarget) : Nat → Nat → Bool
  | 0, _ => false
  | fuel + 1, j =>
    (List.range dels.length).any (fun k => dels[k]? == some (.del j) && !delDeleted dels fuel k)

/-- Corpus.IsDeleted of a claim -/
def claimDeleted (dels : List DelTarget) (pn ci : Nat) : Bool :=
  (List.range dels.length).any (fun k => dels[k]? == some (.claim pn ci) && !delDeleted dels dels.length k)

/-- the dates PermanodeModtime looks at: those of the claims that are not deleted -/
def liveDates (dels : List DelTarget) (pn : Nat) (dates : List Int) : List Int :=
  ((List.range dates.length).filter (fun ci => !claimDeleted dels pn ci)).filterMap (fun ci => dates[ci]?)

inductive SortBy where
  | created     -- CreatedDesc
  | lastMod     -- LastModifiedDesc
deriving DecidableEq, Repr

/-- the base constraints of the correspondence: `Permanode{}`, `Permanode{Attr: tag, Value: a}`, the same
for `b`, `Constraint{CamliType: permanode}`, and `Logical{and, tag=a, tag=b}` (all of them
`onlyMatchesPermanode`) -/
inductive Cons where
  | all | tagA | tagB | camliType | both
  | nodeType                 -- Permanode{Attr: camliNodeType, Value: foo}   (matchesPermanodeTypes)
  | nodeTypeAndA             -- Logical{and, camliNodeType=foo, tag=a}
  | refPrefix (pfx : Bytes)  -- Logical{and, Permanode{}, BlobRefPrefix: pfx} (a full ref: matchesAtMostOneBlob)
deriving DecidableEq, Repr

def pnTime : SortBy → PN → Option Int
  | .created, p => permanodeAnyTime p
  | .lastMod, p => permanodeModtime p

/-- `pnAndTime` (corpus.go:983) -/
abbrev Cand := Int × RefKey

/-- Ref.Less on permanode refs -/
def lessK (a b : RefKey) : Bool := less a.toRef b.toRef

/-- `sort.Reverse(byPermanodeTime).Less(i, j)` = `byPermanodeTime.Less(j, i)` (corpus.go:993):
equal times → `pn_j.Less(pn_i)`, else `t_j.Before(t_i)`.  "a is enumerated before b". -/
def before (a b : Cand) : Bool :=
  if b.1 = a.1 then lessK b.2 a.2 else decide (b.1 < a.1)

def insertBy {K : Type} (lt : K → K → Bool) (x : K) : List K → List K
  | [] => [x]
  | y :: ys => if lt x y then x :: y :: ys else y :: insertBy lt x ys

/-- `sort.Sort`: on pairwise distinct keys every correct sort returns the same list; insertion sort
stands for it -/
def sortBy {K : Type} (lt : K → K → Bool) (l : List K) : List K := l.foldr (insertBy lt) []

/-- lazySortedPermanodes.sorted(true) (corpus.go:1019): the permanodes that have a time, newest
first, then by ref descending -/
def candidates (srt : SortBy) (w : List PN) : List Cand :=
  sortBy before (w.filterMap (fun p => (pnTime srt p).map (fun t => (t, p.ref))))

/-- the base constraint on the permanode `k` -/
def baseMatches (w : List PN) (c : Cons) (k : RefKey) : Bool :=
  match w.find? (fun p => p.ref == k) with
  | none => false
  | some p =>
    match c with
    | .all => true
    | .tagA => p.tagA
    | .tagB => p.tagB
    | .camliType => true
    | .both => p.tagA && p.tagB
    | .nodeType => p.tagY
    | .nodeTypeAndA => p.tagY && p.tagA
    | .refPrefix pfx => pfx.isPrefixOf (toText p.ref.toRef)

/-- PermanodeContinueConstraint: the token's time (in `LastMod` or `LastCreated`, the other is the
zero Time) and `Last` -/
structure ContinueC where
  tokT : Int
  last : Ref

/-- the `Continue` branch of PermanodeConstraint.blobMatches (query.go:1803-1838) on a candidate
whose sort time is `c.1`:
`pnTime.After(tok)` → no; `(pnTime.Equal(cc.LastMod) || pnTime.Equal(cc.LastCreated)) && !br.Less(cc.Last)`
→ no (one of the two is the token time, the other one the zero Time). -/
def continueMatches (cc : ContinueC) (c : Cand) : Bool :=
  if cc.tokT < c.1 then false
  else if (c.1 = cc.tokT ∨ c.1 = zeroTime) ∧ less c.2.toRef cc.last = false then false
  else true

/-! ## Handler.Query (query.go:1011) restricted to permanode constraints and the two continuable sorts -/

structure Query where
  sort : SortBy
  cons : Cons
  limit : Int
  cont : Bytes            -- "" = none
  around : Option Ref     -- none = the zero Ref

structure Result where
  blobs : List Cand
  cont : Bytes
deriving Repr

/-- the callback given to `cands.send` (query.go:1054-1108) for a sorted candidate source, run over
the candidates that match, in enumeration order; `bs` = `res.Blobs`, `f` = `foundAround`.  Returning
`false` from the callback ends the enumeration (the remaining candidates are not looked at). -/
def collect (limit : Int) (around : Option Ref) : List Cand → List Cand → Bool → List Cand × Bool
  | [], bs, f => (bs, f)
  | m :: ms, bs, f =>
    let bs := bs ++ [m]
    let isPivot : Bool := around == some m.2.toRef
    if limit ≤ 0 then
      collect limit around ms bs (f || isPivot)
    else if around.isNone || f then
      if (bs.length : Int) = limit then (bs, f) else collect limit around ms bs f
    else if isPivot then
      let bs' := if limit < (bs.length : Int) * 2 then bs.drop (bs.length - (limit / 2).toNat - 1) else bs
      if (bs'.length : Int) = limit then (bs', true) else collect limit around ms bs' true
    else
      let bs' := if (bs.length : Int) = limit then bs.drop (bs.length / 2) else bs
      collect limit around ms bs' false

/-- setResultContinue (query.go:1382): only a full page gets a token, made of the sort time and ref
of its last blob -/
def setResultContinue (limit : Int) (bs : List Cand) : Bytes :=
  if limit ≤ 0 ∨ (bs.length : Int) ≠ limit then [] else
  match bs.getLast? with
  | none => []
  | some c => encodeToken c.1 c.2.toRef

/-- the matcher of the planned query: `and(Continue, base)` (addContinueConstraint, query.go:202; an
unparsable token is logged and ignored) -/
def plannedMatcher (tbl : Tbl) (signed : Bool) (w : List PN) (q : Query) : Cand → Bool :=
  let cc : Option ContinueC :=
    if q.cont.isEmpty then none
    else (parsePermanodeContinueToken tbl signed q.cont).map (fun p => ⟨p.1, p.2⟩)
  fun c => (match cc with | none => true | some cc => continueMatches cc c) && baseMatches w q.cons c.2

/-- Handler.Query; `none` = error (checkValid: Continue and Around are mutually exclusive) -/
def query (tbl : Tbl) (signed : Bool) (w : List PN) (q : Query) : Option Result :=
  if !q.cont.isEmpty && q.around.isSome then none else
  let limit := if q.limit = 0 then 200 else q.limit
  let ms := (candidates q.sort w).filter (plannedMatcher tbl signed w q)
  let r := collect limit q.around ms [] false
  let bs := if q.around.isSome && !r.2 then [] else r.1
  some ⟨bs, if q.around.isNone then setResultContinue limit bs else []⟩

/-- the full ordered result list: what a limit-free query returns -/
def fullOrdered (w : List PN) (srt : SortBy) (c : Cons) : List Cand :=
  (candidates srt w).filter (fun k => baseMatches w c k.2)

/-- a client that follows continuation tokens until a page comes without one -/
def followContinue (tbl : Tbl) (signed : Bool) (w : List PN) (srt : SortBy) (c : Cons) (limit : Int) :
    Nat → Bytes → List Cand
  | 0, _ => []
  | fuel + 1, tok =>
    match query tbl signed w ⟨srt, c, limit, tok, none⟩ with
    | none => []
    | some r => if r.cont.isEmpty then r.blobs else r.blobs ++ followContinue tbl signed w srt c limit fuel r.cont

/-! ## the other sorts: unsorted candidate source, sort afterwards, then cut (query.go:1116-1180) -/

inductive USort where
  | createdAsc    -- CreatedAsc
  | blobRefAsc    -- BlobRefAsc
deriving DecidableEq, Repr

inductive Outcome where
  | err
  | panic
  | ok (bs : List RefKey)
deriving DecidableEq, Repr

/-- the permanodes matching the base constraint.  The real enumeration order (a Go map) is
unspecified; it is irrelevant once the list is sorted by a total order. -/
def matchedU (w : List PN) (c : Cons) : List RefKey :=
  (w.filter (fun p => baseMatches w c p.ref)).map (·.ref)

def anyTimeOf (w : List PN) (k : RefKey) : Option Int :=
  (w.find? (fun p => p.ref == k)).bind permanodeAnyTime

/-- `ta.Before(tb)` of the CreatedAsc comparator (query.go:1147); ties are left to sort.Sort in the
real code – the model breaks them by ref, and the correspondence only visits tie-free worlds -/
def createdAscLt (w : List PN) (a b : RefKey) : Bool :=
  match anyTimeOf w a, anyTimeOf w b with
  | some ta, some tb => decide (ta < tb) || (ta == tb && lessK a b)
  | _, _ => false

/-- the sort step; `none` = error ("no ctime or modtime found": the comparator is called on every
element as soon as there are two) -/
def sortU (w : List PN) : USort → List RefKey → Option (List RefKey)
  | .blobRefAsc, l => some (sortBy lessK l)
  | .createdAsc, l =>
    if 2 ≤ l.length ∧ l.any (fun k => (anyTimeOf w k).isNone) then none
    else some (sortBy (createdAscLt w) l)

/-- `res.Blobs[lowerBound:upperBound]`, `lowerBound := max(aroundPos-q.Limit/2, 0)`,
`upperBound := min(lowerBound+q.Limit, len(res.Blobs))` (query.go:1173) -/
def windowAround {α : Type} (bs : List α) (pos limit : Nat) : List α :=
  let lower := pos - limit / 2
  let upper := min (lower + limit) bs.length
  (bs.take upper).drop lower

def indexOf? {α : Type} (p : α → Bool) : List α → Option Nat
  | [] => none
  | x :: xs => if p x then some 0 else (indexOf? p xs).map (· + 1)

/-- `sort.Search(n, pred)` -/
def searchLoop (pred : Nat → Bool) : Nat → Nat → Nat → Nat
  | 0, i, _ => i
  | f + 1, i, j =>
    if i < j then
      let h := (i + j) / 2
      if !pred h then searchLoop pred f (h + 1) j else searchLoop pred f i h
    else i

/-- the pivot lookup.  `fixed = true`: `slices.IndexFunc(res.Blobs, b.Blob == q.Around)` (now);
`fixed = false`: the binary search on `Blob.String() >= q.Around.String()` that was there before,
followed by its check. `none` = panic("q.Around blobRef should be in the results"). -/
def aroundPos (fixed : Bool) (bs : List RefKey) (piv : Ref) : Option Nat :=
  if fixed then indexOf? (fun k => k.toRef == piv) bs
  else
    let pos := searchLoop (fun h => match bs[h]? with
        | some k => !ltB (toText k.toRef) (toText piv)
        | none => true) (bs.length + 1) 0 bs.length
    match bs[pos]? with
    | some k => if k.toRef = piv then some pos else none
    | none => none

/-- Handler.Query for a permanode constraint and a sort whose candidate source is unsorted.  A
continue token has no effect here (unparsable: logged and ignored; parsable: addContinueConstraint
adds nothing for these sorts), and no token is ever returned. -/
def queryUnsorted (fixed : Bool) (w : List PN) (us : USort) (cons : Cons) (limit : Int) (cont : Bytes)
    (around : Option Ref) : Outcome :=
  if !cont.isEmpty && around.isSome then .err else
  let limit := if limit = 0 then 200 else limit
  let ms := matchedU w cons
  let bs := match around with
    | some piv => if ms.any (fun k => k.toRef == piv) then ms else []
    | none => ms
  match sortU w us bs with
  | none => .err
  | some bs =>
    if 0 < limit ∧ limit < (bs.length : Int) then
      match around with
      | some piv =>
        match aroundPos fixed bs piv with
        | none => .panic
        | some pos => .ok (windowAround bs pos limit.toNat)
      | none => .ok (bs.take limit.toNat)
    else .ok bs

end Pk.SearchPage
