import PkVerif.Base.Bytes
import PkVerif.Base.Eff
import PkVerif.Model.Pack
/-!
# Model of pkg/blobserver/files over a VFS with a durable and a volatile layer

The crash model of property C03: file *data* is volatile until `Sync`; directory operations
(create, rename, remove, mkdir) are durable at once.  Core Lean only.
-/
namespace Pk.FilesStore
open Pk.Pack (decEnc indexOf)

structure File where
  path : Bytes
  dur : Bytes    -- content that is on disk whatever happens
  cur : Bytes    -- content a reader sees now (`dur` plus writes not yet synced)
deriving DecidableEq, Repr

structure VFS where
  dirs : List Bytes
  files : List File
  counter : Nat      -- source of `TempFile`'s random suffix
deriving DecidableEq, Repr

def join (d n : Bytes) : Bytes := d ++ 47 :: n

def hasSuffix (s suf : Bytes) : Bool := decide (suf.length ≤ s.length) && s.drop (s.length - suf.length) == suf

def dotDat : Bytes := [46, 100, 97, 116]

def VFS.lookup (v : VFS) (p : Bytes) : Option File := v.files.find? (fun f => f.path == p)

def VFS.isDir (v : VFS) (p : Bytes) : Bool := v.dirs.contains p

/-- every proper ancestor of `p` (prefix ending before a `/`, not empty), shortest first, then `p` -/
def ancestorsAux : Bytes → Bytes → List Bytes
  | _, [] => []
  | pre, c :: cs =>
    if c = 47 ∧ pre ≠ [] then pre :: ancestorsAux (pre ++ [c]) cs else ancestorsAux (pre ++ [c]) cs

def VFS.mkdirAll (v : VFS) (p : Bytes) : VFS :=
  { v with dirs := (ancestorsAux [] p ++ [p]).foldl (fun ds d => if ds.contains d then ds else ds ++ [d]) v.dirs }

def tmpName (dir pfx : Bytes) (n : Nat) : Bytes := join dir (pfx ++ decEnc n)

def VFS.tempFile (v : VFS) (dir pfx : Bytes) : VFS × Bytes :=
  let name := tmpName dir pfx v.counter
  ({ v with files := v.files ++ [⟨name, [], []⟩], counter := v.counter + 1 }, name)

def VFS.mapFile (v : VFS) (p : Bytes) (f : File → File) : VFS :=
  { v with files := v.files.map (fun x => if x.path = p then f x else x) }

def VFS.write (v : VFS) (p data : Bytes) : VFS := v.mapFile p (fun x => { x with cur := x.cur ++ data })

def VFS.sync (v : VFS) (p : Bytes) : VFS := v.mapFile p (fun x => { x with dur := x.cur })

def VFS.remove (v : VFS) (p : Bytes) : VFS := { v with files := v.files.filter (fun x => x.path ≠ p) }

/-- POSIX rename: replaces `new`; no effect if `old` does not exist -/
def VFS.rename (v : VFS) (old new : Bytes) : VFS :=
  if (v.lookup old).isNone then v else
  let moved := (v.files.filter (fun x => x.path ≠ new)).map
      (fun x => if x.path = old then { x with path := new } else x)
  { v with files := moved }

/-- the disk after a crash: of each file's un-synced tail the first `j` bytes made it to the disk
(`j = 0`: all un-synced data lost; large `j`: nothing lost) -/
def crashFile (j : Nat) (f : File) : File :=
  let c := f.dur ++ (f.cur.drop f.dur.length).take j
  { f with dur := c, cur := c }

def VFS.crash (v : VFS) (j : Nat) : VFS := { v with files := v.files.map (crashFile j) }

/-! ## the store's paths (files.go:187-203) -/

/-- `HashName()` and `Digest()` of a ref text -/
def splitRef (ref : Bytes) : Bytes × Bytes :=
  match indexOf 45 ref with
  | none => (ref, [])
  | some i => (ref.take i, ref.drop (i + 1))

def blobDirectory (root ref : Bytes) : Bytes :=
  let (name, d) := splitRef ref
  let d := if d.length < 4 then d ++ [95, 95, 95, 95] else d
  join (join (join root name) (d.take 2)) ((d.drop 2).take 2)

def blobFileBaseName (ref : Bytes) : Bytes := ref ++ dotDat

def blobPath (root ref : Bytes) : Bytes := join (blobDirectory root ref) (blobFileBaseName ref)

/-! ## ReceiveBlob as an interpreted effect list (receive.go:42) -/

structure Ctx where
  dir : Bytes      -- hashed directory
  pfx : Bytes      -- TempFile prefix: base name ++ ".tmp"
  final : Bytes    -- blobPath
  data : Bytes
deriving DecidableEq, Repr

def ctxOf (root ref data : Bytes) : Ctx :=
  ⟨blobDirectory root ref, blobFileBaseName ref ++ [46, 116, 109, 112], blobPath root ref, data⟩

structure RunSt where
  vfs : VFS
  tmp : Option Bytes     -- name of the temp file, once created
deriving DecidableEq, Repr

def onTmp (s : RunSt) (f : VFS → Bytes → VFS) : RunSt :=
  match s.tmp with
  | none => s
  | some t => { s with vfs := f s.vfs t }

def step (c : Ctx) (s : RunSt) : Eff → RunSt
  | .mkdirAll => { s with vfs := s.vfs.mkdirAll c.dir }
  | .tempFile => let r := s.vfs.tempFile c.dir c.pfx; ⟨r.1, some r.2⟩
  | .copy => onTmp s (fun v t => v.write t c.data)
  | .sync => onTmp s (fun v t => v.sync t)
  | .rename => onTmp s (fun v t => v.rename t c.final)
  | .remove => onTmp s (fun v t => v.remove t)
  | _ => s

def run (c : Ctx) (s : RunSt) (effs : List Eff) : RunSt := effs.foldl (step c) s

/-- the straight-line (success) path of an extracted effect list -/
def successPath (l : List EffAt) : List Eff := spine l

/-- the deferred calls, which run when the function returns early with an error -/
def deferredEffs (l : List EffAt) : List Eff := (l.filter (·.deferred)).map (·.e)

/-- the path taken when the `k`-th call of the spine fails: the calls before it, then the deferred ones -/
def errorPath (l : List EffAt) (k : Nat) : List Eff := (spine l).take k ++ deferredEffs l

/-- abstract state of the temp file while scanning an effect order:
0 none, 1 created (empty, clean), 2 written (dirty), 3 written and synced, 4 renamed into place -/
def scanStep (a : Nat) : Eff → Option Nat
  | .mkdirAll => some a
  | .close => some a
  | .lstat => some a
  | .tempFile => if a = 0 then some 1 else none
  | .copy => if a = 1 then some 2 else none
  | .sync => some (if a = 2 then 3 else a)
  | .rename => if a = 3 then some 4 else none
  | .remove => some (if a = 4 then 4 else 0)
  | _ => none

def scan : Nat → List Eff → Option Nat
  | a, [] => some a
  | a, e :: es => match scanStep a e with
    | none => none
    | some a' => scan a' es

/-- the decidable obligation on the extracted effect order of `ReceiveBlob`: on the success path and on
every error path the temp file is created once, written once, synced before it is renamed, nothing
touches it after the rename, and only calls of the VFS vocabulary occur; the success path ends with
the rename done -/
def CrashSafePred (l : List EffAt) : Bool :=
  scan 0 (successPath l) == some 4 &&
  (List.range ((spine l).length + 1)).all (fun k => (scan 0 (errorPath l k)).isSome)

/-! ## reads -/

def fetch (v : VFS) (root ref : Bytes) : Option Bytes := (v.lookup (blobPath root ref)).map (·.cur)

/-- name of `e` inside directory `d`, if `e` is directly inside it -/
def childName (d e : Bytes) : Option Bytes :=
  let p := d ++ [47]
  if e.take p.length = p then
    let n := e.drop p.length
    if n ≠ [] ∧ 47 ∉ n then some n else none
  else none

def insertSorted (x : Bytes) : List Bytes → List Bytes
  | [] => [x]
  | y :: ys => if ltB y x then y :: insertSorted x ys else if x = y then y :: ys else x :: y :: ys

/-- `ReadDirNames` then `sort.Strings` -/
def VFS.dirNames (v : VFS) (d : Bytes) : List Bytes :=
  ((v.dirs.filterMap (childName d)) ++ (v.files.filterMap (fun f => childName d f.path))).foldl
    (fun acc n => insertSorted n acc) []

def skipDir (name : Bytes) : Bool :=
  name == [112,97,114,116,105,116,105,111,110] || name == [99,97,99,104,101] || name == [112,97,99,107,101,100]

def isHexB (b : Nat) : Bool := (48 ≤ b && b ≤ 57) || (97 ≤ b && b ≤ 102)

def isShardDir (name : Bytes) : Bool :=
  match name with
  | [a, b] => isHexB a && isHexB b
  | _ => false

/-- one name of a directory listing in `readBlobs` (enumerate.go:53), `after = ""`, no limit.
`sub` enumerates a sub-directory.  Result: entries and `false` if an error stopped the walk. -/
def enumName (okRef : Bytes → Bool) (v : VFS) (sub : Bytes → List (Bytes × Nat) × Bool)
    (dirFull name : Bytes) : List (Bytes × Nat) × Bool :=
  if skipDir name then ([], true) else
  let full := join dirFull name
  if isShardDir name || v.isDir full then
    (if v.isDir full then sub full else ([], false))
  else if !hasSuffix name dotDat then ([], true)
  else match v.lookup full with
    | none => ([], false)
    | some f =>
      let blobName := name.take (name.length - 4)
      if blobName ≠ [] ∧ okRef blobName then ([(blobName, f.cur.length)], true) else ([], true)

def enumNames (okRef : Bytes → Bool) (v : VFS) (sub : Bytes → List (Bytes × Nat) × Bool)
    (dirFull : Bytes) : List Bytes → List (Bytes × Nat) × Bool
  | [] => ([], true)
  | n :: ns =>
    match enumName okRef v sub dirFull n with
    | (es, false) => (es, false)
    | (es, true) => let r := enumNames okRef v sub dirFull ns; (es ++ r.1, r.2)

def readBlobs (okRef : Bytes → Bool) (v : VFS) : Nat → Bytes → List (Bytes × Nat) × Bool
  | 0, _ => ([], false)
  | fuel + 1, dirFull =>
    enumNames okRef v (fun d => readBlobs okRef v fuel d) dirFull (v.dirNames dirFull)

/-- `EnumerateBlobs(ctx, dest, "", no limit)` -/
def enumerate (okRef : Bytes → Bool) (v : VFS) (root : Bytes) : List (Bytes × Nat) × Bool :=
  if v.isDir root then readBlobs okRef v 8 root else ([], false)

end Pk.FilesStore
