import PkVerif.Model.Receive
import PkVerif.Model.Ref
/-!
# Model of the HTTP blob protocol: server handlers and client loops (C18)

The server side is a set of functions over the reference map (`SMap Bytes`: ref text ↦ bytes), one per
handler of `pkg/blobserver/handlers` / `gethandler`; the upload paths reuse `Pk.Recv` (C02).  What
`net/http`, `net/url`, `mime/multipart` and `encoding/json` do (form parsing, escaping, framing,
(un)marshalling) is trusted: a request is the list of `FormValue` strings the handler asks for, a
response is the data the handler writes.

Time is a parameter: a long-polling handler sees the store once per loop iteration; `m0` is what the
first iteration finds and `later` what each further iteration (after a `WaitForBlob` wake-up) finds;
the list ends when the deadline has passed.

The client side (`pkg/client`) is modelled as loops over a server given as a function.
-/
namespace Pk.BlobHTTP
open Pk Pk.SMap Pk.RefMap

/-- the constants of the handlers and of the client (instantiated from `Pk.Gen` in Props/Drv) -/
structure Cfg where
  maxEnumerate : Nat      -- defaultMaxEnumerate (enumerate.go:32)
  defaultEnum : Nat       -- defaultEnumerateSize (enumerate.go:33)
  maxStat : Nat           -- maxStatBlobs (stat.go:38)
  maxWait : Nat           -- the hard-coded 30 of both handlers
  maxBlob : Nat           -- constants.MaxBlobSize
  clientBatch : Nat       -- enumerateBatchSize (client/enumerate.go:58)

/-! ## parameter parsing -/

def isDigit (c : Nat) : Bool := 48 ≤ c && c ≤ 57

def decVal (s : Bytes) : Nat := s.foldl (fun a c => a * 10 + (c - 48)) 0

/-- `strconv.ParseUint(s, 10, 32)`: digits only (no sign, no underscore with an explicit base), < 2^32 -/
def parseUint32 (s : Bytes) : Option Nat :=
  if s.isEmpty || !s.all isDigit then none
  else if decVal s < 4294967296 then some (decVal s) else none

/-- the page size (enumerate.go:55-63, as repaired): default when absent, the maximum when unparsable,
zero or larger than the maximum -/
def enumLimit (c : Cfg) (arg : Bytes) : Nat :=
  if arg = [] then c.defaultEnum else
  match parseUint32 arg with
  | none => c.maxEnumerate
  | some n => if n = 0 || n > c.maxEnumerate then c.maxEnumerate else n

/-- the page size before the repair: 0 was accepted and handed to the storage as it was -/
def enumLimitOld (c : Cfg) (arg : Bytes) : Nat :=
  if arg = [] then c.defaultEnum else
  match parseUint32 arg with
  | none => c.maxEnumerate
  | some n => if n > c.maxEnumerate then c.maxEnumerate else n

/-- `strconv.Atoi` with its error dropped (`waitSeconds, _ = strconv.Atoi(…)`): 0 on a syntax error.
On a range error Go answers the nearest int64; here the value is unbounded – only "is it 0",
"is it negative" and "is it above 30" are ever asked, and the three answers agree. -/
def atoi (s : Bytes) : Int :=
  let (neg, ds) := match s with
    | 45 :: r => (true, r)
    | 43 :: r => (false, r)
    | r => (false, r)
  if ds.isEmpty || !ds.all isDigit then 0
  else if neg then - (decVal ds : Int) else (decVal ds : Int)

/-- the clamped wait (enumerate.go:72-80, stat.go:86-94) -/
def waitSeconds (c : Cfg) (arg : Bytes) : Nat :=
  if arg = [] then 0 else
  let v := atoi arg
  if v < 0 then 0 else if v > (c.maxWait : Int) then c.maxWait else v.toNat

/-! ## enumerate -/

/-- `storage.EnumerateBlobs(ctx, ch, after, limit)` of `memory.Storage` (mem.go:215
`limit > 0 && n == limit`): a limit of 0 means "no limit" (localdisk/diskpacked/blobpacked send
nothing).  Only the pre-repair counterexample needs it: the handler never passes 0 any more. -/
def storeEnumMem (m : SMap Bytes) (after : Bytes) (limit : Nat) : List (Bytes × Nat) :=
  if limit = 0 then sizes (m.filter (fun p => ltB after p.1)) else enumOf m after limit

structure EnumReq where
  after : Bytes
  limit : Bytes
  maxwait : Bytes
deriving Repr, DecidableEq

inductive EnumResp where
  | badRequest                                                  -- 400 errMsgMaxWaitSecWithAfter
  | ok (blobs : List (Bytes × Nat)) (continueAfter : Bytes)     -- [] = no continueAfter key
deriving Repr, DecidableEq

/-- `after` at the end of an iteration (enumerate.go:104-113): the last ref sent, unless the page is
not full -/
def pageAfter (limit : Nat) (got : List (Bytes × Nat)) : Bytes :=
  if got.length < limit then [] else
  match got.getLast? with
  | some p => p.1
  | none => []

/-- the long-poll loop (enumerate.go:92-125, as repaired: `time.Now().Before(deadline)`): without a wait
one iteration; with a wait, iterate until an iteration sends a blob or the deadline has passed -/
def enumLoop (w : Nat) (after : Bytes) (limit : Nat) :
    List (SMap Bytes) → List (Bytes × Nat) × Bytes
  | [] => ([], [])
  | m :: ms =>
    let got := enumOf m after limit
    if w = 0 || !got.isEmpty then (got, pageAfter limit got)
    else enumLoop w after limit ms

/-- the loop as it was before the repair (`time.Now().After(deadline)`): with a wait the condition is
false at once and the body never runs -/
def enumLoopOld (w : Nat) (after : Bytes) (limit : Nat) (m0 : SMap Bytes) :
    List (Bytes × Nat) × Bytes :=
  if w = 0 then enumLoop w after limit [m0] else ([], [])

/-- handleEnumerateBlobs (enumerate.go:43) -/
def handleEnumerateBlobs (c : Cfg) (m0 : SMap Bytes) (later : List (SMap Bytes))
    (r : EnumReq) : EnumResp :=
  let limit := enumLimit c r.limit
  if r.maxwait ≠ [] && atoi r.maxwait != 0 && r.after ≠ [] then .badRequest else
  let res := enumLoop (waitSeconds c r.maxwait) r.after limit (m0 :: later)
  .ok res.1 res.2

/-- the handler before the long-poll repair -/
def handleEnumerateBlobsOld (c : Cfg) (m0 : SMap Bytes) (r : EnumReq) : EnumResp :=
  let limit := enumLimit c r.limit
  if r.maxwait ≠ [] && atoi r.maxwait != 0 && r.after ≠ [] then .badRequest else
  let res := enumLoopOld (waitSeconds c r.maxwait) r.after limit m0
  .ok res.1 res.2

/-! ## stat -/

structure StatReq where
  methodOK : Bool          -- POST, GET or HEAD
  version : Bytes          -- camliversion
  blobs : List Bytes       -- FormValue("blob1"), FormValue("blob2"), … ([] = absent or empty)
  maxwait : Bytes
deriving Repr, DecidableEq

inductive StatErr where | method | noVersion | tooMany | bogus
deriving Repr, DecidableEq

inductive StatResp where
  | bad (e : StatErr)                      -- 400
  | ok (stat : List (Bytes × Nat))         -- 200 {"stat": […]} (a set: the order is the storage's)
deriving Repr, DecidableEq

inductive Scan where
  | ok (need : List Bytes)
  | err (e : StatErr)
deriving Repr, DecidableEq

def addNeed (acc : List Bytes) (k : Bytes) : List Bytes := if acc.contains k then acc else acc ++ [k]

/-- the blobN scan (stat.go:63-81): stop at the first absent/empty value; the cap is tested before the
value is parsed; `needStat` is a set -/
def statScan (maxStat : Nat) (tbl : Ref.Tbl) : Nat → List Bytes → List Bytes → Scan
  | _, [], acc => .ok acc
  | n, v :: vs, acc =>
    if v = [] then .ok acc
    else if n > maxStat then .err .tooMany
    else match Ref.parse tbl v true with
      | none => .err .bogus
      | some r => statScan maxStat tbl (n + 1) vs (addNeed acc (Ref.toText r))

/-- one `storage.StatBlobs(toStat, …)` pass -/
def statPass (m : SMap Bytes) (need : List Bytes) : List (Bytes × Nat) :=
  need.filterMap (fun k => (get m k).map (fun v => (k, v.length)))

/-- the stat loop (stat.go:106-124): stat what is still needed; stop when nothing is missing, there is
no wait, or the deadline has passed (the list of snapshots is exhausted) -/
def statLoop (w : Nat) : List Bytes → List (SMap Bytes) → List (Bytes × Nat)
  | _, [] => []
  | need, m :: ms =>
    let need' := need.filter (fun k => !has m k)
    if need'.isEmpty || w = 0 then statPass m need
    else statPass m need ++ statLoop w need' ms

/-- handleStat (stat.go:40) -/
def handleStat (c : Cfg) (tbl : Ref.Tbl) (m0 : SMap Bytes) (later : List (SMap Bytes)) (r : StatReq) :
    StatResp :=
  if !r.methodOK then .bad .method
  else if r.version = [] then .bad .noVersion
  else match statScan c.maxStat tbl 1 r.blobs [] with
    | .err e => .bad e
    | .ok need => .ok (statLoop (waitSeconds c r.maxwait) need (m0 :: later))

/-! ## get / head -/

inductive GetResp where
  | badRequest        -- 400 "Malformed GET URL."
  | notFound          -- 404
  | ok (body : Bytes) -- 200, Content-Length = body.length (HEAD: the same headers, no body)
deriving Repr, DecidableEq

def isLower (c : Nat) : Bool := 97 ≤ c && c ≤ 122
def isHexLower (c : Nat) : Bool := isDigit c || (97 ≤ c && c ≤ 102)

/-- getPattern (get.go:40) `/camli/([a-z][a-z0-9]*)-([a-f0-9]+)$` on a path `<prefix>/camli/<t>` whose
`t` contains no slash: `t` itself has to be name-dash-hex -/
def getPathOK (t : Bytes) : Bool :=
  match Ref.splitDash t with
  | none => false
  | some (name, hex) =>
    (match name with
     | [] => false
     | c :: cs => isLower c && cs.all Ref.isNameChar) && !hex.isEmpty && hex.all isHexLower

/-- Handler.ServeHTTP + ServeBlobRef (get.go:53-118): malformed path or unparsable ref ⇒ 400, absent ⇒
404, else the bytes with their length -/
def handleGet (tbl : Ref.Tbl) (m : SMap Bytes) (t : Bytes) : GetResp :=
  if !getPathOK t then .badRequest else
  match Ref.parse tbl t true with
  | none => .badRequest
  | some r =>
    match get m (Ref.toText r) with
    | none => .notFound
    | some v => .ok v

/-! ## upload (PUT and multipart) – decisions from `Pk.Recv` -/

/-- `blob.Parse` of a path element / form name: the map key (the ref's text) and `IsSupported` -/
def refOf (tbl : Ref.Tbl) (t : Bytes) : Option (Bytes × Bool) :=
  (Ref.parse tbl t true).map (fun r => (Ref.toText r, Ref.supported tbl r))

/-- CreatePutUploadHandler (upload.go:52) in front of the map -/
def handlePut (c : Cfg) (tbl : Ref.Tbl) (m : SMap Bytes) (t : Bytes) (contentLength : Option Nat)
    (matches_ : Bytes → Bool) (body : Bytes) : SMap Bytes × Recv.Http :=
  match refOf tbl t with
  | none => (m, (Recv.putDecision c.maxBlob true contentLength false false matches_ ⟨[body], .eof⟩).1)
  | some (k, sup) =>
    match Recv.putDecision c.maxBlob true contentLength true sup matches_ ⟨[body], .eof⟩ with
    | (code, .accepted d) => (next m (.recv k d), code)
    | (code, _) => (m, code)

structure MPart where
  name : Bytes                -- the form name
  matches_ : Bytes → Bool     -- "these bytes hash to the digest the name denotes"
  body : Bytes

def toPart (tbl : Ref.Tbl) (p : MPart) : Recv.Part :=
  match refOf tbl p.name with
  | none => ⟨p.name, false, false, p.matches_, ⟨[p.body], .eof⟩⟩
  | some (k, sup) => ⟨k, true, sup, p.matches_, ⟨[p.body], .eof⟩⟩

/-- the map after handleMultiPartUpload's loop: every received part is stored, in order -/
def multipartStore (max : Nat) (m : SMap Bytes) : List Recv.Part → SMap Bytes
  | [] => m
  | p :: ps =>
    if !p.parses then multipartStore max m ps else
    match Recv.receive max p.supported p.matches_ p.src with
    | .accepted d => multipartStore max (next m (.recv p.key d)) ps
    | _ => m

/-- "errorText is not empty": a form name was ignored or a part failed -/
def multipartErr (max : Nat) : List Recv.Part → Bool
  | [] => false
  | p :: ps =>
    if !p.parses then true else
    match Recv.receive max p.supported p.matches_ p.src with
    | .accepted _ => multipartErr max ps
    | _ => true

structure MultipartResp where
  received : List (Bytes × Nat)
  errorText : Bool
deriving Repr, DecidableEq

/-- handleMultiPartUpload (upload.go:172): always 200 with the list of received blobs -/
def handleMultipart (c : Cfg) (tbl : Ref.Tbl) (m : SMap Bytes) (parts : List MPart) :
    SMap Bytes × MultipartResp :=
  let ps := parts.map (toPart tbl)
  (multipartStore c.maxBlob m ps, ⟨Recv.multipart c.maxBlob ps, multipartErr c.maxBlob ps⟩)

/-! ## the client (pkg/client) -/

/-- `%d` -/
def natToDec (n : Nat) : Bytes := (Nat.toDigits 10 n).map Char.toNat

structure EnumOpts where
  after : Bytes
  waitSec : Nat      -- int(opts.MaxWait.Seconds()), at least 1 when MaxWait > 0
  limit : Nat
deriving Repr, DecidableEq

inductive SendEnd where
  | cont (nSent : Nat)
  | stop               -- opts.Limit reached
  | bad                -- an item the client cannot parse
deriving Repr, DecidableEq

/-- the `for _, v := range blobs` of EnumerateBlobsOpts (enumerate.go:109-137) -/
def sendItems (okRef : Bytes → Bool) (optLimit : Nat) : Nat → List (Bytes × Nat) →
    List (Bytes × Nat) × SendEnd
  | n, [] => ([], .cont n)
  | n, p :: ps =>
    if !okRef p.1 then ([], .bad)
    else if optLimit = n + 1 then ([p], .stop)
    else
      let r := sendItems okRef optLimit (n + 1) ps
      (p :: r.1, r.2)

/-- what the caller of the client got: the blobs sent on the channel and whether an error came back -/
structure ClientEnum where
  sent : List (Bytes × Nat)
  ok : Bool
deriving Repr, DecidableEq

/-- the `for keepGoing` loop of EnumerateBlobsOpts (enumerate.go:80-141); `batch` is the text of the
`limit` parameter it sends (`enumerateBatchSize`); the wait is only sent with an empty cursor -/
def clientEnumLoop (srv : EnumReq → EnumResp) (okRef : Bytes → Bool) (batch : Bytes) (optLimit waitSec : Nat) :
    Nat → Bytes → Nat → ClientEnum
  | 0, _, _ => ⟨[], false⟩
  | fuel + 1, after, nSent =>
    match srv ⟨after, batch, natToDec (if after = [] then waitSec else 0)⟩ with
    | .badRequest => ⟨[], false⟩
    | .ok blobs ca =>
      match sendItems okRef optLimit nSent blobs with
      | (sent, .stop) => ⟨sent, true⟩
      | (sent, .bad) => ⟨sent, false⟩
      | (sent, .cont n') =>
        if ca = [] then ⟨sent, true⟩ else
        let r := clientEnumLoop srv okRef batch optLimit waitSec fuel ca n'
        ⟨sent ++ r.sent, r.ok⟩

/-- Client.EnumerateBlobsOpts (enumerate.go:62) -/
def clientEnumerate (srv : EnumReq → EnumResp) (okRef : Bytes → Bool) (batch : Bytes) (o : EnumOpts)
    (fuel : Nat) : ClientEnum :=
  if o.after ≠ [] && o.waitSec != 0 then ⟨[], false⟩
  else clientEnumLoop srv okRef batch o.limit o.waitSec fuel o.after 0

/-- the client's have-cache (`HaveCache`): `none` = `noHaveCache` -/
abbrev Have := Option (SMap Nat)

def Have.stat (h : Have) (k : Bytes) : Option Nat :=
  match h with
  | none => none
  | some c => get c k

def Have.note (h : Have) (k : Bytes) (n : Nat) : Have :=
  match h with
  | none => none
  | some c => some (ins k n c)

/-- one `doStat` of a single ref (upload.go:187): the refs the server reports -/
def doStat1 (srv : StatReq → StatResp) (k : Bytes) : Option (List (Bytes × Nat)) :=
  match srv ⟨true, [49], [k], []⟩ with
  | .ok l => some l
  | .bad _ => none

/-- Client.StatBlobs (upload.go:153, as repaired): cached refs are answered from the cache, each other
ref by its own stat request; `fn` is called once per found blob -/
def clientStatBlobs (srv : StatReq → StatResp) : Have → List Bytes → Have × List (Bytes × Nat) × Bool
  | h, [] => (h, [], true)
  | h, k :: ks =>
    match h.stat k with
    | some n =>
      let r := clientStatBlobs srv h ks
      (r.1, (k, n) :: r.2.1, r.2.2)
    | none =>
      match doStat1 srv k with
      | none => (h, [], false)
      | some l =>
        let h' := l.foldl (fun h e => h.note e.1 e.2) h
        let r := clientStatBlobs srv h' ks
        (r.1, l ++ r.2.1, r.2.2)

/-- Client.StatBlobs before the two repairs: the worker called `fn` itself and the helper called it
again; and the helper was handed all blobs, the cached ones included -/
def clientStatBlobsOld (srv : StatReq → StatResp) (h : Have) (ks : List Bytes) : List (Bytes × Nat) :=
  (ks.filterMap (fun k => (h.stat k).map (fun n => (k, n)))) ++
  (if ks.all (fun k => (h.stat k).isSome) then [] else
    ks.flatMap (fun k => match doStat1 srv k with | some l => l ++ l | none => []))

inductive FetchResp where
  | ok (body : Bytes) (size : Nat)
  | notExist
  | err
deriving Repr, DecidableEq

/-- Client.Fetch (get.go:48,74): 404 ⇒ os.ErrNotExist, any other non-200 ⇒ error -/
def clientFetch (srv : Bytes → GetResp) (k : Bytes) : FetchResp :=
  match srv k with
  | .ok b => .ok b b.length
  | .notFound => .notExist
  | .badRequest => .err

inductive UploadResp where
  | ok (size : Nat) (skipped : Bool)
  | err
deriving Repr, DecidableEq

/-- Client.Upload (upload.go:252) without vivify: have-cache, then (unless SkipStat) a stat of the one
ref, then a multipart POST of the one part; the answer must list the ref with the size sent -/
def clientUpload (c : Cfg) (stat : StatReq → StatResp)
    (post : List MPart → SMap Bytes × MultipartResp) (m : SMap Bytes) (h : Have)
    (k : Bytes) (matches_ : Bytes → Bool) (body : Bytes) (skipStat : Bool) :
    SMap Bytes × Have × UploadResp :=
  if body.length > c.maxBlob then (m, h, .err) else
  match h.stat k with
  | some _ => (m, h, .ok body.length true)
  | none =>
    let upload : Have → SMap Bytes × Have × UploadResp := fun h =>
      let r := post [⟨k, matches_, body⟩]
      match r.2.received.find? (fun e => e.1 == k) with
      | none => (r.1, h, .err)
      | some e =>
        if e.2 ≠ body.length then (r.1, h, .err)
        else (r.1, h.note k body.length, .ok body.length false)
    if skipStat then upload h else
    match doStat1 stat k with
    | none => (m, h, .err)
    | some l =>
      let h' := l.foldl (fun h e => h.note e.1 e.2) h
      if l.any (fun e => e.1 == k) then (m, h'.note k body.length, .ok body.length true)
      else upload h'

end Pk.BlobHTTP
