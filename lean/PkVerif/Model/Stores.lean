import PkVerif.Spec.Faults
import PkVerif.Model.MergedEnum
/-!
# Models of the storage combinators (C01)

Each combinator is a function from the `Impl`s of its sub-stores to an `Impl`, mirroring the Go
method bodies (file:line in the docstrings).  A sub-store answer other than the expected success is
treated as that call's error and passed on the way the Go code does.
-/
namespace Pk.Stores
open Pk Pk.SMap Pk.RefMap

/-- `Find(after, "")` of a sorted KV followed by "skip the first row if its key equals `after`"
(namespace/ns.go:76-84, diskpacked.go:459): the inclusive range scan with the exclusive cursor rule -/
def findSkip {V : Type} (m : SMap V) (after : Bytes) : SMap V :=
  let l := m.filter (fun p => !ltB p.1 after)      -- keys ≥ after
  match l with
  | [] => []
  | p :: rest => if after ≠ [] ∧ p.1 = after then rest else p :: rest

/-! ## namespace (pkg/blobserver/namespace/ns.go) -/

/-- inventory KV (ref text ↦ size) over a shared master store -/
def nsImpl (master : Impl) : Impl where
  σ := SMap Nat × master.σ
  init := ([], master.init)
  step := fun (inv, ms) op =>
    match op with
    | .recv k v =>                                   -- ns.go:119
      if has inv k then ((inv, ms), .sized v.length)
      else
        match master.step ms (.recv k v) with
        | (ms', .sized n) => ((ins k v.length inv, ms'), .sized n)
        | (ms', _) => ((inv, ms'), .err)
    | .fetch k =>                                    -- ns.go:94
      match get inv k with
      | none => ((inv, ms), .notExist)
      | some sz =>
        match master.step ms (.fetch k) with
        | (ms', .bytes b) => if b.length ≠ sz then ((inv, ms'), .notExist) else ((inv, ms'), .bytes b)
        | (ms', o) => ((inv, ms'), o)
    | .stat k =>                                     -- ns.go:150
      match get inv k with
      | none => ((inv, ms), .notExist)
      | some sz => ((inv, ms), .sized sz)
    | .rm k => ((del k inv, ms), .ok)                -- ns.go:141: inventory row only
    | .enum after limit =>                           -- ns.go:71
      ((inv, ms), .refs ((findSkip inv after).take limit))

/-! ## memory in cache mode (pkg/blobserver/memory/mem.go NewCache): evicts in LRU order by bytes -/

structure MemCache where
  m : SMap Bytes
  lru : List Bytes        -- most recently used first; may hold keys already removed from `m`
  size : Nat

/-- the eviction loop of ReceiveBlob (mem.go:156-162); fuel = number of lru entries -/
def MemCache.evict (max : Nat) : Nat → MemCache → MemCache
  | 0, c => c
  | fuel + 1, c =>
    if max ≠ 0 ∧ c.size > max then
      match c.lru.getLast? with
      | none => c
      | some key =>
        let lru' := c.lru.dropLast
        match get c.m key with
        | none => MemCache.evict max fuel { c with lru := lru' }
        | some v => MemCache.evict max fuel { m := del key c.m, lru := lru', size := c.size - v.length }
    else c

def memCacheImpl (max : Nat) : Impl where
  σ := MemCache
  init := ⟨[], [], 0⟩
  step := fun c op =>
    match op with
    | .recv k v =>
      if has c.m k then (c, .sized v.length)
      else
        let c1 : MemCache := { m := ins k v c.m, lru := k :: c.lru.filter (· ≠ k), size := c.size + v.length }
        (MemCache.evict max (c1.lru.length + 1) c1, .sized v.length)
    | .fetch k =>
      let c' := if k ∈ c.lru then { c with lru := k :: c.lru.filter (· ≠ k) } else c
      (c', out c.m (.fetch k))
    | .rm k =>
      (match get c.m k with
       | none => c
       | some v => { c with m := del k c.m, size := c.size - v.length }, .ok)
    | op => (c, out c.m op)

/-! ## proxycache (pkg/blobserver/proxycache/proxycache.go) -/

structure ProxyBook where
  lru : List (Bytes × Nat)    -- most recently used first
  cacheBytes : Nat

/-- touch + removeOldest (proxycache.go:112-152).  Returns the new cache state and bookkeeping. -/
def proxyClean (cache : Impl) (max : Nat) : Nat → cache.σ → ProxyBook → cache.σ × ProxyBook
  | 0, cs, b => (cs, b)
  | fuel + 1, cs, b =>
    if b.cacheBytes > max then
      match b.lru.getLast? with
      | none => (cs, b)
      | some (k, sz) =>
        match cache.step cs (.rm k) with
        | (cs', .ok) => proxyClean cache max fuel cs' { lru := b.lru.dropLast, cacheBytes := b.cacheBytes - sz }
        | (cs', _) => (cs', { b with lru := (k, sz) :: b.lru.dropLast })    -- re-added, stop
    else (cs, b)

def proxyTouch (cache : Impl) (max : Nat) (cs : cache.σ) (b : ProxyBook) (k : Bytes) (sz : Nat) :
    cache.σ × ProxyBook :=
  if b.lru.any (·.1 = k) then
    -- lru.Get moves the entry to the front
    (cs, { b with lru := (b.lru.filter (·.1 = k)) ++ b.lru.filter (·.1 ≠ k) })
  else
    let b1 : ProxyBook := { lru := (k, sz) :: b.lru, cacheBytes := b.cacheBytes + sz }
    proxyClean cache max (b1.lru.length + 1) cs b1

def proxyImpl (origin cache : Impl) (max : Nat) : Impl where
  σ := origin.σ × cache.σ × ProxyBook
  init := (origin.init, cache.init, ⟨[], 0⟩)
  step := fun (os, cs, b) op =>
    match op with
    | .fetch k =>                                     -- proxycache.go:154
      match cache.step cs (.fetch k) with
      | (cs1, .bytes v) =>
        let (cs2, b2) := proxyTouch cache max cs1 b k v.length
        ((os, cs2, b2), .bytes v)
      | (cs1, _) =>
        match origin.step os (.fetch k) with
        | (os1, .bytes v) =>
          match cache.step cs1 (.recv k v) with
          | (cs2, .sized _) =>
            let (cs3, b3) := proxyTouch cache max cs2 b k v.length
            ((os1, cs3, b3), .bytes v)
          | (cs2, _) => ((os1, cs2, b), .bytes v)
        | (os1, o) => ((os1, cs1, b), o)
    | .stat k =>                                      -- proxycache.go:195
      match cache.step cs (.stat k) with
      | (cs1, .sized n) =>
        let (cs2, b2) := proxyTouch cache max cs1 b k n
        ((os, cs2, b2), .sized n)
      | (cs1, .notExist) =>
        match origin.step os (.stat k) with
        | (os1, .sized n) =>
          let (cs2, b2) := proxyTouch cache max cs1 b k n
          ((os1, cs2, b2), .sized n)
        | (os1, o) => ((os1, cs1, b), o)
      | (cs1, _) => ((os, cs1, b), .err)
    | .recv k v =>                                    -- proxycache.go:223
      match origin.step os (.recv k v) with
      | (os1, .sized n) =>
        match cache.step cs (.recv k v) with
        | (cs1, .sized _) =>
          let (cs2, b2) := proxyTouch cache max cs1 b k n
          ((os1, cs2, b2), .sized n)
        | (cs1, _) => ((os1, cs1, b), .sized n)
      | (os1, _) => ((os1, cs, b), .err)
    | .rm k =>                                        -- proxycache.go RemoveBlobs: cache first, then origin
      match cache.step cs (.rm k) with
      | (cs1, .ok) =>
        match origin.step os (.rm k) with
        | (os1, .ok) => ((os1, cs1, b), .ok)
        | (os1, _) => ((os1, cs1, b), .err)
      | (cs1, _) => ((os, cs1, b), .err)
    | .enum after limit =>                            -- proxycache.go:255
      match origin.step os (.enum after limit) with
      | (os1, o) => ((os1, cs, b), o)

/-! ## overlay (pkg/blobserver/overlay/overlay.go) -/

/-- the refill loop of EnumerateBlobs (overlay.go:211-256): repeatedly merge-enumerate lower and
upper after the cursor with the remaining limit, forward what is not tombstoned, and resume after
the last ref seen.  `fuel` bounds the number of rounds: a round either sends something, or skips at
least one tombstoned entry, or is the last one, so `del.length + 2` rounds always suffice (the Go
loop has no bound; it terminates because the cursor advances).  The answer is `none` when a
sub-store's enumeration fails (overlay.go:241 returns that error) or the fuel runs out. -/
def overlayEnum (lower upper : Impl) (del : SMap Unit) :
    Nat → lower.σ → upper.σ → Bytes → Nat → List (Bytes × Nat) → lower.σ × upper.σ × Option (List (Bytes × Nat))
  | 0, ls, us, _, _, _ => (ls, us, none)
  | fuel + 1, ls, us, after, remaining, acc =>
    if remaining = 0 then (ls, us, some acc) else
    match lower.step ls (.enum after remaining), upper.step us (.enum after remaining) with
    | (ls1, .refs a), (us1, .refs b) =>
      let merged := MergedEnum.mergedEnumerate remaining [a, b]
      match merged.getLast? with
      | none => (ls1, us1, some acc)
      | some last =>
        let live := merged.filter (fun p => !has del p.1)
        overlayEnum lower upper del fuel ls1 us1 last.1 (remaining - live.length) (acc ++ live)
    | (ls1, _), (us1, _) => (ls1, us1, none)

def overlayImpl (lower upper : Impl) : Impl where
  σ := lower.σ × upper.σ × SMap Unit
  init := (lower.init, upper.init, [])
  step := fun (ls, us, del) op =>
    match op with
    | .recv k v =>                                    -- overlay.go:122
      match upper.step us (.recv k v) with
      | (us1, .sized n) => ((ls, us1, SMap.del k del), .sized n)
      | (us1, _) => ((ls, us1, del), .err)
    | .rm k =>                                        -- overlay.go:131
      match upper.step us (.rm k) with
      | (us1, .ok) => ((ls, us1, ins k () del), .ok)
      | (us1, _) => ((ls, us1, del), .err)
    | .fetch k =>                                     -- overlay.go:167
      if has del k then ((ls, us, del), .notExist)
      else
        match upper.step us (.fetch k) with
        | (us1, .notExist) =>
          match lower.step ls (.fetch k) with
          | (ls1, o) => ((ls1, us1, del), o)
        | (us1, o) => ((ls, us1, del), o)
    | .stat k =>                                      -- overlay.go:181
      if has del k then ((ls, us, del), .notExist)
      else
        match upper.step us (.stat k) with
        | (us1, .notExist) =>
          match lower.step ls (.stat k) with
          | (ls1, o) => ((ls1, us1, del), o)
        | (us1, o) => ((ls, us1, del), o)
    | .enum after limit =>
      match overlayEnum lower upper del (del.length + 2) ls us after limit [] with
      | (ls1, us1, some l) => ((ls1, us1, del), .refs l)
      | (ls1, us1, none) => ((ls1, us1, del), .err)

/-! ## two-way shard, replica, cond (the n-way shard and replica: next section) -/

/-- merged enumeration of two sub-stores (MergedEnumerateStorage, mergedenum.go:38) -/
def enum2 (a b : Impl) (sa : a.σ) (sb : b.σ) (after : Bytes) (limit : Nat) : a.σ × b.σ × Out :=
  match a.step sa (.enum after limit), b.step sb (.enum after limit) with
  | (sa1, .refs x), (sb1, .refs y) => (sa1, sb1, .refs (MergedEnum.mergedEnumerate limit [x, y]))
  | (sa1, _), (sb1, _) => (sa1, sb1, .err)

/-- shard (pkg/blobserver/shard/shard.go) with two shards; `route k = true` sends `k` to `b`.
The real routing is `Sum32(ref) % 2`; theorems hold for any routing function. -/
def shard2Impl (route : Bytes → Bool) (a b : Impl) : Impl where
  σ := a.σ × b.σ
  init := (a.init, b.init)
  step := fun (sa, sb) op =>
    match op with
    | .enum after limit =>
      match enum2 a b sa sb after limit with
      | (sa1, sb1, o) => ((sa1, sb1), o)
    | .recv k _ | .fetch k | .stat k | .rm k =>
      if route k then
        match b.step sb op with
        | (sb1, o) => ((sa, sb1), o)
      else
        match a.step sa op with
        | (sa1, o) => ((sa1, sb), o)

/-- replica (pkg/blobserver/replica/replica.go) over two stores that are both read and written,
minWritesForSuccess = `min` ∈ {1,2}; without faults both writes succeed. -/
def replica2Impl (a b : Impl) : Impl where
  σ := a.σ × b.σ
  init := (a.init, b.init)
  step := fun (sa, sb) op =>
    match op with
    | .recv k v =>                                    -- replica.go:192: all replicas, sizes must agree
      match a.step sa (.recv k v), b.step sb (.recv k v) with
      | (sa1, .sized n), (sb1, .sized n') => ((sa1, sb1), if n = n' then .sized n else .err)
      | (sa1, _), (sb1, _) => ((sa1, sb1), .err)
    | .fetch k =>                                     -- replica.go Fetch: first read replica that has it;
      match a.step sa (.fetch k) with                 -- a replica's failure outranks a later "not exist"
      | (sa1, .bytes v) => ((sa1, sb), .bytes v)
      | (sa1, .notExist) =>
        match b.step sb (.fetch k) with
        | (sb1, o) => ((sa1, sb1), o)
      | (sa1, _) =>
        match b.step sb (.fetch k) with
        | (sb1, .bytes v) => ((sa1, sb1), .bytes v)
        | (sb1, _) => ((sa1, sb1), .err)
    | .stat k =>                                      -- replica.go:149: first reporter wins
      match a.step sa (.stat k), b.step sb (.stat k) with
      | (sa1, .sized n), (sb1, .sized _) => ((sa1, sb1), .sized n)
      | (sa1, .sized n), (sb1, .notExist) => ((sa1, sb1), .sized n)
      | (sa1, .notExist), (sb1, .sized n) => ((sa1, sb1), .sized n)
      | (sa1, .notExist), (sb1, .notExist) => ((sa1, sb1), .notExist)
      | (sa1, _), (sb1, _) => ((sa1, sb1), .err)              -- errgroup: any replica error fails the call
    | .rm k =>                                        -- replica.go:245: all replicas; "best effort":
      match a.step sa (.rm k), b.step sb (.rm k) with  -- nil as soon as ANY replica reported success
      | (sa1, .ok), (sb1, _) => ((sa1, sb1), .ok)
      | (sa1, _), (sb1, .ok) => ((sa1, sb1), .ok)
      | (sa1, _), (sb1, _) => ((sa1, sb1), .err)
    | .enum after limit =>
      match enum2 a b sa sb after limit with
      | (sa1, sb1, o) => ((sa1, sb1), o)

/-- cond (pkg/blobserver/cond/cond.go) with `write = {if isSchema then t else e}` and
`read = remove = replica[t, e]` (the supported composition: the read and remove targets cover the
write targets).  `isSchema` is the blob sniffing predicate, a parameter. -/
def cond2Impl (isSchema : Bytes → Bool) (t e : Impl) : Impl where
  σ := t.σ × e.σ
  init := (t.init, e.init)
  step := fun (st, se) op =>
    match op with
    | .recv _ v =>                                    -- cond.go:162
      if isSchema v then
        match t.step st op with
        | (st1, o) => ((st1, se), o)
      else
        match e.step se op with
        | (se1, o) => ((st, se1), o)
    | op => (replica2Impl t e).step (st, se) op

/-! ## n-way shard and replica, directly over the list of sub-stores

shard.go and replica.go keep their sub-stores in a slice and loop over it; these are those loops.
`Lemmas/RefNary.lean` proves that they refine the reference map whenever every sub-store does, and
`Lemmas/MergedNest.lean` that their ONE n-way merged enumeration is the nested two-way one – which is
why a configuration tree only needs two-way nodes (`Cfg.shardNest`, `Cfg.replicaNest`). -/

/-- the states of a list of sub-stores -/
def KidsSt : List Impl → Type
  | [] => Unit
  | k :: r => k.σ × KidsSt r

def kidsInit : (kids : List Impl) → KidsSt kids
  | [] => ()
  | k :: r => (k.init, kidsInit r)

/-- one call on sub-store number `i` (`sto.shards[i]`, shard.go:70); no such sub-store: an error -/
def stepAt : (kids : List Impl) → KidsSt kids → Nat → Op → KidsSt kids × Out
  | [], s, _, _ => (s, .err)
  | k :: _, (sk, sr), 0, op =>
    match k.step sk op with
    | (sk1, o) => ((sk1, sr), o)
  | _ :: r, (sk, sr), i + 1, op =>
    match stepAt r sr i op with
    | (sr1, o) => ((sk, sr1), o)

/-- the same call on every sub-store (replica.go ReceiveBlob / StatBlobs / RemoveBlobs start one
goroutine per replica and collect every answer): the answers, in sub-store order -/
def stepAll : (kids : List Impl) → KidsSt kids → Op → KidsSt kids × List Out
  | [], s, _ => (s, [])
  | k :: r, (sk, sr), op =>
    match k.step sk op, stepAll r sr op with
    | (sk1, o), (sr1, os) => ((sk1, sr1), o :: os)

/-- what the sources of `MergedEnumerateStorage(ctx, dest, stores, after, limit)` send
(mergedenum.go:73: every source is started with the same cursor and limit); `none` when a source
fails ("If any part returns an error, we return an error") -/
def enumAll : (kids : List Impl) → KidsSt kids → Bytes → Nat → KidsSt kids × Option (List (List (Bytes × Nat)))
  | [], s, _, _ => (s, some [])
  | k :: r, (sk, sr), after, limit =>
    match k.step sk (.enum after limit), enumAll r sr after limit with
    | (sk1, .refs x), (sr1, some l) => ((sk1, sr1), some (x :: l))
    | (sk1, _), (sr1, _) => ((sk1, sr1), none)

/-- EnumerateBlobs of shard (shard.go:152) and replica (replica.go:276): ONE n-way merge -/
def enumN (kids : List Impl) (s : KidsSt kids) (after : Bytes) (limit : Nat) : KidsSt kids × Out :=
  match enumAll kids s after limit with
  | (s1, some srcs) => (s1, .refs (MergedEnum.mergedEnumerate limit srcs))
  | (s1, none) => (s1, .err)

/-- shard over any number of sub-stores: `route k % len(shards)` picks the sub-store (shard.go:74,
`route` = `Sum32` of the ref) -/
def shardNImpl (route : Bytes → Nat) (kids : List Impl) : Impl where
  σ := KidsSt kids
  init := kidsInit kids
  step := fun s op =>
    match op with
    | .enum after limit => enumN kids s after limit
    | .recv k _ | .fetch k | .stat k | .rm k => stepAt kids s (route k % kids.length) op

/-- the loop of replica.go Fetch (:146-165): the first replica that has the blob answers; `failed` =
`failErr != nil`, a failure seen so far outranks "not exist" -/
def fetchFirst : (kids : List Impl) → KidsSt kids → Bytes → Bool → KidsSt kids × Out
  | [], s, _, failed => (s, if failed then .err else .notExist)
  | k :: r, (sk, sr), key, failed =>
    match k.step sk (.fetch key) with
    | (sk1, .bytes v) => ((sk1, sr), .bytes v)
    | (sk1, .notExist) =>
      match fetchFirst r sr key failed with
      | (sr1, o) => ((sk1, sr1), o)
    | (sk1, _) =>
      match fetchFirst r sr key true with
      | (sr1, o) => ((sk1, sr1), o)

/-- StatBlobs of replica (replica.go:168-203): any replica's error fails the call (errgroup),
otherwise the first replica reporting the blob wins -/
def statAnsN : List Out → Out
  | [] => .notExist
  | .sized n :: os => match statAnsN os with | .err => .err | _ => .sized n
  | .notExist :: os => statAnsN os
  | _ :: _ => .err

/-- replica over any number of sub-stores, all read and written, `minWritesForSuccess` = their number
(the default): receive succeeds iff every replica stored the full blob (replica.go:233), remove is
"best effort": nil as soon as ANY replica reported success (replica.go:266) -/
def replicaNImpl (kids : List Impl) : Impl where
  σ := KidsSt kids
  init := kidsInit kids
  step := fun s op =>
    match op with
    | .recv _ v =>
      match stepAll kids s op with
      | (s1, os) => (s1, if os.all (· == .sized v.length) then .sized v.length else .err)
    | .fetch k => fetchFirst kids s k false
    | .stat _ =>
      match stepAll kids s op with
      | (s1, os) => (s1, statAnsN os)
    | .rm _ =>
      match stepAll kids s op with
      | (s1, os) => (s1, if os.any (· == .ok) then .ok else .err)
    | .enum after limit => enumN kids s after limit

/-- the right-nested tree of two-way shards that an n-way shard is: level `i` keeps the keys of
sub-store `i` and passes the others on -/
def shardNestImpl (route : Bytes → Nat) (n : Nat) : Nat → Impl → List Impl → Impl
  | _, k, [] => k
  | i, k, k' :: r => shard2Impl (fun key => route key % n != i) k (shardNestImpl route n (i + 1) k' r)

def replicaNestImpl : Impl → List Impl → Impl
  | k, [] => k
  | k, k' :: r => replica2Impl k (replicaNestImpl k' r)

/-! ## configuration trees -/

/-- a storage configuration: which combinators wrap which leaves -/
inductive Cfg where
  | mem                                   -- memory (also stands for any leaf backend proved/validated separately)
  | memCache (max : Nat)                  -- evicting memory cache: only meaningful as a proxycache cache
  | ns (master : Cfg)
  | proxy (origin cache : Cfg) (max : Nat)
  | overlay (lower upper : Cfg)
  | shard2 (a b : Cfg)
  | shardBy (r : Bytes → Bool) (a b : Cfg) -- two-way shard with its OWN routing predicate: one level of an n-way shard
  | replica2 (a b : Cfg)
  | cond2 (t e : Cfg)
  | faulty (sched : List Fault) (c : Cfg) -- `c` behind a schedule of transient failures (C13)
  | leaf (I : Impl)                       -- any other leaf model (files, diskpacked, …) given directly

/-- the model of a configuration; `route` = routing of the `shard2` nodes (a `shardBy` node carries
its own), `isSchema` = cond's sniffing predicate -/
def interp (route : Bytes → Bool) (isSchema : Bytes → Bool) : Cfg → Impl
  | .mem => memImpl
  | .memCache max => memCacheImpl max
  | .ns m => nsImpl (interp route isSchema m)
  | .proxy o c max => proxyImpl (interp route isSchema o) (interp route isSchema c) max
  | .overlay l u => overlayImpl (interp route isSchema l) (interp route isSchema u)
  | .shard2 a b => shard2Impl route (interp route isSchema a) (interp route isSchema b)
  | .shardBy r a b => shard2Impl r (interp route isSchema a) (interp route isSchema b)
  | .replica2 a b => replica2Impl (interp route isSchema a) (interp route isSchema b)
  | .cond2 t e => cond2Impl isSchema (interp route isSchema t) (interp route isSchema e)
  | .faulty sched c => faultLeaf (interp route isSchema c) sched
  | .leaf I => I

/-- supported compositions: an evicting cache appears only as the cache of a proxycache -/
def Cfg.WF : Cfg → Bool
  | .mem => true
  | .memCache _ => false
  | .ns m => m.WF
  | .proxy o (.memCache _) _ => o.WF
  | .proxy o c _ => o.WF && c.WF
  | .overlay l u => l.WF && u.WF
  | .shard2 a b => a.WF && b.WF
  | .shardBy _ a b => a.WF && b.WF
  | .replica2 a b => a.WF && b.WF
  | .cond2 t e => t.WF && e.WF
  | .faulty _ _ => false
  | .leaf _ => false

/-- an n-way shard over `k :: r` (n = their number, routing `sum key % n`) as a tree: sub-store `i`
against the rest, for i = 0, 1, … -/
def Cfg.shardNest (sum : Bytes → Nat) (n : Nat) : Nat → Cfg → List Cfg → Cfg
  | _, k, [] => k
  | i, k, k' :: r => .shardBy (fun key => sum key % n != i) k (Cfg.shardNest sum n (i + 1) k' r)

/-- an n-way replica over `k :: r` as a tree -/
def Cfg.replicaNest : Cfg → List Cfg → Cfg
  | k, [] => k
  | k, k' :: r => .replica2 k (Cfg.replicaNest k' r)

end Pk.Stores
