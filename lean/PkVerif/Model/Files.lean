import PkVerif.Model.Ref
import PkVerif.Spec.RefMap
/-!
# Model of pkg/blobserver/files: one file per blob in nested shard directories  (C01 leaf store)

State = the directory tree under the storage root, as `ReadDirNames` + `sort.Strings` shows it:
a directory is the list of its entries in ascending name order (`Tree`).  Layout made by the code:

    root / <hashname> / <d[0:2]> / <d[2:4]> / <hashname>-<d>.dat        d = hex digest text

Each definition mirrors one Go function (file:line in the docstrings).  Keys of the storage API are
ref TEXTS; the store turns a text into a `blob.Ref` with `blob.Parse` (`Pk.Ref.parse t · true`) and
derives the path from the parsed ref.  The hash table is a parameter (`t : Tbl`).

Modelled: `blobDirectory` with its `____` padding of digests shorter than 4 hex digits,
`blobFileBaseName`, `MkdirAll` + rename-into-place of ReceiveBlob (the rename OVERWRITES: the code does
not look whether the blob is there), Stat/Open of fetch, Stat of StatBlobs, Remove of RemoveBlobs
(directories are never removed: empty shard directories stay), and `readBlobs`: the recursive walk
with `skipDir`, `isShardDir`, the `after`-prefix pruning of sub-directories, the `.dat` filter, the
`blobName <= after` skip, the `blob.Parse` filter and the shared `remain` countdown.

Abstracted: a step is atomic (the `.tmp` file of ReceiveBlob is never visible: its name does not end
in `.dat`, so a concurrent walk would skip it); sizes are not truncated to uint32; I/O errors other
than "walked into something that is not a directory" do not happen; `ENOTDIR` on lookups through a
regular file is answered as "not there".  A key that `blob.Parse` rejects has no `blob.Ref`, hence
no call in Go: `recv` of it answers `.err`, `fetch`/`stat` answer `.notExist`, `rm` answers `.ok`.
-/
namespace Pk.Files
open Pk Pk.Ref Pk.RefMap

/-- a directory: its entries in `sort.Strings(names)` order -/
inductive Tree where
  | nil
  | file (name : Bytes) (data : Bytes) (rest : Tree)
  | dir (name : Bytes) (sub : Tree) (rest : Tree)
deriving Repr, DecidableEq

/-- `.dat` -/
def dotDat : Bytes := [46, 100, 97, 116]

/-- enumerate.go:180 `skipDir`: "partition", "cache", "packed" -/
def skipDir (name : Bytes) : Bool :=
  name == [112, 97, 114, 116, 105, 116, 105, 111, 110] || name == [99, 97, 99, 104, 101] ||
  name == [112, 97, 99, 107, 101, 100]

/-- enumerate.go:192 `isHex` -/
def isHexB (c : Nat) : Bool := (48 ≤ c && c ≤ 57) || (97 ≤ c && c ≤ 102)

/-- enumerate.go:188 `isShardDir` -/
def isShardDir : Bytes → Bool
  | [a, b] => isHexB a && isHexB b
  | _ => false

/-- `strings.HasSuffix(s, suf)` + `strings.TrimSuffix(s, suf)`: `some` of the trimmed string -/
def stripSuffix (suf s : Bytes) : Option Bytes :=
  if suf.length ≤ s.length ∧ s.drop (s.length - suf.length) = suf then some (s.take (s.length - suf.length))
  else none

/-! ## paths (files.go:197-211) -/

/-- `Ref.Digest()` (ref.go:135): lower hex of the digest, last digit dropped for an odd `otherDigest` -/
def digest (r : Ref) : Bytes :=
  let h := hexEnc r.sum
  if r.odd then h.dropLast else h

/-- `blobFileBaseName` (files.go:197) -/
def baseName (r : Ref) : Bytes := r.name ++ 45 :: (digest r ++ dotDat)

/-- the digest as `blobDirectory` (files.go:201) slices it: padded with `____` when shorter than 4 -/
def padded (r : Ref) : Bytes :=
  let d := digest r
  if d.length < 4 then d ++ [95, 95, 95, 95] else d

/-- the four path components below the root: `HashName()/d[0:2]/d[2:4]/base` -/
structure Loc where
  hash : Bytes
  s1 : Bytes
  s2 : Bytes
  base : Bytes
deriving Repr, DecidableEq

/-- `blobPath` (files.go:209) of a parsed ref -/
def locOfRef (r : Ref) : Loc :=
  ⟨r.name, (padded r).take 2, ((padded r).drop 2).take 2, baseName r⟩

/-- `blob.Parse` then `blobPath`; `none` = the text is not a blobref at all -/
def locOf (t : Tbl) (k : Bytes) : Option Loc := (parse t k true).map locOfRef

/-! ## the file system operations the store uses, on one directory -/

def Tree.names : Tree → List Bytes
  | .nil => []
  | .file n _ rest => n :: rest.names
  | .dir n _ rest => n :: rest.names

/-- the sub-directory `a` (a regular file of that name: not a directory) -/
def Tree.getDir (a : Bytes) : Tree → Option Tree
  | .nil => none
  | .file n _ rest => if a = n then none else rest.getDir a
  | .dir n sub rest => if a = n then some sub else rest.getDir a

/-- the regular file `a`: Stat + Open + read all -/
def Tree.getFile (a : Bytes) : Tree → Option Bytes
  | .nil => none
  | .file n b rest => if a = n then some b else rest.getFile a
  | .dir n _ rest => if a = n then none else rest.getFile a

/-- one level of `MkdirAll`, then `f` inside that directory.  The entry list stays in name order.
(A regular file in the way makes MkdirAll fail: the tree is unchanged.) -/
def Tree.inDir (a : Bytes) (f : Tree → Tree) : Tree → Tree
  | .nil => .dir a (f .nil) .nil
  | .file n b rest =>
    if ltB a n then .dir a (f .nil) (.file n b rest)
    else if a = n then .file n b rest
    else .file n b (rest.inDir a f)
  | .dir n sub rest =>
    if ltB a n then .dir a (f .nil) (.dir n sub rest)
    else if a = n then .dir n (f sub) rest
    else .dir n sub (rest.inDir a f)

/-- `Rename(tmp, a)`: create or overwrite the regular file `a` (a directory in the way: unchanged) -/
def Tree.putFile (a : Bytes) (v : Bytes) : Tree → Tree
  | .nil => .file a v .nil
  | .file n b rest =>
    if ltB a n then .file a v (.file n b rest)
    else if a = n then .file n v rest
    else .file n b (rest.putFile a v)
  | .dir n sub rest =>
    if ltB a n then .file a v (.dir n sub rest)
    else if a = n then .dir n sub rest
    else .dir n sub (rest.putFile a v)

/-- `f` inside the existing directory `a`; nothing if there is none -/
def Tree.onDir (a : Bytes) (f : Tree → Tree) : Tree → Tree
  | .nil => .nil
  | .file n b rest => .file n b (rest.onDir a f)
  | .dir n sub rest => if a = n then .dir n (f sub) rest else .dir n sub (rest.onDir a f)

/-- `Remove(a)` of a regular file; nothing if there is none -/
def Tree.rmFile (a : Bytes) : Tree → Tree
  | .nil => .nil
  | .file n b rest => if a = n then rest else .file n b (rest.rmFile a)
  | .dir n sub rest => .dir n sub (rest.rmFile a)

/-- Stat/Open of `blobPath` (files.go:139, 217) -/
def Tree.lookup (root : Tree) (l : Loc) : Option Bytes :=
  match root.getDir l.hash with
  | none => none
  | some d0 =>
    match d0.getDir l.s1 with
    | none => none
    | some d1 =>
      match d1.getDir l.s2 with
      | none => none
      | some d2 => d2.getFile l.base

/-- ReceiveBlob (receive.go:42): `MkdirAll(blobDirectory)`, write a temp file, rename it to `blobPath` -/
def Tree.store (root : Tree) (l : Loc) (v : Bytes) : Tree :=
  root.inDir l.hash (Tree.inDir l.s1 (Tree.inDir l.s2 (Tree.putFile l.base v)))

/-- RemoveBlobs (files.go:180): `Remove(blobPath)`, "not exist" is harmless; directories stay -/
def Tree.remove (root : Tree) (l : Loc) : Tree :=
  root.onDir l.hash (Tree.onDir l.s1 (Tree.onDir l.s2 (Tree.rmFile l.base)))

/-! ## enumerate (enumerate.go:52 readBlobs) -/

/-- enumerate.go:116-121 `newBlobPrefix` -/
def childPrefix (pfx name : Bytes) : Bytes := if pfx = [] then name ++ [45] else pfx ++ name

/-- enumerate.go:122-127: the directory is not entered when its blob prefix, cut to the common
length with the cursor, is below the cursor cut to that length -/
def pruned (after np : Bytes) : Bool :=
  !after.isEmpty &&
    ltB (np.take (min after.length np.length)) (after.take (min after.length np.length))

/-- `readBlobs` on the entries of one directory (already sorted), from the entry where the loop stands.
Result: what was sent on the channel in order, and the shared countdown `*opts.remain` afterwards;
`none` = the call returned an error (ReadDirNames of a regular file whose name looks like a shard
directory).  A `return nil` on `*opts.remain == 0` makes every enclosing loop return at its next
iteration, which is what `some ([], rem)` with `rem = 0` propagates. -/
def walk (t : Tbl) (after : Bytes) : Bytes → Tree → Nat → Option (List (Bytes × Nat) × Nat)
  | _, .nil, rem => some ([], rem)
  | pfx, .file name b rest, rem =>
    if rem = 0 then some ([], rem) else                        -- :99
    if skipDir name then walk t after pfx rest rem else        -- :102
    if isShardDir name then none else                          -- :106 isDir without a stat, :131 fails
    match stripSuffix dotDat name with                         -- :137
    | none => walk t after pfx rest rem
    | some blobName =>
      if leB blobName after then walk t after pfx rest rem else    -- :148
      match parse t blobName true with                         -- :151
      | none => walk t after pfx rest rem
      | some r =>
        match walk t after pfx rest (rem - 1) with             -- :154 (*opts.remain)--
        | none => none
        | some (l, rem') => some ((toText r, b.length) :: l, rem')
  | pfx, .dir name sub rest, rem =>
    if rem = 0 then some ([], rem) else                        -- :99
    if skipDir name then walk t after pfx rest rem else        -- :102
    if pruned after (childPrefix pfx name) then walk t after pfx rest rem else   -- :122
    match walk t after (childPrefix pfx name) sub rem with     -- :131
    | none => none
    | some (l1, rem1) =>
      match walk t after pfx rest rem1 with
      | none => none
      | some (l2, rem2) => some (l1 ++ l2, rem2)

/-- EnumerateBlobs (enumerate.go:165).  `limit = 0` only logs a warning; the walk then returns at
its first loop iteration with nothing sent. -/
def enumerate (t : Tbl) (root : Tree) (after : Bytes) (limit : Nat) : Out :=
  match walk t after [] root limit with
  | none => .err
  | some (l, _) => .refs l

/-! ## the store -/

def filesImpl (t : Tbl) : Impl where
  σ := Tree
  init := .nil
  step := fun root op =>
    match op with
    | .recv k v =>
      match locOf t k with
      | none => (root, .err)                          -- not a blobref: out of scope
      | some l => (root.store l v, .sized v.length)   -- receive.go:102
    | .fetch k =>
      match locOf t k with
      | none => (root, .notExist)
      | some l =>
        match root.lookup l with
        | none => (root, .notExist)                   -- files.go:143
        | some b => (root, .bytes b)
    | .stat k =>
      match locOf t k with
      | none => (root, .notExist)
      | some l =>
        match root.lookup l with
        | none => (root, .notExist)                   -- files.go:226
        | some b => (root, .sized b.length)           -- files.go:222
    | .rm k =>
      match locOf t k with
      | none => (root, .ok)
      | some l => (root.remove l, .ok)                -- files.go:185-189
    | .enum after limit => (root, enumerate t root after limit)

end Pk.Files
