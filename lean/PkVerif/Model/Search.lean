import PkVerif.Base.Bytes
import PkVerif.Model.Ref
/-!
# Model of pkg/search/query.go (Query, planner, matcher) and the corpus enumerations  (C08)

`World` is what the corpus knows (pkg/index/corpus.go): blob metas, attribute claims in the order
they were received (= date order), deleted permanodes, file infos, directory children.
`Cons`/`Perm`/`FileC`/`DirC` mirror the Go structs `Constraint`/`PermanodeConstraint`
(+`RelationConstraint`)/`FileConstraint`/`DirConstraint`: several fields of one struct may be set
at once, a Go `nil` pointer is the constructor `nil`.

Two readings of a constraint live here:

* `matchesC …` – the DOCUMENTED meaning (the spec): pure, total, no state, no errors;
* `matchC …`   – the matcher the code compiles (`genMatcher` and the `blobMatches` methods), with
  its scratch slice `search.ss` as explicit state (`St`) and its errors (`Err`), and around it the
  planner (`pickSource`), the candidate enumerations (`candidates`), the callback of `Query`, the
  post-sort and the truncation (`query`).  Defects of the code are modelled as they are.

Not modelled: `Continue`/`Around` (C09), location / EXIF / image / media
constraints, `ValueMatchesFloat`, `Regexp`, `CaseInsensitive` on non-ASCII strings, `InLast`, `IsImage`, claims dated in
the future, deleted claims, more than two signers, the expression parser.
-/
namespace Pk.Search
open Pk

abbrev Str := Bytes
abbrev Ref := Bytes
/-- unix seconds; `0` is Go's zero `time.Time` / a nil `*types.Time3339` -/
abbrev Time := Nat

/-! ## Atoms shared by the spec and the matcher -/

/-- IntConstraint (query.go:500) -/
structure IntC where
  min : Int
  max : Int
  zeroMin : Bool
  zeroMax : Bool
  eq : Option Int
deriving DecidableEq, Repr

def IntC.hasMin (c : IntC) : Bool := c.min != 0 || c.zeroMin
def IntC.hasMax (c : IntC) : Bool := c.max != 0 || c.zeroMax

/-- IntConstraint.checkValid (query.go:514) -/
def IntC.valid (c : IntC) : Bool :=
  !(c.zeroMin && c.min != 0) && !(c.zeroMax && c.max != 0) &&
  !(c.hasMax && c.hasMin && decide (c.min > c.max))

/-- IntConstraint.intMatches (query.go:530) -/
def IntC.intMatches (c : IntC) (v : Int) : Bool :=
  match c.eq with
  | some e => v == e
  | none => !(c.hasMin && decide (v < c.min)) && !(c.hasMax && decide (v > c.max))

def optInt (c : Option IntC) (v : Int) : Bool :=
  match c with
  | none => true
  | some c => c.intMatches v

def optIntValid (c : Option IntC) : Bool :=
  match c with
  | none => true
  | some c => c.valid

/-- strings.Contains -/
def isInfix (p : Bytes) : Bytes → Bool
  | [] => p.isEmpty
  | c :: s => p.isPrefixOf (c :: s) || isInfix p s

/-- ASCII lower case: what strings.EqualFold / strutil.ContainsFold / HasPrefixFold / HasSuffixFold
compare by on ASCII strings -/
def lowerB (s : Str) : Str := s.map (fun c => if 65 ≤ c && c ≤ 90 then c + 32 else c)

/-- StringConstraint (query.go:616) without Regexp; CaseInsensitive for ASCII strings -/
structure StrC where
  empty : Bool
  equals : Str
  contains : Str
  hasPrefix : Str
  hasSuffix : Str
  byteLen : Option IntC
  caseInsensitive : Bool
deriving DecidableEq, Repr

/-- StringConstraint.stringMatches (query.go:656) -/
def StrC.stringMatches (c : StrC) (s : Str) : Bool :=
  let f : Str → Str := if c.caseInsensitive then lowerB else id
  !(c.empty && !s.isEmpty) &&
  optInt c.byteLen s.length &&
  (c.equals.isEmpty || f s == f c.equals) &&
  (c.contains.isEmpty || isInfix (f c.contains) (f s)) &&
  (c.hasPrefix.isEmpty || (f c.hasPrefix).isPrefixOf (f s)) &&
  (c.hasSuffix.isEmpty || (f c.hasSuffix).isSuffixOf (f s))

def optStr (c : Option StrC) (s : Str) : Bool :=
  match c with
  | none => true
  | some c => c.stringMatches s

/-- TimeConstraint (query.go:689) without InLast; `0` = unset -/
structure TimeC where
  before : Time
  after : Time
deriving DecidableEq, Repr

/-- TimeConstraint.timeMatches (query.go:2058) -/
def TimeC.timeMatches (c : TimeC) (t : Time) : Bool :=
  t != 0 && (c.before == 0 || decide (t < c.before)) && (c.after == 0 || decide (c.after ≤ t))

def optTime (c : Option TimeC) (t : Time) : Bool :=
  match c with
  | none => true
  | some c => c.timeMatches t

/-- strconv.ParseInt(s, 10, 64): optional sign, then one or more decimal digits, in range -/
def parseDigits : Bytes → Nat → Option Nat
  | [], acc => some acc
  | c :: s, acc => if 48 ≤ c && c ≤ 57 then parseDigits s (acc * 10 + (c - 48)) else none

def parseInt64 (s : Bytes) : Option Int :=
  let body (neg : Bool) (d : Bytes) : Option Int :=
    if d.isEmpty then none else
    match parseDigits d 0 with
    | none => none
    | some n =>
      if neg then (if n ≤ 9223372036854775808 then some (-(n : Int)) else none)
      else (if n ≤ 9223372036854775807 then some (n : Int) else none)
  match s with
  | 45 :: d => body true d
  | 43 :: d => body false d
  | d => body false d

/-! ## Blob refs as text -/

/-- the parts of `pkg/blob/ref.go` the search code uses, over the text form of refs: `blob.Parse`
succeeds (C20 model, table from the source) -/
def refOK (t : Pk.Ref.Tbl) (s : Str) : Bool := (Pk.Ref.parse t s true).isSome

/-- `Ref.HasPrefix(s)` on the refs of a world (supported hashes): `s` is a prefix of the text form
that reaches past `name-`, i.e. has at least one digest character (ref.go:532; C20_hasPrefix_iff) -/
def hasPrefix (r : Ref) (s : Str) : Bool :=
  s.isPrefixOf r && decide ((r.takeWhile (fun c => c != 45)).length + 1 < s.length)

/-! ## The constraint language -/

inductive Op where
  | none | and | or | xor | not
deriving DecidableEq, Repr

/-- the non-pointer fields of `Constraint` (+ BlobSize) -/
structure Flat where
  anything : Bool
  camliType : Str
  anyCamliType : Bool
  pfx : Str
  blobSize : Option IntC
deriving DecidableEq, Repr

/-- the leaf fields of `PermanodeConstraint` -/
structure PFlat where
  /-- `At` as unix seconds; `0`: the zero time, i.e. now -/
  atT : Time
  attr : Str
  skipHidden : Bool
  numValue : Option IntC
  valueAll : Bool
  value : Str
  valueMatches : Option StrC
  valueMatchesInt : Option IntC
  modTime : Option TimeC
  time : Option TimeC
deriving DecidableEq, Repr

/-- `RelationConstraint` without its `Any`/`All` -/
structure RFlat where
  relation : Str
  edgeType : Str
deriving DecidableEq, Repr

structure FFlat where
  size : Option IntC
  name : Option StrC
  mime : Option StrC
  time : Option TimeC
  modTime : Option TimeC
  wholeRef : Str
deriving DecidableEq, Repr

structure DFlat where
  name : Option StrC
  pfx : Str
  topFileCount : Option IntC
deriving DecidableEq, Repr

mutual
/-- `*Constraint`; `op ≠ none` ⇔ `Logical != nil` (then `a`, `b` are `Logical.A`, `Logical.B`) -/
inductive Cons where
  | nil : Cons
  | mk (op : Op) (a b : Cons) (f : Flat) (pn : Perm) (fl : FileC) (dr : DirC) : Cons
/-- `*PermanodeConstraint`; `rel = some _` ⇔ `Relation != nil` (then `relAny`, `relAll`) -/
inductive Perm where
  | nil : Perm
  | mk (p : PFlat) (inSet : Cons) (rel : Option RFlat) (relAny relAll : Cons) : Perm
/-- `*FileConstraint` -/
inductive FileC where
  | nil : FileC
  | mk (f : FFlat) (parentDir : DirC) : FileC
/-- `*DirConstraint` -/
inductive DirC where
  | nil : DirC
  | mk (d : DFlat) (parentDir : DirC) (rcontains contains : Cons) : DirC
end

def Cons.isNil : Cons → Bool
  | .nil => true
  | _ => false
def Perm.isNil : Perm → Bool
  | .nil => true
  | _ => false
def FileC.isNil : FileC → Bool
  | .nil => true
  | _ => false
def DirC.isNil : DirC → Bool
  | .nil => true
  | _ => false

/-! ## The world -/

structure BlobMeta where
  ref : Ref
  camliType : Str
  size : Nat
deriving DecidableEq, Repr

inductive CKind where
  | set | add | del
  /-- a delete claim whose target is the permanode: it is in `PermanodeMeta.Claims` too (it counts
  for the modtime and makes the permanode known to the corpus) but changes no attribute -/
  | delete
deriving DecidableEq, Repr

/-- a claim (camtypes.Claim) -/
structure Claim where
  pn : Ref
  kind : CKind
  attr : Str
  value : Str
  date : Time
  /-- signed by someone other than the owner of the search handler -/
  other : Bool := false
deriving DecidableEq, Repr

/-- camtypes.FileInfo of a file or directory (`time = 0`: nil) -/
structure FileInfo where
  ref : Ref
  name : Str
  size : Nat
  mime : Str
  time : Time
  modTime : Time
  wholeRef : Str
deriving DecidableEq, Repr

structure World where
  /-- `Corpus.blobs`, in the order an unsorted enumeration visits them (Go leaves it to map order) -/
  blobs : List BlobMeta
  /-- all attribute claims in the order received; per permanode this is `PermanodeMeta.Claims` -/
  claims : List Claim
  /-- permanodes with a (live) delete claim: `Corpus.IsDeleted` -/
  deleted : List Ref
  /-- `Corpus.PermanodeTime` where it is known (declared by the harness, checked against the corpus) -/
  ctime : List (Ref × Time)
  /-- `Corpus.files` -/
  files : List FileInfo
  /-- `Corpus.dirChildren` -/
  dirs : List (Ref × List Ref)
deriving Repr

def sPermanode : Str := [112, 101, 114, 109, 97, 110, 111, 100, 101]
def sFile : Str := [102, 105, 108, 101]
def sDirectory : Str := [100, 105, 114, 101, 99, 116, 111, 114, 121]
def sCamliNodeType : Str := [99, 97, 109, 108, 105, 78, 111, 100, 101, 84, 121, 112, 101]
def sCamliDefVis : Str := [99, 97, 109, 108, 105, 68, 101, 102, 86, 105, 115]
def sHide : Str := [104, 105, 100, 101]
def sVenue : Str := [102, 111, 117, 114, 115, 113, 117, 97, 114, 101, 46, 99, 111, 109, 58, 118, 101, 110, 117, 101]
def sCamliMember : Str := [99, 97, 109, 108, 105, 77, 101, 109, 98, 101, 114]
def sCamliPathColon : Str := [99, 97, 109, 108, 105, 80, 97, 116, 104, 58]
def sParent : Str := [112, 97, 114, 101, 110, 116]
def sChild : Str := [99, 104, 105, 108, 100]

/-- Corpus.GetBlobMeta (corpus.go:1122): `none` = os.ErrNotExist -/
def World.getBlob (w : World) (r : Ref) : Option BlobMeta := w.blobs.find? (fun b => b.ref == r)

/-- the fold of cacheAttrClaim / AppendPermanodeAttrValues (corpus.go:168, :1324) over one claim -/
def applyClaim (vals : List Str) (c : Claim) : List Str :=
  match c.kind with
  | .set => [c.value]
  | .add => vals ++ [c.value]
  | .del => if c.value.isEmpty then [] else vals.filter (fun v => v != c.value)
  | .delete => vals

/-- a claim counts at time `at` (`0`: now; the worlds have no claims dated in the future):
`!cl.Date.After(at)` -/
def inEffect (atT : Time) (c : Claim) : Bool := atT == 0 || decide (c.date ≤ atT)

/-- Corpus.AppendPermanodeAttrValues(nil, pn, attr, at, owner): the values of attr at time `at`
(`0`: now), as the owner's claims make them -/
def World.attrVals (w : World) (pn : Ref) (attr : Str) (atT : Time) : List Str :=
  (w.claims.filter (fun c => c.pn == pn && c.attr == attr && !c.other && inEffect atT c)).foldl applyClaim []

/-- the same over the claims of all signers (`PermanodeMeta.attr`) -/
def World.attrValsAll (w : World) (pn : Ref) (attr : Str) (atT : Time) : List Str :=
  (w.claims.filter (fun c => c.pn == pn && c.attr == attr && inEffect atT c)).foldl applyClaim []

/-- Corpus.PermanodeAttrValue: the first value or "" -/
def World.attrVal (w : World) (pn : Ref) (attr : Str) (atT : Time) : Str := (w.attrVals pn attr atT).headD []

/-- `pn ∈ Corpus.permanodes`: some claim about it was received -/
def World.hasClaims (w : World) (pn : Ref) : Bool := w.claims.any (fun c => c.pn == pn)

/-- Corpus.PermanodeModtime (corpus.go:1234): the latest claim date (`0`: not ok) -/
def World.modTime (w : World) (pn : Ref) : Time :=
  (w.claims.filter (fun c => c.pn == pn)).foldl (fun t c => if c.date > t then c.date else t) 0

/-- Corpus.PermanodeAnyTime (corpus.go:1196): PermanodeTime, else the modtime (`0`: not ok) -/
def World.anyTime (w : World) (pn : Ref) : Time :=
  match w.ctime.find? (fun p => p.1 == pn) with
  | some p => if p.2 != 0 then p.2 else w.modTime pn
  | none => w.modTime pn

def World.isDeleted (w : World) (pn : Ref) : Bool := w.deleted.contains pn

/-- Corpus.PermanodeHasAttrValue (corpus.go:1522): asked without a signer, it looks at the claims
of everybody -/
def World.hasAttrValue (w : World) (pn : Ref) (atT : Time) (attr val : Str) : Bool :=
  (w.attrValsAll pn attr atT).contains val

/-- Corpus.GetFileInfo -/
def World.fileInfo (w : World) (r : Ref) : Option FileInfo := w.files.find? (fun f => f.ref == r)

/-- Corpus.GetDirChildren (no entry: no children) -/
def World.children (w : World) (r : Ref) : List Ref :=
  match w.dirs.find? (fun d => d.1 == r) with
  | some d => d.2
  | none => []

/-- Corpus.GetParentDirs: the directories that list r -/
def World.parents (w : World) (r : Ref) : List Ref :=
  (w.dirs.filter (fun d => d.2.contains r)).map (·.1)

/-- RelationConstraint.matchesAttr (query.go:846) -/
def RFlat.matchesAttr (r : RFlat) (attr : Str) : Bool :=
  if !r.edgeType.isEmpty then attr == r.edgeType
  else attr == sCamliMember || sCamliPathColon.isPrefixOf attr

/-! ## The documented meaning (spec) -/

section Spec
variable (t : Pk.Ref.Tbl) (w : World)

/-- the nodes a relation reaches from `pn` at time `at`: for "child" the values of the edge
attributes that are refs, for "parent" the permanodes that have `pn` as such a value -/
def related (r : RFlat) (pn : Ref) (atT : Time) : List Ref :=
  if r.relation == sChild then
    ((w.claims.filter (fun c => c.pn == pn && inEffect atT c && r.matchesAttr c.attr && refOK t c.value &&
        w.hasAttrValue pn atT c.attr c.value)).map (·.value)).eraseDups
  else if r.relation == sParent then
    ((w.claims.filter (fun c => c.value == pn && refOK t c.value && inEffect atT c && r.matchesAttr c.attr &&
        w.hasAttrValue c.pn atT c.attr c.value)).map (·.pn)).eraseDups
  else []

/-- some blob below directory `dir` (children, children of child directories, …) satisfies `p` -/
def descAny (p : BlobMeta → Bool) : Nat → Ref → Bool
  | 0, _ => false
  | fuel + 1, dir =>
    (w.children dir).any (fun c =>
      match w.getBlob c with
      | none => false
      | some cb => p cb || (cb.camliType == sDirectory && descAny p fuel c))

/-- value part of a permanode constraint on one attribute value (without ValueInSet) -/
def PFlat.valueOK (p : PFlat) (v : Str) : Bool :=
  (p.value.isEmpty || p.value == v) &&
  optStr p.valueMatches v &&
  (match p.valueMatchesInt with
   | none => true
   | some ic => match parseInt64 v with
     | none => false
     | some i => ic.intMatches i)

def PFlat.hasValueConstraint (p : PFlat) (inSetNil : Bool) : Bool :=
  !p.value.isEmpty || p.valueMatches.isSome || p.valueMatchesInt.isSome || !inSetNil

mutual
/-- **the documented meaning of a constraint**: a blob matches iff it matches the predicates of
all non-zero fields; the zero constraint (and `nil`) matches nothing -/
def matchesC : Cons → BlobMeta → Bool
  | .nil, _ => false
  | .mk op a b f pn fl dr, bm =>
    (op != .none || f.anything || !f.camliType.isEmpty || f.anyCamliType || !pn.isNil || !fl.isNil ||
      !dr.isNil || f.blobSize.isSome || !f.pfx.isEmpty) &&
    (match op with
     | .none => true
     | .and => matchesC a bm && matchesC b bm
     | .or => matchesC a bm || matchesC b bm
     | .xor => matchesC a bm != matchesC b bm
     | .not => !matchesC a bm) &&
    (f.camliType.isEmpty || bm.camliType == f.camliType) &&
    (!f.anyCamliType || !bm.camliType.isEmpty) &&
    (pn.isNil || matchesP pn bm) &&
    (fl.isNil || matchesF fl bm) &&
    (dr.isNil || matchesD dr bm) &&
    (!f.blobSize.isSome || optInt f.blobSize bm.size) &&
    (f.pfx.isEmpty || hasPrefix bm.ref f.pfx)
def matchesP : Perm → BlobMeta → Bool
  | .nil, _ => false
  | .mk p inSet rel relAny relAll, bm =>
    bm.camliType == sPermanode &&
    (p.attr.isEmpty ||
      (let vals := w.attrVals bm.ref p.attr p.atT
       optInt p.numValue vals.length &&
       (!p.hasValueConstraint inSet.isNil ||
         (let good := vals.filter (fun v => p.valueOK v &&
            (inSet.isNil || (refOK t v && match w.getBlob v with
              | none => false
              | some vb => matchesC inSet vb)))
          good.length != 0 && (!p.valueAll || good.length == vals.length))))) &&
    (!p.skipHidden || (w.attrVal bm.ref sCamliDefVis p.atT != sHide && w.attrVal bm.ref sCamliNodeType p.atT != sVenue)) &&
    optTime p.modTime (w.modTime bm.ref) &&
    optTime p.time (w.anyTime bm.ref) &&
    (match rel with
     | none => true
     | some r =>
       let rs := related t w r bm.ref p.atT
       if !relAny.isNil then
         rs.any (fun x => match w.getBlob x with
           | none => false
           | some xb => matchesC relAny xb)
       else
         !rs.isEmpty && rs.all (fun x => match w.getBlob x with
           | none => false
           | some xb => matchesC relAll xb))
def matchesF : FileC → BlobMeta → Bool
  | .nil, _ => false
  | .mk f parentDir, bm =>
    bm.camliType == sFile &&
    (match w.fileInfo bm.ref with
     | none => false
     | some fi =>
       optInt f.size fi.size && optStr f.name fi.name && optStr f.mime fi.mime &&
       optTime f.time fi.time && optTime f.modTime fi.modTime &&
       (parentDir.isNil || (w.parents bm.ref).any (fun p => match w.getBlob p with
          | none => false
          | some pb => matchesD parentDir pb)) &&
       (!refOK t f.wholeRef || fi.wholeRef == f.wholeRef))
def matchesD : DirC → BlobMeta → Bool
  | .nil, _ => false
  | .mk d parentDir rc cc, bm =>
    bm.camliType == sDirectory &&
    (d.pfx.isEmpty || hasPrefix bm.ref d.pfx) &&
    (match w.fileInfo bm.ref with
     | none => false
     | some fi =>
       optStr d.name fi.name &&
       (parentDir.isNil || (w.parents bm.ref).any (fun p => match w.getBlob p with
          | none => false
          | some pb => matchesD parentDir pb)) &&
       optInt d.topFileCount (w.children bm.ref).length &&
       (if !cc.isNil then
          (w.children bm.ref).any (fun c => match w.getBlob c with
            | none => false
            | some cb => matchesC cc cb)
        else if !rc.isNil then descAny w (fun cb => matchesC rc cb) (w.blobs.length + 1) bm.ref
        else true))
end

end Spec

/-! ## The matcher the code compiles -/

/-- the scratch slice `search.ss` (query.go:949): every backing array it ever had (each at its
full capacity; `cur` is the one `s.ss` points to now, its length is `cap(s.ss)`).  A `vals` slice
held by a caller is a view `(array, len)` into one of them. -/
structure St where
  arrs : List (List Str)
  cur : Nat
deriving DecidableEq, Repr

def St.init : St := ⟨[[]], 0⟩

def St.cap (s : St) : Nat := (s.arrs.getD s.cur []).length

/-- `s.ss = corpus.AppendPermanodeAttrValues(s.ss[:0], …)` on the cache path: one
`append(dst, vals...)` (corpus.go:1343).  In place when it fits, else a new array of capacity
`max(n, 2·cap)` (runtime.growslice for small slices; size classes are exact up to 16 strings). -/
def St.setVals (s : St) (vals : List Str) : St × (Nat × Nat) :=
  let n := vals.length
  if n == 0 then (s, (s.cur, 0))
  else if n ≤ s.cap then
    (⟨s.arrs.set s.cur (vals ++ (s.arrs.getD s.cur []).drop n), s.cur⟩, (s.cur, n))
  else
    let newcap := if n > 2 * s.cap then n else 2 * s.cap
    (⟨s.arrs ++ [vals ++ List.replicate (newcap - n) []], s.arrs.length⟩, (s.arrs.length, n))

/-- `vals[i]` of a view -/
def St.read (s : St) (view : Nat × Nat) (i : Nat) : Str := (s.arrs.getD view.1 []).getD i []

/-- `dst` while AppendPermanodeAttrValues folds claims into it (corpus.go:1349-1376): the array it
lives in and its length -/
structure Dst where
  id : Nat
  len : Nat

def St.arr (s : St) (id : Nat) : List Str := s.arrs.getD id []

/-- `dst = append(dst, v)`: in place while there is room, else a new array of twice the capacity
(one element: capacity 1) with a copy of dst -/
def St.push (s : St) (d : Dst) (v : Str) : St × Dst :=
  let a := s.arr d.id
  if d.len < a.length then (⟨s.arrs.set d.id (a.set d.len v), s.cur⟩, ⟨d.id, d.len + 1⟩)
  else
    let newcap := if a.length == 0 then 1 else 2 * a.length
    (⟨s.arrs ++ [a.take d.len ++ [v] ++ List.replicate (newcap - d.len - 1) []], s.cur⟩, ⟨s.arrs.length, d.len + 1⟩)

/-- the loop that deletes one value from dst in place (corpus.go:1360-1367): each hit moves the
rest of dst one to the left (the old last element stays behind it) -/
def delLoop (val : Str) : Nat → Nat → Nat → List Str → List Str × Nat
  | 0, _, len, a => (a, len)
  | fuel + 1, i, len, a =>
    if i ≥ len then (a, len)
    else if a.getD i [] == val then
      delLoop val fuel i (len - 1) (a.take i ++ (a.drop (i + 1)).take (len - i - 1) ++ a.drop (len - 1))
    else delLoop val fuel (i + 1) len a

/-- one claim of the fold of AppendPermanodeAttrValues, on the scratch array -/
def St.foldClaim (sd : St × Dst) (c : Claim) : St × Dst :=
  let (s, d) := sd
  match c.kind with
  | .set => s.push ⟨d.id, 0⟩ c.value
  | .add => s.push d c.value
  | .del =>
    if c.value.isEmpty then (s, ⟨d.id, 0⟩)
    else
      let (a, len) := delLoop c.value (2 * d.len + 1) 0 d.len (s.arr d.id)
      (⟨s.arrs.set d.id a, s.cur⟩, ⟨d.id, len⟩)
  | .delete => (s, d)

/-- `s.ss = corpus.AppendPermanodeAttrValues(s.ss[:0], …)` when the attribute cache is not valid for
the time asked (claims after it exist): the claims are folded into `s.ss[:0]` one by one -/
def St.foldVals (s : St) (cls : List Claim) : St × (Nat × Nat) :=
  let (s1, d) := cls.foldl St.foldClaim (s, ⟨s.cur, 0⟩)
  (⟨s1.arrs, d.id⟩, (d.id, d.len))

inductive Err where
  /-- `Invalid SearchQuery` -/
  | invalid
  /-- RelationConstraint.match: blobMeta of the related node failed (query.go:912) -/
  | relNotExist
  /-- "[Recursive]Contains constraint should have a *FileConstraint, …" (query.go:2181) -/
  | containsMisuse
  /-- "no ctime or modtime found for …" (query.go:1145) -/
  | noTime
  /-- "can only sort by ctime when all results are permanodes" (query.go:1136) -/
  | ctimeNonPermanode
  /-- "TODO: unsupported sort+query combination." (query.go:1163) -/
  | unsupportedSort
  /-- a nil pointer dereference (unreachable after checkValid) -/
  | nilDeref
deriving DecidableEq, Repr

/-- `(match, err)` of a matcher call together with the scratch state it leaves -/
abbrev R := Except Err (Bool × St)

/-- one more condition of `allMustMatch.blobMatches` (query.go:1507): evaluated only while
everything before matched -/
def andThen (r : R) (k : St → R) : R :=
  match r with
  | .ok (true, st) => k st
  | other => other

/-- `addCond` of genMatcher (query.go:1530) for a field that is only sometimes set -/
def cond (present : Bool) (k : St → R) (r : R) : R := if present then andThen r k else r

/-- the closure LogicalConstraint.matcher returns (query.go:1615) -/
def logical (op : Op) (ma mb : St → R) (st : St) : R :=
  match ma st with
  | .error e => .error e
  | .ok (av, st1) =>
    match op with
    | .not => .ok (!av, st1)
    | .and => if !av then .ok (false, st1) else mb st1
    | .or => if av then .ok (true, st1) else mb st1
    | .xor =>
      (match mb st1 with
       | .error e => .error e
       | .ok (bv, st2) => .ok (av != bv, st2))
    | .none => .error .nilDeref

/-- the loop of permanodeMatchesAttrVals (query.go:1853) over the view `vals`: `vals[i]` is read
from the scratch array when its turn comes – after the matcher calls of earlier values may have
overwritten it.  Returns the number of matching values. -/
def valsLoop (valM : Str → St → R) (view : Nat × Nat) : Nat → Nat → Nat → St → Except Err (Nat × St)
  | 0, _, nmatch, st => .ok (nmatch, st)
  | k + 1, i, nmatch, st =>
    match valM (st.read view i) st with
    | .error e => .error e
    | .ok (m, st1) => valsLoop valM view k (i + 1) (if m then nmatch + 1 else nmatch) st1

/-- hasMatchingChild / hasMatchingParent / the ParentDir loop of FileConstraint (query.go:2232,
:2210, :1952): the first existing blob of the list that matches.  (The real loops range over a Go
map; the order only matters when an element yields an error.) -/
def anyOf (w : World) (m : BlobMeta → St → R) : List Ref → St → R
  | [], st => .ok (false, st)
  | r :: rs, st =>
    match w.getBlob r with
    | none => anyOf w m rs st
    | some b =>
      match m b st with
      | .error e => .error e
      | .ok (true, st1) => .ok (true, st1)
      | .ok (false, st1) => anyOf w m rs st1

/-- the state of the loop of RelationConstraint.match: `checked` is `permanodesChecked` (a node
enters it when the next claim is looked at – `lastChecked` – which no observation can tell from
entering it at once) -/
structure RelAcc where
  anyGood : Bool
  anyBad : Bool
  checked : List Ref

/-- relationRef (query.go:868, :871): the related node a claim names -/
def relTarget (t : Pk.Ref.Tbl) (child : Bool) (cl : Claim) : Option Ref :=
  if child then (if refOK t cl.value then some cl.value else none) else some cl.pn

/-- RelationConstraint.match's callback over the claims `foreachClaim` yields (query.go:887-933);
`child = true`: relation "child" (claims of pn, related node = the value), else "parent" (claims
whose value is pn, related node = the claim's permanode) -/
def relLoop (t : Pk.Ref.Tbl) (w : World) (r : RFlat) (atT : Time) (child isAny : Bool) (m : BlobMeta → St → R) :
    List Claim → RelAcc → St → Except Err (RelAcc × St)
  | [], acc, st => .ok (acc, st)
  | cl :: cls, acc, st =>
    match (if r.matchesAttr cl.attr then relTarget t child cl else none) with
    | none => relLoop t w r atT child isAny m cls acc st
    | some rel =>
      if acc.checked.contains rel || !w.hasAttrValue cl.pn atT cl.attr cl.value then
        relLoop t w r atT child isAny m cls acc st
      else
      match w.getBlob rel with
      | none => .error .relNotExist
      | some rb =>
        match m rb st with
        | .error e => .error e
        | .ok (true, st1) =>
          if isAny then .ok ({ acc with anyGood := true }, st1)
          else relLoop t w r atT child isAny m cls { acc with anyGood := true, checked := rel :: acc.checked } st1
        | .ok (false, st1) =>
          if !isAny then .ok ({ acc with anyBad := true }, st1)
          else relLoop t w r atT child isAny m cls { acc with anyBad := true, checked := rel :: acc.checked } st1

/-- RelationConstraint.match (query.go:854) -/
def relMatch (t : Pk.Ref.Tbl) (w : World) (r : RFlat) (atT : Time) (isAny : Bool) (m : BlobMeta → St → R)
    (pn : Ref) (st : St) : R :=
  let child := r.relation == sChild
  -- ForeachClaim: pm.Claims; ForeachClaimBack: claimBack[pn] (claims whose value parses to pn);
  -- both skip the claims dated after `at`
  let cls := if child then w.claims.filter (fun c => c.pn == pn && inEffect atT c)
             else w.claims.filter (fun c => c.value == pn && refOK t c.value && inEffect atT c)
  match relLoop t w r atT child isAny m cls ⟨false, false, []⟩ st with
  | .error e => .error e
  | .ok (acc, st1) => if isAny then .ok (acc.anyGood, st1) else .ok (acc.anyGood && !acc.anyBad, st1)

/-- the part of DirConstraint.blobMatches after the checks that do not concern children
(query.go:2155-2205), with the recursion of RecursiveContains: `self` is the WHOLE
`c.blobMatches` (query.go:2194), which the caller ties by fuel -/
def dirTail (w : World) (topFileCount : Option IntC) (cc? : Option (Except Err (BlobMeta → St → R)))
    (recursive : Bool) (self : BlobMeta → St → R) (bm : BlobMeta) (st : St) : R :=
  let children := w.children bm.ref
  if !optInt topFileCount children.length then .ok (false, st) else
  match cc? with
  | none => .ok (true, st)
  | some (.error e) => .error e
  | some (.ok ccM) =>
    match anyOf w ccM children st with
    | .error e => .error e
    | .ok (true, st1) => .ok (true, st1)
    | .ok (false, st1) =>
      if !recursive then .ok (false, st1)
      else anyOf w self children st1

/-- DirConstraint.blobMatches (query.go:2112) given the matchers of its sub-constraints -/
def dirBody (w : World) (d : DFlat) (parentM : Option (BlobMeta → St → R))
    (cc? : Option (Except Err (BlobMeta → St → R))) (recursive : Bool) : Nat → BlobMeta → St → R
  | 0, _, st => .ok (false, st)
  | fuel + 1, bm, st =>
    if bm.camliType != sDirectory then .ok (false, st) else
    if !d.pfx.isEmpty && !hasPrefix bm.ref d.pfx then .ok (false, st) else
    match w.fileInfo bm.ref with
    | none => .ok (false, st)
    | some fi =>
      if !optStr d.name fi.name then .ok (false, st) else
      let r1 : R := match parentM with
        | none => .ok (true, st)
        | some pm => anyOf w pm (w.parents bm.ref) st
      andThen r1 (fun st1 => dirTail w d.topFileCount cc? recursive (dirBody w d parentM cc? recursive fuel) bm st1)

/-- Constraint.isFileOrDirConstraint (query.go:2089) -/
def isFileOrDir : Cons → Bool
  | .nil => false
  | .mk op a b _ _ fl dr =>
    match op with
    | .none => !fl.isNil || !dr.isNil
    | .not => isFileOrDir a
    | _ => isFileOrDir a && isFileOrDir b

/-- how a `Contains` / `RecursiveContains` constraint is applied to a child (query.go:2173-2184):
only its BlobRefPrefix when it has one; an error unless isFileOrDirConstraint; else
fileOrDirOrLogicalMatches (query.go:2099): the File field, else the Dir field, else the Logical
field – the other fields are not looked at -/
def ccMatcher (op : Op) (f : Flat) (flNil drNil isFOD : Bool) (mF mD mA mB : BlobMeta → St → R) :
    Except Err (BlobMeta → St → R) :=
  if !f.pfx.isEmpty then .ok (fun cb s => .ok (hasPrefix cb.ref f.pfx, s))
  else if !isFOD then .error .containsMisuse
  else .ok (fun cb s =>
    if !flNil then mF cb s
    else if !drNil then mD cb s
    else if op != .none then logical op (mA cb) (mB cb) s
    else .ok (false, s))

/-- `s.ss = corpus.AppendPermanodeAttrValues(s.ss[:0], pn, attr, at, owner)` (query.go:1733): from
the attribute cache when no claim of the permanode is dated after `at` (valuesAtSigner,
corpus.go:282), else by folding the owner's claims up to `at`. Returns the view `vals = s.ss`. -/
def fetchVals (w : World) (st : St) (pn : Ref) (attr : Str) (atT : Time) : St × (Nat × Nat) :=
  if atT == 0 || decide (w.modTime pn ≤ atT) then st.setVals (w.attrVals pn attr atT)
  else st.foldVals (w.claims.filter (fun c => c.pn == pn && c.attr == attr && !c.other && inEffect atT c))

section Impl
variable (t : Pk.Ref.Tbl) (w : World)

mutual
/-- Constraint.genMatcher (query.go:1526): the conditions in the order they are added -/
def matchC : Cons → BlobMeta → St → R
  | .nil, _, _ => .error .nilDeref
  | .mk op a b f pn fl dr, bm, st =>
    if !(op != .none || f.anything || !f.camliType.isEmpty || f.anyCamliType || !pn.isNil || !fl.isNil ||
      !dr.isNil || f.blobSize.isSome || !f.pfx.isEmpty) then .ok (false, st) else
    cond (!f.pfx.isEmpty) (fun s => .ok (hasPrefix bm.ref f.pfx, s)) <|
    cond f.blobSize.isSome (fun s => .ok (optInt f.blobSize bm.size, s)) <|
    cond (!dr.isNil) (fun s => matchD dr bm s) <|
    cond (!fl.isNil) (fun s => matchF fl bm s) <|
    cond (!pn.isNil) (fun s => matchP pn bm s) <|
    cond f.anyCamliType (fun s => .ok (!bm.camliType.isEmpty, s)) <|
    cond (!f.camliType.isEmpty) (fun s => .ok (bm.camliType == f.camliType, s)) <|
    cond (op != .none) (logical op (fun s => matchC a bm s) (fun s => matchC b bm s)) <|
    .ok (true, st)
/-- PermanodeConstraint.blobMatches (query.go:1706) -/
def matchP : Perm → BlobMeta → St → R
  | .nil, _, _ => .error .nilDeref
  | .mk p inSet rel relAny relAll, bm, st =>
    if bm.camliType != sPermanode then .ok (false, st) else
    let r1 : R :=
      if p.attr.isEmpty then .ok (true, st) else
      -- s.ss = AppendPermanodeAttrValues(s.ss[:0], …); vals = s.ss
      let (st0, view) := fetchVals w st bm.ref p.attr p.atT
      -- permanodeMatchesAttrVals
      if !optInt p.numValue view.2 then .ok (false, st0) else
      if !p.hasValueConstraint inSet.isNil then .ok (true, st0) else
      -- permanodeMatchesAttrVal
      let valM : Str → St → R := fun v s =>
        if !p.valueOK v then .ok (false, s) else
        if inSet.isNil then .ok (true, s) else
        if !refOK t v then .ok (false, s) else
        match w.getBlob v with
        | none => .ok (false, s)
        | some vb => matchC inSet vb s
      match valsLoop valM view view.2 0 0 st0 with
      | .error e => .error e
      | .ok (nmatch, st1) =>
        if nmatch == 0 then .ok (false, st1)
        else if p.valueAll then .ok (nmatch == view.2, st1)
        else .ok (true, st1)
    andThen r1 (fun st1 =>
      if p.skipHidden && (w.attrVal bm.ref sCamliDefVis p.atT == sHide || w.attrVal bm.ref sCamliNodeType p.atT == sVenue)
      then .ok (false, st1) else
      if !optTime p.modTime (w.modTime bm.ref) then .ok (false, st1) else
      if !optTime p.time (w.anyTime bm.ref) then .ok (false, st1) else
      match rel with
      | none => .ok (true, st1)
      | some r =>
        if !relAny.isNil then relMatch t w r p.atT true (fun b s => matchC relAny b s) bm.ref st1
        else relMatch t w r p.atT false (fun b s => matchC relAll b s) bm.ref st1)
/-- FileConstraint.blobMatches (query.go:1910) -/
def matchF : FileC → BlobMeta → St → R
  | .nil, _, _ => .error .nilDeref
  | .mk f parentDir, bm, st =>
    if bm.camliType != sFile then .ok (false, st) else
    match w.fileInfo bm.ref with
    | none => .ok (false, st)
    | some fi =>
      if !(optInt f.size fi.size && optStr f.name fi.name && optStr f.mime fi.mime &&
           optTime f.time fi.time && optTime f.modTime fi.modTime) then .ok (false, st) else
      let r1 : R :=
        if parentDir.isNil then .ok (true, st)
        else anyOf w (fun b s => matchD parentDir b s) (w.parents bm.ref) st
      andThen r1 (fun st1 => .ok (!refOK t f.wholeRef || fi.wholeRef == f.wholeRef, st1))
/-- DirConstraint.blobMatches (query.go:2112) -/
def matchD : DirC → BlobMeta → St → R
  | .nil, _, _ => .error .nilDeref
  | .mk d parentDir rc cc, bm, st =>
    let parentM : Option (BlobMeta → St → R) :=
      if parentDir.isNil then none else some (fun b s => matchD parentDir b s)
    -- cc := c.Contains; if nil and RecursiveContains != nil: recursive, cc = crc
    match cc with
    | .mk op a b f _ fl dr =>
      dirBody w d parentM
        (some (ccMatcher op f fl.isNil dr.isNil (isFileOrDir cc) (fun cb s => matchF fl cb s)
          (fun cb s => matchD dr cb s) (fun cb s => matchC a cb s) (fun cb s => matchC b cb s)))
        false (w.blobs.length + 1) bm st
    | .nil =>
      match rc with
      | .mk op a b f _ fl dr =>
        dirBody w d parentM
          (some (ccMatcher op f fl.isNil dr.isNil (isFileOrDir rc) (fun cb s => matchF fl cb s)
            (fun cb s => matchD dr cb s) (fun cb s => matchC a cb s) (fun cb s => matchC b cb s)))
          true (w.blobs.length + 1) bm st
      | .nil => dirBody w d parentM none false (w.blobs.length + 1) bm st
end

end Impl

/-! ## checkValid -/

mutual
/-- Constraint.checkValid / LogicalConstraint.checkValid (query.go:327, :1584) -/
def validC : Cons → Bool
  | .nil => true
  | .mk op a b f pn fl dr =>
    (match op with
     | .none => true
     | .not => !a.isNil && validC a
     | _ => !a.isNil && validC a && !b.isNil && validC b) &&
    validF fl && validD dr && optIntValid f.blobSize && validP pn
/-- PermanodeConstraint.checkValid (query.go:1657); sub-constraints are not descended into -/
def validP : Perm → Bool
  | .nil => true
  | .mk p inSet rel relAny relAll =>
    (p.attr.isEmpty ||
      ((p.numValue.isSome || p.hasValueConstraint inSet.isNil) &&
       (match p.numValue with
        | none => true
        | some nv => !nv.zeroMin && !(nv.zeroMax && p.hasValueConstraint inSet.isNil) &&
            !(decide (nv.min < 0) || decide (nv.max < 0))))) &&
    (match rel with
     | none => true
     | some r => (r.relation == sParent || r.relation == sChild) && (relAny.isNil != relAll.isNil))
/-- FileConstraint.checkValid: always nil -/
def validF : FileC → Bool
  | _ => true
/-- DirConstraint.checkValid (query.go:2079) -/
def validD : DirC → Bool
  | .nil => true
  | .mk _ _ rc cc => !(!cc.isNil && !rc.isNil)
end

/-! ## The planner -/

/-- Constraint.onlyMatchesPermanode (query.go:399) -/
def onlyMatchesPermanode : Cons → Bool
  | .nil => false
  | .mk op a b f pn _ _ =>
    !pn.isNil || f.camliType == sPermanode ||
    (op == .and && (onlyMatchesPermanode a || onlyMatchesPermanode b))

/-- Constraint.matchesPermanodeTypes (query.go:352), after the fix of the `or` case -/
def matchesPermanodeTypes : Cons → List Str
  | .nil => []
  | .mk op a b _ pn _ _ =>
    match (match pn with
           | .mk p _ _ _ _ => if p.attr == sCamliNodeType && !p.value.isEmpty then some p.value else none
           | .nil => none) with
    | some v => [v]
    | none =>
      match op with
      | .and => if !(matchesPermanodeTypes a).isEmpty then matchesPermanodeTypes a else matchesPermanodeTypes b
      | .or =>
        if (matchesPermanodeTypes a).isEmpty || (matchesPermanodeTypes b).isEmpty then []
        else matchesPermanodeTypes a ++ matchesPermanodeTypes b
      | _ => []

/-- the same before the fix (query.go:368 `return append(sa, sb...)`) -/
def matchesPermanodeTypesOld : Cons → List Str
  | .nil => []
  | .mk op a b _ pn _ _ =>
    match (match pn with
           | .mk p _ _ _ _ => if p.attr == sCamliNodeType && !p.value.isEmpty then some p.value else none
           | .nil => none) with
    | some v => [v]
    | none =>
      match op with
      | .and => if !(matchesPermanodeTypesOld a).isEmpty then matchesPermanodeTypesOld a else matchesPermanodeTypesOld b
      | .or => matchesPermanodeTypesOld a ++ matchesPermanodeTypesOld b
      | _ => []

/-- Constraint.matchesAtMostOneBlob (query.go:378) -/
def matchesAtMostOneBlob (t : Pk.Ref.Tbl) : Cons → Option Ref
  | .nil => none
  | .mk op a b f _ _ _ =>
    if !f.pfx.isEmpty && refOK t f.pfx then some f.pfx
    else if op == .and then
      (match matchesAtMostOneBlob t a with
       | some r => some r
       | none => matchesAtMostOneBlob t b)
    else none

/-- Constraint.matchesFileByWholeRef (query.go:416) -/
def matchesFileByWholeRef (t : Pk.Ref.Tbl) : Cons → Bool
  | .nil => false
  | .mk op a b _ _ fl _ =>
    (op == .and && (matchesFileByWholeRef t a || matchesFileByWholeRef t b)) ||
    (match fl with
     | .nil => false
     | .mk f _ => refOK t f.wholeRef)

inductive SortT where
  | unspec | unsorted | lastModDesc | lastModAsc | createdDesc | createdAsc | blobRefAsc | map
deriving DecidableEq, Repr

structure Query where
  c : Cons
  sort : SortT
  limit : Int

/-- plannedQuery (query.go:147): the default sort and limit -/
def Query.plannedSort (q : Query) : SortT :=
  if q.sort == .unspec && onlyMatchesPermanode q.c then .createdDesc else q.sort

def Query.plannedLimit (q : Query) : Int := if q.limit == 0 then 200 else q.limit

/-- candidateSource (query.go:1429) -/
inductive Src where
  | lastmod | created | types (ts : List Str) | oneBlob (r : Ref) | fileMeta | blobMeta (camType : Str) | all
deriving DecidableEq, Repr

def Src.name : Src → String
  | .lastmod => "corpus_permanode_lastmod"
  | .created => "corpus_permanode_created"
  | .types _ => "corpus_permanode_types"
  | .oneBlob _ => "one_blob"
  | .fileMeta => "corpus_file_meta"
  | .blobMeta _ => "corpus_blob_meta"
  | .all => "index_blob_meta"

def Src.sorted : Src → Bool
  | .lastmod | .created => true
  | _ => false

/-- pickCandidateSource (query.go:1438), corpus present -/
def pickSource (t : Pk.Ref.Tbl) (c : Cons) (sort : SortT) : Src :=
  let rest : Src :=
    match matchesAtMostOneBlob t c with
    | some r => .oneBlob r
    | none =>
      if matchesFileByWholeRef t c then .fileMeta
      else match c with
        | .mk _ _ _ f _ _ _ => if f.anyCamliType || !f.camliType.isEmpty then .blobMeta f.camliType else .all
        | .nil => .all
  if onlyMatchesPermanode c then
    match sort with
    | .lastModDesc => .lastmod
    | .createdDesc => .created
    | _ => if !(matchesPermanodeTypes c).isEmpty then .types (matchesPermanodeTypes c) else rest
  else rest

/-- stable insertion sort (what sort.Sort does up to 12 elements; for a strict total order the
result does not depend on the algorithm) -/
def insertBy {α} (lt : α → α → Bool) (x : α) : List α → List α
  | [] => [x]
  | y :: l => if lt y x then y :: insertBy lt x l else x :: y :: l

def isort {α} (lt : α → α → Bool) : List α → List α
  | [] => []
  | x :: l => insertBy lt x (isort lt l)

/-- sort.Reverse(byPermanodeTime) (corpus.go:997): later time first, ties by larger ref first -/
def ltTimeRefDesc (key : Ref → Time) (a b : BlobMeta) : Bool :=
  decide (key b.ref < key a.ref) || (key a.ref == key b.ref && ltB b.ref a.ref)

/-- lazySortedPermanodes.sorted(reverse = true) + enumeratePermanodes (corpus.go:1023, :1073):
permanodes with claims, not deleted, with a time, newest first -/
def sortedPermanodes (w : World) (key : Ref → Time) : List BlobMeta :=
  isort (ltTimeRefDesc key) (w.blobs.filter (fun b => w.hasClaims b.ref && !w.isDeleted b.ref && key b.ref != 0))

/-- `pn ∈ permanodesSetByNodeType[t]` (corpus.go:709): some claim ever named that type -/
def World.inTypeSet (w : World) (pn : Ref) (ty : Str) : Bool :=
  w.claims.any (fun c => c.pn == pn && c.attr == sCamliNodeType && c.value == ty)

/-- the blobs a candidate source sends, in order (unsorted sources: in the world's order) -/
def candidates (w : World) : Src → List BlobMeta
  | .lastmod => sortedPermanodes w w.modTime
  | .created => sortedPermanodes w w.anyTime
  | .types ts => w.blobs.filter (fun b => ts.any (fun ty => w.inTypeSet b.ref ty))
  | .oneBlob r => w.blobs.filter (fun b => b.ref == r)
  | .fileMeta => w.blobs.filter (fun b => b.camliType == sFile)
  | .blobMeta ct => w.blobs.filter (fun b => if ct.isEmpty then !b.camliType.isEmpty else b.camliType == ct)
  | .all => w.blobs

/-- EnumeratePermanodesByNodeTypes before the fix (corpus.go:1109): one pass per listed type -/
def candidatesTypesOld (w : World) (ts : List Str) : List BlobMeta :=
  ts.flatMap (fun ty => w.blobs.filter (fun b => w.inTypeSet b.ref ty))

/-- the callback of Query over the candidates (query.go:1064-1112) without Around: collect the
matches; `stopAt = some n`: stop as soon as n are collected (sorted source with a limit) -/
def collect (m : BlobMeta → St → R) (stopAt : Option Nat) : List BlobMeta → List BlobMeta → St → Except Err (List BlobMeta)
  | [], acc, _ => .ok acc.reverse
  | b :: bs, acc, st =>
    match m b st with
    | .error e => .error e
    | .ok (false, st1) => collect m stopAt bs acc st1
    | .ok (true, st1) =>
      if stopAt == some (acc.length + 1) then .ok (b :: acc).reverse
      else collect m stopAt bs (b :: acc) st1

def ltRef (a b : BlobMeta) : Bool := ltB a.ref b.ref

/-- Handler.Query (query.go:1013) for a constraint query without Continue/Around/Describe, in a
world without locations.  Returns the candidate source picked and the result. -/
def query (t : Pk.Ref.Tbl) (w : World) (q : Query) : Except Err (Src × List BlobMeta) :=
  if !validC q.c || q.c.isNil then .error .invalid else
  let sort := q.plannedSort
  let limit := q.plannedLimit
  let src := pickSource t q.c sort
  let stopAt : Option Nat := if sort != .map && limit > 0 && src.sorted then some limit.toNat else none
  match collect (matchC t w q.c) stopAt (candidates w src) [] St.init with
  | .error e => .error e
  | .ok res =>
    if src.sorted then .ok (src, res) else
    let sorted : Except Err (List BlobMeta) :=
      match sort with
      | .unspec | .unsorted | .map => .ok res
      | .blobRefAsc => .ok (isort ltRef res)
      | .createdDesc | .createdAsc =>
        if !onlyMatchesPermanode q.c then .error .ctimeNonPermanode
        else if res.length ≥ 2 && res.any (fun b => w.anyTime b.ref == 0) then .error .noTime
        else if sort == .createdAsc then .ok (isort (fun a b => decide (w.anyTime a.ref < w.anyTime b.ref)) res)
        else .ok (isort (fun a b => decide (w.anyTime b.ref < w.anyTime a.ref)) res)
      | _ => .error .unsupportedSort
    match sorted with
    | .error e => .error e
    | .ok res =>
      if sort != .map && limit > 0 && res.length > limit.toNat then .ok (src, res.take limit.toNat)
      else .ok (src, res)

/-- Query with the planner as it was before the two fixes (`or` with an untyped branch; one pass
per listed node type): only used to state what the fixes removed -/
def candidatesOld (w : World) : Src → List BlobMeta
  | .types ts => candidatesTypesOld w ts
  | s => candidates w s


/-! ## The specification of `Query` and the guards of the theorems

The order of the full result: `blobref` by ref; `-created` / `-mod` newest first, equal times by
larger ref first (corpus.go:997); `created` oldest first; otherwise no order is asked for.  Ties of
`created` and the whole order of an unsorted result are left to Go's map iteration by the real
code; here they are in the world's enumeration order (`w.blobs`). -/

def specLt (w : World) : SortT → BlobMeta → BlobMeta → Bool
  | .blobRefAsc => ltRef
  | .createdAsc => fun a b => decide (w.anyTime a.ref < w.anyTime b.ref)
  | .createdDesc => ltTimeRefDesc w.anyTime
  | .lastModDesc => ltTimeRefDesc w.modTime
  | _ => fun _ _ => false

/-- **what a query must return**: the first `limit` of all matching blobs in the order of the sort -/
def specResult (t : Pk.Ref.Tbl) (w : World) (q : Query) : List BlobMeta :=
  let all := isort (specLt w q.plannedSort) (w.blobs.filter (matchesC t w q.c))
  if q.plannedSort != .map && q.plannedLimit > 0 then all.take q.plannedLimit.toNat else all

/-- the sorts by time exist for queries about permanodes only (SearchQuery.Sort doc); sorting by
oldest modification first is a TODO of the code (query.go:1161) -/
def Query.supported (q : Query) : Bool :=
  match q.plannedSort with
  | .createdDesc | .createdAsc | .lastModDesc => onlyMatchesPermanode q.c
  | .lastModAsc => false
  | _ => true

def Query.timeSorted (q : Query) : Bool :=
  match q.plannedSort with
  | .createdDesc | .createdAsc | .lastModDesc => true
  | _ => false

/-- node-local predicates checked at every struct of a constraint tree -/
structure NodePred where
  c : Op → Cons → Cons → Flat → Perm → FileC → DirC → Bool
  p : PFlat → Cons → Option RFlat → Cons → Cons → Bool
  d : DFlat → DirC → Cons → Cons → Bool

mutual
def allC (φ : NodePred) : Cons → Bool
  | .nil => true
  | .mk op a b f pn fl dr => φ.c op a b f pn fl dr && allC φ a && allC φ b && allP φ pn && allF φ fl && allD φ dr
def allP (φ : NodePred) : Perm → Bool
  | .nil => true
  | .mk p inSet rel relAny relAll => φ.p p inSet rel relAny relAll && allC φ inSet && allC φ relAny && allC φ relAll
def allF (φ : NodePred) : FileC → Bool
  | .nil => true
  | .mk _ parentDir => allD φ parentDir
def allD (φ : NodePred) : DirC → Bool
  | .nil => true
  | .mk d parentDir rc cc => φ.d d parentDir rc cc && allD φ parentDir && allC φ rc && allC φ cc
end

/-- no permanode constraint anywhere in the tree asks for attribute values (so evaluating it never
touches the scratch slice) -/
def noAttrPred : NodePred := ⟨fun _ _ _ _ _ _ _ => true, fun p _ _ _ _ => p.attr.isEmpty, fun _ _ _ _ => true⟩
def noAttr (c : Cons) : Bool := allC noAttrPred c

/-- **guard against the scratch-slice defect** (query.go:1733/1901): wherever attribute values are
iterated with a ValueInSet sub-constraint, that sub-constraint asks for no attribute values itself -/
def scratchSafePred : NodePred :=
  ⟨fun _ _ _ _ _ _ _ => true, fun p inSet _ _ _ => p.attr.isEmpty || noAttr inSet, fun _ _ _ _ => true⟩
def scratchSafe (c : Cons) : Bool := allC scratchSafePred c

/-- nothing in the tree dereferences a nil pointer: Logical has its operands, a relation is
"parent" or "child" with exactly one of Any / All (checkValid only looks at the top struct) -/
def deepValidPred : NodePred :=
  ⟨fun op a b _ _ _ _ => op == .none || (!a.isNil && (op == .not || !b.isNil)),
   fun _ _ rel relAny relAll => match rel with
     | none => true
     | some r => (r.relation == sParent || r.relation == sChild) && (relAny.isNil != relAll.isNil),
   fun _ _ _ _ => true⟩
def deepValid (c : Cons) : Bool := allC deepValidPred c

/-- a Contains / RecursiveContains constraint of one of the documented shapes and nothing else:
a BlobRefPrefix alone, a FileConstraint alone, a DirConstraint alone, or a Logical alone over
file / dir constraints (DirConstraint.Contains doc) -/
def containsShape : Cons → Bool
  | .nil => true
  | .mk op a b f pn fl dr =>
    let other := f.anything || !f.camliType.isEmpty || f.anyCamliType || f.blobSize.isSome || !pn.isNil
    if !f.pfx.isEmpty then !other && op == .none && fl.isNil && dr.isNil
    else if !fl.isNil then !other && op == .none && dr.isNil
    else if !dr.isNil then !other && op == .none
    else !other && op != .none && isFileOrDir (.mk op a b f pn fl dr)

/-- **guard against the RecursiveContains defect** (query.go:2194) and against Contains
constraints of an undocumented shape: a RecursiveContains stands alone in its DirConstraint -/
def dirSafePred : NodePred :=
  ⟨fun _ _ _ _ _ _ _ => true, fun _ _ _ _ _ => true,
   fun d parentDir rc cc => containsShape rc && containsShape cc &&
     (!(cc.isNil && !rc.isNil) || (d.name.isNone && d.pfx.isEmpty && parentDir.isNil && d.topFileCount.isNone))⟩
def dirSafe (c : Cons) : Bool := allC dirSafePred c

/-- **guard against the dangling-relation defect** (query.go:912): every claim is about a blob of
the world, and every claim value that is a ref names a blob of the world -/
def World.noDangling (t : Pk.Ref.Tbl) (w : World) : Bool :=
  w.claims.all (fun c => (w.getBlob c.pn).isSome && (!refOK t c.value || (w.getBlob c.value).isSome))

/-- the index has a FileInfo for every directory blob -/
def World.dirsHaveInfo (w : World) : Bool :=
  w.blobs.all (fun b => b.camliType != sDirectory || (w.fileInfo b.ref).isSome)

/-- **guard against the sorted-source defect** (corpus.go:1054-1058) and the CreatedAsc error
(query.go:1145): every matching blob is a permanode the sorted enumerations know – it has claims,
is not deleted and has both times -/
def timedOK (t : Pk.Ref.Tbl) (w : World) (c : Cons) : Bool :=
  w.blobs.all (fun b => !matchesC t w c b ||
    (w.hasClaims b.ref && !w.isDeleted b.ref && w.anyTime b.ref != 0 && w.modTime b.ref != 0))

/-- the matcher of `c` computes the documented meaning on every blob, whatever the scratch state -/
def MatcherOK (t : Pk.Ref.Tbl) (w : World) (c : Cons) : Prop :=
  ∀ b st, ∃ st', matchC t w c b st = .ok (matchesC t w c b, st')

end Pk.Search
