import PkVerif.Base.Bytes
/-!
# Model of permanode attribute folding and deletion (pkg/index: corpus.go, util.go, index.go, location.go)

Core Lean only (linked into `pkmodel-c07`).  One definition per Go function, same name.

Abstractions (stated in props.d/C07.json):
* a blob ref is a number; `Claim.rk` is the order key of its text (refs of one hash sort by digest);
* a signer is a number: one signer blob per GPG key id, ordered like the key ids;
* a date is a number of nanoseconds; the zero `time.Time` is `none`; `now` is a parameter;
* a Go map `attr → []string` is an association list (`get` of an absent key is the empty slice,
  as `len(m[k]) == 0` in Go); map iteration is never observed;
* `sort.Sort` is an insertion sort (`sortBy`): since 83d40e9 the order of claims is total (date, then
  blobref), so every sorting algorithm gives the same result on claims with distinct refs.
-/
namespace Pk.Attr

/-- `camtypes.Claim.Type`: "set-attribute" | "add-attribute" | "del-attribute" | "delete" -/
inductive Kind where
  | set | add | del | delete
deriving DecidableEq, Repr

/-- what a delete claim can target: a permanode or a claim -/
inductive Ref where
  | pn (p : Nat)
  | cl (id : Nat)
deriving DecidableEq, Repr

/-- `camtypes.Claim` as stored in a `claim|permanode|signer|date|claimref` row.  A delete claim that
targets a permanode is such a row too (receive.go:880), with empty attr and value. -/
structure Claim where
  id : Nat
  rk : Nat
  pn : Nat
  signer : Nat
  kind : Kind
  attr : Bytes
  val : Bytes
  date : Nat
deriving DecidableEq, Repr

/-- a `deleted|target|reverse-date|deleter` row / one `deletion` of the deletes caches -/
structure Del where
  target : Ref
  deleter : Nat
  signer : Nat
  date : Nat
  rk : Nat
deriving DecidableEq, Repr

/-! ## the documented semantics of one claim (doc/schema/permanode.md) -/

/-- set: the single value; add: one more value; del without value: none; del with value: all but it -/
def step (vs : List Bytes) (k : Kind) (v : Bytes) : List Bytes :=
  match k with
  | .set => [v]
  | .add => vs ++ [v]
  | .del => if v = [] then [] else vs.filter (fun w => decide (w ≠ v))
  | .delete => vs

/-- folding a list of claims in the order given -/
def foldVals (l : List Claim) : List Bytes := l.foldl (fun v c => step v c.kind c.val) []

/-! ## sorting -/

/-- insert `a` before the first element it is `le` to (so: after the smaller ones) -/
def ins {α : Type} (le : α → α → Bool) (a : α) : List α → List α
  | [] => [a]
  | b :: t => if le a b then a :: b :: t else b :: ins le a t

/-- stable insertion sort -/
def sortBy {α : Type} (le : α → α → Bool) : List α → List α
  | [] => []
  | a :: t => ins le a (sortBy le t)

/-- `camtypes.claimBefore` (search.go:73, since 83d40e9), the `Less` of ClaimPtrsByDate and ClaimsByDate:
by date, equal dates by blobref -/
def claimLt (a b : Claim) : Bool := decide (a.date < b.date ∨ (a.date = b.date ∧ a.rk < b.rk))

/-- the same order, non-strict: a total preorder, an order on claims with distinct refs -/
def dateLe (a b : Claim) : Bool := decide (a.date < b.date ∨ (a.date = b.date ∧ a.rk ≤ b.rk))

/-- `sort.Sort(camtypes.ClaimPtrsByDate(..))` -/
def sortByDate (l : List Claim) : List Claim := sortBy dateLe l

/-- nanoseconds per second: a date is a number of nanoseconds since the epoch -/
def nsPerSec : Nat := 1000000000

/-- the characters after the seconds in `Time3339.String()` (time.RFC3339Nano, UTC): "Z" for a whole
second, else "." + the nine nanosecond digits with trailing zeros trimmed + "Z" -/
def fracText (nanos : Nat) : Bytes :=
  if nanos = 0 then [90]
  else
    let ds := (List.range 9).map (fun i => 48 + (nanos / 10 ^ (8 - i)) % 10)
    let trimmed := (ds.reverse.dropWhile (fun d => d == 48)).reverse
    46 :: trimmed ++ [90]

/-- order of two claim dates as the index keys spell them (fixed-width up to the seconds, so by the
second first, then by the TEXT of the fraction: ".5Z" sorts before "Z" and after ".50001Z") -/
def dateTextLt (a b : Nat) : Bool :=
  if a / nsPerSec ≠ b / nsPerSec then decide (a / nsPerSec < b / nsPerSec)
  else ltB (fracText (a % nsPerSec)) (fracText (b % nsPerSec))

/-- order of the `claim|<permanode>|<signer key id>|<date>|<claim ref>` keys (pkg/index/keys.go:194) -/
def rowLe (a b : Claim) : Bool :=
  if a.pn ≠ b.pn then decide (a.pn < b.pn)
  else if a.signer ≠ b.signer then decide (a.signer < b.signer)
  else if a.date ≠ b.date then dateTextLt a.date b.date
  else decide (a.rk ≤ b.rk)

/-! ## claimsIntfAttrValue (util.go:76) -/

/-- the loop of claimsIntfAttrValue: the slice `v` when the loop ends.  `filt` is the SignerRefSet
(empty: no filter); `at = none` is the zero time, replaced by `now`. -/
def claimsIntfAttrValues (claims : List Claim) (attr : Bytes) (at_ : Option Nat) (now : Nat)
    (filt : List Nat) : List Bytes :=
  let t := at_.getD now
  claims.foldl (fun v cl =>
    if cl.attr ≠ attr ∨ cl.date > t then v
    else if filt ≠ [] ∧ cl.signer ∉ filt then v
    else step v cl.kind cl.val) []

/-- first value or "" -/
def headVal (v : List Bytes) : Bytes :=
  match v with
  | [] => []
  | x :: _ => x

/-- pkg/index/util.go:76 -/
def claimsIntfAttrValue (claims : List Claim) (attr : Bytes) (at_ : Option Nat) (now : Nat)
    (filt : List Nat) : Bytes :=
  headVal (claimsIntfAttrValues claims attr at_ now filt)

/-! ## the attribute cache of a permanode (corpus.go:155-305) -/

abbrev AttrMap := List (Bytes × List Bytes)

/-- `m[attr]` (nil for an absent key) -/
def get : AttrMap → Bytes → List Bytes
  | [], _ => []
  | (k, v) :: t, a => if k = a then v else get t a

/-- `delete(m, attr)` -/
def erase (m : AttrMap) (a : Bytes) : AttrMap := m.filter (fun e => decide (e.1 ≠ a))

/-- `m[attr] = v` -/
def put (m : AttrMap) (a : Bytes) (v : List Bytes) : AttrMap := (a, v) :: erase m a

/-- corpus.go:168 -/
def cacheAttrClaim (m : AttrMap) (cl : Claim) : AttrMap :=
  match cl.kind with
  | .set => put m cl.attr [cl.val]
  | .add => put m cl.attr (get m cl.attr ++ [cl.val])
  | .del =>
    if cl.val = [] then erase m cl.attr
    else put m cl.attr ((get m cl.attr).filter (fun w => decide (w ≠ cl.val)))
  | .delete => m

/-- `PermanodeMeta` (corpus.go:155).  `attr = none` is the nil map of a fresh `new(PermanodeMeta)`.
While there is exactly one signer, Go's `signer[s]` IS the map `attr` (same object); the model keeps
the single entry equal to `attr` instead. -/
structure PM where
  claims : List Claim
  attr : Option AttrMap
  signer : List (Nat × AttrMap)
deriving Repr

def PM.empty : PM := ⟨[], none, []⟩

def lookupS : List (Nat × AttrMap) → Nat → Option AttrMap
  | [], _ => none
  | (k, v) :: t, s => if k = s then some v else lookupS t s

def updS : List (Nat × AttrMap) → Nat → AttrMap → List (Nat × AttrMap)
  | [], _, _ => []
  | (k, v) :: t, s, m => if k = s then (k, m) :: t else (k, v) :: updS t s m

/-- corpus.go:222 (the signer is always known to `signers`: its key id row precedes its claims) -/
def appendAttrClaim (pm : PM) (cl : Claim) : PM :=
  let attr := pm.attr.getD []
  match lookupS pm.signer cl.signer with
  | none =>
    match pm.signer with
    | [] =>
      -- case 0: the signer cache references the existing attrValues
      let a := cacheAttrClaim attr cl
      { pm with attr := some a, signer := [(cl.signer, a)] }
    | [(s0, _)] =>
      -- case 1: the one other signer gets a copy of pm.attr; a fresh map for this signer
      { pm with attr := some (cacheAttrClaim attr cl),
                signer := [(s0, attr), (cl.signer, cacheAttrClaim [] cl)] }
    | sg =>
      { pm with attr := some (cacheAttrClaim attr cl),
                signer := sg ++ [(cl.signer, cacheAttrClaim [] cl)] }
  | some sc =>
    if pm.signer.length > 1 then
      { pm with attr := some (cacheAttrClaim attr cl),
                signer := updS pm.signer cl.signer (cacheAttrClaim sc cl) }
    else
      -- sc is pm.attr itself
      let a := cacheAttrClaim attr cl
      { pm with attr := some a, signer := [(cl.signer, a)] }

/-- corpus.go:192 -/
def restoreInvariants (pm : PM) : PM :=
  let cs := sortByDate pm.claims
  cs.foldl appendAttrClaim { claims := cs, attr := some [], signer := [] }

/-- corpus.go:207; `pm.claims` already ends with the new claim (mergeClaimRow appends first, so the
list is never empty here – the model re-sorts in that unreachable case) -/
def fixupLastClaim (pm : PM) : PM :=
  match pm.attr, pm.claims.reverse with
  | some _, [last] => appendAttrClaim pm last
  | some _, last :: prev :: _ =>
    if claimLt prev last then appendAttrClaim pm last else restoreInvariants pm
  | _, _ => restoreInvariants pm

/-- corpus.go:681 mergeClaimRow on a live corpus (`!c.building`), restricted to the PermanodeMeta -/
def mergeClaimRow (pm : PM) (cl : Claim) : PM :=
  fixupLastClaim { pm with claims := pm.claims ++ [cl] }

/-- the PermanodeMeta of a corpus that received `arr` one by one -/
def incPM (arr : List Claim) : PM := arr.foldl mergeClaimRow PM.empty

/-- scanFromStorage (corpus.go:423): rows appended while `c.building`, then restoreInvariants -/
def loadPM (rows : List Claim) : PM := restoreInvariants { claims := rows, attr := none, signer := [] }

/-- corpus.go:282 valuesAtSigner: `none` = (nil,false); `some none` = (nil,true); `some (some m)` = (m,true).
As repaired by 2f922c1: the zero time is `now`. -/
def valuesAtSigner (pm : PM) (at_ : Option Nat) (now : Nat) (f : Option Nat) : Option (Option AttrMap) :=
  match pm.attr with
  | none => none
  | some attr =>
    let mres : Option AttrMap :=
      match f with
      | some s => lookupS pm.signer s
      | none => some attr
    match mres with
    | none => some none
    | some m =>
      let t := at_.getD now
      match pm.claims.getLast? with
      | none => some (some m)
      | some last => if last.date > t then none else some (some m)

/-- valuesAtSigner before 2f922c1: the cache was returned for the zero time unconditionally -/
def valuesAtSignerOld (pm : PM) (at_ : Option Nat) (f : Option Nat) : Option (Option AttrMap) :=
  match pm.attr with
  | none => none
  | some attr =>
    let mres : Option AttrMap :=
      match f with
      | some s => lookupS pm.signer s
      | none => some attr
    match mres with
    | none => some none
    | some m =>
      match at_ with
      | none => some (some m)
      | some t =>
        match pm.claims.getLast? with
        | none => some (some m)
        | some last => if last.date > t then none else some (some m)

/-- the SignerRefSet the corpus hands to the fold for a key id filter -/
def filtOf (f : Option Nat) : List Nat :=
  match f with
  | none => []
  | some s => [s]

/-- the loop of AppendPermanodeAttrValues (corpus.go:1345) -/
def appendValuesLoop (claims : List Claim) (attr : Bytes) (t : Nat) (filt : List Nat) : List Bytes :=
  claims.foldl (fun dst cl =>
    if cl.attr ≠ attr ∨ cl.date > t then dst
    else if filt ≠ [] ∧ cl.signer ∉ filt then dst
    else step dst cl.kind cl.val) []

/-- the loop of PermanodeHasAttrValue (corpus.go:1530): `break`s at the first claim after `t` -/
def hasLoop (attr val : Bytes) (t : Nat) : List Claim → Bool → Bool
  | [], ret => ret
  | cl :: rest, ret =>
    if cl.attr ≠ attr then hasLoop attr val t rest ret
    else if cl.date > t then ret
    else
      hasLoop attr val t rest
        (match cl.kind with
         | .del => if cl.val = [] ∨ cl.val = val then false else ret
         | .set => decide (cl.val = val)
         | .add => if cl.val = val then true else ret
         | .delete => ret)

/-! ## deletion (index.go:779 isDeleted, corpus.go:146 IsDeleted) -/

/-- the recursion shared by `Index.isDeleted` and `Corpus.IsDeleted`: `br` is deleted iff one of
`deletes[br]` has a deleter that is not deleted.  Go recurses until the chain ends (refs are hashes:
no cycles); the model carries fuel and answers `false` when it runs out. -/
def isDeletedIn : Nat → List Del → Ref → Bool
  | 0, _, _ => false
  | fuel + 1, ds, br =>
    (ds.filter (fun d => decide (d.target = br))).any (fun d => !isDeletedIn fuel ds (.cl d.deleter))

/-- corpus.go:625 updateDeletes: no duplicates (the newest-first sort is immaterial to IsDeleted) -/
def updateDeletes (ds : List Del) (d : Del) : List Del := if d ∈ ds then ds else ds ++ [d]

/-- receive.go:973 updateDeletesCache: appended without a duplicate check -/
def updateDeletesCache (ds : List Del) (d : Del) : List Del := ds ++ [d]

/-- order of the `deleted|<target>|<reverse date>|<deleter>` keys, as far as it matters: any fixed
order of the same rows; the model takes (date descending, rk) -/
def delRowLe (a b : Del) : Bool :=
  if a.date ≠ b.date then decide (b.date < a.date) else decide (a.rk ≤ b.rk)

/-! ## the three query paths over one history -/

/-- what was delivered, in arrival order: claim rows (attribute claims, and delete claims whose target
is a permanode) and deletions (every delete claim) -/
structure World where
  pns : List Nat
  claims : List Claim
  dels : List Del
  maxId : Nat
deriving Repr

def World.empty : World := ⟨[], [], [], 0⟩

def World.fuel (w : World) : Nat := w.maxId + 2

/-- the `claim|` rows of the sorted.KeyValue, in key order -/
def World.rows (w : World) : List Claim := sortBy rowLe w.claims

/-- Index.deletes after the arrivals (receive.go:973) -/
def World.idxDeletes (w : World) : List Del := w.dels.foldl updateDeletesCache []

/-- Corpus.deletes of the live corpus (corpus.go:625) -/
def World.incDeletes (w : World) : List Del := w.dels.foldl updateDeletes []

/-- Corpus.deletes read back from the `deleted|` rows (corpus.go:509 initDeletes) -/
def World.loadDeletes (w : World) : List Del := sortBy delRowLe w.dels

/-- is `id` the id of a claim that was delivered? -/
def World.knownId (w : World) (id : Nat) : Bool :=
  w.claims.any (fun c => c.id == id) || w.dels.any (fun d => d.deleter == id)

/-- delivery of an attribute claim (ids grow with arrival; `none`: refused) -/
def World.addClaim (w : World) (c : Claim) : Option World :=
  if c.id ≤ w.maxId then none
  else some { w with claims := w.claims ++ [c], maxId := c.id }

/-- delivery of a delete claim: its target exists already (it was delivered before: the index would
otherwise park the claim until the target arrives); a delete claim on a permanode is a claim row of
that permanode as well (receive.go:880) -/
def World.addDelete (w : World) (d : Del) : Option World :=
  if d.deleter ≤ w.maxId then none
  else
    match d.target with
    | .cl id =>
      if w.knownId id then some { w with dels := w.dels ++ [d], maxId := d.deleter } else none
    | .pn p =>
      some { w with claims := w.claims ++ [⟨d.deleter, d.rk, p, d.signer, .delete, [], [], d.date⟩],
                    dels := w.dels ++ [d], maxId := d.deleter }

inductive Mode where
  | idx | inc | load
deriving DecidableEq, Repr

/-- Index.IsDeleted (index.go:767) on the index without corpus -/
def World.idxIsDeleted (w : World) (br : Ref) : Bool := isDeletedIn w.fuel w.idxDeletes br

def World.deletes (w : World) (m : Mode) : List Del :=
  match m with
  | .idx => w.idxDeletes
  | .inc => w.incDeletes
  | .load => w.loadDeletes

/-- IsDeleted on any of the three paths -/
def World.isDeleted (w : World) (m : Mode) (br : Ref) : Bool := isDeletedIn w.fuel (w.deletes m) br

/-- the PermanodeMeta of permanode `p` in the corpus of path `m` (`none`: unknown permanode) -/
def World.pm (w : World) (m : Mode) (p : Nat) : Option PM :=
  match m with
  | .idx => none
  | .inc =>
    let cs := w.claims.filter (fun c => decide (c.pn = p))
    if cs = [] then none else some (incPM cs)
  | .load =>
    let cs := w.rows.filter (fun c => decide (c.pn = p))
    if cs = [] then none else some (loadPM cs)

/-- signer filter of a query: `none` = no filter; `some s` = the key id of signer `s` (a key id
nobody signed with is a number no claim carries) -/
def signerOk (f : Option Nat) (c : Claim) : Bool :=
  match f with
  | none => true
  | some s => decide (c.signer = s)

/-- attrFilter of AppendClaims: `none` (the empty string) lets every claim through -/
def attrFilterOk (a : Option Bytes) (c : Claim) : Bool :=
  match a with
  | none => true
  | some x => decide (c.attr = x)

/-- Index.AppendClaims without a corpus (index.go:881): the rows of the permanode (of the signer) in
key order, minus deleted claims, minus other attributes (`attrFilter = none`: all) -/
def World.idxAppendClaims (w : World) (p : Nat) (f : Option Nat) (attrFilter : Option Bytes) : List Claim :=
  (w.rows.filter (fun c => decide (c.pn = p))).filter (fun c =>
    signerOk f c && !w.idxIsDeleted (.cl c.id) && attrFilterOk attrFilter c)

/-- Corpus.AppendClaims (corpus.go:1375) -/
def World.corpusAppendClaims (w : World) (m : Mode) (p : Nat) (f : Option Nat) (attrFilter : Option Bytes) :
    List Claim :=
  match w.pm m p with
  | none => []
  | some pm =>
    pm.claims.filter (fun c =>
      !w.isDeleted m (.cl c.id) && signerOk f c && attrFilterOk attrFilter c)

/-- the attribute value on the index without corpus: location.go permanodeLocation + permAttr.get,
as repaired by f282908: AppendClaims, sort by date, claimsIntfAttrValue with the owner's ref set -/
def World.idxAttrValue (w : World) (p : Nat) (attr : Bytes) (at_ : Option Nat) (now : Nat) (f : Option Nat) : Bytes :=
  claimsIntfAttrValue (sortByDate (w.idxAppendClaims p f none)) attr at_ now (filtOf f)

/-- the same before f282908: the rows folded in key order -/
def World.idxAttrValueOld (w : World) (p : Nat) (attr : Bytes) (at_ : Option Nat) (now : Nat) (f : Option Nat) : Bytes :=
  claimsIntfAttrValue (w.idxAppendClaims p f none) attr at_ now (filtOf f)

/-- one claim in the fold of search/describe.go populatePermanodeFields (:833), for one attribute:
values are a set of non-empty strings – set: clear, then add; add: skip "" and values already
present; del: as everywhere -/
def describeStep (vs : List Bytes) (k : Kind) (v : Bytes) : List Bytes :=
  match k with
  | .set => if v = [] then [] else [v]
  | .add => if v = [] then vs else if v ∈ vs then vs else vs ++ [v]
  | .del => if v = [] then [] else vs.filter (fun w => decide (w ≠ v))
  | .delete => vs

/-- Describe's time bound: none for the zero time -/
def notAfter (at_ : Option Nat) (c : Claim) : Bool :=
  match at_ with
  | none => true
  | some t => decide (c.date ≤ t)

/-- `DescribedPermanode.Attr[attr]` for a describe request of permanode `p` at time `at_` (zero: ALL
claims, also future ones – documented at DescribeRequest.At) by a search handler whose owner is
signer `s`: index.AppendClaims (with or without corpus) for the owner, sort.Sort(ClaimsByDate), fold -/
def World.describe (w : World) (m : Mode) (p : Nat) (attr : Bytes) (at_ : Option Nat) (s : Nat) : List Bytes :=
  let claims :=
    match m with
    | .idx => w.idxAppendClaims p (some s) none
    | _ => w.corpusAppendClaims m p (some s) none
  ((sortByDate claims).filter (fun c =>
      decide (c.attr = attr) && notAfter at_ c)).foldl
    (fun vs c => describeStep vs c.kind c.val) []

/-- Corpus.PermanodeAttrValue (corpus.go:1254) on a PermanodeMeta -/
def pmAttrValue (pm : PM) (attr : Bytes) (at_ : Option Nat) (now : Nat) (f : Option Nat) : Bytes :=
  match valuesAtSigner pm at_ now f with
  | some none => []
  | some (some m) => headVal (get m attr)
  | none => claimsIntfAttrValue pm.claims attr at_ now (filtOf f)

/-- Corpus.AppendPermanodeAttrValues (corpus.go:1320) on a PermanodeMeta, `dst` empty -/
def pmAttrValues (pm : PM) (attr : Bytes) (at_ : Option Nat) (now : Nat) (f : Option Nat) : List Bytes :=
  match valuesAtSigner pm at_ now f with
  | some none => []
  | some (some m) => get m attr
  | none => appendValuesLoop pm.claims attr (at_.getD now) (filtOf f)

/-- Corpus.PermanodeHasAttrValue (corpus.go:1518) on a PermanodeMeta -/
def pmHasAttrValue (pm : PM) (attr val : Bytes) (at_ : Option Nat) (now : Nat) : Bool :=
  match valuesAtSigner pm at_ now none with
  | some none => false
  | some (some m) => decide (val ∈ get m attr)
  | none => hasLoop attr val (at_.getD now) pm.claims false

/-- Corpus.PermanodeAttrValue: unknown permanode ⇒ ""; a key id absent from c.signerRefs has no
claims, which valuesAtSigner answers with (nil, true): "" as well -/
def World.corpusAttrValue (w : World) (m : Mode) (p : Nat) (attr : Bytes) (at_ : Option Nat) (now : Nat)
    (f : Option Nat) : Bytes :=
  match w.pm m p with
  | none => []
  | some pm => pmAttrValue pm attr at_ now f

def World.corpusAttrValues (w : World) (m : Mode) (p : Nat) (attr : Bytes) (at_ : Option Nat) (now : Nat)
    (f : Option Nat) : List Bytes :=
  match w.pm m p with
  | none => []
  | some pm => pmAttrValues pm attr at_ now f

def World.corpusHasAttrValue (w : World) (m : Mode) (p : Nat) (attr val : Bytes) (at_ : Option Nat)
    (now : Nat) : Bool :=
  match w.pm m p with
  | none => false
  | some pm => pmHasAttrValue pm attr val at_ now

end Pk.Attr
