import PkVerif.Spec.RefMap
/-!
# Model of pkg/blobserver/receive.go and the upload handlers (C02)

A source reader is a list of fragments (what successive `Read` calls deliver – any fragmentation,
empty fragments included) and how it ends: `eof` or a mid-stream error.  The hash is a parameter
(`matches : Bytes → Bool` = "these bytes hash to the ref's digest under the ref's own function").
-/
namespace Pk.Recv
open Pk Pk.RefMap

inductive End where | eof | err
deriving DecidableEq, Repr

structure Src where
  frags : List Bytes
  fin : End
deriving Repr

def Src.total (s : Src) : Bytes := s.frags.flatten

/-- how the pipeline `maxSizeReader` (receive.go) looks to the consumer: the bytes delivered and
how the stream ends for the consumer -/
inductive Pumped where
  | eof (data : Bytes)          -- all bytes delivered, io.EOF
  | err (data : Bytes)          -- the source's own error after `data`
  | tooBig (data : Bytes)       -- the source proved longer than the limit after `data` (= limit bytes)
deriving DecidableEq, Repr

/-- maxSizeReader.Read over the fragments (receive.go): deliver at most `remain` bytes; once the
limit is reached, one more byte from the source is an error, EOF is EOF -/
def pump (remain : Nat) (acc : Bytes) : List Bytes → End → Pumped
  | [], .eof => .eof acc
  | [], .err => .err acc
  | f :: fs, e =>
    if f.length ≤ remain then pump (remain - f.length) (acc ++ f) fs e
    else .tooBig (acc ++ f.take remain)

inductive Res where
  | accepted (stored : Bytes)
  | corrupt       -- ErrCorruptBlob
  | tooBig
  | srcErr
  | badHash       -- "no registered hash function"
deriving DecidableEq, Repr

def Res.isAccepted : Res → Bool
  | .accepted _ => true
  | _ => false

/-- blobserver.receive with checkHash = true (receive.go:51) in front of a destination that reads
its source to the end and commits only on EOF: the checkHashReader turns EOF into ErrCorruptBlob when
the bytes read do not hash to the ref. -/
def receive (max : Nat) (supported : Bool) (matches_ : Bytes → Bool) (src : Src) : Res :=
  if !supported then .badHash else
  match pump max [] src.frags src.fin with
  | .eof data => if matches_ data then .accepted data else .corrupt
  | .err _ => .srcErr
  | .tooBig _ => .tooBig

/-- the observable effects of one verified receive on a store `I` and on the hub -/
structure Effects (σ : Type) where
  state : σ
  hub : List Bytes            -- refs the hub was notified of
  res : Res

/-- `Receive(ctx, dst, br, src)`: ReceiveBlob on success only, then `NotifyBlobReceived`
(receive.go:60-68) -/
def receiveInto (I : Impl) (max : Nat) (supported : Bool) (matches_ : Bytes → Bool)
    (s : I.σ) (k : Bytes) (src : Src) : Effects I.σ :=
  match receive max supported matches_ src with
  | .accepted data =>
    match I.step s (.recv k data) with
    | (s', .sized _) => ⟨s', [k], .accepted data⟩
    | (s', _) => ⟨s', [], .srcErr⟩
  | r => ⟨s, [], r⟩

/-! ## the HTTP ingest paths as decision functions (handlers/upload.go) -/

inductive Http where | noContent204 | badRequest400 | serverError500
deriving DecidableEq, Repr

/-- CreatePutUploadHandler (upload.go:52): declared length check, path parse, supported hash, Receive -/
def putDecision (max : Nat) (isPut : Bool) (contentLength : Option Nat) (parses supported : Bool)
    (matches_ : Bytes → Bool) (src : Src) : Http × Res :=
  if !isPut then (.badRequest400, .srcErr) else
  if (match contentLength with | some n => decide (n > max) | none => false) then (.badRequest400, .tooBig) else
  if !parses then (.badRequest400, .badHash) else
  if !supported then (.badRequest400, .badHash) else
  match receive max true matches_ src with
  | .accepted d => (.noContent204, .accepted d)
  | .corrupt => (.badRequest400, .corrupt)
  | r => (.serverError500, r)

/-- one multipart part: form name parses?, supported?, its source -/
structure Part where
  key : Bytes
  parses : Bool
  supported : Bool
  matches_ : Bytes → Bool
  src : Src

/-- handleMultiPartUpload's loop (upload.go:199-243): unparsable names are skipped, the first failing
part stops the loop; `received` is what the response lists -/
def multipart (max : Nat) : List Part → List (Bytes × Nat)
  | [] => []
  | p :: ps =>
    if !p.parses then multipart max ps else
    match receive max p.supported p.matches_ p.src with
    | .accepted d => (p.key, d.length) :: multipart max ps
    | _ => []

end Pk.Recv
