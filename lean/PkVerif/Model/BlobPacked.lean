import PkVerif.Base.SMap
import PkVerif.Model.MergedEnum
/-!
# Model of pkg/blobserver/blobpacked  (C04)

Core Lean only (linked into `pkmodel-c04`).  State = the three lower layers of a blobpacked storage:

* `small`  – loose blobs (ref text ↦ bytes),
* `large`  – the zip packs, as **abstract zips** (`Zip`): the contiguous data of the first file, the
  manifest (`dataBlobs`, `wholeRef`, `wholeSize`, `partIndex`), the schema blobs stored after it with
  the offsets of their data, and the zip's byte size,
* the meta index, as typed rows: `b:` (blob ↦ size, zip, offset), `w:` (whole ref ↦ final row +
  per-zip rows), `z:` (zip ↦ size, whole ref, whole size, offset, data bytes), `d:` (zip has deletions).

**Not modelled**: the zip byte codec (`archive/zip` writer and reader), the JSON of the manifest, the
text encoding of the meta rows, SHA-224.  What the model needs from them are *uninterpreted values*
supplied from outside (`ZipLayout`: the zip's blob ref, its byte size, where the data of the first
file and of every schema blob starts; `H`: the blob ref of a byte string) – theorems hold for every
choice of these values that passes the model's own sanity check (`layoutOK`: the regions do not
overlap), the correspondence run supplies the real ones.  What the schema parser sees in a blob
(`Kind`: not a schema blob / a "file" / a "bytes" blob with its parts) is a parameter `K` too.

Every lower-layer **write** is one atomic step (`putSmall`, `putLarge`, `commitZip`, `delSmall`,
`setWhole`, …) executed under a write `Budget` ("the first k writes succeed, the rest fail"): the
states after a crash between two writes are exactly the states `pack` returns for the budgets
`0, 1, 2, …`.  `file:line` refer to pkg/blobserver/blobpacked/blobpacked.go unless said otherwise.
-/
namespace Pk.BP
open Pk Pk.SMap

abbrev Ref := Bytes

def slice (b : Bytes) (off n : Nat) : Bytes := (b.drop off).take n

/-! ## what the schema parser sees in a blob -/

inductive PartK where
  | blob | bytes | hole | both
deriving DecidableEq, Repr

/-- `schema.BytesPart` (pkg/schema/schema.go:339): `kind` = which of blobRef / bytesRef is set -/
structure Part where
  kind : PartK
  ref : Ref
  off : Nat
  size : Nat
deriving DecidableEq, Repr

inductive Kind where
  | raw
  | file (nameOK : Bool) (parts : List Part)
  | bytes (parts : List Part)
deriving DecidableEq, Repr

def Kind.parts? : Kind → Option (List Part)
  | .raw => none
  | .file _ ps => some ps
  | .bytes ps => some ps

/-- `(*Blob).PartsSize` (pkg/schema/blob.go:78) -/
def sumSize : List Part → Nat
  | [] => 0
  | p :: ps => p.size + sumSize ps

/-! ## configuration (regenerated constants + the zip size limit) -/

structure Cfg where
  /-- `maxZipBlobSize()` :261 -/
  zipMax : Nat
  /-- `packThreshold` :115 -/
  packThreshold : Nat
  /-- `zipFixedOverhead` :121 -/
  fixedOverhead : Nat
  /-- `zipPerEntryOverhead` :125 -/
  perEntryOverhead : Nat
  /-- `(&Manifest{}).approxSerializedSize()` :1694 with no DataBlobs yet (it is only ever called
  before `mf.DataBlobs` is filled): (204 + 0*119)/2 -/
  manifestApprox : Nat
  /-- `true` = the code before the two `fix:` commits (an empty zip is stored; RemoveBlobs leaves the
  loose copy of a packed blob) – used by the `_legacy_` counterexample theorems only -/
  legacy : Bool
deriving Repr

/-! ## abstract zips -/

/-- `BlobAndPos` of the manifest's `dataBlobs` (:1648): offset relative to the first file's data -/
structure Entry where
  ref : Ref
  size : Nat
  off : Nat
deriving DecidableEq, Repr

/-- a `camlistore/<ref>.json` file of the zip: the schema blob and the offset of its data in the zip -/
structure SEntry where
  ref : Ref
  data : Bytes
  off : Nat
deriving DecidableEq, Repr

structure Zip where
  /-- byte size of the zip blob (uninterpreted) -/
  size : Nat
  /-- `f.DataOffset()` of the first file (uninterpreted) -/
  dataStart : Nat
  /-- contents of the first file: the data blobs, concatenated -/
  data : Bytes
  dataBlobs : List Entry
  schema : List SEntry
  wholeRef : Ref
  wholeSize : Nat
  partIndex : Nat
deriving DecidableEq, Repr

def SEntry.read (e : SEntry) (off len : Nat) : Option Bytes :=
  if e.off ≤ off ∧ off + len ≤ e.off + e.data.length then some (slice e.data (off - e.off) len) else none

def readSchema : List SEntry → Nat → Nat → Option Bytes
  | [], _, _ => none
  | e :: es, off, len =>
    match e.read off len with
    | some b => some b
    | none => readSchema es off len

/-- `large.SubFetch(zipRef, off, len)` for a range lying inside the first file's data or inside one
schema blob; any other range touches zip headers, which are not modelled (`none`) -/
def Zip.read (z : Zip) (off len : Nat) : Option Bytes :=
  if z.dataStart ≤ off ∧ off + len ≤ z.dataStart + z.data.length then
    some (slice z.data (off - z.dataStart) len)
  else readSchema z.schema off len

/-! ## meta rows and the state -/

/-- `b:<ref>` → "<size> <zip> <offset>" (:194) -/
structure BRow where
  size : Nat
  zip : Ref
  off : Nat
deriving DecidableEq, Repr

/-- `w:<whole>:<idx>` → "<zip> <offset-in-zip> <offset-in-whole> <length>" (:202) -/
structure WPart where
  idx : Nat
  zip : Ref
  zipOff : Nat
  wholeOff : Nat
  len : Nat
deriving DecidableEq, Repr

/-- all rows with prefix `w:<whole>`: the final row "<size> <nZips>" (:197) and the per-zip rows -/
structure WEntry where
  final : Option (Nat × Nat)
  parts : List WPart
deriving DecidableEq, Repr

/-- `z:<zip>` → "<zipSize> <wholeRef> <wholeSize> <offset-in-whole> <dataBytes>" (:212) -/
structure ZRow where
  zipSize : Nat
  wholeRef : Ref
  wholeSize : Nat
  off : Nat
  dataSize : Nat
deriving DecidableEq, Repr

structure St where
  small : SMap Bytes
  large : SMap Zip
  b : SMap BRow
  w : SMap WEntry
  z : SMap ZRow
  d : SMap Unit
deriving Repr

def St.empty : St := ⟨[], [], [], [], [], []⟩

/-! ## reads -/

inductive FOut where
  | ok (b : Bytes)
  | notExist
  | err
deriving DecidableEq, Repr

/-- `(*storage).Fetch` :988: the meta row first, `small` only without one -/
def fetch (s : St) (r : Ref) : FOut :=
  match get s.b r with
  | none =>
    match get s.small r with
    | some v => .ok v
    | none => .notExist
  | some row =>
    match get s.large row.zip with
    | none => .notExist
    | some z =>
      match z.read row.off row.size with
      | some v => .ok v
      | none => .err

def FOut.bytes? : FOut → Option Bytes
  | .ok b => some b
  | _ => none

/-- `(*storage).SubFetch` subfetch.go:35 with `capOffsetLength` :79 (packed) and
`memory.(*Storage).SubFetch` (loose) -/
def subFetch (s : St) (r : Ref) (off len : Nat) : FOut :=
  match get s.b r with
  | none =>
    match get s.small r with
    | none => .notExist
    | some v => if off > v.length then .err else .ok (slice v off len)
  | some row =>
    if off > row.size then .err
    else
      let len' := if off + len > row.size then row.size - off else len
      match get s.large row.zip with
      | none => .notExist
      | some z =>
        match z.read (row.off + off) len' with
        | some v => .ok v
        | none => .err

/-- `(*storage).StatBlobs` :1067 for one ref -/
def stat (s : St) (r : Ref) : Option Nat :=
  match get s.b r with
  | some row => some row.size
  | none => (get s.small r).map List.length

/-- `(*storage).StatBlobs` :1067 for a batch: what `fn` is called with, in the order of the request – a
ref with a meta row is reported from the row (round one) and is NOT tried against `small`; only refs
without a row go to `small.StatBlobs` (round two): every ref is reported at most once -/
def statBlobs (s : St) : List Ref → List (Ref × Nat)
  | [] => []
  | r :: rs =>
    match stat s r with
    | some n => (r, n) :: statBlobs s rs
    | none => statBlobs s rs

def smallSizes (s : St) : List MergedEnum.SR := s.small.map (fun p => (p.1, p.2.length))
def bSizes (s : St) : List MergedEnum.SR := s.b.map (fun p => (p.1, p.2.size))

/-- `(*storage).EnumerateBlobs` :1096: `MergedEnumerate` of `small` and of the `b:` rows
(`enumerator.EnumerateBlobs` :1108: keys strictly after the cursor) -/
def enumerate (s : St) (after : Bytes) (limit : Nat) : List MergedEnum.SR :=
  MergedEnum.mergedEnumerateStorage [smallSizes s, bSizes s] (some after) limit

/-! ## the write budget (crash points) -/

/-- `left = none`: no limit.  `part`: how many refs a `small.RemoveBlobs` hit exactly at the
boundary still removes. -/
structure Budget where
  left : Option Nat
  part : Nat
  tripped : Bool
deriving DecidableEq, Repr

def Budget.unlimited : Budget := ⟨none, 0, false⟩

def Budget.take (b : Budget) : Bool × Budget :=
  match b.left with
  | none => (true, b)
  | some 0 => (false, { b with tripped := true })
  | some (n + 1) => (true, { b with left := some n })

/-! ## atomic writes -/

def putSmall (s : St) (r : Ref) (v : Bytes) : St := { s with small := ins r v s.small }

/-- `ReceiveNoHash(large, zipRef, …)` :1460; the memory store keeps an existing blob -/
def putLarge (s : St) (zr : Ref) (z : Zip) : St :=
  if has s.large zr then s else { s with large := ins zr z s.large }

def setPart (p : WPart) : Option WEntry → WEntry
  | none => ⟨none, [p]⟩
  | some e => ⟨e.final, p :: e.parts.filter (fun q => q.idx != p.idx)⟩

/-- `zipBlobs` :1404-1434 as `b:` rows: the data blobs (manifest order), then the schema blobs -/
def zipBlobRows (zr : Ref) (z : Zip) : List (Ref × BRow) :=
  z.dataBlobs.map (fun e => (e.ref, (⟨e.size, zr, z.dataStart + e.off⟩ : BRow))) ++
    z.schema.map (fun e => (e.ref, (⟨e.data.length, zr, e.off⟩ : BRow)))

def setRows (rows : List (Ref × BRow)) (m : SMap BRow) : SMap BRow :=
  rows.foldl (fun m p => ins p.1 p.2 m) m

/-- the meta batch of `writeAZip` :1465-1491: `w:<whole>:<idx>`, `z:<zip>`, every `b:` row -/
def commitZip (s : St) (zr : Ref) (z : Zip) (wholeOff : Nat) : St :=
  { s with
    w := ins z.wholeRef (setPart ⟨z.partIndex, zr, z.dataStart, wholeOff, z.data.length⟩ (get s.w z.wholeRef)) s.w,
    z := ins zr ⟨z.size, z.wholeRef, z.wholeSize, wholeOff, z.data.length⟩ s.z,
    b := setRows (zipBlobRows zr z) s.b }

def delKeys {V : Type} (refs : List Ref) (m : SMap V) : SMap V := refs.foldl (fun m r => del r m) m

/-- `small.RemoveBlobs(toDelete)` :1498 -/
def delSmall (s : St) (refs : List Ref) : St := { s with small := delKeys refs s.small }

/-- `meta.Set(w:<whole>, "<size> <nZips>")` :1251 -/
def setWhole (s : St) (whole : Ref) (size n : Nat) : St :=
  { s with w := ins whole (match get s.w whole with
      | none => ⟨some (size, n), []⟩
      | some e => ⟨some (size, n), e.parts⟩) s.w }

/-! ## scanChunks :1259 over `FileReader.ForeachChunk` (pkg/schema/filereader.go:218) -/

/-- a data chunk as `scanChunks` records it: `p.BlobRef`, `p.Size`, and the schema path down to it
(every element with the bytes `blob.FromFetcher` got for it) -/
structure Chunk where
  ref : Ref
  size : Nat
  path : List (Ref × Bytes)
deriving DecidableEq, Repr

/-- `foreachChunk` + the callback of `scanChunks`; `none` = an error (sparse file, a part with both
refs, a data part with a non-zero offset, a missing or non-"bytes" sub-blob).  `fuel` bounds the
total number of parts visited. -/
def scanParts (K : Ref → Kind) (s : St) : Nat → List (Ref × Bytes) → List Part → Option (List Chunk)
  | 0, _, _ => none
  | _ + 1, _, [] => some []
  | fuel + 1, path, p :: ps =>
    match p.kind with
    | .both => none
    | .hole => none
    | .blob =>
      if p.off ≠ 0 then none
      else (scanParts K s fuel path ps).map (fun r => (⟨p.ref, p.size, path⟩ : Chunk) :: r)
    | .bytes =>
      match fetch s p.ref, (K p.ref).parts? with
      | .ok v, some sub =>
        match scanParts K s fuel (path ++ [(p.ref, v)]) sub with
        | none => none
        | some a => (scanParts K s fuel path ps).map (fun r => a ++ r)
      | _, _ => none

/-- the bytes the parts denote (doc/schema/bytes.md), as `io.Copy(h, pk.fr)` :1218 reads them;
`none` = the read fails (a missing blob, a range outside its referent) -/
def denoteParts (K : Ref → Kind) (s : St) : Nat → List Part → Option Bytes
  | 0, _ => none
  | _ + 1, [] => some []
  | fuel + 1, p :: ps =>
    let here : Option Bytes :=
      match p.kind with
      | .both => none
      | .hole => some (List.replicate p.size 0)
      | .blob =>
        match fetch s p.ref with
        | .ok v => if p.off + p.size ≤ v.length then some (slice v p.off p.size) else none
        | _ => none
      | .bytes =>
        match fetch s p.ref, (K p.ref).parts? with
        | .ok _, some sub =>
          match denoteParts K s fuel sub with
          | some v => if p.off + p.size ≤ v.length then some (slice v p.off p.size) else none
          | none => none
        | _, _ => none
    match here, denoteParts K s fuel ps with
    | some a, some r => some (a ++ r)
    | _, _ => none

/-- `pk.dataSize[ref]` / `pk.schemaParent[ref]`: Go maps keyed by the data ref – for a chunk that
occurs several times the LAST occurrence's entry is what stays -/
def lastChunk (tbl : List Chunk) (r : Ref) : Option Chunk :=
  tbl.foldl (fun acc c => if c.ref = r then some c else acc) none

/-! ## writeAZip :1310 -/

/-- the values of the uninterpreted zip-layout functions for one attempted zip -/
structure ZipLayout where
  ref : Ref
  size : Nat
  dataStart : Nat
  schemaOffs : List Nat
deriving DecidableEq, Repr

/-- the loop :1365-1371 over `pk.schemaParent[dr]`: unseen parents are appended to `schemaBlobs` and
counted into the estimate -/
def addParents (c : Cfg) : List (Ref × Bytes) → Nat × List Ref × List (Ref × Bytes) → Nat × List Ref × List (Ref × Bytes)
  | [], acc => acc
  | p :: ps, (approx, seen, sbs) =>
    if seen.contains p.1 then addParents c ps (approx, seen, sbs)
    else addParents c ps (approx + p.2.length + c.perEntryOverhead, p.1 :: seen, sbs ++ [p])

structure Filled where
  written : List (Ref × Bytes)
  schemaBlobs : List (Ref × Bytes)
  overflowed : Bool
deriving Repr

/-- the chunk loop :1354-1399; `none` = an error return (`check(err)` on a failed Fetch, "unexpected
size") -/
def fill (c : Cfg) (tbl : List Chunk) (s : St) (trunc : Option Ref) :
    List Ref → Nat → List Ref → List (Ref × Bytes) → List (Ref × Bytes) → Option Filled
  | [], _, _, sbs, written => some ⟨written, sbs, false⟩
  | dr :: rest, approx, seen, sbs, written =>
    if trunc = some dr then some ⟨written, sbs, false⟩
    else
      match lastChunk tbl dr with
      | none => none
      | some ch =>
        let a := addParents c ch.path (approx, seen, sbs)
        let approx2 := a.1 + ch.size
        if approx2 + c.manifestApprox > c.zipMax then some ⟨written, sbs, true⟩
        else
          match fetch s dr with
          | .ok v =>
            if v.length ≠ ch.size then none
            else fill c tbl s trunc rest approx2 a.2.1 a.2.2 (written ++ [(dr, v)])
          | _ => none

/-- `mf.DataBlobs` :1407-1413: running offsets -/
def mkEntries : List (Ref × Bytes) → Nat → List Entry
  | [], _ => []
  | (r, v) :: rest, off => ⟨r, v.length, off⟩ :: mkEntries rest (off + v.length)

def concatData : List (Ref × Bytes) → Bytes
  | [] => []
  | (_, v) :: rest => v ++ concatData rest

def mkSchema : List (Ref × Bytes) → List Nat → List SEntry
  | (r, v) :: rest, o :: os => ⟨r, v, o⟩ :: mkSchema rest os
  | _, _ => []

/-- the layout's regions are disjoint and in zip order: first file's data, then every schema blob,
all before the end of the zip (true of every real zip; a layout failing it is rejected) -/
def regionsOK : Nat → List SEntry → Nat → Bool
  | pos, [], size => decide (pos ≤ size)
  | pos, e :: es, size => decide (pos ≤ e.off) && regionsOK (e.off + e.data.length) es size

def layoutOK (l : ZipLayout) (data : Bytes) (sbs : List (Ref × Bytes)) : Bool :=
  decide (l.schemaOffs.length = sbs.length) && decide (l.ref ≠ []) &&
    regionsOK (l.dataStart + data.length) (mkSchema sbs l.schemaOffs) l.size

/-- the walk-back :1446-1456: `some r` = `needsTruncatedAfterError{r}`, `none` = "file is unpackable" -/
def walkBack : List (Ref × Bytes) → Nat → Option Ref
  | [], _ => none
  | (r, v) :: rest, over =>      -- the list is `dataRefsWritten` REVERSED
    if over = 0 then some r else walkBack rest (over - v.length)

/-- the zip value `writeAZip` builds from what it wrote and the layout values -/
def buildZip (l : ZipLayout) (written sbs : List (Ref × Bytes)) (whole : Ref) (wsz n : Nat) : Zip :=
  ⟨l.size, l.dataStart, concatData written, mkEntries written 0, mkSchema sbs l.schemaOffs, whole, wsz, n⟩

/-- a different zip is already stored under this ref (impossible for a real hash) -/
def collides (large : SMap Zip) (zr : Ref) (z : Zip) : Bool :=
  match get large zr with
  | some z' => decide (z' ≠ z)
  | none => false

inductive ZipOut where
  /-- the zip was stored and indexed (the loose-blob deletion may have failed: it is only logged) -/
  | stored (s : St) (bud : Budget) (zr : Ref) (consumed dataLen dataStart zsize : Nat)
  | retry (trunc : Ref)
  /-- an error return; the state may have changed (zip stored, meta batch failed) -/
  | fail (s : St) (bud : Budget)
deriving Repr

structure PackEnv where
  c : Cfg
  K : Ref → Kind
  /-- the blob ref of a byte string (SHA-224, uninterpreted) -/
  H : Bytes → Ref

/-- `small.RemoveBlobs` under the budget: at the boundary the first `part` refs still go -/
def delSmallB (s : St) (bud : Budget) (refs : List Ref) : St × Budget :=
  let t := bud.take
  if t.1 then (delSmall s refs, t.2)
  else (if !bud.tripped then delSmall s (refs.take bud.part) else s, t.2)

/-- one call of `writeAZip` given the layout values for the zip it builds; also reports whether the
estimate ended the zip (`testHookStopBeforeOverflowing`) -/
def writeAZip (env : PackEnv) (nameOK : Bool) (tbl : List Chunk) (wholeRef : Ref) (wholeSize : Nat)
    (s : St) (bud : Budget) (remain : List Ref) (nZips wbw : Nat) (trunc : Option Ref)
    (lay : Option ZipLayout) : ZipOut × Bool :=
  if !nameOK then (.fail s bud, false)                                   -- :1336
  else
    match fill env.c tbl s trunc remain (env.c.fixedOverhead + env.c.perEntryOverhead) [] [] [] with
    | none => (.fail s bud, false)
    | some f =>
      if f.written.isEmpty && !env.c.legacy then (.fail s bud, f.overflowed)   -- "first blob is too large to pack"
      else
        match lay with
        | none => (.fail s bud, f.overflowed)
        | some l =>
          let data := concatData f.written
          if !layoutOK l data f.schemaBlobs then (.fail s bud, f.overflowed)
          else if l.size > env.c.zipMax then                               -- :1446
            match walkBack f.written.reverse (l.size - env.c.zipMax) with
            | some r => (.retry r, f.overflowed)
            | none => (.fail s bud, f.overflowed)
          else
            let z : Zip := buildZip l f.written f.schemaBlobs wholeRef wholeSize nZips
            -- ASSUMED collision freedom of the zips' blob refs: a different zip already stored under
            -- the same ref cannot happen with a real hash; the model stops here if it is told so
            if collides s.large l.ref z then (.fail s bud, f.overflowed)
            else
              let t1 := bud.take
              if !t1.1 then (.fail s t1.2, f.overflowed)                   -- large receive failed :1461
              else
                let s1 := putLarge s l.ref z
                let t2 := t1.2.take
                if !t2.1 then (.fail s1 t2.2, f.overflowed)                -- CommitBatch failed :1489
                else
                  let s2 := commitZip s1 l.ref z wbw
                  let r := delSmallB s2 t2.2 (f.written.map (·.1) ++ f.schemaBlobs.map (·.1))
                  (.stored r.1 r.2 l.ref f.written.length data.length l.dataStart l.size, f.overflowed)

/-! ## pack :1201 -/

/-- a zip stored by a pack: its ref, the offset of its data in the whole file, its part index, its data length -/
structure ZipRec where
  zr : Ref
  off : Nat
  idx : Nat
  len : Nat
  /-- where the data of the first file starts inside the zip -/
  ds : Nat
  /-- byte size of the zip -/
  zsize : Nat
deriving DecidableEq, Repr

structure PackRes where
  s : St
  bud : Budget
  /-- `pack` returned nil -/
  ok : Bool
  truncs : Nat
  overflows : Nat
  /-- zips stored by this pack, in order -/
  zips : List ZipRec
  outOfFuel : Bool
deriving Repr

/-- the loop `MakingZips` :1235-1248 and the final row :1251 -/
def packLoop (env : PackEnv) (nameOK : Bool) (tbl : List Chunk) (wholeRef : Ref) (wholeSize : Nat) :
    Nat → St → Budget → List Ref → Nat → Nat → Option Ref → List ZipLayout → Nat → Nat → List ZipRec → PackRes
  | 0, s, bud, _, _, _, _, _, t, o, zs => ⟨s, bud, false, t, o, zs, true⟩
  | fuel + 1, s, bud, remain, nZips, wbw, trunc, lays, t, o, zs =>
    if remain.isEmpty then
      if (bud.take).1 then ⟨setWhole s wholeRef wholeSize nZips, (bud.take).2, true, t, o, zs, false⟩
      else ⟨s, (bud.take).2, false, t, o, zs, false⟩
    else
      let r := writeAZip env nameOK tbl wholeRef wholeSize s bud remain nZips wbw trunc lays.head?
      let o' := if r.2 then o + 1 else o
      match r.1 with
      | .fail s' bud' => ⟨s', bud', false, t, o', zs, false⟩
      | .retry tr => packLoop env nameOK tbl wholeRef wholeSize fuel s bud remain nZips wbw (some tr) lays.tail (t + 1) o' zs
      | .stored s' bud' zr n len ds zsize =>
        packLoop env nameOK tbl wholeRef wholeSize fuel s' bud' (remain.drop n) (nZips + 1) (wbw + len) none lays.tail t o'
          (zs ++ [⟨zr, wbw, nZips, len, ds, zsize⟩])

def scanFuel : Nat := 100000

/-- `packFile` :1142 + `pack` :1201 up to the loop -/
def packFile (env : PackEnv) (s : St) (bud : Budget) (fileRef : Ref) (lays : List ZipLayout) (loopFuel : Nat) : PackRes :=
  let failed : PackRes := ⟨s, bud, false, 0, 0, [], false⟩
  match fetch s fileRef, (env.K fileRef).parts? with
  | .ok v, some parts =>
    let nameOK := match env.K fileRef with | .file n _ => n | _ => true
    match scanParts env.K s scanFuel [(fileRef, v)] parts with
    | none => failed
    | some tbl =>
      match denoteParts env.K s scanFuel parts with
      | none => failed
      | some whole =>
        let wholeRef := env.H whole
        match (get s.w wholeRef).bind (·.final) with
        | some _ => failed                                     -- "already have wholeref … packed" :1227
        | none =>
          packLoop env nameOK tbl wholeRef whole.length loopFuel s bud (tbl.map (·.ref)) 0 0 none lays 0 0 []
  | _, _ => failed

/-! ## ReceiveBlob :949 -/

structure RecvRes where
  s : St
  bud : Budget
  /-- `none` = an error was returned (the blob is not acknowledged) -/
  size : Option Nat
  truncs : Nat
  overflows : Nat
  outOfFuel : Bool
deriving Repr

def receive (env : PackEnv) (s : St) (bud : Budget) (r : Ref) (v : Bytes) (lays : List ZipLayout) (loopFuel : Nat) : RecvRes :=
  let packed := (get s.b r).isSome
  let step : Option (St × Budget) :=
    if packed then some (s, bud)
    else match bud.take with
      | (true, bud') => some (putSmall s r v, bud')
      | (false, _) => none
  match step with
  | none => ⟨s, (bud.take).2, none, 0, 0, false⟩
  | some (s1, bud1) =>
    match env.K r with
    | .file _ parts =>
      if packed || sumSize parts < env.c.packThreshold then ⟨s1, bud1, some v.length, 0, 0, false⟩
      else
        let p := packFile env s1 bud1 r lays loopFuel
        ⟨p.s, p.bud, some v.length, p.truncs, p.overflows, p.outOfFuel⟩
    | _ => ⟨s1, bud1, some v.length, 0, 0, false⟩

/-! ## RemoveBlobs :1005 (one ref; a batch is the sequence of its refs: the rows are independent) -/

def remove (c : Cfg) (s : St) (r : Ref) : St :=
  match get s.b r with
  | none => { s with small := del r s.small }
  | some row =>
    { s with
      small := if c.legacy then s.small else del r s.small,
      d := ins row.zip () s.d,
      b := del r s.b }

/-! ## reindex :500 -/

/-- `zipMetaInfo` :459 -/
structure ZMI where
  idx : Nat
  zip : Ref
  zipSize : Nat
  offInZip : Nat
  dataSize : Nat
  wholeSize : Nat
  wholeRef : Ref
deriving DecidableEq, Repr

/-- the rows of one zip as `reindex` writes them :563-587: data blobs of the manifest, then the
schema files – the same rows as `zipBlobRows` -/
def reindexRows (zr : Ref) (z : Zip) : List (Ref × BRow) := zipBlobRows zr z

def sumSizes : List Entry → Nat
  | [] => 0
  | e :: es => e.size + sumSizes es

def zmiOf (zr : Ref) (z : Zip) : ZMI :=
  ⟨z.partIndex, zr, z.size, z.dataStart, sumSizes z.dataBlobs, z.wholeSize, z.wholeRef⟩

/-- `sort.Slice(zipMetas, by wholePartIndex)` :621 – insertion sort, which is what `sort.Slice` runs
for fewer than 12 elements (stable; ASSUMED: at most 12 zips per whole ref) -/
def insertByIdx (x : ZMI) : List ZMI → List ZMI
  | [] => [x]
  | y :: ys => if x.idx ≤ y.idx then x :: y :: ys else y :: insertByIdx x ys

def sortByIdx : List ZMI → List ZMI
  | [] => []
  | x :: xs => insertByIdx x (sortByIdx xs)

/-- `hasDups` :696; `none` = its panic -/
def hasDupsAux : List ZMI → Nat → Nat → Bool → Option Bool
  | [], _, _, found => some found
  | z :: zs, i, dataSize, found =>
    if z.idx = i then hasDupsAux zs (i + 1) z.dataSize found
    else if z.dataSize ≠ dataSize then none
    else hasDupsAux zs i dataSize true

def hasDups (zm : List ZMI) : Option Bool := hasDupsAux zm 0 0 false

/-- `wholeOffsets` :723 -/
def wholeOffsetsAux : List ZMI → Nat → Nat → List Nat
  | [], _, cur => [cur]
  | z :: zs, i, cur =>
    if i ≠ z.idx then wholeOffsetsAux zs i cur
    else cur :: wholeOffsetsAux zs (i + 1) (cur + z.dataSize)

def wholeOffsets (zm : List ZMI) : List Nat := wholeOffsetsAux zm 0 0

inductive ROut where
  | ok | err | panic
deriving DecidableEq, Repr

/-- the loop :627-635 over one whole ref's zips: `w:<whole>:<idx>` and `z:<zip>` rows; `none` = the
index-out-of-range panic of `offsets[z.wholePartIndex]` -/
def groupRows (offsets : List Nat) : List ZMI → St → Option St
  | [], s => some s
  | z :: zs, s =>
    match offsets[z.idx]? with
    | none => none
    | some off =>
      groupRows offsets zs
        { s with
          w := ins z.wholeRef (setPart ⟨z.idx, z.zip, z.offInZip, off, z.dataSize⟩ (get s.w z.wholeRef)) s.w,
          z := ins z.zip ⟨z.zipSize, z.wholeRef, z.wholeSize, off, z.dataSize⟩ s.z }

/-- one iteration of the loop :615-665 over `zipMetaByWholeRef` -/
def reindexGroup (whole : Ref) (zms : List ZMI) (s : St) : Option St :=
  let zm := sortByIdx zms
  match hasDups zm with
  | none => none
  | some _ =>
    let offsets := wholeOffsets zm
    match groupRows offsets zm s with
    | none => none
    | some s1 =>
      match zm.head?, offsets.getLast?, zm.getLast? with
      | some z0, some total, some zl =>
        if z0.wholeSize ≠ total then some s1                      -- incomplete file: no final row :643
        else some (setWhole s1 whole total (zl.idx + 1))
      | _, _, _ => some s1

/-- the distinct whole refs, in order of first appearance (the Go map's iteration order does not
matter: different whole refs write different keys) -/
def wholeRefs : List ZMI → List Ref → List Ref
  | [], acc => acc.reverse
  | z :: zs, acc => if acc.contains z.wholeRef then wholeRefs zs acc else wholeRefs zs (z.wholeRef :: acc)

def reindexGroups (zms : List ZMI) : List Ref → St → Option St
  | [], s => some s
  | w :: ws, s =>
    match reindexGroup w (zms.filter (fun z => z.wholeRef = w)) s with
    | none => none
    | some s1 => reindexGroups zms ws s1

/-- the first phase :518-607: one committed batch of `b:` rows per zip, in the order `large`
enumerates; an error (an incomplete manifest) stops it with the earlier zips' rows written -/
def reindexZips : List (Ref × Zip) → St → St × Bool
  | [], s => (s, true)
  | (zr, z) :: rest, s =>
    if z.wholeSize = 0 then (s, false)                               -- "incomplete blobpack manifest" :555
    else reindexZips rest { s with b := setRows (reindexRows zr z) s.b }

/-- `reindex` :500 as `newFromConfig` :316-345 runs it: `full = true` wipes the index first -/
def reindex (full : Bool) (s : St) : St × ROut :=
  let s0 : St := if full then { s with b := [], w := [], z := [], d := [] } else s
  match reindexZips s0.large s0 with
  | (s1, false) => (s1, .err)
  | (s1, true) =>
    let zms := s0.large.map (fun p => zmiOf p.1 p.2)
    match reindexGroups zms (wholeRefs zms []) s1 with
    | none => (s1, .panic)              -- the second batch is never committed
    | some s2 => (s2, .ok)

/-! ## checkLargeIntegrity :383 -/

inductive Mode where
  | none | fast | full
deriving DecidableEq, Repr

/-- the merge walk of the enumeration of `large` against the `z:` rows: (`missing`, `extra`).
`cur` is the iterator's current key (after a `Next`), `iterate` the flag of the same name;
`zs` are the keys not yet visited.  `fuel ≥ |large| + |z| + 1`. -/
def integWalk : Nat → List Ref → Bool → Option Ref → List Ref → Nat → Nat → Nat × Nat
  | 0, _, _, _, _, m, e => (m, e)
  | _, [], _, _, _, m, e => (m, e)
  | fuel + 1, l :: ls, iterate, cur, zs, m, e =>
    -- `if iterate && !t.Next()`
    let adv : Option (Option Ref × List Ref) :=
      if iterate then
        match zs with
        | [] => none
        | k :: zs' => some (some k, zs')
      else some (cur, zs)
    match adv with
    | none => integWalk fuel ls true cur [] (m + 1) e          -- all of the yet to be enumerated are missing
    | some (cur', zs') =>
      match cur' with
      | none => integWalk fuel ls true none zs' (m + 1) e
      | some k =>
        if k = l then integWalk fuel ls true cur' zs' m e
        else if ltB l k then integWalk fuel ls false cur' zs' (m + 1) e      -- metaKey > wantMetaKey
        else integWalk fuel (l :: ls) true cur' zs' m (e + 1)              -- extra; same blob again

def checkLargeIntegrity (s : St) : Mode :=
  let (m, e) := integWalk (s.large.length + s.z.length + 1) (keys s.large) true none (keys s.z) 0 0
  if e > 0 then .full else if m > 0 then .fast else .none

/-- `!sto.anyMeta() && sto.anyZipPacks()` :355 -/
def noMetaButZips (s : St) : Bool :=
  s.b.isEmpty && s.w.isEmpty && s.z.isEmpty && s.d.isEmpty && !s.large.isEmpty

/-! ## OpenWholeRef wholefetch.go:52 -/

def insertPart (x : WPart) : List WPart → List WPart
  | [] => [x]
  | y :: ys => if x.idx ≤ y.idx then x :: y :: ys else y :: insertPart x ys

def sortParts : List WPart → List WPart
  | [] => []
  | x :: xs => insertPart x (sortParts xs)

def contiguous : List WPart → Nat → Bool
  | [], _ => true
  | p :: ps, i => p.idx == i && contiguous ps (i + 1)

/-- the skip loop wholefetch.go:113-120 -/
def skipParts : List WPart → Nat → List WPart
  | [], _ => []
  | p :: ps, skip =>
    if skip ≥ p.len then skipParts ps (skip - p.len)
    else if skip > 0 then { p with zipOff := p.zipOff + skip, len := p.len - skip } :: ps
    else p :: ps

inductive WOut where
  | ok (wholeSize : Nat) (b : Bytes)
  | notExist
  /-- a read error after `n` bytes (a zip is missing, or the parts end early) -/
  | readErr (n : Nat)
deriving DecidableEq, Repr

/-- `wholeFromZips.Read` until EOF: the parts in order while bytes remain -/
def readParts (s : St) : List WPart → Nat → Bytes → WOut × Bytes
  | _, 0, acc => (.ok 0 [], acc)
  | [], _ + 1, acc => (.readErr acc.length, acc)
  | p :: ps, remain + 1, acc =>
    match get s.large p.zip with
    | none => (.readErr acc.length, acc)
    | some z =>
      match z.read p.zipOff p.len with
      | none => (.readErr acc.length, acc)
      | some v => readParts s ps (remain + 1 - v.length) (acc ++ v)

def openWholeRef (s : St) (whole : Ref) (off : Nat) : WOut :=
  match get s.w whole with
  | none => .notExist                                         -- rows == 0
  | some e =>
    let (wholeSize, nZipWant) := match e.final with | some (sz, n) => (sz, n) | none => (0, 0)
    if e.parts.length ≠ nZipWant then .notExist
    else
      let parts := sortParts e.parts
      if !contiguous parts 0 then .notExist
      else
        match readParts s (skipParts parts off) (wholeSize - off) [] with
        | (.ok _ _, acc) => .ok wholeSize acc
        | (o, _) => o

end Pk.BP
