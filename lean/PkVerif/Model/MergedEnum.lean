import PkVerif.Base.Bytes
import PkVerif.Base.Order
/-!
# Model of pkg/blobserver/mergedenum.go (core Lean only; shared by C01 and C12)

`mergedEnumerate` (mergedenum.go:44-103) merge-joins `nsrc` sources.  A source is the list of entries
`(key, size)` its `EnumerateBlobs` sends on its channel, in order; a `blob.ChanPeeker` over that channel
is the list of entries not yet taken.  Keys are the refs' text (ordered by `Pk.ltB`; for refs of supported
hashes `blob.Ref.Less` is exactly that order – theorem `C20_less_iff_text_lt`).

Not modelled here: the error channel (`errch`), context cancellation, and the `after` cursor – `after`
and `limit` are only *passed through* to every source (mergedenum.go:54); callers model the sources'
own cut (`(contents.filter (after < ·)).take limit`).
-/
namespace Pk.MergedEnum

/-- a `blob.SizedRef`: key (ref text) and size -/
abbrev SR := Bytes × Nat

/-- keys of a source -/
def keys (s : List SR) : List Bytes := s.map (·.1)

/-- `tooLow` (mergedenum.go:65): `lastSent.Valid() && (br == lastSent || br.Less(lastSent))` -/
def tooLow (last : Option Bytes) (k : Bytes) : Bool :=
  match last with
  | none => false
  | some l => k == l || ltB k l

/-- `for !peeker.Closed() && tooLow(peeker.MustPeek().Ref) { peeker.Take() }` (mergedenum.go:70-72) -/
def skipLow (last : Option Bytes) : List SR → List SR
  | [] => []
  | x :: t => if tooLow last x.1 then skipLow last t else x :: t

/-- the scan `for idx, peeker := range peekers` (mergedenum.go:69-81) over the peeked heads
(`none` = peeker closed): `lowest` is replaced only by a strictly smaller key, so the first source
wins ties -/
def pick (lowest : Option SR) : List (Option SR) → Option SR
  | [] => lowest
  | none :: hs => pick lowest hs
  | some sb :: hs =>
    match lowest with
    | none => pick (some sb) hs
    | some lo => if ltB sb.1 lo.1 then pick (some sb) hs else pick lowest hs

/-- the loop `for nSent < limit` (mergedenum.go:66-99); `fuel = limit - nSent` -/
def loop : Nat → Option Bytes → List (List SR) → List SR
  | 0, _, _ => []
  | fuel + 1, last, peekers =>
    let ps := peekers.map (skipLow last)
    match pick none (ps.map List.head?) with
    | none => []                                   -- all closed: break
    | some lo => lo :: loop fuel (some lo.1) ps    -- dest <- lowest; nSent++; lastSent = lowest.Ref

/-- `mergedEnumerate` (mergedenum.go:44): what is sent on `dest`, in order -/
def mergedEnumerate (limit : Nat) (srcs : List (List SR)) : List SR :=
  loop limit none srcs

/-- what `EnumerateBlobs(ctx, ch, after, limit)` of a well-behaved source holding `contents`
(ascending) sends: the entries after the cursor, at most `limit` -/
def sourceEnum (contents : List SR) (after : Option Bytes) (limit : Nat) : List SR :=
  ((match after with
    | none => contents
    | some a => contents.filter (fun e => ltB a e.1))).take limit

/-- `MergedEnumerate(ctx, dest, sources, after, limit)` over well-behaved sources -/
def mergedEnumerateStorage (contents : List (List SR)) (after : Option Bytes) (limit : Nat) : List SR :=
  mergedEnumerate limit (contents.map (fun c => sourceEnum c after limit))

end Pk.MergedEnum
