import PkVerif.Base.Eff
/-!
# Model: the gate accounting of `blobserver.StatBlobsParallelHelper` (pkg/blobserver/stat.go:65-129)

    for i := range blobs {
        gate.Start()
        select { case <-ctx.Done(): [gate.Done()] break Blobs; default: }
        wg.Go(func() error { defer gate.Done(); … worker(b) … fn(sb) … })
    }
    wg.Err()        // waits for every started worker

The gate is a counting semaphore shared by every store of a backend type (files.go:215,
diskpacked.go:444, blobpacked.go:1069, encrypt.go:137).  What is modelled is exactly the number of
`Start`s and `Done`s one call has performed when it returns.  The two places where a `Done` can be
are read off the regenerated effect list (`Pk.Gen.statHelperEffects`): a non-deferred one (the early
exit) and a deferred one (the worker).
-/
namespace Pk.StatGate

/-- how one worker ends (stat.go:91-113): error from `worker`, blob not found, context found
cancelled under `fnMu`, error from `fn`, or success -/
inductive WorkerEnd where
  | workerErr | notFound | cancelled | fnErr | ok
deriving DecidableEq, Repr

/-- the shape of the helper as far as the gate is concerned -/
structure Shape where
  /-- `gate.Done()` on the early `break` (stat.go:80-86) -/
  doneOnBreak : Bool
  /-- `defer gate.Done()` first thing in the worker (stat.go:89) -/
  workerDefersDone : Bool
deriving DecidableEq, Repr

/-- the shape read off an effect list -/
def shapeOf (l : List EffAt) : Shape :=
  { doneOnBreak := l.any (fun x => x.e == .gateDone && !x.deferred)
    workerDefersDone := l.any (fun x => x.e == .gateDone && x.deferred) }

/-- the obligation on the source: exactly one `gate.Start()`, a `gate.Done()` on the early exit and a
deferred one in the worker -/
def GateDoneOnEveryExit (l : List EffAt) : Prop :=
  (l.filter (fun x => x.e == .gateStart)).length = 1 ∧
  (shapeOf l).doneOnBreak = true ∧ (shapeOf l).workerDefersDone = true

instance (l : List EffAt) : Decidable (GateDoneOnEveryExit l) := by
  unfold GateDoneOnEveryExit; exact inferInstance

/-- Starts and Dones performed so far -/
structure Count where
  starts : Nat
  dones : Nat
deriving DecidableEq, Repr

/-- the `Done`s of one worker: the deferred call runs on every way out of the worker -/
def workerDones (sh : Shape) : WorkerEnd → Nat
  | .workerErr | .notFound | .cancelled | .fnErr | .ok => if sh.workerDefersDone then 1 else 0

/-- the loop, iteration `i` onward.  `visible i` = the cancellation is visible to the `select` of
iteration `i` (it depends on scheduling: any function is allowed); `ends` = how each worker ends.
`wg.Err()` waits for the workers, so their `Done`s are counted when the call returns. -/
def loop (sh : Shape) (visible : Nat → Bool) : Nat → List WorkerEnd → Count → Count
  | _, [], c => c
  | i, w :: rest, c =>
    if visible i then
      { starts := c.starts + 1, dones := c.dones + (if sh.doneOnBreak then 1 else 0) }   -- break Blobs
    else
      loop sh visible (i + 1) rest { starts := c.starts + 1, dones := c.dones + workerDones sh w }

/-- one call of the helper over `ends.length` blobs -/
def call (sh : Shape) (visible : Nat → Bool) (ends : List WorkerEnd) : Count :=
  loop sh visible 0 ends ⟨0, 0⟩

/-- slots a call leaves taken -/
def leaked (sh : Shape) (visible : Nat → Bool) (ends : List WorkerEnd) : Nat :=
  (call sh visible ends).starts - (call sh visible ends).dones

/-- the shared gate over a sequence of calls: `some free` = free slots after them, `none` = some call
blocked forever in its first `gate.Start()` because no slot was free.  A call gives back all the
slots it took except the `leaked` ones. -/
def gateRun (sh : Shape) : Option Nat → List ((Nat → Bool) × List WorkerEnd) → Option Nat
  | none, _ => none
  | some free, [] => some free
  | some free, (v, e) :: rest =>
    if e ≠ [] ∧ free = 0 then none else gateRun sh (some (free - leaked sh v e)) rest

end Pk.StatGate
