import PkVerif.Base.SMap
/-!
# Model of the perkeep indexer (pkg/index receive.go, index.go, keys.go, corpus.go) – properties C05, C06

Level 1 of DESIGN §8 C05: one `ReceiveBlob` is atomic; the asynchronous out-of-order re-index
goroutines (`indexReadyBlobs`) are separate steps (`reidx`) that any schedule may interleave.

Blobs are abstract (`Kind`): what matters is (a) the blobs the indexer must *fetch from the blob
source* to index them (`fdeps`, in the order the code meets them – the first absent one is the one
`missTrackFetcher` records), (b) the *index* dependency of a delete claim (its target's `meta:` row),
(c) the rows (`fullRows`, `partialRows`), as abstract tuples mirroring `keys.go`: a key is the list
`tag :: fields`, a value a list of numbers. Refs, GPG key ids, dates, attribute names, values and
file names are numbers (tokens); MIME sniffing, EXIF/ID3 extraction and the whole-file digest are
opaque data of the blob description.

The model is the code *after* the five `fix:` commits of C05/C06 (598c029, c9dd462, e826ac0, 260ba65,
12ff980); `Old` holds the pre-fix variants for the counterexample theorems.
-/
namespace Pk.Index

abbrev Ref := Nat
abbrev Row := Bytes × Bytes

/-! ## blobs -/

inductive CType where
  | set | add | del
deriving DecidableEq, Repr

inductive Attr where
  | indexed (n : Nat)   -- tag, title, camliRoot, camliImportRoot (IsIndexedAttribute, index.go:1912)
  | member              -- camliMember (IsBlobReferenceAttribute, index.go:1924)
  | path (sfx : Nat)    -- camliPath:<suffix>
  | other (n : Nat)     -- anything else (0 = camliContent)
deriving DecidableEq, Repr

inductive Val where
  | str (n : Nat)
  | ref (r : Ref)       -- a value that parses as a blobref
deriving DecidableEq, Repr

inductive Part where
  | chunk (r : Ref) (size : Nat)
  | bytes (r : Ref) (size : Nat)
  | hole (size : Nat)
deriving DecidableEq, Repr

inductive Kind where
  | key (k : Nat)                                   -- armored public key of GPG key id `k`
  | opaque
  | pn (signer : Ref)
  | claim (signer pn : Ref) (ct : CType) (attr : Attr) (val : Val) (date : Nat) (drop : Nat)
  | del (signer target : Ref) (date : Nat)
  | bytes (parts : List Part)
  | file (name mtime fsize : Nat) (mime : Bytes) (whole : Nat) (img : Option (Nat × Nat)) (parts : List Part)
  | dir (name : Nat) (sset : Ref)
  | sset (merge : Bool) (refs : List Ref)
deriving DecidableEq, Repr

structure Blob where
  kind : Kind
  size : Nat
  mime : Bytes        -- MIME type the sniffer reports for a non-schema blob
deriving DecidableEq, Repr

/-- the world: what every ref denotes (content addressing: a ref denotes one blob for ever) -/
abbrev World := Ref → Blob

def treeFuel : Nat := 16

/-- blobs read by `schema.FileReader` over a parts list, depth first (filereader.go:317 readerForOffset);
the fuel bounds the depth of the bytes tree -/
def partDeps (W : World) : Nat → List Part → List Ref
  | 0, _ => []
  | n + 1, ps => ps.flatMap fun p =>
    match p with
    | .chunk r _ => [r]
    | .hole _ => []
    | .bytes r _ => r :: (match (W r).kind with
                          | .bytes sub => partDeps W n sub
                          | _ => [])

/-- blobs read by `DirReader.StaticSet` (dirreader.go:105 staticSet), and the members it returns -/
def ssetWalk (W : World) : Nat → Ref → List Ref × List Ref
  | 0, r => ([r], [])
  | n + 1, r =>
    match (W r).kind with
    | .sset false refs => ([r], refs)
    | .sset true refs =>
      refs.foldl (fun acc x => let w := ssetWalk W n x; (acc.1 ++ w.1, acc.2 ++ w.2)) ([r], [])
    | _ => ([r], [])

/-- fetch dependencies, in the order the indexer meets them (receive.go:332 verifySignature,
:513 populateFile, :821 populateDir) -/
def fdeps (W : World) (b : Ref) : List Ref :=
  match (W b).kind with
  | .pn s => [s]
  | .claim s _ _ _ _ _ _ => [s]
  | .del s _ _ => [s]
  | .file _ _ _ _ _ _ parts => partDeps W treeFuel parts
  | .dir _ ss => (ssetWalk W treeFuel ss).1
  | _ => []

/-- index dependency: a delete claim needs its target's `meta:` row (receive.go:862) -/
def idep (W : World) (b : Ref) : Option Ref :=
  match (W b).kind with
  | .del _ t _ => some t
  | _ => none

/-- the first fetch dependency that is not in the blob source (`fetcher.missing`) -/
def firstMissing (W : World) (src : List Ref) (b : Ref) : Option Ref :=
  (fdeps W b).find? (fun m => !src.contains m)

/-! ## keys (keys.go) -/

def kSchema : Bytes := [0]
def kMeta (b : Ref) : Bytes := [1, b]
def kHave (b : Ref) : Bytes := [2, b]
def kMissing (have_ needed : Ref) : Bytes := [3, have_, needed]
def kSignerKeyId (s : Ref) : Bytes := [4, s]
def kClaim (pn kid date cl : Nat) : Bytes := [5, pn, kid, date, cl]
def kRecpn (kid date cl : Nat) : Bytes := [6, kid, date, cl]
def kPathBack (kid target cl : Nat) : Bytes := [7, kid, target, cl]
def kPathFwd (kid base sfx date cl : Nat) : Bytes := [8, kid, base, sfx, date, cl]
def kWholeToFile (whole file : Nat) : Bytes := [9, whole, file]
def kFileInfo (f : Ref) : Bytes := [10, f]
def kFileTimes (f : Ref) : Bytes := [11, f]
def kSAV (kid a1 a2 v1 v2 date cl : Nat) : Bytes := [12, kid, a1, a2, v1, v2, date, cl]
def kDeleted (target date deleter : Nat) : Bytes := [13, target, date, deleter]
def kEdgeBack (child parent cl : Nat) : Bytes := [14, child, parent, cl]
def kImageSize (f : Ref) : Bytes := [15, f]
def kDirChild (d child : Ref) : Bytes := [16, d, child]

/-- the blob whose indexing writes the row (none: rows shared by several blobs) -/
def owner : Bytes → Option Ref
  | [1, b] => some b
  | [2, b] => some b
  | [3, h, _] => some h
  | [5, _, _, _, cl] => some cl
  | [6, _, _, cl] => some cl
  | [7, _, _, cl] => some cl
  | [8, _, _, _, _, cl] => some cl
  | [9, _, f] => some f
  | [10, f] => some f
  | [11, f] => some f
  | [12, _, _, _, _, _, _, cl] => some cl
  | [13, _, _, d] => some d
  | [14, _, _, cl] => some cl
  | [15, f] => some f
  | [16, d, _] => some d
  | _ => none

def isMissingKey : Bytes → Bool
  | [3, _, _] => true
  | _ => false

def Attr.code : Attr → Nat × Nat
  | .indexed n => (0, n)
  | .member => (1, 0)
  | .path s => (2, s)
  | .other n => (3, n)

def Val.code : Val → Nat × Nat
  | .str n => (0, n)
  | .ref r => (1, r)

def CType.code : CType → Nat
  | .set => 0 | .add => 1 | .del => 2

/-- camliType code of the `meta:` row: 0 none, 1 permanode, 2 claim, 3 file, 4 bytes, 5 directory,
6 static-set -/
def tcode (W : World) (b : Ref) : Nat :=
  match (W b).kind with
  | .key _ => 0 | .opaque => 0 | .pn _ => 1 | .claim .. => 2 | .del .. => 2
  | .file .. => 3 | .bytes _ => 4 | .dir .. => 5 | .sset .. => 6

def keyIdOf (W : World) (signer : Ref) : Nat :=
  match (W signer).kind with
  | .key k => k
  | _ => 0

def metaVal (W : World) (b : Ref) : Bytes :=
  (W b).size :: tcode W b :: (if tcode W b = 0 then (W b).mime else [])

def haveVal (W : World) (b : Ref) (indexed : Bool) : Bytes := [(W b).size, if indexed then 1 else 0]

/-! ## rows of one blob (receive.go:374 populateMutationMap and callees) -/

/-- receive.go:890 populateClaim (attribute claims) -/
def claimRows (W : World) (b signer pn : Ref) (ct : CType) (attr : Attr) (val : Val) (date : Nat) : List Row :=
  let kid := keyIdOf W signer
  [ (kSignerKeyId signer, [kid]),
    (kRecpn kid date b, [pn]),
    (kClaim pn kid date b, [ct.code, attr.code.1, attr.code.2, val.code.1, val.code.2, signer]) ]
  ++ (match attr, val with
      | .path sfx, .ref t =>
        let active := if ct = .del then 0 else 1
        [ (kPathBack kid t b, [date, pn, active, sfx]), (kPathFwd kid pn sfx date b, [active, t]) ]
      | _, _ => [])
  ++ (match attr with
      | .indexed n => if ct = .del then [] else [(kSAV kid 0 n val.code.1 val.code.2 date b, [pn])]
      | _ => [])
  ++ (match attr, val with
      | .member, .ref t => [(kEdgeBack t pn b, [0])]
      | _, _ => [])

/-- receive.go:855 populateDeleteClaim once the target's meta row is known to carry type `tt` -/
def deleteRows (W : World) (b signer target date tt : Nat) : List Row :=
  let kid := keyIdOf W signer
  (kSignerKeyId signer, [kid]) ::
  (if tt = 1 then
    [ (kDeleted target date b, []), (kRecpn kid date b, [target]), (kClaim target kid date b, [3, 9, 0, 9, 0, signer]) ]
   else if tt = 2 then [ (kDeleted target date b, []) ]
   else [])

/-- receive.go:513 populateFile -/
def fileRows (b name mtime fsize : Nat) (mime : Bytes) (whole : Nat) (img : Option (Nat × Nat)) : List Row :=
  [ (kWholeToFile whole b, [1]), (kFileInfo b, 0 :: fsize :: name :: whole :: mime), (kFileTimes b, [mtime]) ]
  ++ (match img with
      | some (w, h) => [(kImageSize b, [w, h])]
      | none => [])

/-- receive.go:821 populateDir -/
def dirRows (W : World) (b name sset : Nat) : List Row :=
  let members := (ssetWalk W treeFuel sset).2
  (kFileInfo b, [1, members.length, name]) :: members.map (fun c => (kDirChild b c, [1]))

/-- Every sorted.KeyValue silently skips a row whose key is longer than MaxKeySize (767) or whose value
is longer than MaxValueSize (63000) (sorted.CheckSizes; mem.go:123, :160 and the other stores), and since
the `fix:` of F-C06-5 `mutationMap.Set` skips it too. Sizes are not modelled: the blob description says
which rows of a claim are affected (`drop` bit 0: claim|, 1: signerattrvalue|, 2: path|, 3: signertargetpath|). -/
def storable (drop : Nat) : Bytes → Bool
  | 5 :: _ => !drop.testBit 0
  | 12 :: _ => !drop.testBit 1
  | 8 :: _ => !drop.testBit 2
  | 7 :: _ => !drop.testBit 3
  | _ => true

/-- the rows of `b` beyond meta/have; `tt` is the camliType code found in the meta row of the target
(only delete claims look at it) -/
def kindRowsAt (W : World) (b : Ref) (tt : Nat) : List Row :=
  match (W b).kind with
  | .claim s pn ct attr val date drop => (claimRows W b s pn ct attr val date).filter (fun r => storable drop r.1)
  | .del s t date => deleteRows W b s t date tt
  | .file name mtime fsize mime whole img _ => fileRows b name mtime fsize mime whole img
  | .dir name ss => dirRows W b name ss
  | _ => []

def fullRowsAt (W : World) (b : Ref) (tt : Nat) : List Row :=
  (kMeta b, metaVal W b) :: (kHave b, haveVal W b true) :: kindRowsAt W b tt

/-- the target type a delete claim will find: the target's own camliType -/
def targetType (W : World) (b : Ref) : Nat :=
  match idep W b with
  | some t => tcode W t
  | none => 0

/-- everything committed for a fully indexed blob -/
def fullRows (W : World) (b : Ref) : List Row := fullRowsAt W b (targetType W b)

/-- what is committed for a delete claim whose target has no meta row yet (errMissingDep from the index) -/
def partialRows (W : World) (b : Ref) : List Row :=
  (kMeta b, metaVal W b) :: (kHave b, haveVal W b false) ::
  (match (W b).kind with
   | .del s _ _ => [(kSignerKeyId s, [keyIdOf W s])]
   | _ => [])

/-! ## deletions -/

structure Del where
  target : Ref
  deleter : Ref
  date : Nat
deriving DecidableEq, Repr

/-- index.go:779 isDeleted / corpus.go:146 IsDeleted (fuel bounds the deleter chain) -/
def isDeletedIn : Nat → List Del → Ref → Bool
  | 0, _, _ => false
  | n + 1, ds, br => ds.any (fun d => d.target == br && !isDeletedIn n ds d.deleter)

def delOfRow : Row → Option Del
  | ([13, t, date, d], _) => some ⟨t, d, date⟩
  | _ => none

/-- the deletions recorded by `deleted|` rows (index.go:716 initDeletesCacheLocked, corpus.go:513 initDeletes) -/
def delsOfRows (rows : List Row) : List Del := rows.filterMap delOfRow

/-- the deletions a mutation map notes (`mm.deletes`, receive.go:887 after 260ba65: exactly its `deleted|` rows) -/
def delsOfMM (mm : List Row) : List Del := delsOfRows mm

/-! ## corpus (corpus.go) -/

/-- key types slurped into the corpus (corpus.go:402 slurpPrefixes), without signerkeyid -/
def slurped : Bytes → Bool
  | 1 :: _ => true | 5 :: _ => true | 10 :: _ => true | 11 :: _ => true
  | 15 :: _ => true | 9 :: _ => true | 16 :: _ => true
  | _ => false

/-- The in-memory corpus: the rows merged so far (as a map: the per-type Go maps are functions of
it; the signer key id table `c.keyId` is not observed by the modelled queries and is left out), the
deletes, and `bad`: a row was merged twice (Go: `dup blob seen` panic
for meta rows, a duplicated claim for claim rows). -/
structure Corpus where
  m : SMap Bytes
  deletes : List Del
  bad : Bool
deriving Repr

def Corpus.empty : Corpus := ⟨[], [], false⟩

/-- corpusMergeFunc[kt] of one row -/
def Corpus.merge (c : Corpus) (k v : Bytes) : Corpus :=
  if SMap.has c.m k then { c with bad := true } else { c with m := SMap.ins k v c.m }

/-- corpus.go:629 updateDeletes -/
def Corpus.updateDeletes (c : Corpus) (d : Del) : Corpus :=
  if c.deletes.contains d then c else { c with deletes := c.deletes ++ [d] }

/-- corpus.go:596 addBlob (after 12ff980: a resumed pass is merged except for its meta row) -/
def Corpus.addBlob (c : Corpus) (b : Ref) (mm : List Row) (resumed : Bool) : Corpus :=
  let dup := SMap.has c.m (kMeta b)
  if dup && !resumed then c
  else
    let c2 := (SMap.union mm []).foldl (fun c r =>            -- `mm.kv` is a map: one entry per key
      if !slurped r.1 then c
      else if dup && r.1 = kMeta b then c
      else c.merge r.1 r.2) c
    (delsOfMM mm).foldl Corpus.updateDeletes c2

/-- corpus.go:427 scanFromStorage + :513 initDeletes -/
def Corpus.load (rows : SMap Bytes) : Corpus :=
  { m := rows.filter (fun r => slurped r.1),
    deletes := delsOfRows rows,
    bad := false }

/-! ## index state -/

structure State where
  rows : SMap Bytes
  src : List Ref
  needs : List (Ref × Ref)      -- (have, missing): `needs[have]` is the sub-list with that first component
  neededBy : List (Ref × Ref)   -- (missing, have)
  ready : List Ref              -- readyReindex
  deletes : List Del            -- Index.deletes
  corpus : Option Corpus
deriving Repr

def schemaRow (ver : Nat) : Row := (kSchema, [ver])

def missOfRow : Row → Option (Ref × Ref)
  | ([3, h, n], _) => some (h, n)
  | _ => none

/-- missing| rows, in key order -/
def missingPairs (rows : SMap Bytes) : List (Ref × Ref) := rows.filterMap missOfRow

/-- index.go:197 New over existing rows: deletes cache, then needs/neededBy from the missing| rows
(initNeededMapsLocked no longer touches the deletes cache: 598c029) -/
def reopen (ver : Nat) (rows : SMap Bytes) (src : List Ref) (withCorpus : Bool) : State :=
  let rows := if rows.isEmpty then [schemaRow ver] else rows
  let mp := missingPairs rows
  { rows := rows, src := src, needs := mp, neededBy := mp.map (fun p => (p.2, p.1)), ready := [],
    deletes := delsOfRows rows,
    corpus := if withCorpus then some (Corpus.load rows) else none }

def State.restart (ver : Nat) (s : State) : State := reopen ver s.rows s.src s.corpus.isSome

def State.init (ver : Nat) (withCorpus : Bool) : State := reopen ver [] [] withCorpus

def State.srcAdd (s : State) (b : Ref) : State :=
  if s.src.contains b then s else { s with src := s.src ++ [b] }

/-- index.go:1874 noteNeededLocked -/
def State.noteNeeded (s : State) (b m : Ref) : State :=
  { s with rows := SMap.ins (kMissing b m) [1] s.rows, needs := s.needs ++ [(b, m)], neededBy := s.neededBy ++ [(m, b)] }

def needsOf (needs : List (Ref × Ref)) (b : Ref) : List Ref := (needs.filter (fun p => p.1 == b)).map (·.2)

def addReady (ready : List Ref) (b : Ref) : List Ref := if ready.contains b then ready else ready ++ [b]

/-- one iteration of the loop of receive.go:170 noteBlobIndexedLocked (with e826ac0: the row goes too):
`needs[needer]` loses `br` (an entry that becomes empty is deleted: the pair list has no empty
entries), and a needer without needs left becomes ready -/
def noteOne (br : Ref) (s : State) (needer : Ref) : State :=
  let needs' := s.needs.filter (fun p => !(p.1 == needer && p.2 == br))
  { s with rows := SMap.del (kMissing needer br) s.rows, needs := needs',
           ready := if (needsOf needs' needer).isEmpty then addReady s.ready needer else s.ready }

/-- receive.go:170 noteBlobIndexedLocked (the `recentDone` bookkeeping belongs to level 2) -/
def State.noteBlobIndexed (s : State) (br : Ref) : State :=
  let needers := needsOf s.neededBy br
  let s' := needers.foldl (noteOne br) s
  { s' with neededBy := s'.neededBy.filter (fun p => p.1 != br) }

/-- receive.go:187 removeAllMissingEdges -/
def State.removeAllMissingEdges (s : State) (b : Ref) : State :=
  { s with rows := s.rows.filter (fun r => match r.1 with | [3, h, _] => h != b | _ => true) }

/-- receive.go:310 commit -/
def State.commit (s : State) (mm : List Row) : State :=
  { s with rows := SMap.union mm s.rows, deletes := s.deletes ++ delsOfMM mm }

def State.corpusAdd (s : State) (b : Ref) (mm : List Row) (resumed : Bool) : State :=
  match s.corpus with
  | none => s
  | some c => { s with corpus := some (c.addBlob b mm resumed) }

/-- the meta row `GetBlobMeta` reads (index.go:1047: through the corpus if there is one) -/
def State.metaRow (s : State) (t : Ref) : Option Bytes :=
  match s.corpus with
  | some c => SMap.get c.m (kMeta t)
  | none => SMap.get s.rows (kMeta t)

/-- camliType of the target as `GetBlobMeta` reports it -/
def State.metaType (s : State) (t : Ref) : Option Nat :=
  match s.metaRow t with
  | some (_ :: tc :: _) => some tc
  | some _ => some 0
  | none => none

/-- `strings.HasSuffix(haveVal, "|indexed")` on the have: row (receive.go:226) -/
def indexedVal : Option Bytes → Bool
  | some [_, 1] => true
  | _ => false

/-- commit, corpus.addBlob, noteBlobIndexedLocked (receive.go:281-291) -/
def State.commitAll (s : State) (b : Ref) (mm : List Row) (resumed : Bool) : State :=
  (((s.commit mm).corpusAdd b mm resumed).noteBlobIndexed b)

/-- receive.go:204 ReceiveBlob -/
def State.receive (W : World) (s : State) (b : Ref) : State :=
  if indexedVal (SMap.get s.rows (kHave b)) then s          -- already indexed
  else
    let resumed := (SMap.get s.rows (kHave b)).isSome
    match firstMissing W s.src b with
    | some m => s.noteNeeded b m                             -- errMissingDep, fetcher.missing = [m]
    | none =>
      match idep W b with
      | some t =>
        match s.metaType t with
        | none =>                                            -- errMissingDep from the index: partial
          (s.noteNeeded b t).commitAll b (partialRows W b) resumed
        | some tt => (s.commitAll b (fullRowsAt W b tt) resumed).removeAllMissingEdges b
      | none => (s.commitAll b (fullRows W b) resumed).removeAllMissingEdges b

/-- one pop of receive.go:124 indexReadyBlobs: re-index `b` if it is ready and still in the source -/
def State.reidx (W : World) (s : State) (b : Ref) : State :=
  if s.ready.contains b && s.src.contains b then
    State.receive W { s with ready := s.ready.filter (fun x => x != b) } b
  else s

/-- run the ready queue dry (any order gives the same rows: C05) -/
def State.drain (W : World) : Nat → State → State
  | 0, s => s
  | n + 1, s =>
    match s.ready with
    | [] => s
    | b :: _ => if s.src.contains b then State.drain W n (s.reidx W b) else s

/-- index.go:463 Reindex the way `perkeepd -reindex` runs it: wipe, open, index every blob of the
source, wait, rebuild the deletes cache -/
def State.reindexAll (W : World) (ver fuel : Nat) (s : State) (order : List Ref) : State :=
  let s0 := reopen ver [] s.src false
  let s1 := order.foldl (fun s b => if s.src.contains b then State.drain W fuel (s.receive W b) else s) s0
  let s2 := { s1 with deletes := delsOfRows s1.rows }
  { s2 with corpus := if s.corpus.isSome then some (Corpus.load s2.rows) else none }

/-- index.go:463 Reindex called on the running index (as indextest.Reindex does): the rows are wiped
and rebuilt, but `needs`, `neededBy`, `readyReindex` and the corpus stay as they are; the deletes cache is
rebuilt at the end. Every waiting blob notes its dependency again (`noteNeededLocked` writes the
`missing|` row unconditionally), so the rows come out as before. -/
def State.reindexLive (W : World) (ver fuel : Nat) (s : State) (order : List Ref) : State :=
  let s0 := { s with rows := [schemaRow ver] }
  let s1 := order.foldl (fun s b => if s.src.contains b then State.drain W fuel (s.receive W b) else s) s0
  { s1 with deletes := delsOfRows s1.rows }

/-! ## schedules -/

inductive Act where
  | src (b : Ref)
  | recv (b : Ref)
  | reidx (b : Ref)
  | restart
deriving DecidableEq, Repr

def step (W : World) (ver : Nat) (s : State) : Act → State
  | .src b => s.srcAdd b
  | .recv b => s.receive W b
  | .reidx b => s.reidx W b
  | .restart => s.restart ver

def run (W : World) (ver : Nat) (s : State) (acts : List Act) : State := acts.foldl (step W ver) s

/-- what a schedule may do: a blob reaches the source before the index; restarts happen at quiescence -/
def Act.ok (s : State) : Act → Bool
  | .recv b => s.src.contains b
  | .restart => s.ready.isEmpty
  | _ => true

def Valid (W : World) (ver : Nat) : State → List Act → Prop
  | _, [] => True
  | s, a :: as => a.ok s = true ∧ Valid W ver (step W ver s a) as

/-- `Valid` as a program -/
def validB (W : World) (ver : Nat) : State → List Act → Bool
  | _, [] => true
  | s, a :: as => a.ok s && validB W ver (step W ver s a) as

/-! ## the canonical index of a blob set -/

inductive Status where
  | absent | half | full
deriving DecidableEq, Repr

/-- `b` gets at least its meta row from the set `S` -/
def committedIn (W : World) (S : List Ref) (b : Ref) : Bool :=
  S.contains b && (firstMissing W S b).isNone

def canonStatus (W : World) (S : List Ref) (b : Ref) : Status :=
  if !S.contains b then .absent
  else if (firstMissing W S b).isSome then .absent
  else match idep W b with
    | some t => if committedIn W S t then .full else .half
    | none => .full

/-- the rows one blob of the set contributes -/
def contrib (W : World) (S : List Ref) (b : Ref) : List Row :=
  match firstMissing W S b with
  | some m => [(kMissing b m, [1])]
  | none =>
    match idep W b with
    | some t => if committedIn W S t then fullRows W b else partialRows W b ++ [(kMissing b t, [1])]
    | none => fullRows W b

/-- the index of the blob set `S`: a function of the set only -/
def canonicalRows (W : World) (ver : Nat) (S : List Ref) : SMap Bytes :=
  S.foldr (fun b acc => SMap.union (contrib W S b) acc) [schemaRow ver]

/-! ## the exported query surface (C06) -/

structure ClaimE where
  cl : Ref
  kid : Nat
  date : Nat
  ct : Nat          -- 0 set, 1 add, 2 del, 3 delete
  a1 : Nat
  a2 : Nat
  v1 : Nat
  v2 : Nat
  signer : Ref
deriving DecidableEq, Repr

/-- the claim rows of permanode `pn` in the corpus (corpus.go:685 mergeClaimRow) -/
def claimRowsOf (pn : Ref) : SMap Bytes → List ClaimE
  | [] => []
  | ([5, p, kid, date, cl], [ct, a1, a2, v1, v2, signer]) :: rest =>
    if p = pn then ⟨cl, kid, date, ct, a1, a2, v1, v2, signer⟩ :: claimRowsOf pn rest else claimRowsOf pn rest
  | _ :: rest => claimRowsOf pn rest

def claimLe (a b : ClaimE) : Bool := a.date < b.date || (a.date == b.date && a.cl ≤ b.cl)

def insSorted {α : Type} (le : α → α → Bool) (a : α) : List α → List α
  | [] => [a]
  | b :: rest => if le a b then a :: b :: rest else b :: insSorted le a rest

def sortBy {α : Type} (le : α → α → Bool) : List α → List α
  | [] => []
  | a :: rest => insSorted le a (sortBy le rest)

/-- `pm.Claims`: kept sorted by date (corpus.go:207 fixupLastClaim / :192 restoreInvariants; exact for
pairwise distinct dates, proved in C07) -/
def pmClaims (c : Corpus) (pn : Ref) : List ClaimE := sortBy claimLe (claimRowsOf pn c.m)

def Corpus.isDeleted (c : Corpus) (fuel : Nat) (br : Ref) : Bool := isDeletedIn fuel c.deletes br

/-- corpus.go:1391 AppendClaims without filters -/
def appendClaims (c : Corpus) (fuel : Nat) (pn : Ref) : List Ref :=
  ((pmClaims c pn).filter (fun e => !c.isDeleted fuel e.cl)).map (·.cl)

/-- corpus.go:1246 PermanodeModtime (0 = no time) -/
def modtime (c : Corpus) (fuel : Nat) (pn : Ref) : Nat :=
  ((pmClaims c pn).filter (fun e => !c.isDeleted fuel e.cl)).foldl (fun t e => if e.date > t then e.date else t) 0

/-- corpus.go:168 cacheAttrClaim for one attribute -/
def attrStep (a1 a2 : Nat) (vs : List (Nat × Nat)) (e : ClaimE) : List (Nat × Nat) :=
  if e.a1 = a1 ∧ e.a2 = a2 then
    if e.ct = 0 then [(e.v1, e.v2)]
    else if e.ct = 1 then vs ++ [(e.v1, e.v2)]
    else if e.ct = 2 then vs.filter (fun v => v != (e.v1, e.v2))
    else vs
  else vs

/-- corpus.go:1270 PermanodeAttrValue at the zero time, no signer filter (the cached attributes) -/
def attrValue (c : Corpus) (pn : Ref) (a1 a2 : Nat) : Option (Nat × Nat) :=
  ((pmClaims c pn).foldl (attrStep a1 a2) []).head?

/-- corpus.go:1215 pnCamliContent: (content ref, date of the claim that set it) -/
def camliContent (c : Corpus) (pn : Ref) : Option (Ref × Nat) :=
  (pmClaims c pn).foldl (fun acc e =>
    if e.a1 = 3 ∧ e.a2 = 0 then
      if e.ct = 2 then none
      else if e.ct = 0 then (if e.v1 = 1 then some (e.v2, e.date) else none)
      else acc
    else acc) none

/-- corpus.go:1208 PermanodeAnyTime with none of the time attributes set: the content file's time, else
the modtime (0 = no time). The code's last fallback, the date of the camliContent claim, is dead:
`ok` has been overwritten by the `pnTimeAttr` calls before `if ok { return ccTime, true }`
(corpus.go:1185-1203). -/
def anyTime (c : Corpus) (fuel : Nat) (pn : Ref) : Nat :=
  match camliContent c pn with
  | some (f, _) =>
    match SMap.get c.m (kFileTimes f) with
    | some [ft] => if ft = 0 then modtime c fuel pn else ft
    | _ => modtime c fuel pn
  | none => modtime c fuel pn

def timeGe (a b : Nat × Ref) : Bool := a.1 > b.1 || (a.1 == b.1 && a.2 ≥ b.2)

/-- corpus.go:1023 lazySortedPermanodes.sorted(reverse) + :1073 enumeratePermanodes over the permanodes of `univ` -/
def pnOrder (c : Corpus) (fuel : Nat) (univ : List Ref) (time : Ref → Nat) : List Ref :=
  let cands := univ.filter (fun pn => !(claimRowsOf pn c.m).isEmpty && !c.isDeleted fuel pn && time pn != 0)
  let sorted := sortBy timeGe (cands.map (fun pn => (time pn, pn)))
  (sorted.map (·.2)).filter (fun pn => SMap.has c.m (kMeta pn))

structure PnObs where
  pn : Ref
  claims : List Ref
  modtime : Nat
  anytime : Nat
  tag : Option (Nat × Nat)
  title : Option (Nat × Nat)
  content : Option (Nat × Nat)
deriving DecidableEq, Repr

/-- corpus.go:99 claimBack[value] / :1525 ForeachClaimBack: the claims whose value is the blobref `b`
(whether or not `b` itself has arrived), as a function of the merged claim rows; the slice is documented
as not sorted, so the harness and the driver compare it as a set -/
def claimBackOf (b : Ref) : SMap Bytes → List Ref
  | [] => []
  | ([5, _, _, _, cl], [_, _, _, 1, v2, _]) :: rest => if v2 = b then cl :: claimBackOf b rest else claimBackOf b rest
  | _ :: rest => claimBackOf b rest

structure Obs where
  metas : List (Ref × Option Bytes)
  backs : List (Ref × List Ref)           -- ForeachClaimBack
  deleted : List (Ref × Bool × Bool)      -- Index.IsDeleted, Corpus.IsDeleted
  pns : List PnObs
  byMod : List Ref
  byCreated : List Ref
  bad : Bool
deriving DecidableEq, Repr

/-- the answers of the exported query methods about the refs of `univ` (permanodes: `pns`) -/
def observe (univ pns : List Ref) (fuel : Nat) (ixDeletes : List Del) (c : Corpus) : Obs :=
  { metas := univ.map (fun b => (b, SMap.get c.m (kMeta b))),
    backs := univ.map (fun b => (b, claimBackOf b c.m)),
    deleted := univ.map (fun b => (b, isDeletedIn fuel ixDeletes b, c.isDeleted fuel b)),
    pns := pns.map (fun pn => ⟨pn, appendClaims c fuel pn, modtime c fuel pn, anyTime c fuel pn,
                                attrValue c pn 0 0, attrValue c pn 0 1, attrValue c pn 3 0⟩),
    byMod := pnOrder c fuel pns (modtime c fuel),
    byCreated := pnOrder c fuel pns (anyTime c fuel),
    bad := c.bad }

/-- what a live index (with a corpus) answers -/
def State.observe (s : State) (univ pns : List Ref) (fuel : Nat) : Option Obs :=
  s.corpus.map (Pk.Index.observe univ pns fuel s.deletes)

/-- what a fresh `index.New` + `KeepInMemory` over the same rows answers -/
def observeReload (rows : SMap Bytes) (univ pns : List Ref) (fuel : Nat) : Obs :=
  Pk.Index.observe univ pns fuel (delsOfRows rows) (Corpus.load rows)

/-! ## transient failures of the index's sorted.KeyValue (C06: "at any point in any history") -/

/-- which call of the store fails while one blob is received: the CommitBatch of the blob's mutation
map (receive.go:320), the direct `Set` of its `missing|` row (index.go:1875 noteNeededLocked), or every
direct `Delete` (receive.go:175/198: the error is only logged) -/
inductive Fault where
  | commit | set | delete
deriving DecidableEq, Repr

/-- noteBlobIndexedLocked when the store's Delete fails: the maps are updated, the rows stay -/
def State.noteBlobIndexedNoDel (s : State) (br : Ref) : State := { s.noteBlobIndexed br with rows := s.rows }

def State.commitAllNoDel (s : State) (b : Ref) (mm : List Row) (resumed : Bool) : State :=
  (((s.commit mm).corpusAdd b mm resumed).noteBlobIndexedNoDel b)

/-- ReceiveBlob under a fault: the new state and whether ReceiveBlob reported success. A failed Set or
CommitBatch makes ReceiveBlob return the error before the corpus, the deletes cache and the maps are
touched; only the `missing|` row (and `needs` entry) that populateDeleteClaim notes *before* the commit
survives a failed commit of a partial pass. -/
def State.receiveFault (W : World) (s : State) (b : Ref) (f : Fault) : State × Bool :=
  if indexedVal (SMap.get s.rows (kHave b)) then (s, true)
  else
    let resumed := (SMap.get s.rows (kHave b)).isSome
    match firstMissing W s.src b with
    | some m => if f = .set then (s, false) else (s.noteNeeded b m, true)
    | none =>
      match idep W b with
      | some t =>
        match s.metaType t with
        | none =>
          match f with
          | .set => (s, false)
          | .commit => (s.noteNeeded b t, false)
          | .delete => ((s.noteNeeded b t).commitAllNoDel b (partialRows W b) resumed, true)
        | some tt =>
          match f with
          | .commit => (s, false)
          | .set => ((s.commitAll b (fullRowsAt W b tt) resumed).removeAllMissingEdges b, true)
          | .delete => (s.commitAllNoDel b (fullRowsAt W b tt) resumed, true)
      | none =>
        match f with
        | .commit => (s, false)
        | .set => ((s.commitAll b (fullRows W b) resumed).removeAllMissingEdges b, true)
        | .delete => (s.commitAllNoDel b (fullRows W b) resumed, true)

/-- the re-index queue while every Delete fails -/
def State.drainNoDel (W : World) : Nat → State → State
  | 0, s => s
  | n + 1, s =>
    match s.ready with
    | [] => s
    | b :: _ =>
      if s.src.contains b then
        State.drainNoDel W n (({ s with ready := s.ready.filter (fun x => x != b) }).receiveFault W b .delete).1
      else s

/-! ## the pre-fix code, for the counterexamples -/
namespace Old

/-- ReceiveBlob before c9dd462 / e826ac0: `removeAllMissingEdges(have)` ran after every commit, also
after the partial one, and `noteBlobIndexedLocked` left the `missing|` row of a satisfied dependency -/
def noteOne (br : Ref) (s : State) (needer : Ref) : State :=
  let needs' := s.needs.filter (fun p => !(p.1 == needer && p.2 == br))
  { s with needs := needs', ready := if (needsOf needs' needer).isEmpty then addReady s.ready needer else s.ready }

def noteBlobIndexed (s : State) (br : Ref) : State :=
  let s' := (needsOf s.neededBy br).foldl (noteOne br) s
  { s' with neededBy := s'.neededBy.filter (fun p => p.1 != br) }

/-- corpus.addBlob before 12ff980 / 260ba65: any blob already in `c.blobs` is skipped entirely; the
noted deletes are those of every delete claim that got past the meta lookup -/
def addBlob (c : Corpus) (b : Ref) (mm : List Row) (noted : List Del) : Corpus :=
  if SMap.has c.m (kMeta b) then c else noted.foldl Corpus.updateDeletes (c.addBlob b mm false)

/-- `mm.deletes` before 260ba65: every delete claim whose target has a meta row is noted -/
def delsNoted (W : World) (b : Ref) : List Del :=
  match (W b).kind with
  | .del _ t date => [⟨t, b, date⟩]
  | _ => []

def commitAll (s : State) (b : Ref) (mm : List Row) (noted : List Del) : State :=
  let s1 := { s with rows := SMap.union mm s.rows, deletes := s.deletes ++ noted }
  let s2 := match s1.corpus with
    | some c => { s1 with corpus := some (addBlob c b mm noted) }
    | none => s1
  (noteBlobIndexed s2 b).removeAllMissingEdges b

def receive (W : World) (s : State) (b : Ref) : State :=
  if indexedVal (SMap.get s.rows (kHave b)) then s
  else
    match firstMissing W s.src b with
    | some m => s.noteNeeded b m
    | none =>
      match idep W b with
      | some t =>
        match s.metaType t with
        | none => commitAll (s.noteNeeded b t) b (partialRows W b) []
        | some tt => commitAll s b (fullRowsAt W b tt) (delsNoted W b)
      | none => commitAll s b (fullRows W b) []

/-- index.New before 598c029: initNeededMapsLocked re-created the deletes cache -/
def restart (ver : Nat) (s : State) : State := { s.restart ver with deletes := [] }

def reidx (W : World) (s : State) (b : Ref) : State :=
  if s.ready.contains b && s.src.contains b then
    receive W { s with ready := s.ready.filter (fun x => x != b) } b
  else s

def step (W : World) (ver : Nat) (s : State) : Act → State
  | .src b => s.srcAdd b
  | .recv b => receive W s b
  | .reidx b => reidx W s b
  | .restart => restart ver s

def run (W : World) (ver : Nat) (s : State) (acts : List Act) : State := acts.foldl (step W ver) s

end Old

end Pk.Index
