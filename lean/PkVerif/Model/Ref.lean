import PkVerif.Base.Bytes
/-!
# Model of pkg/blob/ref.go  (C20)

Each definition mirrors one Go function (name kept).  The hash table `metaFromString`, `testRefType`
and `maxOtherDigestLen` are *parameters* (`Tbl`); `PkVerif.Gen.Facts` instantiates them from the
source on every run.  A Go panic is `none` in the `Option Bool` results of `equalString`/`hasPrefix`.
-/
namespace Pk.Ref

/-- the tables of ref.go that the functions consult -/
structure Tbl where
  sizes : List (Bytes × Nat)      -- metaFromString: name ↦ digest size in bytes
  testTypes : List Bytes          -- testRefType
  maxOther : Nat                  -- maxOtherDigestLen

/-- blob.Ref with a non-nil digest. `odd` is only ever true for `otherDigest`. -/
structure Ref where
  name : Bytes
  sum : Bytes
  odd : Bool
deriving DecidableEq, Repr

def Tbl.size? (t : Tbl) (name : Bytes) : Option Nat :=
  (t.sizes.find? (fun p => p.1 == name)).map (·.2)

/-- IsSupported -/
def supported (t : Tbl) (r : Ref) : Bool := (t.size? r.name).isSome

/-- `strings.Index(s, "-")` followed by the two slicings `s[:i]`, `s[i+1:]` -/
def splitDash : Bytes → Option (Bytes × Bytes)
  | [] => none
  | c :: cs =>
    if c = 45 then some ([], cs)
    else match splitDash cs with
      | none => none
      | some (n, h) => some (c :: n, h)

def isNameChar (r : Nat) : Bool := (97 ≤ r && r ≤ 122) || (48 ≤ r && r ≤ 57)

/-- validDigestName (ref.go:313). Ranging over runes or bytes gives the same answer: a byte ≥ 0x80
never decodes to a rune in `a-z0-9`. -/
def validDigestName (n : Bytes) : Bool := !n.isEmpty && n.all isNameChar

/-- parseUnknown (ref.go:331) -/
def parseUnknown (t : Tbl) (name hex : Bytes) : Option Ref :=
  if !validDigestName name then none else
  let odd := hex.length % 2 != 0
  let hex' := if odd then hex ++ [48] else hex
  if hex'.length < 2 || hex'.length > t.maxOther * 2 then none else
  match hexDec hex' with
  | none => none
  | some sum => some { name := name, sum := sum, odd := odd }

/-- parse (ref.go:228); `Parse = parse · true`, `ParseKnown = parse · false` -/
def parse (t : Tbl) (s : Bytes) (allowAll : Bool) : Option Ref :=
  match splitDash s with
  | none => none
  | some (name, hex) =>
    match t.size? name with
    | none => if allowAll || t.testTypes.contains name then parseUnknown t name hex else none
    | some size =>
      if hex.length != size * 2 then none else
      match hexDec hex with
      | none => none
      | some sum => some { name := name, sum := sum, odd := false }

/-- ParseBytes (ref.go:260): unknown names always go to parseUnknown -/
def parseBytes (t : Tbl) (s : Bytes) : Option Ref := parse t s true

/-- String / appendString (ref.go:75,110) -/
def toText (r : Ref) : Bytes :=
  let t := r.name ++ 45 :: hexEnc r.sum
  if r.odd then t.dropLast else t

/-- Less (ref.go:910) on valid refs -/
def less (r o : Ref) : Bool :=
  if r.name != o.name then ltB r.name o.name else ltB r.sum o.sum

/-- Less on possibly-invalid refs (`none` = zero Ref): invalid sorts first -/
def lessOpt : Option Ref → Option Ref → Bool
  | none, none => false
  | none, some _ => true
  | some _, none => false
  | some r, some o => less r o

/-- the digit-comparison loop shared by equalString of the fixed-size digests:
`s[i*2] != hexDigit[b>>4] || s[i*2+1] != hexDigit[b&0xf]` for every byte. `none` = index panic. -/
def eqLoop : Bytes → Bytes → Option Bool
  | [], _ => some true
  | b :: bs, c1 :: c2 :: rest =>
    if c1 != hexDigit (b / 16) || c2 != hexDigit (b % 16) then some false else eqLoop bs rest
  | _ :: _, _ => none

/-- `strings.CutPrefix(s, p)` -/
def cutPrefix (p s : Bytes) : Option Bytes :=
  if p.isPrefixOf s then some (s.drop p.length) else none

/-- sha1Digest/sha224Digest/sha256Digest.equalString (ref.go:460…) -/
def equalStringKnown (r : Ref) (s : Bytes) : Option Bool :=
  if s.length != r.name.length + 1 + 2 * r.sum.length then some false else
  match cutPrefix (r.name ++ [45]) s with
  | none => some false
  | some rest => eqLoop r.sum rest

/-- the prefix loop of hasPrefix: stops when the string is exhausted (even or odd position) -/
def prefixLoop : Bytes → Bytes → Bool
  | [], _ => true
  | _ :: _, [] => true
  | b :: _, [c1] => c1 == hexDigit (b / 16)
  | b :: bs, c1 :: c2 :: rest =>
    if c1 != hexDigit (b / 16) then false
    else if c2 != hexDigit (b % 16) then false
    else prefixLoop bs rest

/-- sha*Digest.hasPrefix (ref.go:476…) -/
def hasPrefixKnown (r : Ref) (s : Bytes) : Option Bool :=
  let strLen := r.name.length + 1 + 2 * r.sum.length
  if s.length > strLen then some false else
  if s.length == strLen then equalStringKnown r s else
  match cutPrefix (r.name ++ [45]) s with
  | none => some false
  | some rest => if rest.isEmpty then some false else some (prefixLoop r.sum rest)

/-- the loop of otherDigest.equalString (ref.go:633): last low digit skipped when `odd` -/
def eqLoopOther (odd : Bool) : Bytes → Bytes → Option Bool
  | [], _ => some true
  | [b], c1 :: rest =>
    if c1 != hexDigit (b / 16) then some false
    else if odd then some true
    else match rest with
      | c2 :: _ => if c2 != hexDigit (b % 16) then some false else some true
      | [] => none
  | b :: b' :: bs, c1 :: c2 :: rest =>
    if c1 != hexDigit (b / 16) then some false
    else if c2 != hexDigit (b % 16) then some false
    else eqLoopOther odd (b' :: bs) rest
  | _ :: _, _ => none

/-- otherDigest.equalString (ref.go:633). `s[len(d.name)]` is only evaluated after the length test,
so it cannot panic here. -/
def equalStringOther (r : Ref) (s : Bytes) : Option Bool :=
  let wantLen := r.name.length + 1 + 2 * r.sum.length - (if r.odd then 1 else 0)
  if s.length != wantLen || !r.name.isPrefixOf s then some false else
  match s.drop r.name.length with
  | [] => none
  | c :: rest => if c != 45 then some false else eqLoopOther r.odd r.sum rest

/-- prefix loop of otherDigest.hasPrefix (ref.go:656) -/
def prefixLoopOther (odd : Bool) : Bytes → Bytes → Bool
  | [], _ => true
  | _ :: _, [] => true
  | b :: _, [c1] => c1 == hexDigit (b / 16)
  | [b], c1 :: c2 :: _ =>
    if c1 != hexDigit (b / 16) then false
    else if odd then true
    else c2 == hexDigit (b % 16)
  | b :: b' :: bs, c1 :: c2 :: rest =>
    if c1 != hexDigit (b / 16) then false
    else if c2 != hexDigit (b % 16) then false
    else prefixLoopOther odd (b' :: bs) rest

/-- otherDigest.hasPrefix (ref.go:656).  `guarded = false` is the code as pinned: the test
`s[len(d.name)] != '-'` indexes past the string when `s` is exactly the hash name (`none` = panic).
`guarded = true` is the repaired code (length test first). -/
def hasPrefixOther (guarded : Bool) (r : Ref) (s : Bytes) : Option Bool :=
  let maxLen := r.name.length + 1 + 2 * r.sum.length - (if r.odd then 1 else 0)
  if s.length > maxLen || !r.name.isPrefixOf s then some false else
  match s.drop r.name.length with
  | [] => if guarded then some false else none
  | c :: rest =>
    if c != 45 then some false else
    if s.length == maxLen then equalStringOther r s else
    if rest.isEmpty then some false else some (prefixLoopOther r.odd r.sum rest)

def equalString (t : Tbl) (r : Ref) (s : Bytes) : Option Bool :=
  if supported t r then equalStringKnown r s else equalStringOther r s

def hasPrefix (t : Tbl) (guarded : Bool) (r : Ref) (s : Bytes) : Option Bool :=
  if supported t r then hasPrefixKnown r s else hasPrefixOther guarded r s

/-- MarshalBinary (ref.go:870) -/
def marshalBinary (r : Ref) : Bytes := r.name ++ 45 :: r.sum

/-- index of the first `-`, as `bytes.IndexByte` -/
def indexDash : Bytes → Option Nat
  | [] => none
  | c :: cs => if c = 45 then some 0 else (indexDash cs).map (· + 1)

/-- UnmarshalBinary (ref.go:881) into a zero Ref -/
def unmarshalBinary (t : Tbl) (data : Bytes) : Option Ref :=
  match indexDash data with
  | none => none
  | some i =>
    if i < 1 then none else
    let name := data.take i
    let buf := data.drop (i + 1)
    match t.size? name with
    | none => parseUnknown t name (hexEnc buf)
    | some size => if buf.length != size then none else some { name := name, sum := buf, odd := false }

/-- MarshalJSON of a valid ref (ref.go:855) -/
def marshalJSON (r : Ref) : Bytes := 34 :: (toText r ++ [34])

/-- UnmarshalJSON into a zero Ref (ref.go:837): `some none` = ok, ref stays zero; `none` = error -/
def unmarshalJSON (t : Tbl) (d : Bytes) : Option (Option Ref) :=
  if d.isEmpty || d == [110, 117, 108, 108] then some none else
  if d.length < 2 || d.head? != some 34 || d.getLast? != some 34 then none else
  match parseBytes t ((d.drop 1).dropLast) with
  | none => none
  | some r => some (some r)

/-- StringMinusOne (ref.go:87) -/
def stringMinusOne (r : Ref) : Bytes :=
  let t := toText r
  match t.getLast? with
  | none => t
  | some l => t.dropLast ++ [l - 1]

/-- Sum32 (ref.go:166): big-endian first four digest bytes; `none` = slice panic (< 4 bytes) -/
def sum32 (r : Ref) : Option Nat :=
  match r.sum with
  | a :: b :: c :: d :: _ => some (((a * 256 + b) * 256 + c) * 256 + d)
  | _ => none

/-- a ref as produced by the hash constructors / by `parse` on a supported name -/
def WFKnown (t : Tbl) (r : Ref) : Prop :=
  t.size? r.name = some r.sum.length ∧ AllByte r.sum ∧ r.odd = false

/-- a ref as produced by `parseUnknown` -/
def WFOther (t : Tbl) (r : Ref) : Prop :=
  t.size? r.name = none ∧ validDigestName r.name = true ∧ AllByte r.sum ∧
  1 ≤ r.sum.length ∧ r.sum.length ≤ t.maxOther ∧
  (r.odd = true → ∃ ini hi, r.sum = ini ++ [hi * 16] ∧ hi < 16)

/-- side conditions on the table, `decide`d on the generated instance -/
def Tbl.WF (t : Tbl) : Prop :=
  ∀ p ∈ t.sizes, validDigestName p.1 = true ∧ 1 ≤ p.2

instance (t : Tbl) : Decidable t.WF := by unfold Tbl.WF; infer_instance

end Pk.Ref
