import PkVerif.Spec.SortedKV
/-!
# Model of pkg/sorted/buffer/buffer.go – a write buffer in front of a backing store

Both underlying stores are `Pk.SortedKV` stores (the harness builds `buffer.New` over two
`sorted.NewMemoryKeyValue()`).  The merge iterator is modelled step by step (`SubIter.next`,
`Iter.current`, `Iter.next`), as the code is after the `fix:` commits a9fb580 and 35f9fac; the iterator as it was
before that commit is kept as `Iter.nextOld` (sentinel `key == ""`, and the `!it.buf.eof` typo).
Core Lean only (linked into `pkmodel-c10`).
-/
namespace Pk.SortedBuffer
open Pk Pk.SortedKV

/-- `subIter` (buffer.go:308-312) around an underlying `sorted.Iterator` over the rows `rest` -/
structure SubIter where
  /-- rows the underlying iterator has not produced yet -/
  rest : KV
  /-- position of the underlying iterator (what its `Key()`/`Value()` show); `none` before the first
  `Next` and after the end -/
  cur : Option (Bytes × Bytes)
  /-- `subIter.key`: the cached key; `""` until the first successful `next` -/
  key : Bytes
  /-- `subIter.eof` -/
  eof : Bool
  /-- the underlying `Next` was called again after it had returned false (kvfile's iterator panics
  then: kvfile.go:247 "Next called after Next returned value") -/
  overrun : Bool
  deriving DecidableEq, Repr

def SubIter.start (l : KV) : SubIter := ⟨l, none, [], false, false⟩

/-- `subIter.next` (buffer.go:314-321) -/
def SubIter.next (s : SubIter) : SubIter × Bool :=
  match s.rest with
  | [] => ({ s with cur := none, eof := true, overrun := s.overrun || s.eof }, false)
  | p :: r => ({ s with rest := r, cur := some p, key := p.1 }, true)

/-- the embedded iterator's `Value()` -/
def SubIter.value (s : SubIter) : Bytes :=
  match s.cur with
  | some p => p.2
  | none => []

/-- `iter` (buffer.go:225-228) -/
structure Iter where
  buf : SubIter
  back : SubIter
  started : Bool
  deriving DecidableEq, Repr

/-- `KeyValue.Find` (buffer.go:193-201) given the rows both underlying `Find`s will produce -/
def Iter.start (bufRows backRows : KV) : Iter := ⟨SubIter.start bufRows, SubIter.start backRows, false⟩

/-- `iter.current` (buffer.go:230-241) -/
def Iter.current (it : Iter) : SubIter :=
  if it.back.eof then it.buf
  else if it.buf.eof then it.back
  else if leB it.buf.key it.back.key then it.buf
  else it.back

/-- `iter.Key` / `iter.Value` (buffer.go:281-287) -/
def Iter.key (it : Iter) : Bytes := it.current.key
def Iter.value (it : Iter) : Bytes := it.current.value

/-- the part of `iter.Next` after the start handling (buffer.go:251-279) -/
def Iter.advance (it : Iter) : Iter × Bool :=
  if it.buf.eof && it.back.eof then (it, false)
  else if it.buf.eof then ({ it with back := it.back.next.1 }, it.back.next.2)
  else if it.back.eof then ({ it with buf := it.buf.next.1 }, it.buf.next.2)
  else if ltB it.buf.key it.back.key then ({ it with buf := it.buf.next.1 }, true)
  else if ltB it.back.key it.buf.key then ({ it with back := it.back.next.1 }, true)
  else ({ it with buf := it.buf.next.1, back := it.back.next.1 }, it.buf.next.2 || it.back.next.2)

/-- `iter.Next` (buffer.go:243-279, after fix a9fb580): the first call advances both sides -/
def Iter.next (it : Iter) : Iter × Bool :=
  if !it.started then
    ({ buf := it.buf.next.1, back := it.back.next.1, started := true }, it.buf.next.2 || it.back.next.2)
  else it.advance

/-- `iter.Next` as it was before a9fb580: "not started" is detected by an empty cached key, and the
second test reads `!it.buf.eof` where `!it.back.eof` was meant -/
def Iter.nextOld (it : Iter) : Iter × Bool :=
  let r1 := if it.buf.key.isEmpty && !it.buf.eof then it.buf.next else (it.buf, false)
  let it1 : Iter := { it with buf := r1.1 }
  let r2 := if it1.back.key.isEmpty && !it1.buf.eof then it1.back.next else (it1.back, false)
  let it2 : Iter := { it1 with back := r2.1 }
  if r2.2 || r1.2 then (it2, true) else it2.advance

/-- `for it.Next() { … it.Key(), it.Value() … }` with at most `fuel` calls that return true -/
def Iter.collectWith (nx : Iter → Iter × Bool) : Nat → Iter → KV
  | 0, _ => []
  | n + 1, it =>
    if (nx it).2 then ((nx it).1.key, (nx it).1.value) :: collectWith nx n (nx it).1 else []

def Iter.collect : Nat → Iter → KV := Iter.collectWith Iter.next
def Iter.collectOld : Nat → Iter → KV := Iter.collectWith Iter.nextOld

/-- the iterator state after the loop (to observe `overrun`) -/
def Iter.finalWith (nx : Iter → Iter × Bool) : Nat → Iter → Iter
  | 0, it => it
  | n + 1, it => if (nx it).2 then finalWith nx n (nx it).1 else (nx it).1

/-- `buffer.KeyValue` (buffer.go:44-54) -/
structure Buf where
  buf : KV
  back : KV
  /-- `maxBuffer` (an int64: may be negative) -/
  maxBuffer : Int
  /-- `buffered`: bytes set since the last flush -/
  buffered : Nat
  deriving DecidableEq, Repr

/-- `New` (buffer.go:34-40) over two empty stores -/
def Buf.new (maxBuffer : Int) : Buf := ⟨[], [], maxBuffer, 0⟩

/-- `Flush` (buffer.go:56-91, after fix 35f9fac): everything in the buffer is set in the backing store in one batch and
deleted from the buffer in another; nothing happens when the buffer is empty -/
def Buf.flush (L : Limits) (b : Buf) : Buf :=
  let items := SortedKV.find b.buf [] []
  if items.isEmpty then b
  else { b with back := batch L b.back (items.map fun p => Mut.set p.1 p.2),
                buf := batch L b.buf (items.map fun p => Mut.del p.1),
                buffered := 0 }

/-- (`BeginBatch`, `CommitBatch`) calls `Flush` makes on the backing store: the batches are begun only
when there is a row to flush (fix 35f9fac), so every begun batch is committed -/
def Buf.flushBatchCalls (b : Buf) : Nat × Nat :=
  if (SortedKV.find b.buf [] []).isEmpty then (0, 0) else (1, 1)

/-- before 35f9fac `Flush` began both batches up front and committed them only when the buffer held
a row (sqlkv's BeginBatch opens a transaction and takes the gate slot: the next op blocked) -/
def Buf.flushBatchCallsOld (b : Buf) : Nat × Nat :=
  (1, if (SortedKV.find b.buf [] []).isEmpty then 0 else 1)

/-- `Get` (buffer.go:93-106): the buffer shadows the backing store -/
def Buf.get (b : Buf) (k : Bytes) : Option Bytes :=
  match SortedKV.get b.buf k with
  | some v => some v
  | none => SortedKV.get b.back k

/-- `Set` (buffer.go:108-125): oversize ⇒ nothing; else set in the buffer, account the bytes, flush
when over `maxBuffer` (so `maxBuffer ≤ 0` flushes on every Set) -/
def Buf.set (L : Limits) (b : Buf) (k v : Bytes) : Buf :=
  if okSizes L k v then
    let b1 : Buf := { b with buf := SortedKV.set L b.buf k v, buffered := b.buffered + (k.length + v.length) }
    if (b1.buffered : Int) > b1.maxBuffer then b1.flush L else b1
  else b

/-- `Delete` (buffer.go:127-142): synchronously from both stores -/
def Buf.delete (b : Buf) (k : Bytes) : Buf :=
  { b with buf := erase k b.buf, back := erase k b.back }

/-- the batch applied to the buffer store by `CommitBatch` (buffer.go:156-176) -/
def bufMuts (L : Limits) : List Mut → List Mut
  | [] => []
  | .del k :: ms => .del k :: bufMuts L ms
  | .set k v :: ms => if okSizes L k v then .set k v :: bufMuts L ms else bufMuts L ms

/-- the (lazily created) batch of deletes for the backing store -/
def backMuts : List Mut → List Mut
  | [] => []
  | .del k :: ms => .del k :: backMuts ms
  | .set _ _ :: ms => backMuts ms

/-- `CommitBatch` (buffer.go:148-184): sets go to the buffer, deletes to both; does not count
towards `buffered` -/
def Buf.commitBatch (L : Limits) (b : Buf) (ms : List Mut) : Buf :=
  let b1 : Buf := { b with buf := batch L b.buf (bufMuts L ms) }
  if (backMuts ms).isEmpty then b1 else { b1 with back := batch L b.back (backMuts ms) }

/-- `Find` (buffer.go:193-201) iterated to its end.  The Go loop is unbounded; the fuel is the number
of rows of both sides plus one, which `C10_buffer_find_fuel` shows is never exhausted. -/
def Buf.find (b : Buf) (s e : Bytes) : KV :=
  let A := SortedKV.find b.buf s e
  let B := SortedKV.find b.back s e
  (Iter.start A B).collect (A.length + B.length + 1)

/-- `Close` (buffer.go:186-191) followed by `New(fresh memory store, same backing, same max)` -/
def Buf.reopen (L : Limits) (b : Buf) : Buf :=
  { b.flush L with buf := [], buffered := 0 }

def bufStep (L : Limits) (b : Buf) : Op → Buf × Out
  | .get k => (b, .val (b.get k))
  | .set k v => (b.set L k v, .ok)
  | .del k => (b.delete k, .ok)
  | .batch ms => (b.commitBatch L ms, .ok)
  | .find s e => (b, .rows (b.find s e))
  | .flush => (b.flush L, .ok)
  | .reopen => (b.reopen L, .ok)

def runBuf (L : Limits) (b : Buf) : List Op → List Out
  | [] => []
  | o :: os => (bufStep L b o).2 :: runBuf L (bufStep L b o).1 os

def bufAfter (L : Limits) (b : Buf) : List Op → Buf
  | [] => b
  | o :: os => bufAfter L (bufStep L b o).1 os

end Pk.SortedBuffer
