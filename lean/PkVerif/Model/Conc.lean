import PkVerif.Spec.RefMap
/-!
# Model: concurrent clients of a store – small-step interleaving semantics at lock granularity (C14)

A store is described by its **atomic sections** (`CStore`): a public call is a sequence of sections
placed exactly where the Go code takes / releases its mutex or touches the OS or its index; a
section runs without interference, and between two sections of one call any sections of other calls
may run.  `Sys.step` is the interleaving semantics: any number of clients (client ids are `Nat`),
each running one call at a time; a schedule is ANY list of labels `call c op` (client `c` invokes
`op`; no effect when `c` is busy) and `step c` (client `c` runs its next section; no effect when
idle).  The execution records a trace of invocations, designated linearisation points and responses;
`Linearizable` is the (executable) check that, replaying the trace on the reference map
(`RefMap.next/out`) with every call taking effect at its linearisation event – which lies between the
call's invocation and its response, so real-time order is respected by construction –, every
response equals the reference map's answer (or is one of the explicitly listed anomalies `anom`).

Stores modelled (file:line of pkg/blobserver at the pinned commit):

* `lockMap`   memory/mem.go – every method is ONE section under `s.mu` (Fetch 82, ReceiveBlob 150,
  StatBlobs 175 per blob, EnumerateBlobs 189 holds RLock for the whole scan, RemoveBlobs 254).
* `dpStore`   diskpacked/diskpacked.go – ReceiveBlob 646: unlocked duplicate check (`s.meta`), then
  `append` 670 under `s.mu` (index.Set last); fetch 373 = index read (+ lazy read of the data);
  StatBlobs = index read; RemoveBlobs 422 = `delete` (dele.go:35, zeroes the data, no lock) then
  `CommitBatch` of the index deletion; EnumerateBlobs 464 = one index-iterator step per blob.
  The indexer's ReceiveBlob (index/receive.go:204) has the same shape as `recv` here: unlocked
  `have:` check, then commit + corpus update in one section under `ix.Lock`; its queries are single
  sections under `ix.RLock`.
* `filesStore` files/receive.go:42 – MkdirAll / TempFile+Copy+Sync+Close+Lstat / Rename (the blob
  becomes visible only here) / Lstat of the final name; files.go:139 fetch = Stat then Open;
  RemoveBlobs 180 = one unlink; StatBlobs = one lstat; enumerate.go:52 = a directory walk,
  abstracted as one step per blob.

Not modelled: the Go memory model and the scheduler (a section is atomic by fiat – that every field
access inside it really is under the lock is the generated table `Pk.Gen.guardedAccesses`), batches
(a batch stat/remove is a sequence of single calls), errors of the OS / index, pack roll-over.
-/
namespace Pk.Conc
open Pk Pk.SMap Pk.RefMap

/-- a store at the granularity of its atomic sections -/
structure CStore where
  σ : Type
  /-- local state of a call in progress: program counter + locals -/
  L : Type
  init : σ
  /-- local state at invocation -/
  start : Op → L
  /-- one atomic section: new shared state and either the next local state or the call's result -/
  sec : σ → Op → L → σ × (L ⊕ Out)
  /-- is the section about to run the call's linearisation point? (may depend on what it will see) -/
  lin : σ → Op → L → Bool

structure Thread (S : CStore) where
  op : Op
  l : S.L

inductive Ev where
  | inv (c : Nat) (op : Op)
  | lin (c : Nat) (op : Op)
  | ret (c : Nat) (op : Op) (o : Out)
deriving DecidableEq, Repr

inductive Lbl where
  | call (c : Nat) (op : Op)
  | step (c : Nat)
deriving DecidableEq, Repr

def upd {α : Type} (f : Nat → α) (c : Nat) (v : α) : Nat → α := fun c' => if c' = c then v else f c'

structure Sys (S : CStore) where
  sh : S.σ
  thr : Nat → Option (Thread S)
  trace : List Ev

def Sys.init (S : CStore) : Sys S := ⟨S.init, fun _ => none, []⟩

/-- the interleaving semantics: one label of the schedule -/
def Sys.step (S : CStore) (y : Sys S) : Lbl → Sys S
  | .call c op =>
    match y.thr c with
    | some _ => y
    | none => { y with thr := upd y.thr c (some ⟨op, S.start op⟩), trace := y.trace ++ [.inv c op] }
  | .step c =>
    match y.thr c with
    | none => y
    | some t =>
      let evl := if S.lin y.sh t.op t.l then [Ev.lin c t.op] else []
      match (S.sec y.sh t.op t.l).2 with
      | .inl l' => { sh := (S.sec y.sh t.op t.l).1, thr := upd y.thr c (some ⟨t.op, l'⟩), trace := y.trace ++ evl }
      | .inr o => { sh := (S.sec y.sh t.op t.l).1, thr := upd y.thr c none, trace := y.trace ++ evl ++ [.ret c t.op o] }

def exec (S : CStore) (sched : List Lbl) : Sys S := sched.foldl (Sys.step S) (Sys.init S)

/-! ## the linearizability check of a trace -/

inductive CSt where
  | idle
  | running (op : Op)
  | done (op : Op) (o : Out)   -- linearised; `o` = the reference map's answer at that point

structure Chk where
  m : SMap Bytes
  cl : Nat → CSt
  ok : Bool

def Chk.init : Chk := ⟨[], fun _ => .idle, true⟩

/-- replay one event on the reference map -/
def chk (anom : Op → Out → Bool) (k : Chk) : Ev → Chk
  | .inv c op =>
    match k.cl c with
    | .idle => { k with cl := upd k.cl c (.running op) }
    | _ => { k with ok := false }
  | .lin c op =>
    match k.cl c with
    | .running op' =>
      if op = op' then { m := next k.m op, cl := upd k.cl c (.done op (out k.m op)), ok := k.ok }
      else { k with ok := false }
    | _ => { k with ok := false }
  | .ret c op o =>
    match k.cl c with
    | .done op' o' =>
      if op = op' ∧ (o = o' ∨ anom op o = true) then { k with cl := upd k.cl c .idle }
      else { k with ok := false }
    | _ => { k with ok := false }

def replay (anom : Op → Out → Bool) (tr : List Ev) : Chk := tr.foldl (chk anom) Chk.init

/-- every call has exactly one linearisation event between its invocation and its response, and its
response is the reference map's answer at that event (or an anomaly listed by `anom`) -/
def Linearizable (anom : Op → Out → Bool) (tr : List Ev) : Bool := (replay anom tr).ok

def noAnom : Op → Out → Bool := fun _ _ => false

/-- the sequential history of a trace: the operations in the order of their linearisation events -/
def linOps (tr : List Ev) : List Op := tr.filterMap (fun | .lin _ op => some op | _ => none)

/-! ## store 1: a map behind one mutex (memory.Storage) -/

def lockMap : CStore where
  σ := SMap Bytes
  L := Unit
  init := []
  start := fun _ => ()
  sec := fun m op _ => (next m op, .inr (out m op))
  lin := fun _ _ _ => true

/-! ## the non-atomic enumerate: one step per blob over the live map -/

inductive PC where
  | start
  | second                -- diskpacked: locked append / index commit; files: temp file written
  | third                 -- files: renamed
  | fourth                -- files: (unused by others)
  | scan (cur : Bytes) (acc : List (Bytes × Nat)) (rem : Nat)
deriving DecidableEq, Repr

/-- the next blob strictly after `cur` in the live map; stop at the limit -/
def scanStep (m : SMap Bytes) (cur : Bytes) (acc : List (Bytes × Nat)) (rem : Nat) : PC ⊕ Out :=
  match (m.filter (fun p => ltB cur p.1)).head? with
  | none => .inr (.refs acc)
  | some (k, v) =>
    if rem ≤ 1 then .inr (.refs (acc ++ [(k, v.length)]))
    else .inl (.scan k (acc ++ [(k, v.length)]) (rem - 1))

def scanSec (m : SMap Bytes) (after : Bytes) (limit : Nat) : PC → PC ⊕ Out
  | .scan cur acc rem => scanStep m cur acc rem
  | _ => if limit = 0 then .inr (.refs []) else scanStep m after [] limit

def zeros (n : Nat) : Bytes := List.replicate n 0

/-! ## store 2: diskpacked -/

structure DpState where
  idx : SMap Bytes          -- index row present ⇒ the blob's bytes as appended
  zeroed : List Bytes       -- keys whose data region has been zeroed by `delete`

def dpSec (s : DpState) : Op → PC → DpState × (PC ⊕ Out)
  | .recv k v, .start =>
    -- diskpacked.go:646 unlocked duplicate check
    if has s.idx k then (s, .inr (.sized v.length)) else (s, .inl .second)
  | .recv k v, _ =>
    -- append under s.mu: data written, index.Set last
    ({ idx := ins k v s.idx, zeroed := s.zeroed.filter (· ≠ k) }, .inr (.sized v.length))
  | .fetch k, _ =>
    (s, .inr (match get s.idx k with
              | some v => .bytes (if k ∈ s.zeroed then zeros v.length else v)
              | none => .notExist))
  | .stat k, _ => (s, .inr (out s.idx (.stat k)))
  | .rm k, .start =>
    -- dele.go:35 delete(): zero the data region; the index row is still there
    ({ s with zeroed := if has s.idx k then k :: s.zeroed else s.zeroed }, .inl .second)
  | .rm k, _ =>
    -- CommitBatch of the index deletion
    ({ idx := del k s.idx, zeroed := s.zeroed.filter (· ≠ k) }, .inr .ok)
  | .enum after limit, pc => (s, scanSec s.idx after limit pc)

def dpLin (s : DpState) : Op → PC → Bool
  | .recv k _, .start => has s.idx k
  | .rm _, .start => false
  | .enum _ _, .scan _ _ _ => false
  | _, _ => true

def dpStore : CStore where
  σ := DpState
  L := PC
  init := ⟨[], []⟩
  start := fun _ => .start
  sec := dpSec
  lin := dpLin

/-- the anomalies of today's diskpacked: a fetch may answer all-zero bytes; enumerate is a scan -/
def dpAnom : Op → Out → Bool
  | .fetch _, .bytes b => b == zeros b.length
  | .enum _ _, .refs _ => true
  | _, _ => false

/-! ## store 3: files / localdisk -/

def fsSec (m : SMap Bytes) : Op → PC → SMap Bytes × (PC ⊕ Out)
  | .recv _ _, .start => (m, .inl .second)            -- MkdirAll
  | .recv _ _, .second => (m, .inl .third)            -- TempFile, Copy, Sync, Close, Lstat(temp)
  | .recv k v, .third => (ins k v m, .inl .fourth)    -- Rename: the blob becomes visible
  | .recv k _, _ =>                                   -- Lstat(final name)
    (m, .inr (match get m k with | some b => .sized b.length | none => .err))
  | .fetch k, .start =>                               -- Stat
    if has m k then (m, .inl .second) else (m, .inr .notExist)
  | .fetch k, _ => (m, .inr (out m (.fetch k)))       -- Open
  | .stat k, _ => (m, .inr (out m (.stat k)))
  | .rm k, _ => (del k m, .inr .ok)
  | .enum after limit, pc => (m, scanSec m after limit pc)

def fsLin (m : SMap Bytes) : Op → PC → Bool
  | .recv _ _, .third => true
  | .recv _ _, _ => false
  | .fetch k, .start => !has m k
  | .enum _ _, .scan _ _ _ => false
  | _, _ => true

def filesStore : CStore where
  σ := SMap Bytes
  L := PC
  init := []
  start := fun _ => .start
  sec := fsSec
  lin := fsLin

/-- the anomalies of today's files store: a receive may answer `err`; enumerate is a walk -/
def fsAnom : Op → Out → Bool
  | .recv _ _, .err => true
  | .enum _ _, .refs _ => true
  | _, _ => false

end Pk.Conc
