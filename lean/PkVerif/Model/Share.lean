/-!
# Model of the share handler (pkg/server/share.go) and of the handler guard table
(pkg/serverinit/serverinit.go).  Core Lean only.

Blob references are abstract (`Ref = Nat`): the handler only compares references for equality and
looks them up in the store.  A stored blob is abstracted to the fields the handler looks at.
-/
namespace Pk.Share

abbrev Ref := Nat

/-- what the share handler can see of a stored blob (after `schema.BlobFromReader`) -/
inductive Blob where
  /-- a claim for which `(*Blob).AsShare` (pkg/schema/blob.go:135) succeeds: claimType "share",
  authType "haveref", a valid `target` (or, for `none`, a `search`), `transitive`, `expires`
  (`none` = zero time) -/
  | share (target : Option Ref) (transitive : Bool) (expires : Option Nat)
  /-- camliType "file": the valid `blobRef`/`bytesRef` of its `parts` (`ByteParts`, blob.go:105) -/
  | file (parts : List Ref)
  /-- camliType "bytes" -/
  | bytes (parts : List Ref)
  /-- camliType "directory": `entries` (`DirectoryEntries`, blob.go:148) -/
  | directory (entries : Ref)
  /-- camliType "static-set": `members` (`StaticSetMembers`, blob.go:158) and `mergeSets`
  (`StaticSetMergeSets`, blob.go:174) -/
  | staticSet (members mergeSets : List Ref)
  /-- any other blob that parses as a schema blob (permanode, non-share claim, delete claim, symlink,
  a share claim that is not valid, …) and the refs it mentions -/
  | other (mentions : List Ref)
  /-- a blob that is not JSON (`BlobFromReader` fails) and the refs its text mentions -/
  | raw (mentions : List Ref)
  deriving DecidableEq, Repr

/-- a stored blob together with the refs that occur in its text outside the fields above
(e.g. in `fileName`) -/
structure Stored where
  blob : Blob
  extra : List Ref := []
  deriving DecidableEq, Repr

abbrev Store := Ref → Option Stored

/-- refs in the link fields of a blob -/
def fieldRefs : Blob → List Ref
  | .share t _ _ => t.toList
  | .file ps => ps
  | .bytes ps => ps
  | .directory e => [e]
  | .staticSet ms subs => ms ++ subs
  | .other ms => ms
  | .raw ms => ms

/-- every ref whose text occurs in the blob's bytes -/
def textRefs (s : Stored) : List Ref := fieldRefs s.blob ++ s.extra

/-- pkg/server/share.go:50 `errorCode` -/
inductive ErrorCode where
  | noError | assembleNonTransitive | invalidMethod | invalidURL | invalidVia | shareBlobInvalid
  | shareBlobTooLarge | shareExpired | shareDeleted | shareFetchFailed | shareReadFailed
  | shareTargetInvalid | shareNotTransitive | viaChainFetchFailed | viaChainInvalidLink
  | viaChainReadFailed
  deriving DecidableEq, Repr

/-- pkg/server/share.go:69 `errorCodeStr` -/
def ErrorCode.str : ErrorCode → String
  | .noError => "noError" | .assembleNonTransitive => "assembleNonTransitive"
  | .invalidMethod => "invalidMethod" | .invalidURL => "invalidURL" | .invalidVia => "invalidVia"
  | .shareBlobInvalid => "shareBlobInvalid" | .shareBlobTooLarge => "shareBlobTooLarge"
  | .shareExpired => "shareExpired" | .shareDeleted => "shareDeleted"
  | .shareFetchFailed => "shareFetchFailed" | .shareReadFailed => "shareReadFailed"
  | .shareTargetInvalid => "shareTargetInvalid" | .shareNotTransitive => "shareNotTransitive"
  | .viaChainFetchFailed => "viaChainFetchFailed" | .viaChainInvalidLink => "viaChainInvalidLink"
  | .viaChainReadFailed => "viaChainReadFailed"

/-- how a request to the share handler ends -/
inductive Outcome where
  /-- a `shareError` with this code (400 or 401, nothing served) -/
  | refused (c : ErrorCode)
  /-- `gethandler.ServeBlobRef(rw, req, blobRef, h.fetcher)` (share.go:274) -/
  | serveBlob (r : Ref)
  /-- `DownloadHandler.ServeFile(rw, req, blobRef)` (share.go:272, `assemble=1`) -/
  | serveFile (r : Ref)
  deriving DecidableEq, Repr

/-- the ref whose contents the request obtains, if any -/
def Outcome.served : Outcome → Option Ref
  | .refused _ => none
  | .serveBlob r => some r
  | .serveFile r => some r

/-- the environment of a request: the blob store behind `h.fetcher`, the deletion lookup
`h.idx.IsDeleted` (share.go:205; a parameter here), and the clock -/
structure Env where
  store : Store
  deleted : Ref → Bool
  now : Nat

/-- pkg/schema/blob.go:268 `Share.IsExpired`: `!t.IsZero() && clockNow().After(t)` -/
def isExpired (now : Nat) : Option Nat → Bool
  | none => false
  | some t => decide (t < now)

/-- pkg/server/share.go:317 `bytesHaveSchemaLink` (with the repair of finding F-C17-1: `mergeSets`
of a static-set are links too) -/
def bytesHaveSchemaLink (s : Stored) (target : Ref) : Bool :=
  -- fast path for no: `!bytes.Contains(bb, []byte(target.String()))`
  if !(textRefs s).contains target then false else
  match s.blob with
  | .raw _ => false                       -- `schema.BlobFromReader` fails
  | .file ps => ps.contains target
  | .bytes ps => ps.contains target
  | .directory e => e == target
  | .staticSet ms subs => ms.contains target || subs.contains target
  | _ => false

/-- `bytesHaveSchemaLink` as it was before the repair (share.go:345-348 looked at
`StaticSetMembers` only) -/
def bytesHaveSchemaLinkOld (s : Stored) (target : Ref) : Bool :=
  if !(textRefs s).contains target then false else
  match s.blob with
  | .raw _ => false
  | .file ps => ps.contains target
  | .bytes ps => ps.contains target
  | .directory e => e == target
  | .staticSet ms _ => ms.contains target
  | _ => false

/-- the `default:` arm of the loop of `handleGetViaSharing` (share.go:243-259) for the chain
positions `1 … len-2`: `cur` is `fetchChain[i]`, the list is `fetchChain[i+1:]`; the last element is
only looked at as a `sought` (the `case len(fetchChain)-1: continue` arm). `link` is the link check. -/
def checkLinksWith (link : Stored → Ref → Bool) (store : Store) : Ref → List Ref → Option ErrorCode
  | _, [] => none
  | cur, sought :: rest =>
    match store cur with
    | none => some .viaChainFetchFailed
    | some s =>
      if link s sought then checkLinksWith link store sought rest
      else some .viaChainInvalidLink

def checkLinks := checkLinksWith bytesHaveSchemaLink

/-- share.go:263-277: what is served once the chain has been accepted -/
def finish (assemble isTransitive : Bool) (blobRef : Ref) : Outcome :=
  if assemble then
    if !isTransitive then .refused .assembleNonTransitive else .serveFile blobRef
  else .serveBlob blobRef

/-- share.go:186-194: every element of `via` must parse, else `invalidVia` -/
def parseVia : List (Option Ref) → Option (List Ref)
  | [] => some []
  | none :: _ => none
  | some r :: rest => (parseVia rest).map (r :: ·)

/-- the chain validation of `handleGetViaSharing` (share.go:196-261, the `for i, br := range
fetchChain` loop) on `fetchChain = c0 :: rest`; answers the share's transitivity (`isTransitive`) or
the error the loop returns with. `link` is the link check. -/
def validateWith (link : Stored → Ref → Bool) (e : Env) (c0 : Ref) (rest : List Ref) :
    Except ErrorCode Bool :=
  -- case 0:
  if e.deleted c0 then .error .shareDeleted else
  match e.store c0 with
  | none => .error .shareFetchFailed
  | some s0 =>
    match s0.blob with
    | .raw _ => .error .shareReadFailed
    | .share tgt trans exp =>
      if isExpired e.now exp then .error .shareExpired else
      match rest with
      | [] => .ok trans
      | c1 :: more =>
        if tgt != some c1 then .error .shareTargetInvalid else
        if !more.isEmpty && !trans then .error .shareNotTransitive else
        -- default: (positions 1 … len-2) and case len-1:
        match checkLinksWith link e.store c1 more with
        | some err => .error err
        | none => .ok trans
    | _ => .error .shareBlobInvalid

/-- head of `fetchChain = viaBlobs ++ [blobRef]` -/
def chainHead (viaBlobs : List Ref) (blobRef : Ref) : Ref :=
  match viaBlobs with | [] => blobRef | v :: _ => v

/-- tail of `fetchChain = viaBlobs ++ [blobRef]` -/
def chainTail (viaBlobs : List Ref) (blobRef : Ref) : List Ref :=
  match viaBlobs with | [] => [] | _ :: vs => vs ++ [blobRef]

/-- pkg/server/share.go:166 `handleGetViaSharing`, parametrised by the link check.
`isGet` = `httputil.IsGet(req)` (GET or HEAD); `via` = the comma separated `via` form value, each
element parsed by `blob.Parse` (`none` = malformed); `blobRef` = the ref in the URL path. -/
def handleWith (link : Stored → Ref → Bool) (e : Env) (isGet : Bool) (via : List (Option Ref))
    (blobRef : Ref) (assemble : Bool) : Outcome :=
  if !isGet then .refused .invalidMethod else
  match parseVia via with
  | none => .refused .invalidVia
  | some viaBlobs =>
    match validateWith link e (chainHead viaBlobs blobRef) (chainTail viaBlobs blobRef) with
    | .error c => .refused c
    | .ok trans => finish assemble trans blobRef

def handleGetViaSharing := handleWith bytesHaveSchemaLink
def handleGetViaSharingOld := handleWith bytesHaveSchemaLinkOld

/-- pkg/server/share.go:280 `serveHTTP`: `path` is the first path element parsed by `blob.Parse` -/
def serveHTTP (e : Env) (isGet : Bool) (path : Option Ref) (via : List (Option Ref))
    (assemble : Bool) : Outcome :=
  match path with
  | none => .refused .invalidURL
  | some blobRef => handleGetViaSharing e isGet via blobRef assemble

/-- the `response` of a `shareError`: `badRequest` (400) for the three request-shape errors,
`unauthorizedRequest` (401) for everything else -/
def ErrorCode.status : ErrorCode → Nat
  | .invalidMethod => 400 | .invalidURL => 400 | .invalidVia => 400
  | _ => 401

/-- the HTTP status of a request that is not an `assemble` request: `ServeBlobRef`
(pkg/blobserver/gethandler/get.go:63) answers 200 with the blob's bytes if the fetcher has the blob
and 404 otherwise. (`serveFile` is outside this function: its status depends on the file reader.) -/
def httpStatus (store : Store) : Outcome → Option Nat
  | .refused c => some c.status
  | .serveBlob r => some (if (store r).isSome then 200 else 404)
  | .serveFile _ => none

/-! ## the handler guard of pkg/serverinit/serverinit.go -/

/-- a handler type of the low-level configuration: `"storage-<x>"` or any other string -/
inductive HType where
  | storage (stype : String)
  | handler (htype : String)
  deriving DecidableEq, Repr

/-- what `setupHandler` (serverinit.go:278-386) installs in front of a handler -/
inductive Guard where
  /-- `unauthorizedHandler{}`: always 401 (internal handlers) -/
  | deny
  /-- `auth.Handler{…}`: served only if `auth.Allowed(req, OpAll)` -/
  | auth
  /-- storage: only `prefix+"camli/"` is installed, as `makeCamliHandler`, every request of which goes
  through `auth.RequireAuth` (serverinit.go:192) -/
  | camliAuth
  /-- only the `PrefixHandler`: the handler itself decides -/
  | open_
  deriving DecidableEq, Repr

/-- serverinit.go:278 `setupHandler` + :394 `handlerTypeWantsAuth` (the list of its `case`) -/
def installedGuard (authTypes : List String) (t : HType) (internal : Bool) : Guard :=
  match t with
  | .storage _ => if internal then .deny else .camliAuth
  | .handler h => if internal then .deny else if authTypes.contains h then .auth else .open_

/-- does a request without / with valid credentials get past the guard? `none` = the guard does not
decide (the handler does) -/
def guardPasses (g : Guard) (creds : Bool) : Option Bool :=
  match g with
  | .deny => some false
  | .auth => some creds
  | .camliAuth => some creds
  | .open_ => none

/-- pkg/server/root.go:175 `RootHandler.ServeHTTP` (not stealth): a discovery request is served only if
`auth.Allowed(r, auth.OpDiscovery)`, else `auth.SendUnauthorized` -/
def rootDiscovery (creds : Bool) : Bool := creds

end Pk.Share
