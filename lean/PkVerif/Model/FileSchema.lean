import PkVerif.Base.Bytes
/-!
# Model of pkg/schema file writer / file reader / static sets  (C15)

* (a) `writeFileChunks`, `addBytesParts`, `uploadBytes`  (pkg/schema/filewriter.go)
* (b) `readerForOffset`, `ReadAt`, `ForeachChunk`        (pkg/schema/filereader.go)
* (c) `SetStaticSetMembers` (schema.go), `staticSet`    (dirreader.go)

Blob references are content addresses; the model identifies a reference with the content it names
(a `blobRef` *is* the chunk, a `bytesRef` *is* the parts list of the bytes schema blob), so a parts tree
carries the store it is read from.  JSON encoding/decoding of schema blobs is not modelled (the
correspondence run goes through the real encoder and parser).

The rolling checksum and the EOF look-ahead of the bufio reader are *inputs*: every input byte comes
with what `rs.OnSplit()/rs.Bits()` and `src.sawEOF` reported right after it was consumed (`In`).  All
statements are for every such annotation.
-/
namespace Pk.FS
open Pk

/-! ## (b) parts, their denotation, the reader -/

/-- `schema.BytesPart` with its reference resolved (schema.go:339). -/
inductive Part where
  /-- neither blobRef nor bytesRef: `size` zero bytes -/
  | hole (size : Nat)
  /-- blobRef: raw blob `data`, skip `off`, contribute `size` -/
  | blob (data : Bytes) (off size : Nat)
  /-- bytesRef: a "bytes" schema blob with parts `sub` -/
  | bytes (sub : List Part) (off size : Nat)
  /-- both blobRef and bytesRef set (illegal) -/
  | both (size : Nat)

def Part.size : Part → Nat
  | .hole s => s
  | .blob _ _ s => s
  | .bytes _ _ s => s
  | .both s => s

/-- `superset.SumPartsSize` (schema.go:408) -/
def sumPartsSize : List Part → Nat
  | [] => 0
  | p :: ps => p.size + sumPartsSize ps

def slice (b : Bytes) (off n : Nat) : Bytes := (b.drop off).take n

mutual
/-- the bytes a part denotes (doc/schema/bytes.md) -/
def Part.denote : Part → Bytes
  | .hole s => List.replicate s 0
  | .blob d o s => slice d o s
  | .bytes sub o s => slice (denoteL sub) o s
  | .both _ => []
/-- the bytes a parts list denotes -/
def denoteL : List Part → Bytes
  | [] => []
  | p :: ps => p.denote ++ denoteL ps
end

mutual
/-- well-formed: no part has both refs; every referenced range lies inside its referent -/
def Part.wf : Part → Bool
  | .hole _ => true
  | .blob d o s => decide (o + s ≤ d.length)
  | .bytes sub o s => wfL sub && decide (o + s ≤ sumPartsSize sub)
  | .both _ => false
def wfL : List Part → Bool
  | [] => true
  | p :: ps => p.wf && wfL ps
end

mutual
/-- nesting depth of bytes schema blobs below a part -/
def Part.depth : Part → Nat
  | .bytes sub _ _ => depthL sub + 1
  | _ => 0
def depthL : List Part → Nat
  | [] => 0
  | p :: ps => max p.depth (depthL ps)
end

/-- outcome of a read -/
inductive RErr where
  | nil | eof | unexpectedEOF | illegal | tooDeep
deriving DecidableEq, Repr

/-- filereader.go:330-334: skip the parts that end at or before the offset -/
def skipParts : List Part → Nat → Option (Part × Nat)
  | [], _ => none
  | p :: ps, r => if p.size ≤ r then skipParts ps (r - p.size) else some (p, r)

/-- One `readerForOffset(off)` (filereader.go:317) followed by `io.ReadFull(rc, p)` with
`len(p) = want > 0`: the bytes obtained, or the error `readerForOffset` itself returns.
`rd` is `ReadAt` of a sub-`FileReader` (bytesRef parts).  `old = true` is the code before the
`fix:` commit, whose `io.LimitReader(rsc, p0.Size)` ignored the bytes skipped inside the part. -/
def readOnce (old : Bool) (rd : List Part → Nat → Nat → Bytes × RErr)
    (parts : List Part) (off want : Nat) : Except RErr Bytes :=
  if sumPartsSize parts ≤ off then .ok []                    -- types.EmptyBody
  else match skipParts parts off with
    | none => .ok []                                         -- types.EmptyBody
    | some (p0, offRemain) =>
      match p0 with
      | .both _ => .error .illegal
      | .hole s => .ok (List.replicate (min want (s - offRemain)) 0)
      | .blob d o s =>
        let lim := if old then s else s - offRemain
        .ok ((d.drop (offRemain + o)).take (min want lim))
      | .bytes sub o s =>
        let lim := if old then s else s - offRemain
        let pos := offRemain + o                             -- rsc.Seek(offRemain, io.SeekStart)
        let subSize := sumPartsSize sub
        -- LimitReader.Read → SectionReader.Read → sub.ReadAt on the clamped buffer; a second Read
        -- after a full one reports EOF, an error ends ReadFull with what was read
        if subSize ≤ pos then .ok []
        else .ok (rd sub pos (min (min want lim) (subSize - pos))).1

/-- the loop of `FileReader.ReadAt` (filereader.go:182-199); `fuel` bounds the iterations (each one
makes progress or breaks).  The inner `err` shadows the result `err`, so errors of the reads are
dropped and only `readerForOffset`'s own errors return early. -/
def readLoop (old : Bool) (rd : List Part → Nat → Nat → Bytes × RErr) (parts : List Part) :
    (fuel off rem : Nat) → (acc : Bytes) → Bytes × Option RErr
  | 0, _, _, acc => (acc, none)
  | fuel + 1, off, rem, acc =>
    if rem = 0 then (acc, none)
    else match readOnce old rd parts off rem with
      | .error e => (acc, some e)
      | .ok got =>
        if got.length = 0 then (acc, none)
        else readLoop old rd parts fuel (off + got.length) (rem - got.length) (acc ++ got)

/-- `FileReader.ReadAt(p, off)` with `len(p) = want` (filereader.go:174) -/
def readAtWith (old : Bool) (rd : List Part → Nat → Nat → Bytes × RErr)
    (parts : List Part) (off want : Nat) : Bytes × RErr :=
  if sumPartsSize parts ≤ off then ([], .eof)
  else match readLoop old rd parts want off want [] with
    | (got, some e) => (got, e)
    | (got, none) => if got.length < want then (got, .unexpectedEOF) else (got, .nil)

/-- `ReadAt` on trees of nesting depth ≤ `d` (deeper: `tooDeep`; the Go code has no such limit, the
parameter only makes the recursion through sub-readers structural). -/
def readAtD (old : Bool) : Nat → List Part → Nat → Nat → Bytes × RErr
  | 0 => readAtWith old (fun _ _ _ => ([], .tooDeep))
  | d + 1 => readAtWith old (readAtD old d)

/-- `FileReader.ReadAt` of the current code -/
def readAt (parts : List Part) (off want : Nat) : Bytes × RErr :=
  readAtD false (depthL parts) parts off want

/-- `fr.Seek(pos, io.SeekStart)` then one `fr.Read(p)` (io.SectionReader.Read over `ReadAt`) -/
def seekRead (parts : List Part) (pos want : Nat) : Bytes × RErr :=
  let size := sumPartsSize parts
  if size ≤ pos then ([], .eof)
  else readAt parts pos (min want (size - pos))

mutual
/-- `FileReader.foreachChunk` (filereader.go:222): the leaf parts in order; `some illegal` when a
part with both refs stops the walk.  The offset/size of a bytesRef part are not consulted. -/
def foreachPart : Part → List Part × Option RErr
  | .both _ => ([], some .illegal)
  | .bytes sub _ _ => foreachChunk sub
  | .hole s => ([.hole s], none)
  | .blob d o s => ([.blob d o s], none)
def foreachChunk : List Part → List Part × Option RErr
  | [] => ([], none)
  | p :: ps =>
    match foreachPart p with
    | (cs, some e) => (cs, some e)
    | (cs, none) =>
      match foreachChunk ps with
      | (cs2, e) => (cs ++ cs2, e)
end

/-! ## (a) the chunker and the tree builder -/

/-- constants of filewriter.go:38-65 and the two literal node weights (:357, :364) -/
structure Cfg where
  maxBlobSize : Nat
  firstChunkSize : Nat
  tooSmallThreshold : Nat
  capBits : Nat := 20
  firstBits : Nat := 18

/-- one byte of the source with what the environment said right after it was consumed:
`split = some b` iff `rs.OnSplit()` (then `b = rs.Bits()`); `sawEOF` is `src.sawEOF`. -/
structure In where
  byte : Nat
  split : Option Nat
  sawEOF : Bool

/-- filewriter.go:108 `span`; `br` is the chunk the blobref names -/
inductive Span where
  | mk (from_ to : Nat) (bits : Nat) (br : Bytes) (children : List Span)

def Span.from_ : Span → Nat | .mk f _ _ _ _ => f
def Span.to : Span → Nat | .mk _ t _ _ _ => t
def Span.bits : Span → Nat | .mk _ _ b _ _ => b
def Span.br : Span → Bytes | .mk _ _ _ r _ => r
def Span.children : Span → List Span | .mk _ _ _ _ c => c
/-- filewriter.go:115 -/
def Span.isSingleBlob (s : Span) : Bool := s.children.isEmpty

mutual
/-- filewriter.go:119 `span.size` -/
def Span.size : Span → Nat
  | .mk f t _ _ ch => (t - f) + sizeL ch
def sizeL : List Span → Nat
  | [] => 0
  | s :: ss => s.size + sizeL ss
end

/-- loop state of `writeFileChunks`; `rbuf`, `rspans`, `ruploads` hold `buf`, `spans` and the chunks
handed to `uploadString` newest first -/
structure WState where
  n : Nat := 0
  last : Nat := 0
  blobSize : Nat := 0
  rbuf : Bytes := []
  rspans : List Span := []
  ruploads : List Bytes := []

/-- the `switch` of filewriter.go:355-368: `some bits` = cut here with that node weight -/
def splitBits (c : Cfg) (n blobSize : Nat) (i : In) : Option Nat :=
  if blobSize = c.maxBlobSize then some c.capBits
  else if i.sawEOF then none
  else match i.split with
    | some b =>
      if c.firstChunkSize < n ∧ c.tooSmallThreshold < blobSize then some b
      else if n = c.firstChunkSize then some c.firstBits else none
    | none => if n = c.firstChunkSize then some c.firstBits else none

/-- one iteration of the loop filewriter.go:333-390 for a byte that was read -/
def step (c : Cfg) (s : WState) (i : In) : WState :=
  let n := s.n + 1
  let blobSize := s.blobSize + 1
  let rbuf := i.byte :: s.rbuf
  match splitBits c n blobSize i with
  | none => { s with n := n, blobSize := blobSize, rbuf := rbuf }
  | some bits =>
    let children := (s.rspans.takeWhile (fun sp => decide (sp.bits < bits))).reverse
    let rest := s.rspans.dropWhile (fun sp => decide (sp.bits < bits))
    let chunk := rbuf.reverse
    { n := n, last := n, blobSize := 0, rbuf := [],
      rspans := Span.mk s.last n bits chunk children :: rest,
      ruploads := chunk :: s.ruploads }

/-- the EOF branch filewriter.go:335-343 -/
def finish (s : WState) : WState :=
  if s.n ≠ s.last then
    let chunk := s.rbuf.reverse
    { s with rspans := Span.mk s.last s.n 0 chunk [] :: s.rspans, ruploads := chunk :: s.ruploads }
  else s

def runChunker (c : Cfg) (input : List In) : WState := finish (input.foldl (step c) {})

/-- `writeFileChunks` (filewriter.go:293): total size, top-level spans, chunks in upload order -/
def writeFileChunks (c : Cfg) (input : List In) : Nat × List Span × List Bytes :=
  let s := runChunker c input
  (s.n, s.rspans.reverse, s.ruploads.reverse)

/-- what is handed to the blob server -/
inductive Obj where
  | chunk (data : Bytes)
  | bytes (parts : List Part)
  | file (parts : List Part)

inductive WErr where
  | weirdSpan      -- the panic of filewriter.go:255
  | sizeMismatch   -- populateParts, schema.go:755
  | upload         -- the blob server refused a blob (uploadString's error)
deriving DecidableEq, Repr

mutual
/-- `addBytesParts` (filewriter.go:228) for one span: the parts appended to `dst` and the bytes schema
blobs whose upload was started (by the nested `uploadBytes`), in start order -/
def addBytesPart : Span → Except WErr (List Part × List Obj)
  | .mk f t _ br ch =>
    -- filewriter.go:230 `len(sp.children) == 1 && sp.children[0].isSingleBlob()`
    let promote : Bool := match ch with
      | [c] => c.isSingleBlob
      | _ => false
    let promoted : List Part := match ch with
      | [c] => [.blob c.br 0 c.size]
      | _ => []
    let pre : Except WErr (List Part × List Obj) :=
      if promote then .ok (promoted, [])
      else if ch.isEmpty then .ok ([], [])
      else
        let childrenSize := sizeL ch
        -- uploadBytes(ctx, bs, newBytes(), childrenSize, sp.children)
        match addBytesParts ch with
        | .error e => .error e
        | .ok (cparts, cups) =>
          if sumPartsSize cparts ≠ childrenSize then .error .sizeMismatch
          else .ok ([.bytes cparts 0 childrenSize], cups ++ [.bytes cparts])
    match pre with
    | .error e => .error e
    | .ok (p, u) =>
      if f = t then .error .weirdSpan
      else .ok (p ++ [.blob br 0 (t - f)], u)
def addBytesParts : List Span → Except WErr (List Part × List Obj)
  | [] => .ok ([], [])
  | sp :: rest =>
    match addBytesPart sp with
    | .error e => .error e
    | .ok (p1, u1) =>
      match addBytesParts rest with
      | .error e => .error e
      | .ok (p2, u2) => .ok (p1 ++ p2, u1 ++ u2)
end

/-- `writeFileMapRolling` (filewriter.go:267): the parts of the file schema blob and everything handed
to the blob server, in the order the uploads are started (the file blob only after all others
completed, filewriter.go:178-186) -/
def writeFile (c : Cfg) (input : List In) : Except WErr (List Part × List Obj) :=
  match writeFileChunks c input with
  | (n, spans, chunks) =>
    match addBytesParts spans with
    | .error e => .error e
    | .ok (parts, ups) =>
      if sumPartsSize parts ≠ n then .error .sizeMismatch
      else .ok (parts, chunks.map Obj.chunk ++ ups ++ [.file parts])

/-- `writeFileMapRolling` over a blob server that may refuse blobs: `fails i` says whether the `i`-th
upload (in the start order of `writeFile`'s object list) fails.
* chunk uploads run concurrently; `writeFileChunks` returns only after ALL of them have finished and
  then reports the first error (filewriter.go:309-331 during the loop, :397-408 after the gate drain);
* `uploadBytes` for the file blob waits (`future.Get`) for every bytes schema blob and returns their
  error before the file blob is uploaded (:178-186); the file blob's own error is returned by `Get`. -/
def writeFileF (fails : Nat → Bool) (c : Cfg) (input : List In) : Except WErr (List Part × List Obj) :=
  match writeFileChunks c input with
  | (n, spans, chunks) =>
    if (List.range chunks.length).any fails then .error .upload
    else match addBytesParts spans with
      | .error e => .error e
      | .ok (parts, ups) =>
        if sumPartsSize parts ≠ n then .error .sizeMismatch
        else if (List.range ups.length).any (fun j => fails (chunks.length + j)) then .error .upload
        else if fails (chunks.length + ups.length) then .error .upload
        else .ok (parts, chunks.map Obj.chunk ++ ups ++ [.file parts])

/-! ## (c) static sets -/

/-- a "static-set" schema blob: `members` and `mergeSets` (references resolved) -/
inductive SSet where
  | mk (members : List Nat) (mergeSets : List SSet)

def SSet.members : SSet → List Nat | .mk m _ => m
def SSet.mergeSets : SSet → List SSet | .mk _ s => s

inductive SErr where
  | panic     -- integer division by zero / slice bounds
  | diverge   -- the recursion does not come back (fuel exhausted)
deriving DecidableEq, Repr

/-- the loop schema.go:604-610: `k` more subsets starting with index `i`; every element is the
subset's blob and the sub-subsets it returned -/
def spreadSubs (rec : List Nat → Except SErr (SSet × List SSet)) (ms : List Nat) (per : Nat) :
    (k i : Nat) → Except SErr (List (SSet × List SSet))
  | 0, _ => .ok []
  | k + 1, i =>
    if ms.length < (i + 1) * per then .error .panic      -- members[i*perSubset : (i+1)*perSubset]
    else match rec ((ms.drop (i * per)).take per) with
      | .error e => .error e
      | .ok r =>
        match spreadSubs rec ms per k (i + 1) with
        | .error e => .error e
        | .ok rs => .ok (r :: rs)

/-- `Builder.SetStaticSetMembers` (schema.go:570) with `maxStaticSetMembers = M`: the builder's blob
and the returned `allSubsets`.  `fuel` bounds the recursion depth. -/
def setStaticSetMembers (M : Nat) : (fuel : Nat) → List Nat → Except SErr (SSet × List SSet)
  | 0, _ => .error .diverge
  | fuel + 1, ms =>
    if ms.length ≤ M then .ok (.mk ms [], [])
    else if M = 0 then .error .panic                      -- len(members) / maxStaticSetMembers
    else
      let sn0 := ms.length / M
      if ¬ sn0 < M ∧ M - 1 = 0 then .error .panic         -- len(members) / subsetsNumber
      else
        let sn := if sn0 < M then sn0 else M - 1
        let per := if sn0 < M then M else ms.length / (M - 1)
        match spreadSubs (setStaticSetMembers M fuel) ms per sn 0 with
        | .error e => .error e
        | .ok rs =>
          let subsets := rs.map (·.1)
          let allSubsets := rs.flatMap (fun r => r.1 :: r.2)
          if per * sn < ms.length then
            -- the rest; the sub-subsets it returns are dropped (schema.go:615)
            match setStaticSetMembers M fuel (ms.drop (per * sn)) with
            | .error e => .error e
            | .ok (s, _) => .ok (.mk [] (subsets ++ [s]), allSubsets ++ [s])
          else .ok (.mk [] subsets, allSubsets)

/-- `SetStaticSetMembers` on a fresh builder -/
def spread (M : Nat) (ms : List Nat) : Except SErr (SSet × List SSet) :=
  setStaticSetMembers M (ms.length + 1) ms

mutual
/-- `staticSet` (dirreader.go:103) -/
def staticSet : SSet → List Nat
  | .mk ms subs => if ms.length > 0 then ms else staticSetL subs
def staticSetL : List SSet → List Nat
  | [] => []
  | s :: ss => staticSet s ++ staticSetL ss
end

end Pk.FS
