import PkVerif.Drv.C05
def main (_ : List String) : IO UInt32 := Pk.Drv.runMachine Pk.Drv.C05.machine
