import PkVerif.Drv.C07
def main (_ : List String) : IO UInt32 := Pk.Drv.runMachine Pk.Drv.C07.machine
