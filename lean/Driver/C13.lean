import PkVerif.Drv.C13
def main (_ : List String) : IO UInt32 := Pk.Drv.runMachine Pk.Drv.C13.machine
