import PkVerif.Drv.C03
def main (_ : List String) : IO UInt32 := Pk.Drv.runMachine Pk.Drv.C03.machine
