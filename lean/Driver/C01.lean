import PkVerif.Drv.C01
def main (_ : List String) : IO UInt32 := Pk.Drv.runMachine Pk.Drv.C01.machine
