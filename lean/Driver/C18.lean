import PkVerif.Drv.C18
def main (_ : List String) : IO UInt32 := Pk.Drv.runMachine Pk.Drv.C18.machine
