import PkVerif.Drv.C20
/-! `pkmodel <prop>`: reads op lines on stdin, writes one output line per op.
Lines starting with `#` are echoed (case markers). -/
open Pk.Drv

partial def loop (m : Machine) (h : IO.FS.Stream) (out : IO.FS.Stream) (s : m.σ) : IO Unit := do
  let line ← h.getLine
  if line.isEmpty then return ()
  let l := line.dropRightWhile (fun c => c == '\n' || c == '\r')
  if l.startsWith "#" then
    out.putStrLn l
    -- a case marker resets the state
    loop m h out m.init
  else
    let (s', o) := m.step s (words l)
    out.putStrLn o
    loop m h out s'

def machines : List (String × Machine) := [
  ("c20", C20.machine)
]

def main (args : List String) : IO UInt32 := do
  match args with
  | [p] =>
    match machines.lookup p with
    | some m =>
      let out ← IO.getStdout
      loop m (← IO.getStdin) out m.init
      out.flush
      return 0
    | none => IO.eprintln s!"pkmodel: unknown property {p}"; return 2
  | _ => IO.eprintln "usage: pkmodel <prop> < ops"; return 2
