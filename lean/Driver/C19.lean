import PkVerif.Drv.C19
def main (_ : List String) : IO UInt32 := Pk.Drv.runMachine Pk.Drv.C19.machine
