import PkVerif.Drv.C04
def main (_ : List String) : IO UInt32 := Pk.Drv.runMachine Pk.Drv.C04.machine
