import PkVerif.Drv.C16
def main (_ : List String) : IO UInt32 := Pk.Drv.runMachine Pk.Drv.C16.machine
