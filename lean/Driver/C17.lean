import PkVerif.Drv.C17
def main (_ : List String) : IO UInt32 := Pk.Drv.runMachine Pk.Drv.C17.machine
