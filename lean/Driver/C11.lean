import PkVerif.Drv.C11
def main (_ : List String) : IO UInt32 := Pk.Drv.runMachine Pk.Drv.C11.machine
