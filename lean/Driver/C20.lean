import PkVerif.Drv.C20
def main (_ : List String) : IO UInt32 := Pk.Drv.runMachine Pk.Drv.C20.machine
