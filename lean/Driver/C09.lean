import PkVerif.Drv.C09
def main (_ : List String) : IO UInt32 := Pk.Drv.runMachine Pk.Drv.C09.machine
