import PkVerif.Drv.C14
def main (_ : List String) : IO UInt32 := Pk.Drv.runMachine Pk.Drv.C14.machine
