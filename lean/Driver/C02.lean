import PkVerif.Drv.C02
def main (_ : List String) : IO UInt32 := Pk.Drv.runMachine Pk.Drv.C02.machine
