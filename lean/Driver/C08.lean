import PkVerif.Drv.C08
def main (_ : List String) : IO UInt32 := Pk.Drv.runMachine Pk.Drv.C08.machine
