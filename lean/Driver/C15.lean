import PkVerif.Drv.C15
def main (_ : List String) : IO UInt32 := Pk.Drv.runMachine Pk.Drv.C15.machine
