import PkVerif.Drv.C12
def main (_ : List String) : IO UInt32 := Pk.Drv.runMachine Pk.Drv.C12.machine
