import PkVerif.Drv.C06
def main (_ : List String) : IO UInt32 := Pk.Drv.runMachine Pk.Drv.C06.machine
