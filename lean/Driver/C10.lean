import PkVerif.Drv.C10
def main (_ : List String) : IO UInt32 := Pk.Drv.runMachine Pk.Drv.C10.machine
