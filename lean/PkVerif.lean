import PkVerif.Base.Bytes
import PkVerif.Base.Order
import PkVerif.Base.Eff
