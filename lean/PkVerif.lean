import PkVerif.Base.Bytes
