#!/bin/sh
# build one module and print only errors (short)
cd /verif/lean && lake build "$@" 2>&1 | grep -E "^error|^warning: .*sorry|unsolved|error:" -A${CTX:-14} | head -${N:-70}
