#!/bin/sh
# seedconfirm.sh <dir with patch.diff + demo file> <package dir for the demo (relative to repo root)> <go test -run pattern> [extra packages to test]
# Confirms a seeded change in a scratch worktree: (a) builds, (b) the touched packages' tests pass,
# (c) the demo FAILS with the change, (d) the demo PASSES without it.  Prints one line per step.
d="$(realpath "$1")"; pkg="$2"; pat="$3"; shift 3
work="$(mktemp -d /tmp/seedconfirm-XXXXXX)"
trap 'git -C /repo worktree remove --force "$work/repo" >/dev/null 2>&1; rm -rf "$work"' EXIT
git -C /repo worktree add --detach "$work/repo" HEAD >/dev/null 2>&1
cd "$work/repo"
demo=$(ls "$d" | grep -E '_test\.go$|^main\.go$' | head -1)
touched=$(grep '^+++ b/' "$d/patch.diff" | sed 's#^+++ b/##' | xargs -n1 dirname | sort -u | sed 's#^#./#')
# without the change
mkdir -p "$pkg"; cp "$d/$demo" "$pkg/zz_seed_$demo"
go test -count=1 -run "$pat" "./$pkg/" >"$work/without.log" 2>&1; rc0=$?
git apply "$d/patch.diff" || { echo "patch does not apply"; exit 2; }
go build ./... >"$work/build.log" 2>&1; echo "build-with-change rc=$?"
go test -count=1 -run "$pat" "./$pkg/" >"$work/with.log" 2>&1; rc1=$?
rm -f "$pkg/zz_seed_$demo"
go test -count=1 $touched "$@" >"$work/suite.log" 2>&1; rcs=$?
echo "demo-without-change rc=$rc0 (want 0)   demo-with-change rc=$rc1 (want !=0)   package-tests-with-change rc=$rcs (want 0)"
grep -E "^(--- FAIL|FAIL|ok)" "$work/suite.log" | grep -v "^ok" | head -5
grep -E "VIOLATED|--- FAIL" "$work/with.log" | head -3
