#!/bin/sh
# seedtest.sh <patch.diff> <Cxx> [tier]  – run a property's check against a scratch worktree of /repo with
# the patch applied, from a scratch copy of /verif (so /repo and /verif's build state are untouched).
# Prints the check's output; exit status is the check's.
set -e
patch="$(realpath "$1")"; prop="$2"; tier="${3:-quick}"
work="$(mktemp -d /tmp/seedtest-XXXXXX)"
trap 'git -C /repo worktree remove --force "$work/repo" >/dev/null 2>&1; rm -rf "$work"' EXIT
git -C /repo worktree add --detach "$work/repo" HEAD >/dev/null 2>&1
git -C "$work/repo" apply "$patch"
rsync -a --exclude .git --exclude replays --exclude seeded /verif/ "$work/verif/" || [ $? -eq 24 ]
sed -i "s#=> /repo#=> $work/repo#" "$work/verif/harness/go.mod"
cd "$work/verif"
set +e
VERIF_REPO="$work/repo" ./check "$prop" --tier "$tier"
rc=$?
rm -rf /tmp/seedtest-last && mkdir -p /tmp/seedtest-last && cp -r "$work/verif/replays/." /tmp/seedtest-last/ 2>/dev/null
# keep the replay files of a detected violation next to the seeded change for reference
exit $rc
