package c13

import (
	"bytes"
	"context"
	"fmt"
	"os"
	"os/exec"
	"path/filepath"
	"sort"
	"strconv"
	"strings"
	"sync/atomic"
	"time"

	"go4.org/jsonconfig"

	"perkeep.org/pkg/blob"
	"perkeep.org/pkg/blobserver"
	"perkeep.org/pkg/blobserver/diskpacked"
	"perkeep.org/pkg/blobserver/files"
	"perkeep.org/pkg/blobserver/memory"

	"verifharness/hk"
	"verifharness/stores"
)

// Dedicated probes: `probe <name> [arg]`, executed on the real code only (in a child process when
// the failure mode can kill or wedge the process).  Each answers one line.

func mkBlobs(n, size int) ([]blob.Ref, [][]byte) {
	var refs []blob.Ref
	var vals [][]byte
	for i := 0; i < n; i++ {
		v := bytes.Repeat([]byte{byte('a' + i)}, size)
		refs = append(refs, blob.RefFromBytes(v))
		vals = append(vals, v)
	}
	return refs, vals
}

func recvOK(s blobserver.BlobReceiver, br blob.Ref, v []byte) string {
	_, err := blobserver.Receive(ctx, s, br, bytes.NewReader(v))
	return stores.ErrClass(err)
}

func fetchClass(s blobserver.Storage, br blob.Ref, want []byte) string {
	return watchdog(opTimeout, func() string {
		b, cls := stores.Fetch(ctx, s, br)
		if cls != "ok" {
			return cls
		}
		if bytes.Equal(b, want) {
			return "bytes"
		}
		if len(b) == len(want) && len(bytes.Trim(b, "\x00")) == 0 {
			return "zeros"
		}
		return "wrongbytes"
	})
}

func statClass(c context.Context, s blobserver.Storage, refs []blob.Ref) string {
	return watchdog(time.Second, func() string {
		l, cls := stores.Stat(c, s, refs)
		if cls != "ok" {
			return cls
		}
		return fmt.Sprintf("ok%d", len(l))
	})
}

// row 1: every StatBlobs that finds its context cancelled leaks a slot of the package-level gate
func probeGateLeak(kind string) string {
	env, err := stores.NewEnv()
	if err != nil {
		return "bad-op"
	}
	defer env.Close()
	sto, err := env.Build(&stores.Node{Kind: kind}, nil)
	if err != nil {
		return "bad-op"
	}
	refs, vals := mkBlobs(2, 30)
	for i := range refs {
		recvOK(sto, refs[i], vals[i])
	}
	cctx, cancel := context.WithCancel(ctx)
	cancel()
	n := 0
	for ; n < 64; n++ {
		if statClass(cctx, sto, refs) == "hang" {
			break
		}
	}
	return fmt.Sprintf("gateleak %s cancelled-calls-returned=%d healthy-stat=%s", kind, n, statClass(ctx, sto, refs))
}

// row 3: files.fetch on a Stat error that is not ENOENT
func probeFilesNil() string {
	dir, err := os.MkdirTemp("", "c13files-")
	if err != nil {
		return "bad-op"
	}
	defer os.RemoveAll(dir)
	vfs := &faultVFS{VFS: files.OSFS()}
	sto := files.NewStorage(vfs, dir)
	refs, vals := mkBlobs(1, 40)
	if _, err := sto.ReceiveBlob(ctx, refs[0], bytes.NewReader(vals[0])); err != nil {
		return "bad-op"
	}
	vfs.mu.Lock()
	vfs.failStat = 1
	vfs.mu.Unlock()
	first := hk.Guard(func() string {
		rc, _, err := sto.Fetch(ctx, refs[0])
		if err == nil {
			rc.Close()
		}
		return stores.ErrClass(err)
	})
	second := hk.Guard(func() string {
		rc, _, err := sto.Fetch(ctx, refs[0])
		if err == nil {
			rc.Close()
		}
		return stores.ErrClass(err)
	})
	return fmt.Sprintf("filesnil faulted-fetch=%s next-fetch=%s", first, second)
}

// row 4: overlay.isDeleted on a failing `deleted` KV
func probeOverlayKV() string {
	ld := stores.NewLoader()
	lower, upper := &memory.Storage{}, &memory.Storage{}
	conf, plan := newFaultKVConf()
	s, err := blobserver.CreateStorage("overlay", ld, jsonconfig.Obj{
		"lower": ld.Add(lower), "upper": ld.Add(upper), "deleted": conf})
	if err != nil {
		return "bad-op " + err.Error()
	}
	refs, vals := mkBlobs(1, 25)
	recvOK(lower, refs[0], vals[0])
	rm := stores.ErrClass(s.RemoveBlobs(ctx, refs))
	healthy := fetchClass(s, refs[0], vals[0])
	plan.failNext("Get", 'b')
	faulted := fetchClass(s, refs[0], vals[0])
	plan.failNext("Get", 'b')
	stat := statClass(ctx, s, refs)
	after := fetchClass(s, refs[0], vals[0])
	return fmt.Sprintf("overlaykv rm=%s fetch=%s faulted-fetch=%s faulted-stat=%s next-fetch=%s", rm, healthy, faulted, stat, after)
}

// slowStat delays every stat answer
type slowStat struct {
	blobserver.Storage
	d time.Duration
}

func (s slowStat) StatBlobs(c context.Context, blobs []blob.Ref, fn func(blob.SizedRef) error) error {
	return s.Storage.StatBlobs(c, blobs, func(sb blob.SizedRef) error {
		time.Sleep(s.d)
		return fn(sb)
	})
}

// row 5: union.StatBlobs with one failing and one slower subset
func probeUnion() string {
	ld := stores.NewLoader()
	a := &faultSto{inner: &memory.Storage{}, sched: []byte("b")}
	bm := &memory.Storage{}
	b := slowStat{bm, 60 * time.Millisecond}
	s, err := blobserver.CreateStorage("union", ld, jsonconfig.Obj{"subsets": []any{ld.Add(a), ld.Add(b)}})
	if err != nil {
		return "bad-op " + err.Error()
	}
	refs, vals := mkBlobs(2, 10)
	for i := range refs {
		recvOK(bm, refs[i], vals[i])
	}
	first := statClass(ctx, s, refs)
	time.Sleep(300 * time.Millisecond) // the slower subset answers now
	second := statClass(ctx, s, refs)
	return fmt.Sprintf("union faulted-stat=%s next-stat=%s survived", first, second)
}

func newDiskpacked(dir string, max int) (blobserver.Storage, *kvPlan, jsonconfig.Obj, error) {
	conf, plan := newFaultKVConf()
	s, err := blobserver.CreateStorage("diskpacked", stores.NewLoader(), jsonconfig.Obj{
		"path": dir, "maxFileSize": float64(max), "metaIndex": conf})
	return s, plan, jsonconfig.Obj(conf), err
}

// row 2: the index write fails on the receive that rolls the pack over
func probeDiskpackedRoll() string {
	dir, err := os.MkdirTemp("", "c13dp-")
	if err != nil {
		return "bad-op"
	}
	defer os.RemoveAll(dir)
	s, plan, _, err := newDiskpacked(dir, 200)
	if err != nil {
		return "bad-op " + err.Error()
	}
	refs, vals := mkBlobs(4, 100)
	r0 := recvOK(s, refs[0], vals[0])
	plan.failNext("Set", 'b')
	r1 := recvOK(s, refs[1], vals[1]) // 2 × (header + 100) > 200: rolls over, then the index Set fails
	r1b := recvOK(s, refs[1], vals[1])
	r2 := recvOK(s, refs[2], vals[2])
	fetch := ""
	for i := 0; i < 3; i++ {
		fetch += fetchClass(s, refs[i], vals[i]) + ","
	}
	if c, ok := s.(interface{ Close() error }); ok {
		c.Close()
	}
	// the store's own recovery: rebuild the index from the pack files
	rconf, _ := newFaultKVConf()
	reindex := stores.ErrClass(diskpacked.Reindex(ctx, dir, true, jsonconfig.Obj(rconf)))
	zeros := "no"
	if names, _ := filepath.Glob(filepath.Join(dir, "pack-*.blobs")); len(names) > 0 {
		for _, nm := range names {
			if b, err := os.ReadFile(nm); err == nil && len(b) > 0 && b[0] == 0 {
				zeros = "yes"
			}
		}
	}
	return fmt.Sprintf("dproll recv=%s faulted-recv=%s retry=%s next=%s fetch=%s reindex=%s pack-starts-with-zeros=%s",
		r0, r1, r1b, r2, fetch, reindex, zeros)
}

// row 31: the index batch of RemoveBlobs fails after the data was zeroed
func probeDiskpackedRemove() string {
	dir, err := os.MkdirTemp("", "c13dp-")
	if err != nil {
		return "bad-op"
	}
	defer os.RemoveAll(dir)
	s, plan, _, err := newDiskpacked(dir, 0)
	if err != nil {
		return "bad-op " + err.Error()
	}
	defer func() {
		if c, ok := s.(interface{ Close() error }); ok {
			c.Close()
		}
	}()
	refs, vals := mkBlobs(2, 50)
	recvOK(s, refs[0], vals[0])
	recvOK(s, refs[1], vals[1])
	plan.failNext("CommitBatch", 'b')
	rm := stores.ErrClass(s.RemoveBlobs(ctx, refs[:1]))
	f0 := fetchClass(s, refs[0], vals[0])
	st := statClass(ctx, s, refs[:1])
	f1 := fetchClass(s, refs[1], vals[1])
	return fmt.Sprintf("dprm faulted-rm=%s fetch=%s stat=%s other=%s", rm, f0, st, f1)
}

// the error of a source that has already closed its channel must not get lost in mergedEnumerate
func probeMergeLostErr() string {
	ld := stores.NewLoader()
	am, bm := &memory.Storage{}, &memory.Storage{}
	refs, vals := mkBlobs(4, 10)
	recvOK(am, refs[0], vals[0])
	recvOK(bm, refs[1], vals[1])
	lost := 0
	const rounds = 20
	for i := 0; i < rounds; i++ {
		a := &faultSto{inner: am, sched: []byte("b"), slowErr: 20 * time.Millisecond}
		s, err := blobserver.CreateStorage("shard", ld, jsonconfig.Obj{"backends": []any{ld.Add(a), ld.Add(bm)}})
		if err != nil {
			return "bad-op " + err.Error()
		}
		out := watchdog(opTimeout, func() string {
			_, cls := stores.Enumerate(ctx, s, "", 100)
			return cls
		})
		if out != "err" {
			lost++
		}
	}
	return fmt.Sprintf("mergelost failed-source-enumerations-answered-ok=%d/%d", lost, rounds)
}

// mechanism "temp file removed on any receive error" (files/receive.go:64-70): a failure at every
// step of files.ReceiveBlob
func probeFilesRecv() string {
	dir, err := os.MkdirTemp("", "c13files-")
	if err != nil {
		return "bad-op"
	}
	defer os.RemoveAll(dir)
	vfs := &faultVFS{VFS: files.OSFS()}
	sto := files.NewStorage(vfs, dir)
	refs, vals := mkBlobs(8, 64)
	var res []string
	for i, op := range []string{"mkdir", "tempfile", "write", "sync", "close", "lstat", "rename"} {
		vfs.mu.Lock()
		vfs.failOp = op
		vfs.mu.Unlock()
		_, rerr := sto.ReceiveBlob(ctx, refs[i], bytes.NewReader(vals[i]))
		left := 0
		filepath.Walk(dir, func(p string, fi os.FileInfo, err error) error {
			if err == nil && !fi.IsDir() {
				left++
			}
			return nil
		})
		_, fcls := stores.Fetch(ctx, sto, refs[i])
		l, _ := stores.Enumerate(ctx, sto, "", 100)
		retry := recvOK(sto, refs[i], vals[i])
		after := fetchClass(sto, refs[i], vals[i])
		sto.RemoveBlobs(ctx, refs[i:i+1])
		res = append(res, fmt.Sprintf("%s:%s/files=%d/fetch=%s/listed=%d/retry=%s/%s", op, stores.ErrClass(rerr), left, fcls, len(l), retry, after))
	}
	return "filesrecv " + strings.Join(res, " ")
}

// mechanism "append undone (seek+truncate) when the index write fails" without a roll-over
func probeDiskpackedUndo() string {
	dir, err := os.MkdirTemp("", "c13dp-")
	if err != nil {
		return "bad-op"
	}
	defer os.RemoveAll(dir)
	s, plan, _, err := newDiskpacked(dir, 0)
	if err != nil {
		return "bad-op " + err.Error()
	}
	refs, vals := mkBlobs(3, 70)
	r0 := recvOK(s, refs[0], vals[0])
	size := func() int64 {
		fi, err := os.Stat(filepath.Join(dir, "pack-00000.blobs"))
		if err != nil {
			return -1
		}
		return fi.Size()
	}
	before := size()
	plan.failNext("Set", 'b')
	r1 := recvOK(s, refs[1], vals[1])
	undone := size() == before
	f1 := fetchClass(s, refs[1], vals[1])
	l, _ := stores.Enumerate(ctx, s, "", 100)
	r1b := recvOK(s, refs[1], vals[1])
	r2 := recvOK(s, refs[2], vals[2])
	fetch := ""
	for i := 0; i < 3; i++ {
		fetch += fetchClass(s, refs[i], vals[i]) + ","
	}
	if c, ok := s.(interface{ Close() error }); ok {
		c.Close()
	}
	rconf, _ := newFaultKVConf()
	reindex := stores.ErrClass(diskpacked.Reindex(ctx, dir, true, jsonconfig.Obj(rconf)))
	return fmt.Sprintf("dpundo recv=%s faulted-recv=%s truncated-back=%v fetch=%s listed=%d retry=%s next=%s fetch-all=%s reindex=%s",
		r0, r1, undone, f1, len(l), r1b, r2, fetch, reindex)
}

// burstSrc sends its refs and then fails: an enumeration that breaks off in the middle
type burstSrc struct {
	refs []blob.SizedRef
	fail bool
}

func (b *burstSrc) EnumerateBlobs(c context.Context, dest chan<- blob.SizedRef, after string, limit int) error {
	defer close(dest)
	n := 0
	for _, sb := range b.refs {
		if sb.Ref.String() <= after {
			continue
		}
		if n == limit {
			return nil
		}
		dest <- sb
		n++
	}
	if b.fail && n > 0 {
		return errInjected
	}
	return nil
}

// mechanism "enumeration helper never returns while its callback runs" (enumerate.go:34-67)
func probeEnumAll() string {
	refs, _ := mkBlobs(5, 5)
	var sbs []blob.SizedRef
	for _, r := range refs {
		sbs = append(sbs, blob.SizedRef{Ref: r, Size: 5})
	}
	sort.Slice(sbs, func(i, j int) bool { return sbs[i].Ref.String() < sbs[j].Ref.String() })
	var inFn, calls, lateCalls atomic.Int32
	var returned atomic.Bool
	fn := func(blob.SizedRef) error {
		if returned.Load() {
			lateCalls.Add(1)
		}
		inFn.Store(1)
		calls.Add(1)
		time.Sleep(15 * time.Millisecond)
		inFn.Store(0)
		return nil
	}
	out := watchdog(opTimeout, func() string {
		err := blobserver.EnumerateAll(ctx, &burstSrc{refs: sbs, fail: true}, fn)
		running := inFn.Load()
		returned.Store(true)
		return fmt.Sprintf("%s/callback-running-at-return=%d", stores.ErrClass(err), running)
	})
	time.Sleep(150 * time.Millisecond)
	healthy := watchdog(opTimeout, func() string {
		n := 0
		err := blobserver.EnumerateAll(ctx, &burstSrc{refs: sbs}, func(blob.SizedRef) error { n++; return nil })
		return fmt.Sprintf("%s/%d", stores.ErrClass(err), n)
	})
	return fmt.Sprintf("enumall faulted=%s callbacks-after-return=%d healthy=%s", out, lateCalls.Load(), healthy)
}

func probeOp(w []string) string {
	if len(w) < 2 {
		return "bad-op"
	}
	switch w[1] {
	case "gateleak":
		if len(w) != 3 || (w[2] != "localdisk" && w[2] != "diskpacked") {
			return "bad-op"
		}
		return probeGateLeak(w[2])
	case "filesnil":
		return probeFilesNil()
	case "overlaykv":
		return probeOverlayKV()
	case "union":
		return probeUnion()
	case "dproll":
		return probeDiskpackedRoll()
	case "dprm":
		return probeDiskpackedRemove()
	case "mergelost":
		return probeMergeLostErr()
	case "filesrecv":
		return probeFilesRecv()
	case "dpundo":
		return probeDiskpackedUndo()
	case "enumall":
		return probeEnumAll()
	case "encrypt":
		return probeEncrypt(w)
	case "kvsweep":
		if len(w) != 4 {
			return "bad-op"
		}
		n, err := strconv.Atoi(w[3])
		if err != nil || n < 0 || n > 1<<20 {
			return "bad-op"
		}
		switch w[2] {
		case "overlay", "namespace", "encrypt", "blobpacked":
			return probeKVSweep(w[2], n)
		}
		return "bad-op"
	case "treesweep":
		if len(w) < 4 {
			return "bad-op"
		}
		n, err := strconv.Atoi(w[2])
		if err != nil || n < 0 || n > 1<<20 {
			return "bad-op"
		}
		return probeTreeSweep(n, w[3:])
	case "filessweep":
		if len(w) != 3 {
			return "bad-op"
		}
		n, err := strconv.Atoi(w[2])
		if err != nil || n < 0 || n > 1<<20 {
			return "bad-op"
		}
		return probeFilesSweep(n)
	case "dpsweep":
		if len(w) != 4 {
			return "bad-op"
		}
		n, err1 := strconv.Atoi(w[2])
		m, err2 := strconv.Atoi(w[3])
		if err1 != nil || err2 != nil || n < 0 || n > 1<<20 || m < 0 {
			return "bad-op"
		}
		return probeDiskpackedSweep(n, m)
	}
	return "bad-op"
}

// runChild executes op lines in a child process (this binary with -replay): a crash or a wedged
// process is an observation, not the end of the run.
func runChild(lines []string, timeout time.Duration) (out []string, status string) {
	f, err := os.CreateTemp("", "c13probe-*.txt")
	if err != nil {
		return nil, "cannot-start"
	}
	defer os.Remove(f.Name())
	f.WriteString(strings.Join(lines, "\n") + "\n")
	f.Close()
	c, cancel := context.WithTimeout(ctx, timeout)
	defer cancel()
	cmd := exec.CommandContext(c, os.Args[0], "-replay", f.Name())
	var so, se bytes.Buffer
	cmd.Stdout, cmd.Stderr = &so, &se
	err = cmd.Run()
	for _, l := range strings.Split(strings.TrimSpace(so.String()), "\n") {
		if l != "" {
			out = append(out, l)
		}
	}
	switch {
	case c.Err() != nil:
		return out, "hang"
	case err != nil:
		st := "crash"
		if i := strings.Index(se.String(), "panic: "); i >= 0 {
			msg := se.String()[i:]
			if j := strings.IndexByte(msg, '\n'); j > 0 {
				msg = msg[:j]
			}
			st = "crash: " + msg
		} else if i := strings.Index(se.String(), "fatal error: "); i >= 0 {
			msg := se.String()[i:]
			if j := strings.IndexByte(msg, '\n'); j > 0 {
				msg = msg[:j]
			}
			st = "crash: " + msg
		}
		return out, st
	}
	return out, "exit0"
}
