package c13

import (
	"fmt"
	"regexp"
	"strconv"
	"strings"
	"time"

	"perkeep.org/pkg/blob"

	"verifharness/hk"
)

// Run generates the C13 cases.
func Run(r *hk.Run) {
	r.Res.Rule = "a case = one random storage tree (depth ≤ 3; inner namespace, proxycache[max] over memcache[max] or a store, overlay, shard and replica over 2, 3 or 4 sub-stores, cond; leaves memory, some localdisk/diskpacked) whose EVERY leaf sits behind a fault wrapper with its own call schedule (call i of that leaf: none / fails before any effect / takes effect but answers an error), and a history of single-key receive/fetch/stat/remove and enumerate; thorough: for a history, one case per (leaf, call index the healthy run makes, failure kind) = single faults exhaustively, plus random bursts; every op under a watchdog. Oracle: three-valued reference map (a failed receive/remove leaves its key undetermined until the next successful read resolves it); an error answer needs an injected failure, every other answer must be exact for some resolution, and once all schedules are exhausted the store must answer exactly like the reference map. Below the Storage interface (sweep.go, child processes): for the files store over a recording VFS and for diskpacked over a recording index KeyValue, every lower-layer call (counted from the call log of a healthy run) of receive-new / re-receive of an acknowledged blob / remove / remove-absent / a RemoveBlobs batch of three acknowledged blobs / a batch mixing present and absent blobs / fetch / stat / a StatBlobs batch / enumerate fails once in each of its modes (no effect; effect but error answer), on a store holding acknowledged blobs; after each: answer is an error or exact, every acknowledged unremoved blob is fetched back intact and stat'ed, the op's own blob is absent or intact, enumerate lists exactly what can be fetched, a healthy retry succeeds and leaves the exact state, diskpacked re-indexes; each blob of a failed batch is fully removed or fully present with its bytes, the acknowledged bystander is untouched. Every world also holds a blob that was received and removed again (an overlay keeps a tombstone for it over a lower layer that still holds it): receive-after-remove, fetch/stat of the removed ref and a second remove are swept too. The same sweep runs with the store's OWN sorted.KeyValue as the failing layer (overlay deleted set, namespace inventory, encrypt and blobpacked metaIndex: every Get/Set/Delete/CommitBatch/Find), and on storage trees (memory/localdisk/diskpacked leaf, 3-way shard, overlay, proxycache with and without eviction, namespace, replica, cond, nested) whose leaves fail at the Storage interface. Encrypt programs (encrypt.go): one encrypt storage over a wrapped META and a wrapped BLOBS memory store, 215 receives (meta compaction starts in the background when the heap of small meta blobs exceeds 100 entries: twice per program; the harness waits after every operation until the goroutine is gone), failures at the k-th call / k-th ReceiveBlob / k-th RemoveBlobs of either store - each call of the background compaction (packed upload, removal of the small meta blobs) in both modes, and random bursts over all calls -, live reads of acknowledged blobs, then, failures stopped, a FRESH encrypt storage with an empty meta index over the same two stores must fetch every acknowledged blob bit-identically, enumerate it with its size, and accept a new blob. Generator restrictions that keep per-leaf call numbers deterministic (the model has no scheduler): trees with an overlay below a merging node (shard/replica/cond/overlay) enumerate only in the quiet phase and with an unreachable limit; no replica/cond below a proxycache origin; trees with replica/cond have memory leaves only; after every op the harness waits until the goroutines the op started have ended. distinct_nontrivial = distinct (tree shape, schedule pattern) pairs in which at least one failure was injected and the quiet continuation was reached"
	genCases(r)
	mechanisms(r)
	sweeps(r)
	encryptPrograms(r)
	probes(r)
}

// sweeps: exhaustive single faults over every lower-layer call (VFS call of the files store, index
// KeyValue call of diskpacked) of receive-new / re-receive / remove / remove-absent / fetch / stat /
// enumerate, and of multi-blob RemoveBlobs / StatBlobs batches (sweep.go), in child processes; and the same sweep one
// level up: storage trees whose leaves fail at the Storage interface, all leaves sharing one call numbering; and on
// the stores that own a sorted.KeyValue (overlay deleted set, namespace inventory, encrypt and blobpacked
// metaIndex) with that KeyValue as the failing lower layer.
func sweeps(r *hk.Run) {
	var lines, setApplied []string
	sizes := []int{40}
	maxes := []int{0, 150}
	if r.Thorough() {
		sizes = []int{0, 1, 40, 100000}
		maxes = []int{0, 100, 150}
	}
	for _, sz := range sizes {
		lines = append(lines, fmt.Sprintf("probe filessweep %d", sz))
		for _, m := range maxes {
			lines = append(lines, fmt.Sprintf("probe dpsweep %d %d", sz, m))
		}
	}
	trees := []string{"mem", "shard3 mem mem mem", "overlay mem mem", "proxy:100000 mem memcache:100000", "proxy:1 mem memcache:1",
		"ns mem", "replica mem mem", "cond mem mem", "shard overlay mem mem ns mem", "localdisk", "diskpacked"}
	if r.Thorough() {
		trees = append(trees, "replica3 mem mem mem", "shard replica mem mem proxy:60 mem mem", "overlay shard mem mem mem",
			"ns shard3 mem localdisk diskpacked", "proxy:100000 overlay mem mem memcache:60", "shard4 mem mem mem mem")
	}
	for _, t := range trees {
		for _, sz := range sizes {
			if sz == 100000 {
				continue
			}
			lines = append(lines, fmt.Sprintf("probe treesweep %d %s", sz, t))
		}
	}
	for _, k := range []string{"overlay", "namespace", "encrypt", "blobpacked"} {
		for _, sz := range sizes {
			if sz == 100000 {
				continue
			}
			lines = append(lines, fmt.Sprintf("probe kvsweep %s %d", k, sz))
		}
	}
	wedged := 0
	for _, l := range lines {
		if wedged >= 3 {
			r.Note("sweeps skipped after 3 wedged children: " + l)
			r.Hit("sweep:skipped-after-hangs")
			continue
		}
		// a sweep takes a few seconds; it stops by itself after two hangs (each costs a watchdog period)
		o, st := childProbe(r, l, 120*time.Second)
		if st == "hang" {
			wedged++
		}
		which := "files"
		if strings.Contains(l, "dpsweep") {
			which = "diskpacked"
		}
		if f := strings.Fields(l); strings.Contains(l, "kvsweep") && len(f) > 2 {
			which = "kv-" + f[2]
		}
		if strings.Contains(l, "treesweep") {
			which = "tree-strict"
			if strings.Contains(l, "replica") || strings.Contains(l, "cond") {
				which = "tree-replica"
			}
		}
		f := strings.Fields(o)
		if st != "exit0" || len(f) < 6 || !strings.HasPrefix(f[len(f)-1], "violations=") && !strings.Contains(o, " violations=") {
			r.Fail("lower-layer-sweep-did-not-finish:"+which, l, "a sweep result", trunc(o)+" ["+st+"]", []string{l})
			continue
		}
		total := 0
		for _, x := range f {
			k, v, ok := strings.Cut(x, "=")
			if !ok {
				continue
			}
			switch k {
			case "calls", "cases":
				for _, kv := range strings.Split(v, ",") {
					sc, ns, _ := strings.Cut(kv, ":")
					n, _ := strconv.Atoi(ns)
					if k == "cases" {
						r.Res.Histogram["sweep:"+which+":"+sc] += n
						r.Res.Evals += n
						total += n
						if n > 0 {
							r.Distinct("sweep " + l + " " + sc)
						}
					} else if n > r.Res.Histogram["sweep:"+which+":max-lower-layer-calls:"+sc] {
						r.Res.Histogram["sweep:"+which+":max-lower-layer-calls:"+sc] = n
					}
				}
			case "bursts":
				n, _ := strconv.Atoi(v)
				r.Res.Histogram["sweep:"+which+":two-fault-bursts"] += n
			case "not-reached":
				n, _ := strconv.Atoi(v)
				r.Res.Histogram["sweep:"+which+":fault-not-reached"] += n
			case "faulted":
				for _, nm := range strings.Split(v, ",") {
					r.Hit("sweep:" + which + ":faulted-call:" + nm)
				}
			}
		}
		if total == 0 {
			r.Fail("lower-layer-sweep-empty:"+which, l, "faulted cases", trunc(o), []string{l})
		}
		if i := strings.Index(o, " violations="); i >= 0 {
			rest := strings.TrimSpace(o[i+1:])
			_, list, _ := strings.Cut(rest, " ")
			for _, v := range strings.Split(list, ";") {
				if v == "" {
					continue
				}
				if which == "diskpacked" && strings.HasPrefix(v, "recv-new/") && strings.Contains(v, "-Set-a:") {
					setApplied = append(setApplied, v)
				}
				r.Fail(sweepSignature(which, v), l+": "+v, "error or exact answer; acknowledged blobs intact; nothing partial visible; retry succeeds", v, []string{l})
			}
		}
	}
	r.Hit("mechanism:temp-file-removed-on-receive-error")
	r.Hit("mechanism:diskpacked-append-undone")
	// F-C13-11: an index Set that took effect but answered an error left a row without data
	r.Probe("F-C13-11", len(setApplied) > 0, fmt.Sprintf("diskpacked receive of a new blob, index Set applied but answered an error: %d violations %v", len(setApplied), setApplied))
}

var digitsRe = regexp.MustCompile(`[0-9]+`)

// sweepSignature: "<store>-sweep:<scenario>:<failing call>-<mode>:<check>" with numbers dropped; the one
// known violation (F-C13-9) keeps its own signature.
func sweepSignature(which, v string) string {
	where, check, _ := strings.Cut(v, ":")
	sc, call, _ := strings.Cut(where, "/")
	if i := strings.IndexByte(check, '('); i >= 0 {
		check = check[:i]
	}
	call = strings.TrimPrefix(digitsRe.ReplaceAllString(call, ""), "call-")
	check = digitsRe.ReplaceAllString(check, "")
	// F-C13-9: the index batch of a (single or multi-blob) RemoveBlobs fails after every blob of the call
	// was wiped: the rows survive and serve zeros
	if which == "diskpacked" && strings.HasPrefix(sc, "rm") && strings.Contains(call, "CommitBatch-b") && check == "blob-fetched-as-zeros" {
		return "diskpacked-failed-remove-serves-zeros"
	}
	// F-C13-3: replica's best-effort remove acknowledged although one replica's removal failed
	if which == "tree-replica" && strings.HasPrefix(sc, "rm") && strings.HasSuffix(call, ".RemoveBlobs-b") && check == "absent-blob-appeared" {
		return "blob-served-after-faulted-remove-answered-ok:replica"
	}
	if i := strings.IndexByte(call, '.'); i >= 0 && strings.HasPrefix(call, "L") {
		call = call[i+1:] // the leaf's position does not make a different class
	}
	return which + "-sweep:" + sc + ":" + call + ":" + check
}

// mechanisms exercises the property's anchored mechanisms that sit below the Storage interface
// (VFS and index failures inside a leaf backend, the enumeration helper) with their own oracles.
func mechanisms(r *hk.Run) {
	// files.ReceiveBlob: a failure at each of its steps leaves no temp file, no visible blob, and the
	// store accepts the blob afterwards
	o, st := childProbe(r, "probe filesrecv", 60*time.Second)
	f := strings.Fields(o)
	ok := st == "exit0" && len(f) == 8
	for _, x := range f[min(1, len(f)):] {
		if !strings.HasSuffix(x, ":err/files=0/fetch=notexist/listed=0/retry=ok/bytes") {
			ok = false
		}
		r.Hit("mechanism:temp-file-removed-on-receive-error")
	}
	if !ok {
		r.Fail("files-receive-error-leaves-residue", "files.ReceiveBlob with a VFS failure at each step", "err, no file left, not visible, retry ok", o+" ["+st+"]", []string{"probe filesrecv"})
	}
	// diskpacked.append: the index write fails (no roll-over): the pack is truncated back, the blob is
	// not visible, later receives and the re-index work
	o, st = childProbe(r, "probe dpundo", 60*time.Second)
	r.Hit("mechanism:diskpacked-append-undone")
	if want := "dpundo recv=ok faulted-recv=err truncated-back=true fetch=notexist listed=1 retry=ok next=ok fetch-all=bytes,bytes,bytes, reindex=ok"; o != want || st != "exit0" {
		r.Fail("diskpacked-append-not-undone", "diskpacked receive whose index Set fails", want, o+" ["+st+"]", []string{"probe dpundo"})
	}
	// EnumerateAll: a source that breaks off with an error: the error is returned, not while the
	// callback runs, and the callback is not called afterwards
	o, st = childProbe(r, "probe enumall", 60*time.Second)
	r.Hit("mechanism:enumeration-helper-waits-for-callback")
	if want := "enumall faulted=err/callback-running-at-return=0 callbacks-after-return=0 healthy=ok/5"; o != want || st != "exit0" {
		r.Fail("enumerate-all-returns-during-callback", "blobserver.EnumerateAll over a source that fails after sending", want, o+" ["+st+"]", []string{"probe enumall"})
	}
}

func childProbe(r *hk.Run, line string, timeout time.Duration) (string, string) {
	out, st := runChild([]string{line}, timeout)
	r.ImplOnly("probe")
	return strings.Join(out, " | "), st
}

// inproc runs op lines on a fresh interpreter (no model involved) and returns the answers
func inproc(r *hk.Run, lines ...string) []string {
	ex := &Exec{}
	defer ex.close()
	var out []string
	for _, l := range lines {
		out = append(out, hk.Guard(func() string { return ex.Do(strings.Fields(l)) }))
		r.ImplOnly("probe")
	}
	return out
}

// probes re-executes the witness of every finding of C13.
func probes(r *hk.Run) {
	pv := []byte("c13 probe blob")
	k, v := hk.Hex([]byte(blob.RefFromBytes(pv).String())), hk.Hex(pv)
	child := func(line string) (string, string) { return childProbe(r, line, 90*time.Second) }

	// F-C13-1 (row 1): StatBlobsParallelHelper leaks a gate slot per cancelled call
	o1, s1 := child("probe gateleak localdisk")
	o2, s2 := child("probe gateleak diskpacked")
	r.Probe("F-C13-1", strings.Contains(o1+o2, "hang") || s1 != "exit0" || s2 != "exit0", o1+" ["+s1+"]; "+o2+" ["+s2+"]")
	r.Hit("mechanism:gate-slot-released")

	// F-C13-2 (row 3): files.fetch on a non-ENOENT Stat error
	o, st := child("probe filesnil")
	r.Probe("F-C13-2", !strings.Contains(o, "faulted-fetch=err next-fetch=ok") || st != "exit0", o+" ["+st+"]")

	// F-C13-3 (known): replica's best-effort remove
	a := inproc(r, "cfg replica2 faulty nb mem faulty - mem // replica mem@nb mem@-", "recv "+k+" "+v, "rm "+k, "fetch "+k)
	rep3 := len(a) == 4 && a[2] == "ok" && strings.HasPrefix(a[3], "bytes")
	r.Probe("F-C13-3", rep3, "replica[mem, mem], first replica's RemoveBlobs fails: "+strings.Join(a[1:], ", "))

	// F-C13-4 (fixed): proxycache's former parallel remove
	a = inproc(r, "cfg proxy 100000 faulty - mem faulty nb mem // proxy:100000 mem@- mem@nb", "recv "+k+" "+v, "rm "+k, "fetch "+k, "enum - 10")
	r.Probe("F-C13-4", len(a) == 5 && a[2] == "err" && strings.HasPrefix(a[3], "bytes") && a[4] == "refs",
		"proxycache, cache's RemoveBlobs fails: "+strings.Join(a[1:], ", "))

	// F-C13-5 (fixed): replica.Fetch passing on a later replica's "not exist"
	a = inproc(r, "cfg replica2 faulty nb mem faulty b mem // replica mem@nb mem@b", "recv "+k+" "+v, "fetch "+k, "fetch "+k)
	r.Probe("F-C13-5", len(a) == 4 && a[2] == "notexist", "replica[mem, mem], holder's Fetch fails: "+strings.Join(a[1:], ", "))

	// F-C13-6 (row 4): overlay.isDeleted swallowing KV errors
	o, st = child("probe overlaykv")
	r.Probe("F-C13-6", strings.Contains(o, "faulted-fetch=bytes") || strings.Contains(o, "faulted-stat=ok1") || st != "exit0", o+" ["+st+"]")

	// F-C13-7 (row 5): union.StatBlobs closing a channel other goroutines send on
	o, st = child("probe union")
	r.Probe("F-C13-7", st != "exit0" || !strings.Contains(o, "survived"), o+" ["+st+"]")

	// F-C13-8 (row 2): diskpacked roll-over + failed index write
	o, st = child("probe dproll")
	r.Probe("F-C13-8", !strings.Contains(o, "reindex=ok pack-starts-with-zeros=no") || st != "exit0", o+" ["+st+"]")
	r.Hit("mechanism:diskpacked-append-undone")

	// F-C13-9 (row 31, known): diskpacked RemoveBlobs zeroes the data before the index batch commits
	o, st = child("probe dprm")
	rep9 := strings.Contains(o, "fetch=zeros")
	r.Probe("F-C13-9", rep9, o+" ["+st+"]")
	if rep9 {
		r.Fail("diskpacked-failed-remove-serves-zeros", "RemoveBlobs whose index CommitBatch fails answers an error; Fetch then serves zero bytes of the right size without error",
			"the blob, not-exist, or an error", o, []string{"probe dprm"})
	} else if !strings.Contains(o, "faulted-rm=err") || st != "exit0" {
		r.Fail("diskpacked-remove-probe-unexpected", "probe dprm", "dprm faulted-rm=err …", o+" ["+st+"]", []string{"probe dprm"})
	}

	// F-C13-10: mergedEnumerate losing the error of a source that already closed its channel
	o, st = child("probe mergelost")
	r.Probe("F-C13-10", !strings.Contains(o, "answered-ok=0/") || st != "exit0", o+" ["+st+"]")
	r.Hit("mechanism:enumeration-closes-channels")
}
