package c13

import (
	"strings"
	"time"

	"verifharness/hk"
)

// Run generates the C13 cases.
func Run(r *hk.Run) {
	r.Res.Rule = "a case = one random storage tree (depth ≤ 3; inner namespace, proxycache[max] over memcache[max] or a store, overlay, shard, replica, cond; leaves memory, some localdisk/diskpacked) whose EVERY leaf sits behind a fault wrapper with its own call schedule (call i of that leaf: none / fails before any effect / takes effect but answers an error), and a history of single-key receive/fetch/stat/remove and enumerate; thorough: for a history, one case per (leaf, call index the healthy run makes, failure kind) = single faults exhaustively, plus random bursts; every op under a watchdog. Oracle: three-valued reference map (a failed receive/remove leaves its key undetermined until the next successful read resolves it); an error answer needs an injected failure, every other answer must be exact for some resolution, and once all schedules are exhausted the store must answer exactly like the reference map. distinct_nontrivial = distinct (tree shape, schedule pattern) pairs in which at least one failure was injected and the quiet continuation was reached"
	genCases(r)
	probes(r)
}

func childProbe(r *hk.Run, line string, timeout time.Duration) (string, string) {
	out, st := runChild([]string{line}, timeout)
	r.ImplOnly("probe")
	return strings.Join(out, " | "), st
}

func probes(r *hk.Run) {
	for _, l := range []string{"probe gateleak localdisk", "probe gateleak diskpacked", "probe filesnil", "probe overlaykv",
		"probe union", "probe dproll", "probe dprm", "probe mergelost"} {
		out, st := childProbe(r, l, 60*time.Second)
		r.Note(l + " => " + out + " [" + st + "]")
	}
}
