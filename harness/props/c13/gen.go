package c13

import (
	"crypto/sha1"
	"crypto/sha256"
	"encoding/hex"
	"fmt"
	"sort"
	"strconv"
	"strings"

	"verifharness/hk"
	"verifharness/props/c01"
	"verifharness/stores"
)

type blobT struct {
	key string
	val []byte
}

func mkBlob(r *hk.Rand) blobT {
	var v []byte
	switch r.Intn(6) {
	case 0:
		v = nil
	case 1:
		v = []byte{byte(r.U64())}
	case 2:
		v = r.Bytes(20 + r.Intn(60))
		if v[0] == '{' {
			v[0] = 'x'
		}
	case 3:
		v = []byte(fmt.Sprintf("{\"camliVersion\": 1,\n  \"camliType\": \"permanode\",\n  \"random\": \"%x\"\n}", r.Bytes(6)))
	case 4:
		v = []byte(fmt.Sprintf("{\"foo\": \"%x\"}", r.Bytes(4)))
	default:
		v = []byte(fmt.Sprintf("{\"camliVersion\": 1,\n  \"camliType\": \"bytes\",\n  \"parts\": [], \"n\": %d\n}", r.Intn(1000)))
	}
	var key string
	switch r.Intn(5) {
	case 0:
		s := sha1.Sum(v)
		key = "sha1-" + hex.EncodeToString(s[:])
	case 1:
		s := sha256.Sum256(v)
		key = "sha256-" + hex.EncodeToString(s[:])
	default:
		s := sha256.Sum224(v)
		key = "sha224-" + hex.EncodeToString(s[:])
	}
	return blobT{key, v}
}

// noRep: no replica/cond in this subtree.  It is set below the origin of a proxycache: replica stats
// its replicas in parallel, so a stat through it can report the blob (proxycache then touches its
// cache: LRU bookkeeping, possibly an eviction call) AND fail, in an order that depends on goroutine
// timing; the model's sub-store call has one answer.
func genTree(r *hk.Rand, depth int, diskLeaves, noRep bool) *stores.Node {
	leaf := func() *stores.Node {
		if diskLeaves {
			switch r.Intn(8) {
			case 0:
				return &stores.Node{Kind: "localdisk"}
			case 1:
				return &stores.Node{Kind: "diskpacked", Max: []int{0, 150, 400}[r.Intn(3)]}
			}
		}
		return &stores.Node{Kind: "mem"}
	}
	if depth == 0 || r.Chance(15) {
		return leaf()
	}
	two := func(k string) *stores.Node {
		return &stores.Node{Kind: k, Kids: []*stores.Node{genTree(r, depth-1, diskLeaves, noRep), genTree(r, depth-1, diskLeaves, noRep)}}
	}
	// shard and replica over 2, 3 or 4 sub-stores; below a 3- or 4-way node the sub-trees are at most one
	// level deep, so that the number of leaves (each with its own schedule, each call of each a case of
	// the exhaustive single-fault pass) stays in the range of the two-way trees
	fanN := func(k string) *stores.Node {
		n := []int{2, 2, 3, 3, 4}[r.Intn(5)]
		if n == 2 {
			return two(k)
		}
		nd := &stores.Node{Kind: k}
		for i := 0; i < n; i++ {
			nd.Kids = append(nd.Kids, genTree(r, min(depth-1, 1), diskLeaves, noRep))
		}
		return nd
	}
	switch r.Intn(8) {
	case 0:
		return &stores.Node{Kind: "ns", Kids: []*stores.Node{genTree(r, depth-1, diskLeaves, noRep)}}
	case 1, 2:
		cache := &stores.Node{Kind: "memcache", Max: []int{1, 60, 250, 100000}[r.Intn(4)]}
		if r.Chance(30) {
			cache = &stores.Node{Kind: "mem"}
		}
		return &stores.Node{Kind: "proxy", Max: []int{1, 50, 300, 100000}[r.Intn(4)],
			Kids: []*stores.Node{genTree(r, depth-1, diskLeaves, true), cache}}
	case 3, 4:
		return two("overlay")
	case 5:
		return fanN("shard")
	case 6:
		if noRep {
			return fanN("shard")
		}
		if r.Chance(50) {
			return fanN("replica")
		}
		return two("cond")
	default:
		return fanN("shard")
	}
}

func memLeavesOnly(n *stores.Node) {
	if n.Kind == "localdisk" || n.Kind == "diskpacked" {
		n.Kind, n.Max = "mem", 0
	}
	for _, k := range n.Kids {
		memLeavesOnly(k)
	}
}

// ---- the oracle: a reference map whose keys may be undetermined ---------------------------------------------

const (
	stAbsent = iota
	stPresent
	stUnknown
)

type caseRun struct {
	r        *hk.Run
	ex       *Exec
	label    string
	class    string // "replica" when the tree contains replica or cond (known best-effort answers), else "strict"
	pool     []blobT
	byKey    map[string][]byte
	st       map[string]int
	rmTaint  map[string]bool // a faulted remove answered ok
	neTaint  map[string]bool // a faulted read answered "not there"
	quiet    bool
	dead     bool
	hung     bool
	injected int
}

func (c *caseRun) fail(sig, detail, want, got string) {
	c.r.Fail(sig+":"+c.class, c.label+": "+detail, want, trunc(got), c.r.CaseOps())
}

func trunc(s string) string {
	if len(s) > 240 {
		return s[:240] + "…"
	}
	return s
}

func (c *caseRun) op(line string) (out string, injected bool) {
	before := c.ex.Injected()
	out = hk.Guard(func() string { return c.ex.Do(strings.Fields(line)) })
	c.r.Op(line, out)
	n := c.ex.Injected() - before
	c.injected += n
	return out, n > 0
}

func (c *caseRun) sawPresent(k, what string, injected bool) {
	if c.st[k] == stAbsent {
		switch {
		case c.rmTaint[k]:
			c.fail("blob-served-after-faulted-remove-answered-ok", what+" "+k, "not there (its remove was acknowledged)", "served")
		case c.neTaint[k]:
			c.fail("blob-served-after-faulted-read-answered-notexist", what+" "+k, "not there (a read said so)", "served")
		default:
			c.fail("absent-blob-served", what+" "+k, "not there", "served")
		}
	}
	c.st[k] = stPresent
	delete(c.rmTaint, k)
	delete(c.neTaint, k)
}

func (c *caseRun) sawAbsent(k, what string, injected bool) {
	if c.st[k] == stPresent {
		if injected {
			c.fail("notexist-answer-on-faulted-read", what+" "+k, "the blob or an error", "not there")
		} else {
			c.fail("acknowledged-blob-lost", what+" "+k, "the blob", "not there")
		}
	}
	if injected && c.st[k] != stAbsent {
		c.neTaint[k] = true
	}
	c.st[k] = stAbsent
}

// observe evaluates one answer against the three-valued map.
func (c *caseRun) observe(w []string, out string, injected bool) {
	kind := w[0]
	if out == "hang" || out == "panic" {
		c.fail(out+"-in-"+kind, strings.Join(w, " "), "an answer", out)
		c.dead = true
		c.hung = out == "hang"
		return
	}
	key := ""
	if kind != "enum" {
		b, _ := hk.UnHex(w[1])
		key = string(b)
	}
	if out == "err" {
		c.r.Hit("answer:err:" + kind)
		if !injected {
			sig := "error-without-injected-failure"
			if c.quiet {
				sig = "error-after-failures-stopped"
			}
			c.fail(sig, strings.Join(w, " "), "an exact answer", out)
		}
		switch kind {
		case "recv":
			if c.st[key] != stPresent {
				c.st[key] = stUnknown
			}
		case "rm":
			if c.st[key] != stAbsent {
				c.st[key] = stUnknown
			}
		}
		return
	}
	if injected {
		c.r.Hit("answer:exact-despite-failure:" + kind)
	}
	switch kind {
	case "recv":
		if want := fmt.Sprintf("sized %d", len(c.byKey[key])); out != want {
			c.fail("receive-wrong-answer", "receive "+key, want, out)
		}
		c.st[key] = stPresent
		delete(c.rmTaint, key)
		delete(c.neTaint, key)
	case "rm":
		if out != "ok" {
			c.fail("remove-wrong-answer", "remove "+key, "ok", out)
		}
		c.st[key] = stAbsent
		if injected {
			c.rmTaint[key] = true
		}
	case "fetch":
		switch {
		case out == "notexist":
			c.sawAbsent(key, "fetch", injected)
		case out == "bytes "+hk.Hex(c.byKey[key]):
			c.sawPresent(key, "fetch", injected)
		default:
			c.fail("fetch-wrong-bytes", "fetch "+key, "bytes "+hk.Hex(c.byKey[key]), out)
		}
	case "stat":
		switch {
		case out == "stats":
			c.sawAbsent(key, "stat", injected)
		case out == fmt.Sprintf("stats %s:%d", w[1], len(c.byKey[key])):
			c.sawPresent(key, "stat", injected)
		default:
			c.fail("stat-wrong-answer", "stat "+key, fmt.Sprintf("stats %s:%d", w[1], len(c.byKey[key])), out)
		}
	case "enum":
		ab, _ := hk.UnHex(w[1])
		after := string(ab)
		limit, _ := strconv.Atoi(w[2])
		f := strings.Fields(out)
		if len(f) == 0 || f[0] != "refs" {
			c.fail("enumerate-wrong-answer", strings.Join(w, " "), "refs …", out)
			return
		}
		listed := map[string]bool{}
		last := after
		for _, p := range f[1:] {
			kh, szs, _ := strings.Cut(p, ":")
			kb, _ := hk.UnHex(kh)
			k := string(kb)
			v, known := c.byKey[k]
			if !known || szs != strconv.Itoa(len(v)) || k <= last {
				c.fail("enumerate-wrong-entry", strings.Join(w, " "), "pool refs ascending after the cursor with their sizes", out)
				return
			}
			listed[k] = true
			last = k
		}
		if len(listed) > limit {
			c.fail("enumerate-over-limit", strings.Join(w, " "), "at most "+w[2], out)
			return
		}
		full := len(listed) == limit
		for _, b := range c.pool {
			k := b.key
			if k <= after || (full && k > last) {
				continue
			}
			if listed[k] {
				c.sawPresent(k, "enumerate lists", injected)
			} else {
				if c.st[k] == stPresent {
					c.fail("enumerate-misses-blob", strings.Join(w, " ")+" misses "+k, "listed", out)
				}
				c.st[k] = stAbsent
			}
		}
	}
}

func (c *caseRun) do(line string) {
	if c.dead {
		return
	}
	out, inj := c.op(line)
	c.observe(strings.Fields(line), out, inj)
}

// ---- histories -----------------------------------------------------------------------------------------------

// overlayUnderMerge: is there an overlay below a node that merge-enumerates its children (shard,
// replica, cond, overlay)?  An overlay enumerates in several rounds; as a SOURCE of a merge that stops
// early – at its limit, or because another source failed – it is cancelled somewhere between rounds,
// so which of its later sub-store calls are still made (and whether an error of a later round is still
// noticed) depends on goroutine timing, while the model runs every source to completion.  For such
// trees the generator enumerates only once the failures have stopped, and then with a limit that is
// never reached: the merge then waits for every source, which is deterministic.  Receive, fetch, stat
// and remove of these trees are exercised under failures like everywhere else.
func overlayUnderMerge(n *stores.Node, under bool) bool {
	if n.Kind == "overlay" && under {
		return true
	}
	merges := n.Kind == "overlay" || n.Kind == "shard" || n.Kind == "replica" || n.Kind == "cond"
	for _, k := range n.Kids {
		if overlayUnderMerge(k, under || merges) {
			return true
		}
	}
	return false
}

const (
	enumAny  = iota // any limit
	enumBig         // only a limit that is never reached
	enumNone        // no enumerate
)

func genHistory(r *hk.Rand, pool []blobT, n int, enumMode int) []string {
	var keys []string
	for _, b := range pool {
		keys = append(keys, b.key)
	}
	sort.Strings(keys)
	cursor := func() string {
		switch r.Intn(6) {
		case 0, 1:
			return ""
		case 2:
			return keys[r.Intn(len(keys))]
		case 3:
			k := keys[r.Intn(len(keys))]
			return k[:len(k)-1]
		case 4:
			return []string{"sha1-", "sha224-", "sha224-8", "sha256-", "s", "t"}[r.Intn(6)]
		default:
			return keys[r.Intn(len(keys))] + "0"
		}
	}
	var h []string
	for i := 0; i < n; i++ {
		b := pool[r.Intn(len(pool))]
		kh := hk.Hex([]byte(b.key))
		switch x := r.Intn(100); {
		case x < 30:
			h = append(h, "recv "+kh+" "+hk.Hex(b.val))
		case x < 48:
			h = append(h, "fetch "+kh)
		case x < 62:
			h = append(h, "stat "+kh)
		case x < 82:
			limit := []int{1, 2, 3, 5, 1000}[r.Intn(5)]
			if enumMode == enumBig {
				limit = 1000
			}
			if enumMode == enumNone {
				h = append(h, "stat "+kh)
			} else {
				h = append(h, "enum "+hk.Hex([]byte(cursor()))+" "+strconv.Itoa(limit))
			}
		default:
			h = append(h, "rm "+kh)
		}
	}
	return h
}

// runCase executes one tree with one assignment of schedules on one history, then the quiet
// continuation.  It returns the number of calls each leaf saw during the history.
func runCase(r *hk.Run, tree *stores.Node, scheds []string, pool []blobT, hist, cont []string, label string) (calls []int, c *caseRun) {
	r.Case(label)
	c = &caseRun{r: r, ex: &Exec{}, label: label, class: "strict", pool: pool, byKey: map[string][]byte{},
		st: map[string]int{}, rmTaint: map[string]bool{}, neTaint: map[string]bool{}}
	if hasKind(tree, "replica", "cond") {
		c.class = "replica"
	}
	noEnum := overlayUnderMerge(tree, false)
	for _, b := range pool {
		c.byKey[b.key] = b.val
	}
	defer c.ex.close()
	if out, _ := c.op(cfgLine(tree, scheds)); out != "ok" {
		r.Note("cannot build " + label + ": " + out)
		return nil, c
	}
	for i, l := range hist {
		c.do(l)
		if i%6 == 5 && !c.dead {
			c.op("pending")
		}
	}
	if c.dead {
		return nil, c
	}
	c.op("pending")
	calls = c.ex.Calls()
	// use up what is left of the schedules with reads
	for i := 0; i < 40 && c.ex.PendingFaults() > 0 && !c.dead; i++ {
		b := pool[i%len(pool)]
		if i%2 == 0 || noEnum {
			c.do("fetch " + hk.Hex([]byte(b.key)))
		} else {
			c.do("enum - 1000")
		}
	}
	if c.dead {
		return calls, c
	}
	if c.ex.PendingFaults() > 0 {
		r.Hit("quiet:not-reached")
		return calls, c
	}
	// failures have stopped: from here the store must be exactly a reference map
	c.quiet = true
	r.Hit("quiet:reached")
	c.do("enum - 1000") // resolves every undetermined key
	for _, b := range pool {
		if c.st[b.key] == stUnknown {
			c.fail("undetermined-after-full-enumeration", b.key, "resolved", "unknown")
		}
		c.do("fetch " + hk.Hex([]byte(b.key)))
		c.do("stat " + hk.Hex([]byte(b.key)))
	}
	for _, l := range cont {
		c.do(l)
	}
	if !c.dead {
		c.do("enum - 1000")
	}
	if c.ex.Unsettled > 0 {
		r.Hit("settle-timeout") // goroutines of an op were still running after 2 s
	}
	return calls, c
}

func pad(s string, n int) string {
	for len(s) < n {
		s += "n"
	}
	return s
}

func schedPattern(scheds []string) string {
	var parts []string
	for _, s := range scheds {
		p := ""
		for i, ch := range s {
			if ch != 'n' {
				p += fmt.Sprintf("%c%d", ch, i)
			}
		}
		parts = append(parts, p)
	}
	return strings.Join(parts, "|")
}

func genCases(r *hk.Run) {
	totalHangs := 0
	rnd := r.R
	nTrees, nHist, nSingles, nBursts := 40, 16, 8, 4
	if r.Thorough() {
		nTrees, nHist, nSingles, nBursts = 160, 28, -1, 16
	}
	for t := 0; t < nTrees; t++ {
		tree := genTree(rnd, 1+rnd.Intn(3), t%4 == 3, false)
		if t%5 == 2 {
			// every fifth tree: a 3- or 4-way shard / replica at the root, over leaves and one-level trees
			tree = &stores.Node{Kind: []string{"shard", "replica"}[(t/5)%2]}
			for i, n := 0, 3+rnd.Intn(2); i < n; i++ {
				tree.Kids = append(tree.Kids, genTree(rnd, rnd.Intn(2), t%4 == 3, false))
			}
		}
		if hasKind(tree, "replica", "cond") {
			// replica cancels the context of its other replicas as soon as one fails; localdisk and
			// diskpacked then fail their stat too (StatBlobsParallelHelper looks at the context), or not,
			// depending on goroutine timing.  Memory ignores the context: deterministic.
			memLeavesOnly(tree)
		}
		var leaves []*stores.Node
		leavesOf(tree, &leaves)
		nb := 3 + rnd.Intn(4)
		var pool []blobT
		seen := map[string]bool{}
		for len(pool) < nb {
			b := mkBlob(rnd)
			if !seen[b.key] {
				seen[b.key] = true
				pool = append(pool, b)
			}
		}
		big := overlayUnderMerge(tree, false)
		if big {
			r.Hit("enumerate:only-when-quiet")
		} else {
			r.Hit("enumerate:under-failures")
		}
		hm, cm := enumAny, enumAny
		if big {
			hm, cm = enumNone, enumBig
		}
		hist := genHistory(rnd, pool, nHist/2+rnd.Intn(nHist), hm)
		cont := genHistory(rnd, pool, 8, cm)
		label := tree.String()
		r.Hit("root:" + c01.KindToken(tree))
		c01.CountFans(r, tree, "root")
		// the healthy run: how many calls does each leaf see?
		healthy := make([]string, len(leaves))
		for i := range healthy {
			healthy[i] = pad("", 60)
		}
		if totalHangs >= 4 {
			// a wedging defect: every further case would cost a watchdog period and say the same
			r.Hit("trees-skipped-after-hangs")
			continue
		}
		treeHangs := 0
		countHang := func(c *caseRun) bool {
			if c != nil && c.hung {
				treeHangs++
				totalHangs++
			}
			return treeHangs >= 2
		}
		calls, hc := runCase(r, tree, healthy, pool, hist, cont, label+" healthy")
		if countHang(hc); calls == nil {
			continue
		}
		type single struct {
			leaf, at int
			kind     byte
		}
		var singles []single
		for l := range leaves {
			for i := 0; i < calls[l]; i++ {
				singles = append(singles, single{l, i, 'b'}, single{l, i, 'a'})
			}
		}
		if nSingles >= 0 && len(singles) > nSingles {
			for i := range singles { // a random subset
				j := i + rnd.Intn(len(singles)-i)
				singles[i], singles[j] = singles[j], singles[i]
			}
			singles = singles[:nSingles]
		} else if nSingles < 0 {
			r.Hit("exhaustive-single-fault-trees")
		}
		finish := func(c *caseRun, scheds []string) {
			if c != nil && c.injected > 0 && c.quiet {
				r.Distinct(tree.Shape() + " " + schedPattern(scheds))
			}
		}
		for _, s := range singles {
			scheds := make([]string, len(leaves))
			for i := range scheds {
				scheds[i] = pad("", calls[i]+20)
			}
			b := []byte(scheds[s.leaf])
			b[s.at] = s.kind
			scheds[s.leaf] = string(b)
			_, c := runCase(r, tree, scheds, pool, hist, cont, fmt.Sprintf("%s single leaf%d call%d %c", label, s.leaf, s.at, s.kind))
			r.Hit("single:" + string(s.kind))
			finish(c, scheds)
			if countHang(c) {
				r.Hit("cases-skipped-after-2-hangs-of-a-tree")
				break
			}
		}
		for k := 0; k < nBursts; k++ {
			scheds := make([]string, len(leaves))
			density := []int{5, 15, 40}[rnd.Intn(3)]
			for i := range scheds {
				var b []byte
				for j := 0; j < calls[i]+4; j++ {
					switch {
					case !rnd.Chance(density):
						b = append(b, 'n')
					case rnd.Bool():
						b = append(b, 'b')
					default:
						b = append(b, 'a')
					}
				}
				scheds[i] = pad(string(b), calls[i]+20)
			}
			if treeHangs >= 2 {
				break
			}
			_, c := runCase(r, tree, scheds, pool, hist, cont, fmt.Sprintf("%s burst%d", label, k))
			r.Hit("burst")
			finish(c, scheds)
			countHang(c)
			if t < 2 && k == 0 {
				ops := r.CaseOps()
				if len(ops) > 5 {
					ops = ops[:5]
				}
				r.Sample(map[string]any{"tree": label, "schedules": schedPattern(scheds), "first_ops": ops})
			}
		}
	}
	gateCases(r)
	malformed(r)
}

// gateCases: the real StatBlobsParallelHelper on private gates, against the Lean gate model
func gateCases(r *hk.Run) {
	rnd := r.R
	r.Case("gate accounting")
	ex := &Exec{}
	n := 12
	if r.Thorough() {
		n = 60
	}
	for i := 0; i < n; i++ {
		cap := 1 + rnd.Intn(4)
		nb := 1 + rnd.Intn(6)
		fail := "-"
		if rnd.Chance(75) {
			if cap == 1 {
				fail = strconv.Itoa(rnd.Intn(nb))
			} else {
				fail = strconv.Itoa(rnd.Intn(min(cap, nb)))
			}
		}
		line := fmt.Sprintf("gatestat %d %d %s", cap, nb, fail)
		out := ex.Do(strings.Fields(line))
		r.Op(line, out)
		r.Hit("mechanism:gate-slot-released")
		f := strings.Fields(out)
		if len(f) != 4 || f[2] != "0" {
			r.Fail("stat-gate-slot-leaked", line, "gate leaked 0 …", out, r.CaseOps())
		}
		if len(f) == 4 && (f[3] == "err") != (fail != "-") {
			r.Fail("stat-helper-wrong-result", line, "err iff a worker failed", out, r.CaseOps())
		}
	}
}

func malformed(r *hk.Run) {
	r.Case("malformed stream")
	ex := &Exec{}
	defer ex.close()
	for _, l := range []string{
		"fetch 00", "cfg mem", "cfg faulty x mem // mem@x", "cfg faulty nb // mem@", "cfg faulty nb@ mem // mem@nb@",
		"cfg faulty nb mem // mem@nb", "stat", "stat 00 00", "rm", "recv 00", "enum 00", "pending 1", "frob",
		"gatestat 0 1 -", "gatestat 2 3 2", "gatestat 2 2 x", "fetch zz", "pending", "cfg", "fetch",
	} {
		r.Op(l, hk.Guard(func() string { return ex.Do(strings.Fields(l)) }))
	}
}
