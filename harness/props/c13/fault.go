package c13

import (
	"context"
	"errors"
	"io"
	"os"
	"runtime"
	"sync"
	"time"

	"go4.org/jsonconfig"

	"perkeep.org/pkg/blob"
	"perkeep.org/pkg/blobserver"
	"perkeep.org/pkg/blobserver/files"
	"perkeep.org/pkg/sorted"
)

// errInjected is the transient lower-layer failure (deliberately not os.ErrNotExist).
var errInjected = errors.New("verif: injected transient I/O failure")

// faultSto puts a leaf store behind a schedule of transient failures: call i of this store suffers
// sched[i] ('n' none, 'b' fails before any effect, 'a' takes effect but answers an error); calls past
// the schedule go through.  A batch call with no blobs is not a call (the combinators issue such
// calls where the model issues none).
type faultSto struct {
	inner  blobserver.Storage
	mu     sync.Mutex
	sched  []byte
	pos    int
	faults int // failures injected so far
	id     int
	// slowErr: a failing enumerate closes its channel, then waits this long before it returns the error
	slowErr time.Duration
}

var trace = os.Getenv("C13_TRACE") != ""

func (f *faultSto) next() byte {
	f.mu.Lock()
	defer f.mu.Unlock()
	if trace {
		pc, _, _, _ := runtime.Caller(1)
		defer func() { println("leaf", f.id, runtime.FuncForPC(pc).Name(), "call", f.pos-1, "faults", f.faults) }()
	}
	x := byte('n')
	if f.pos < len(f.sched) {
		x = f.sched[f.pos]
	}
	f.pos++
	if x != 'n' {
		f.faults++
	}
	return x
}

// pending = schedule entries not yet consumed; pendingFaults = failures among them
func (f *faultSto) pending() (int, int) {
	f.mu.Lock()
	defer f.mu.Unlock()
	if f.pos >= len(f.sched) {
		return 0, 0
	}
	n := 0
	for _, x := range f.sched[f.pos:] {
		if x != 'n' {
			n++
		}
	}
	return len(f.sched) - f.pos, n
}

func (f *faultSto) calls() int { f.mu.Lock(); defer f.mu.Unlock(); return f.pos }
func (f *faultSto) injected() int {
	f.mu.Lock()
	defer f.mu.Unlock()
	return f.faults
}

func (f *faultSto) Fetch(ctx context.Context, br blob.Ref) (io.ReadCloser, uint32, error) {
	switch f.next() {
	case 'b':
		return nil, 0, errInjected
	case 'a':
		rc, _, err := f.inner.Fetch(ctx, br)
		if err == nil {
			rc.Close()
		}
		return nil, 0, errInjected
	}
	return f.inner.Fetch(ctx, br)
}

func (f *faultSto) ReceiveBlob(ctx context.Context, br blob.Ref, src io.Reader) (blob.SizedRef, error) {
	switch f.next() {
	case 'b':
		return blob.SizedRef{}, errInjected
	case 'a':
		f.inner.ReceiveBlob(ctx, br, src)
		return blob.SizedRef{}, errInjected
	}
	return f.inner.ReceiveBlob(ctx, br, src)
}

func (f *faultSto) StatBlobs(ctx context.Context, blobs []blob.Ref, fn func(blob.SizedRef) error) error {
	if len(blobs) == 0 {
		return f.inner.StatBlobs(ctx, blobs, fn)
	}
	switch f.next() {
	case 'b':
		return errInjected
	case 'a':
		f.inner.StatBlobs(ctx, blobs, func(blob.SizedRef) error { return nil })
		return errInjected
	}
	return f.inner.StatBlobs(ctx, blobs, fn)
}

func (f *faultSto) RemoveBlobs(ctx context.Context, blobs []blob.Ref) error {
	if len(blobs) == 0 {
		return f.inner.RemoveBlobs(ctx, blobs)
	}
	switch f.next() {
	case 'b':
		return errInjected
	case 'a':
		f.inner.RemoveBlobs(ctx, blobs)
		return errInjected
	}
	return f.inner.RemoveBlobs(ctx, blobs)
}

func (f *faultSto) EnumerateBlobs(ctx context.Context, dest chan<- blob.SizedRef, after string, limit int) error {
	x := f.next()
	if x == 'n' {
		return f.inner.EnumerateBlobs(ctx, dest, after, limit)
	}
	if x == 'a' {
		ch := make(chan blob.SizedRef, 16)
		go func() {
			for range ch {
			}
		}()
		f.inner.EnumerateBlobs(ctx, ch, after, limit)
	}
	// the BlobEnumerator contract: dest is closed before the call returns
	close(dest)
	if f.slowErr > 0 {
		time.Sleep(f.slowErr)
	}
	return errInjected
}

// ---- a sorted.KeyValue with scripted failures (type "c13faulty") -------------------------------------

// kvPlan scripts the failures of one KeyValue: fail[method] = set of 0-based call numbers of that
// method that fail; mode 'b' = fail without effect, 'a' = take effect, then answer the error.
type kvPlan struct {
	mu    sync.Mutex
	calls map[string]int
	fail  map[string]map[int]byte
	log   []string
}

func newKVPlan() *kvPlan {
	return &kvPlan{calls: map[string]int{}, fail: map[string]map[int]byte{}}
}

func (p *kvPlan) failAt(method string, n int, mode byte) {
	p.mu.Lock()
	defer p.mu.Unlock()
	if p.fail[method] == nil {
		p.fail[method] = map[int]byte{}
	}
	p.fail[method][n] = mode
}

// failNext makes the next call of method fail
func (p *kvPlan) failNext(method string, mode byte) {
	p.mu.Lock()
	n := p.calls[method]
	p.mu.Unlock()
	p.failAt(method, n, mode)
}

func (p *kvPlan) hit(method string) byte {
	p.mu.Lock()
	defer p.mu.Unlock()
	n := p.calls[method]
	p.calls[method] = n + 1
	if m, ok := p.fail[method][n]; ok {
		p.log = append(p.log, method)
		return m
	}
	return 'n'
}

var (
	kvPlansMu sync.Mutex
	kvPlans   = map[string]*kvPlan{}
	kvOnce    sync.Once
)

func registerKV() {
	kvOnce.Do(func() {
		sorted.RegisterKeyValue("c13faulty", func(cfg jsonconfig.Obj) (sorted.KeyValue, error) {
			id := cfg.RequiredString("id")
			if err := cfg.Validate(); err != nil {
				return nil, err
			}
			kvPlansMu.Lock()
			p := kvPlans[id]
			kvPlansMu.Unlock()
			if p == nil {
				return nil, errors.New("c13faulty: unknown id")
			}
			return &faultKV{KeyValue: sorted.NewMemoryKeyValue(), p: p}, nil
		})
	})
}

var kvSeq int

// newFaultKVConf registers a plan and returns the jsonconfig of a KeyValue that follows it.
func newFaultKVConf() (map[string]any, *kvPlan) {
	registerKV()
	p := newKVPlan()
	kvPlansMu.Lock()
	kvSeq++
	id := "kv" + string(rune('0'+kvSeq%10)) + time.Now().Format("150405.000000000")
	kvPlans[id] = p
	kvPlansMu.Unlock()
	return map[string]any{"type": "c13faulty", "id": id}, p
}

type faultKV struct {
	sorted.KeyValue
	p *kvPlan
}

func (k *faultKV) Get(key string) (string, error) {
	switch k.p.hit("Get") {
	case 'b', 'a':
		return "", errInjected
	}
	return k.KeyValue.Get(key)
}

func (k *faultKV) Set(key, value string) error {
	switch k.p.hit("Set") {
	case 'b':
		return errInjected
	case 'a':
		k.KeyValue.Set(key, value)
		return errInjected
	}
	return k.KeyValue.Set(key, value)
}

func (k *faultKV) Delete(key string) error {
	switch k.p.hit("Delete") {
	case 'b':
		return errInjected
	case 'a':
		k.KeyValue.Delete(key)
		return errInjected
	}
	return k.KeyValue.Delete(key)
}

func (k *faultKV) CommitBatch(b sorted.BatchMutation) error {
	switch k.p.hit("CommitBatch") {
	case 'b':
		return errInjected
	case 'a':
		k.KeyValue.CommitBatch(b)
		return errInjected
	}
	return k.KeyValue.CommitBatch(b)
}

// ---- a files.VFS with one-shot failures -------------------------------------------------------------------

type faultVFS struct {
	files.VFS
	mu       sync.Mutex
	failStat int    // the next n Stat calls fail with EIO
	failOp   string // one-shot: write sync close lstat rename tempfile mkdir
}

func (v *faultVFS) take(op string) bool {
	v.mu.Lock()
	defer v.mu.Unlock()
	if v.failOp == op {
		v.failOp = ""
		return true
	}
	return false
}

func (v *faultVFS) Stat(name string) (os.FileInfo, error) {
	v.mu.Lock()
	fail := v.failStat > 0
	if fail {
		v.failStat--
	}
	v.mu.Unlock()
	if fail {
		return nil, &os.PathError{Op: "stat", Path: name, Err: errInjected}
	}
	return v.VFS.Stat(name)
}

func (v *faultVFS) Lstat(name string) (os.FileInfo, error) {
	if v.take("lstat") {
		return nil, &os.PathError{Op: "lstat", Path: name, Err: errInjected}
	}
	return v.VFS.Lstat(name)
}

func (v *faultVFS) Rename(o, n string) error {
	if v.take("rename") {
		return &os.LinkError{Op: "rename", Old: o, New: n, Err: errInjected}
	}
	return v.VFS.Rename(o, n)
}

func (v *faultVFS) MkdirAll(p string, perm os.FileMode) error {
	if v.take("mkdir") {
		return &os.PathError{Op: "mkdir", Path: p, Err: errInjected}
	}
	return v.VFS.MkdirAll(p, perm)
}

func (v *faultVFS) TempFile(dir, prefix string) (files.WritableFile, error) {
	if v.take("tempfile") {
		return nil, &os.PathError{Op: "open", Path: dir, Err: errInjected}
	}
	f, err := v.VFS.TempFile(dir, prefix)
	if err != nil {
		return nil, err
	}
	return &faultFile{WritableFile: f, v: v}, nil
}

type faultFile struct {
	files.WritableFile
	v *faultVFS
}

func (f *faultFile) Write(p []byte) (int, error) {
	if f.v.take("write") {
		n, _ := f.WritableFile.Write(p[:len(p)/2]) // a short write, then the error
		return n, errInjected
	}
	return f.WritableFile.Write(p)
}

func (f *faultFile) Sync() error {
	if f.v.take("sync") {
		return errInjected
	}
	return f.WritableFile.Sync()
}

func (f *faultFile) Close() error {
	if f.v.take("close") {
		f.WritableFile.Close()
		return errInjected
	}
	return f.WritableFile.Close()
}
