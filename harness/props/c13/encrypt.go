package c13

import (
	"bytes"
	"context"
	"crypto/sha256"
	"encoding/hex"
	"fmt"
	"io"
	"os"
	"runtime"
	"sort"
	"strconv"
	"strings"
	"sync"
	"sync/atomic"
	"time"

	"go4.org/jsonconfig"

	"perkeep.org/pkg/blob"
	"perkeep.org/pkg/blobserver"
	_ "perkeep.org/pkg/blobserver/encrypt"

	"verifharness/hk"
	"verifharness/stores"
)

// Encrypt programs: one encrypt storage over a wrapped META store and a wrapped BLOBS store, a history
// long enough to trigger the compaction of the small meta blobs (recordMeta, meta.go: the heap holding
// more than SmallMetaCountLimit = 100 entries starts makePackedMetaBlob in a background goroutine; the
// harness waits after every operation until that goroutine is gone), failures at chosen calls of the
// two wrapped stores – the calls of the background compaction included –, and, once the failures have
// stopped, the store's own recovery: a FRESH encrypt storage over the same two stores with an empty
// meta index must give every acknowledged blob back bit-identically.
//
//	probe encrypt <receives> <seed> <meta faults> <blobs faults>
//
// faults: "-" or a comma list of <sel><k>:<mode>; sel # = k-th call of that store, R/D/F/S/E = k-th
// ReceiveBlob / RemoveBlobs / Fetch / StatBlobs / EnumerateBlobs call of that store (0-based);
// mode b = fails without effect, a = takes effect but answers an error.

const encIdentity = "AGE-SECRET-KEY-1ACRMUZ889J79XZPJ80RFJAF4NT9WM7GLVGMG83VFUEXYT2CLY6KSYUTYDR"
const encAgreement = "that encryption support hasn't been peer-reviewed, isn't finished, and its format might change."

// rawMem is the store underneath the wrappers: a map; like the disk-backed stores (and unlike
// memory.Storage, whose EnumerateBlobs keeps its read lock while it blocks on the destination channel)
// it holds no lock while it sends an enumeration.
type rawMem struct {
	mu sync.Mutex
	m  map[blob.Ref][]byte
}

func (s *rawMem) Fetch(c context.Context, br blob.Ref) (io.ReadCloser, uint32, error) {
	s.mu.Lock()
	v, ok := s.m[br]
	s.mu.Unlock()
	if !ok {
		return nil, 0, os.ErrNotExist
	}
	return io.NopCloser(bytes.NewReader(v)), uint32(len(v)), nil
}
func (s *rawMem) ReceiveBlob(c context.Context, br blob.Ref, src io.Reader) (blob.SizedRef, error) {
	v, err := io.ReadAll(src)
	if err != nil {
		return blob.SizedRef{}, err
	}
	s.mu.Lock()
	if _, ok := s.m[br]; !ok {
		s.m[br] = v
	}
	s.mu.Unlock()
	return blob.SizedRef{Ref: br, Size: uint32(len(v))}, nil
}
func (s *rawMem) StatBlobs(c context.Context, blobs []blob.Ref, fn func(blob.SizedRef) error) error {
	for _, br := range blobs {
		s.mu.Lock()
		v, ok := s.m[br]
		s.mu.Unlock()
		if ok {
			if err := fn(blob.SizedRef{Ref: br, Size: uint32(len(v))}); err != nil {
				return err
			}
		}
	}
	return nil
}
func (s *rawMem) RemoveBlobs(c context.Context, blobs []blob.Ref) error {
	s.mu.Lock()
	for _, br := range blobs {
		delete(s.m, br)
	}
	s.mu.Unlock()
	return nil
}
func (s *rawMem) EnumerateBlobs(c context.Context, dest chan<- blob.SizedRef, after string, limit int) error {
	defer close(dest)
	s.mu.Lock()
	var l []blob.SizedRef
	for br, v := range s.m {
		if br.String() > after {
			l = append(l, blob.SizedRef{Ref: br, Size: uint32(len(v))})
		}
	}
	s.mu.Unlock()
	sort.Slice(l, func(i, j int) bool { return l[i].Ref.String() < l[j].Ref.String() })
	for i, sb := range l {
		if limit > 0 && i == limit {
			break
		}
		select {
		case dest <- sb:
		case <-c.Done():
			return c.Err()
		}
	}
	return nil
}
func (s *rawMem) numBlobs() int { s.mu.Lock(); defer s.mu.Unlock(); return len(s.m) }

type encCall struct {
	store  string // M or B
	method byte   // R D F S E
	op     int    // the foreground operation during or after which the call was made
	fault  byte
}

// encSto: a memory store behind per-call and per-method failure selectors, logging every call.
type encSto struct {
	label  string
	inner  *rawMem
	w      *encWorld
	mu     sync.Mutex
	n      int
	perM   map[byte]int
	faults map[string]byte // "#12" / "R101" → mode
	used   int
}

func (s *encSto) next(method byte) byte {
	s.mu.Lock()
	defer s.mu.Unlock()
	mode := byte('n')
	if s.w.faultsOn.Load() {
		if m, ok := s.faults["#"+strconv.Itoa(s.n)]; ok {
			mode = m
		}
		if m, ok := s.faults[string(method)+strconv.Itoa(s.perM[method])]; ok {
			mode = m
		}
	}
	s.n++
	s.perM[method]++
	if mode != 'n' {
		s.used++
	}
	s.w.logMu.Lock()
	s.w.log = append(s.w.log, encCall{s.label, method, s.w.op, mode})
	if mode != 'n' {
		s.w.injected++
	}
	s.w.logMu.Unlock()
	return mode
}

func (s *encSto) faultSto(method byte) *faultSto {
	// one call through the generic wrapper: its schedule is the single mode just drawn
	m := s.next(method)
	sc := []byte{}
	if m != 'n' {
		sc = []byte{m}
	}
	return &faultSto{inner: s.inner, sched: sc}
}

func (s *encSto) Fetch(c context.Context, br blob.Ref) (io.ReadCloser, uint32, error) {
	return s.faultSto('F').Fetch(c, br)
}
func (s *encSto) ReceiveBlob(c context.Context, br blob.Ref, src io.Reader) (blob.SizedRef, error) {
	return s.faultSto('R').ReceiveBlob(c, br, src)
}
func (s *encSto) StatBlobs(c context.Context, blobs []blob.Ref, fn func(blob.SizedRef) error) error {
	return s.faultSto('S').StatBlobs(c, blobs, fn)
}
func (s *encSto) RemoveBlobs(c context.Context, blobs []blob.Ref) error {
	return s.faultSto('D').RemoveBlobs(c, blobs)
}
func (s *encSto) EnumerateBlobs(c context.Context, dest chan<- blob.SizedRef, after string, limit int) error {
	return s.faultSto('E').EnumerateBlobs(c, dest, after, limit)
}

type encWorld struct {
	meta, blobs *encSto
	sto         blobserver.Storage
	base        int
	logMu       sync.Mutex
	log         []encCall
	op          int
	injected    int
	faultsOn    atomic.Bool
	keyFile     string
	stackBuf    []byte
}

func parseEncFaults(s string) (map[string]byte, bool) {
	out := map[string]byte{}
	if s == "-" {
		return out, true
	}
	for _, f := range strings.Split(s, ",") {
		sel, mode, ok := strings.Cut(f, ":")
		if !ok || len(sel) < 2 || (mode != "a" && mode != "b") || !strings.ContainsRune("#RDFSE", rune(sel[0])) {
			return nil, false
		}
		if _, err := strconv.Atoi(sel[1:]); err != nil {
			return nil, false
		}
		out[sel] = mode[0]
	}
	return out, true
}

func (w *encWorld) quiesce() bool {
	// The background compaction has no hook: it is over when no goroutine has makePackedMetaBlob on its
	// stack any more (a goroutine that was spawned but has not run yet shows its entry function too).
	// Counting goroutines against a baseline is not reliable here: a straggler of an earlier case that
	// ends meanwhile would hide the compaction.
	deadline := time.Now().Add(20 * time.Second)
	if w.stackBuf == nil {
		w.stackBuf = make([]byte, 1<<20)
	}
	for i := 0; ; i++ {
		n := runtime.Stack(w.stackBuf, true)
		for n == len(w.stackBuf) && n < 64<<20 {
			w.stackBuf = make([]byte, 2*len(w.stackBuf))
			n = runtime.Stack(w.stackBuf, true)
		}
		if !bytes.Contains(w.stackBuf[:n], []byte("makePackedMetaBlob")) {
			return true
		}
		if time.Now().After(deadline) {
			return false
		}
		if i < 50 {
			runtime.Gosched()
		} else {
			time.Sleep(50 * time.Microsecond)
		}
	}
}

// start creates an encrypt storage over the two wrapped stores with an EMPTY meta index: all the
// store knows afterwards it has read back from the meta store.
func (w *encWorld) start() error {
	ld := stores.NewLoader()
	s, err := blobserver.CreateStorage("encrypt", ld, jsonconfig.Obj{
		"I_AGREE":   encAgreement,
		"keyFile":   w.keyFile,
		"blobs":     ld.Add(w.blobs),
		"meta":      ld.Add(w.meta),
		"metaIndex": map[string]any{"type": "memory"},
	})
	if err != nil {
		return err
	}
	w.sto = s
	return nil
}

func encBlob(seed, i int) (blob.Ref, []byte) {
	v := []byte(fmt.Sprintf("c13 encrypt program %d blob %d %s", seed, i, strings.Repeat("x", (i*7+seed)%40)))
	s := sha256.Sum224(v)
	return blob.MustParse("sha224-" + hex.EncodeToString(s[:])), v
}

type encResult struct {
	receives, acked, failedRecv int
	retries, gaveUp             int
	metaCalls, blobsCalls       int
	packedUploads               []int // per-method index (R…) of every packed-meta upload, in order
	removes                     int   // RemoveBlobs calls on the meta store
	injected                    int
	metaBlobsLeft               int
	viol                        []string
}

// runEncrypt executes one program.
func runEncrypt(n, seed int, metaF, blobsF map[string]byte) (*encResult, error) {
	kf, err := os.CreateTemp("", "c13key-")
	if err != nil {
		return nil, err
	}
	defer os.Remove(kf.Name())
	kf.WriteString(encIdentity + "\n")
	kf.Close()
	os.Chmod(kf.Name(), 0o600)
	w := &encWorld{keyFile: kf.Name()}
	w.meta = &encSto{label: "M", inner: &rawMem{m: map[blob.Ref][]byte{}}, w: w, perM: map[byte]int{}, faults: metaF}
	w.blobs = &encSto{label: "B", inner: &rawMem{m: map[blob.Ref][]byte{}}, w: w, perM: map[byte]int{}, faults: blobsF}
	w.base = runtime.NumGoroutine()
	if err := w.start(); err != nil {
		return nil, err
	}
	w.faultsOn.Store(true) // the calls of the first start-up (an empty scan) are numbered but never fail
	res := &encResult{receives: n}
	add := func(f string, a ...any) {
		if len(res.viol) < 12 {
			res.viol = append(res.viol, fmt.Sprintf(f, a...))
		}
	}
	acked := map[int]bool{}
	rnd := hk.NewRand(uint64(seed)*977 + 13)
	for i := 0; i < n; i++ {
		w.logMu.Lock()
		w.op = i + 1
		w.logMu.Unlock()
		br, v := encBlob(seed, i)
		// a failed receive is retried, as a client would, until it is acknowledged
		for attempt := 0; ; attempt++ {
			w.logMu.Lock()
			before := w.injected
			w.logMu.Unlock()
			out := watchdog(2*opTimeout, func() string {
				sb, err := blobserver.Receive(ctx, w.sto, br, bytes.NewReader(v))
				if err != nil {
					return "err"
				}
				if int(sb.Size) != len(v) || sb.Ref != br {
					return "wrong"
				}
				return "ok"
			})
			if out == "hang" || out == "panic" {
				add("receive%d:%s", i, out)
				return res, nil
			}
			if !w.quiesce() {
				add("receive%d:background-goroutines-did-not-finish", i)
				return res, nil
			}
			w.logMu.Lock()
			inj := w.injected > before
			w.logMu.Unlock()
			if out == "ok" {
				acked[i] = true
				break
			}
			if out != "err" {
				add("receive%d:wrong-answer", i)
				break
			}
			res.failedRecv++
			if !inj {
				add("receive%d:error-without-injected-failure", i)
				break
			}
			if attempt >= 8 {
				res.gaveUp++
				break
			}
			res.retries++
		}
		// now and then read an acknowledged blob back through the live store
		if len(acked) > 0 && rnd.Chance(15) {
			j := rnd.Intn(i + 1)
			if acked[j] {
				w.logMu.Lock()
				before := w.injected
				w.logMu.Unlock()
				jb, jv := encBlob(seed, j)
				got, cls := stores.Fetch(ctx, w.sto, jb)
				w.logMu.Lock()
				inj := w.injected > before
				w.logMu.Unlock()
				if !(cls == "ok" && bytes.Equal(got, jv)) && !(cls == "err" && inj) {
					add("live-fetch-of-acknowledged-blob%d:%s", j, cls)
				}
			}
		}
	}
	res.acked = len(acked)
	// the failures stop here
	w.logMu.Lock()
	w.faultsOn.Store(false)
	res.injected = w.injected
	// classify the calls: within one operation's window the first meta ReceiveBlob is the single meta
	// blob of that receive, every further one is a packed-meta upload of the background compaction (only
	// the healthy program's classification is used: with retries a window has several single meta blobs)
	perOp := map[int]int{}
	rIdx := 0
	for _, c := range w.log {
		if c.store == "M" {
			res.metaCalls++
			switch c.method {
			case 'R':
				perOp[c.op]++
				if perOp[c.op] > 1 {
					res.packedUploads = append(res.packedUploads, rIdx)
				}
				rIdx++
			case 'D':
				res.removes++
			}
		} else {
			res.blobsCalls++
		}
	}
	w.logMu.Unlock()
	check := func(s blobserver.Storage, what string) {
		lost, wrong := 0, 0
		first := -1
		for i := 0; i < n; i++ {
			if !acked[i] {
				continue
			}
			br, v := encBlob(seed, i)
			got, cls := stores.Fetch(ctx, s, br)
			switch {
			case cls == "ok" && bytes.Equal(got, v):
			case cls == "notexist":
				lost++
				if first < 0 {
					first = i
				}
			default:
				wrong++
				if first < 0 {
					first = i
				}
			}
		}
		if lost > 0 {
			add("%s-loses-acknowledged-blobs:%d-of-%d(first:blob%d)", what, lost, len(acked), first)
		}
		if wrong > 0 {
			add("%s-serves-acknowledged-blobs-wrong:%d-of-%d(first:blob%d)", what, wrong, len(acked), first)
		}
		// stat and enumerate agree
		l, cls := stores.Enumerate(ctx, s, "", 100000)
		have := map[string]uint32{}
		for _, x := range l {
			have[x.Key] = x.Size
		}
		miss := 0
		for i := range acked {
			br, v := encBlob(seed, i)
			if sz, ok := have[br.String()]; !ok || int(sz) != len(v) {
				miss++
			}
		}
		if cls != "ok" || miss > 0 {
			add("%s-enumerate-misses-acknowledged-blobs:%d(%s)", what, miss, cls)
		}
	}
	check(w.sto, "live-store-after-failures-stopped")
	// the store's own recovery: a fresh instance, empty index, same two stores
	out := watchdog(20*time.Second, func() string {
		if err := w.start(); err != nil {
			return "err " + err.Error()
		}
		return "ok"
	})
	if out != "ok" {
		add("rebuild-from-meta-fails:%s", strings.Fields(out)[0])
		return res, nil
	}
	if !w.quiesce() {
		add("rebuild:background-goroutines-did-not-finish")
		return res, nil
	}
	check(w.sto, "rebuilt-store")
	// and the rebuilt store accepts and serves
	br, v := encBlob(seed, n+1)
	if _, err := blobserver.Receive(ctx, w.sto, br, bytes.NewReader(v)); err != nil {
		add("rebuilt-store-rejects-receive")
	} else if got, cls := stores.Fetch(ctx, w.sto, br); cls != "ok" || !bytes.Equal(got, v) {
		add("rebuilt-store-fetch-after-receive:%s", cls)
	}
	w.quiesce()
	res.metaBlobsLeft = w.meta.inner.numBlobs()
	return res, nil
}

func (r *encResult) line(tag string) string {
	var pu []string
	for _, x := range r.packedUploads {
		pu = append(pu, strconv.Itoa(x))
	}
	if len(pu) == 0 {
		pu = []string{"-"}
	}
	return fmt.Sprintf("%s acked=%d failed=%d retries=%d gave-up=%d injected=%d meta-calls=%d blobs-calls=%d packed-uploads=%s meta-removes=%d meta-blobs-left=%d violations=%d %s",
		tag, r.acked, r.failedRecv, r.retries, r.gaveUp, r.injected, r.metaCalls, r.blobsCalls, strings.Join(pu, ","), r.removes, r.metaBlobsLeft,
		len(r.viol), strings.Join(r.viol, ";"))
}

func probeEncrypt(w []string) string {
	if len(w) != 6 {
		return "bad-op"
	}
	n, err1 := strconv.Atoi(w[2])
	seed, err2 := strconv.Atoi(w[3])
	mf, ok1 := parseEncFaults(w[4])
	bf, ok2 := parseEncFaults(w[5])
	if err1 != nil || err2 != nil || !ok1 || !ok2 || n < 1 || n > 2000 || seed < 0 {
		return "bad-op"
	}
	res, err := runEncrypt(n, seed, mf, bf)
	if err != nil {
		return "bad-op " + strings.ReplaceAll(err.Error(), "\n", " ")
	}
	return res.line("encrypt")
}

// encryptPrograms: the generator of the encrypt programs.
func encryptPrograms(r *hk.Run) {
	rnd := r.R.Fork()
	n := 215 // two compactions: at the 101st receive and 100 receives later
	hangs := 0
	run := func(label, mf, bf string) (string, bool) {
		if hangs >= 2 {
			r.Hit("encrypt:skipped-after-hangs")
			return "", false
		}
		line := fmt.Sprintf("probe encrypt %d %d %s %s", n, 1+rnd.Intn(1000), mf, bf)
		out := hk.Guard(func() string { return probeOp(strings.Fields(line)) })
		r.ImplOnly("encrypt-program")
		r.Res.Evals += n
		r.Hit("encrypt:" + label)
		i := strings.Index(out, " violations=")
		if !strings.HasPrefix(out, "encrypt ") || i < 0 {
			r.Fail("encrypt-program-did-not-finish", line, "a result", trunc(out), []string{line})
			return out, false
		}
		_, list, _ := strings.Cut(strings.TrimSpace(out[i+1:]), " ")
		if strings.Contains(list, "hang") || strings.Contains(list, "did-not-finish") {
			hangs++
		}
		for _, v := range strings.Split(list, ";") {
			if v == "" {
				continue
			}
			sig := digitsRe.ReplaceAllString(v, "")
			if j := strings.IndexByte(sig, '('); j >= 0 {
				sig = sig[:j]
			}
			sig = strings.TrimRight(strings.ReplaceAll(sig, "-of-", ""), ":-")
			r.Fail("encrypt:"+sig, line+": "+v, "every acknowledged blob back bit-identically from the live and from the rebuilt store", trunc(out), []string{line})
		}
		if strings.Contains(out, " injected=0 ") && (mf != "-" || bf != "-") {
			r.Hit("encrypt:fault-not-reached")
		} else if mf != "-" || bf != "-" {
			r.Distinct("encrypt " + label + " " + mf + " " + bf)
		}
		return out, true
	}
	// the healthy program tells where the compaction's calls are
	out, ok := run("healthy", "-", "-")
	if !ok {
		return
	}
	field := func(name string) string {
		for _, f := range strings.Fields(out) {
			if k, v, ok := strings.Cut(f, "="); ok && k == name {
				return v
			}
		}
		return ""
	}
	var packed []int
	for _, x := range strings.Split(field("packed-uploads"), ",") {
		if v, err := strconv.Atoi(x); err == nil {
			packed = append(packed, v)
		}
	}
	removes, _ := strconv.Atoi(field("meta-removes"))
	metaCalls, _ := strconv.Atoi(field("meta-calls"))
	blobsCalls, _ := strconv.Atoi(field("blobs-calls"))
	if len(packed) < 2 || removes < 2 {
		r.Fail("encrypt-compaction-not-triggered", "healthy program of "+strconv.Itoa(n)+" receives", "two compactions", trunc(out), nil)
		return
	}
	r.Hit("mechanism:meta-compaction-triggered")
	// the calls of the background compaction, one at a time and in combination
	for ci, p := range packed {
		for _, mode := range []string{"b", "a"} {
			run(fmt.Sprintf("compaction%d-upload-fails-%s", ci+1, mode), fmt.Sprintf("R%d:%s", p, mode), "-")
			run(fmt.Sprintf("compaction%d-remove-fails-%s", ci+1, mode), fmt.Sprintf("D%d:%s", ci, mode), "-")
			if !r.Thorough() && ci > 0 {
				break
			}
		}
	}
	// a foreground receive whose write to one of the two stores fails, then the client's retry
	for _, mode := range []string{"b", "a"} {
		run("receive-meta-write-fails-"+mode, fmt.Sprintf("R%d:%s,R%d:%s", 5+rnd.Intn(60), mode, packed[0]+10+rnd.Intn(60), mode), "-")
		run("receive-blobs-write-fails-"+mode, "-", fmt.Sprintf("R%d:%s,R%d:%s", 5+rnd.Intn(60), mode, 120+rnd.Intn(60), mode))
	}
	run("compaction-upload-and-remove-fail", fmt.Sprintf("R%d:b,D0:b,R%d:a", packed[0], packed[1]+0), "-")
	// random bursts over every call of both stores
	bursts := 3
	if r.Thorough() {
		bursts = 40
	}
	sortedKeys := func(m map[string]bool) string {
		var ks []string
		for k := range m {
			ks = append(ks, k)
		}
		sort.Strings(ks)
		if len(ks) == 0 {
			return "-"
		}
		return strings.Join(ks, ",")
	}
	for b := 0; b < bursts; b++ {
		mf, bf := map[string]bool{}, map[string]bool{}
		k := 2 + rnd.Intn(12)
		for i := 0; i < k; i++ {
			mode := []string{"a", "b"}[rnd.Intn(2)]
			switch rnd.Intn(5) {
			case 0, 1:
				mf[fmt.Sprintf("#%d:%s", rnd.Intn(metaCalls), mode)] = true
			case 2:
				bf[fmt.Sprintf("#%d:%s", rnd.Intn(blobsCalls), mode)] = true
			case 3: // around a compaction
				p := packed[rnd.Intn(len(packed))]
				mf[fmt.Sprintf("R%d:%s", p-2+rnd.Intn(5), mode)] = true
			default:
				mf[fmt.Sprintf("D%d:%s", rnd.Intn(removes), mode)] = true
			}
		}
		// one selector, one mode
		clean := func(m map[string]bool) map[string]bool {
			seen := map[string]bool{}
			out := map[string]bool{}
			var ks []string
			for k := range m {
				ks = append(ks, k)
			}
			sort.Strings(ks)
			for _, k := range ks {
				sel, _, _ := strings.Cut(k, ":")
				if !seen[sel] {
					seen[sel] = true
					out[k] = true
				}
			}
			return out
		}
		run("burst", sortedKeys(clean(mf)), sortedKeys(clean(bf)))
	}
}
