// Package c13: storage trees whose every leaf sits behind a schedule of transient failures, against
// the Lean model (Pk.Stores.interp with `.faulty` leaves) and a three-valued reference-map oracle.
//
// Line protocol (a superset of C01's; stat and rm take exactly one ref so that the calls each leaf
// sees are the model's):
//
//	cfg <model tree> // <real tree>     real tree: kind[:max][@sched] …, sched a word over n/b/a or "-"
//	recv k v | fetch k | stat k | rm k | enum after limit
//	pending                             per leaf: schedule entries not yet consumed
//	gatestat cap n fail                 StatBlobsParallelHelper on a fresh gate: leaked slots
package c13

import (
	"context"
	"fmt"
	"os"
	"runtime"
	"strconv"
	"strings"
	"time"

	"perkeep.org/pkg/blobserver"

	"verifharness/hk"
	"verifharness/props/c01"
	"verifharness/stores"
)

var ctx = context.Background()

// opTimeout is the watchdog: an op that has not answered by then is a `hang`.
var opTimeout = 3 * time.Second

type Exec struct {
	env    *stores.Env
	sto    blobserver.Storage
	root   *stores.Node
	leaves []*faultSto
	dead   bool // an op hung: goroutines of the tree may still be running
	// Unsettled counts ops after which goroutines were still running when the wait gave up
	Unsettled int
	floor     int
}

func (e *Exec) close() {
	if e.env != nil {
		if e.dead {
			os.RemoveAll(e.env.Dir) // closing could hang as well
		} else {
			e.env.Close()
		}
	}
	e.env, e.sto, e.leaves, e.dead, e.floor = nil, nil, nil, false, 0
}

// splitTree separates the schedules from the real-tree tokens: leaf order = order of appearance.
func splitTree(w []string) (clean []string, scheds []string) {
	for _, t := range w {
		k, s, has := strings.Cut(t, "@")
		clean = append(clean, k)
		if has {
			scheds = append(scheds, s)
		}
	}
	return
}

func validSched(s string) bool {
	if s == "-" {
		return true
	}
	if s == "" {
		return false
	}
	for _, c := range s {
		if c != 'n' && c != 'b' && c != 'a' {
			return false
		}
	}
	return true
}

func countLeaves(n *stores.Node) int {
	if len(n.Kids) == 0 {
		return 1
	}
	c := 0
	for _, k := range n.Kids {
		c += countLeaves(k)
	}
	return c
}

func (e *Exec) cfg(w []string) string {
	e.close()
	i := 0
	for i < len(w) && w[i] != "//" {
		i++
	}
	if i >= len(w)-1 {
		return "bad-op"
	}
	clean, scheds := splitTree(w[i+1:])
	n, rest, ok := c01.ParseTree(clean)
	if !ok || len(rest) != 0 || countLeaves(n) != len(scheds) {
		return "bad-op"
	}
	for _, s := range scheds {
		if !validSched(s) {
			return "bad-op"
		}
	}
	env, err := stores.NewEnv()
	if err != nil {
		return "bad-op"
	}
	var leaves []*faultSto
	sto, err := env.Build(n, func(kind string, s blobserver.Storage) blobserver.Storage {
		sc := scheds[len(leaves)]
		if sc == "-" {
			sc = ""
		}
		f := &faultSto{inner: s, sched: []byte(sc), id: len(leaves)}
		leaves = append(leaves, f)
		return f
	})
	if err != nil {
		env.Close()
		return "bad-op"
	}
	e.env, e.sto, e.root, e.leaves = env, sto, n, leaves
	return "ok"
}

// watchdog runs f; a call that does not return in time is answered `hang`.
func watchdog(d time.Duration, f func() string) string {
	ch := make(chan string, 1)
	go func() { ch <- hk.Guard(f) }()
	select {
	case out := <-ch:
		return out
	case <-time.After(d):
		return "hang"
	}
}

func (e *Exec) Do(w []string) string {
	if len(w) == 0 {
		return "bad-op"
	}
	switch w[0] {
	case "cfg":
		return e.cfg(w)
	case "gatestat":
		return gateStat(w)
	case "probe":
		return probeOp(w)
	}
	if e.sto == nil || e.dead {
		return "bad-op"
	}
	switch w[0] {
	case "pending":
		if len(w) != 1 {
			return "bad-op"
		}
		parts := []string{"pending"}
		for _, l := range e.leaves {
			p, _ := l.pending()
			parts = append(parts, strconv.Itoa(p))
		}
		return strings.Join(parts, " ")
	case "recv":
		if len(w) != 3 {
			return "bad-op"
		}
	case "fetch", "stat", "rm":
		if len(w) != 2 {
			return "bad-op"
		}
	case "enum":
		if len(w) != 3 {
			return "bad-op"
		}
	default:
		return "bad-op"
	}
	if trace {
		println("op", w[0], w[len(w)-1])
	}
	// the baseline is the LOWEST goroutine count seen at an operation boundary of this tree: a count
	// taken now may include a goroutine of an earlier operation that is about to end, and waiting only
	// until the count is back there could return while a goroutine of this operation has yet to run
	base := runtime.NumGoroutine()
	if e.floor == 0 || base < e.floor {
		e.floor = base
	}
	base = e.floor
	out := watchdog(opTimeout, func() string { return c01.ExecOn(e.sto, w) })
	if out == "hang" {
		e.dead = true
		return out
	}
	e.settle(base)
	if trace {
		println("  ->", out[:min(len(out), 12)])
	}
	return out
}

// settle waits until the goroutines the op started (parallel sub-store calls that the combinator did
// not wait for, e.g. the other sources of a merged enumeration that failed early) have made their
// calls and ended: in the model every call of an op happens within the op.
func (e *Exec) settle(base int) {
	deadline := time.Now().Add(2 * time.Second)
	for i := 0; runtime.NumGoroutine() > base; i++ {
		if time.Now().After(deadline) {
			e.Unsettled++
			e.floor = runtime.NumGoroutine() // something stays: do not wait for it after every operation
			return
		}
		if i < 50 {
			runtime.Gosched()
		} else {
			time.Sleep(100 * time.Microsecond)
		}
	}
}

// Injected is the number of failures injected so far, PendingFaults those still scheduled.
func (e *Exec) Injected() int {
	n := 0
	for _, l := range e.leaves {
		n += l.injected()
	}
	return n
}

func (e *Exec) PendingFaults() int {
	n := 0
	for _, l := range e.leaves {
		_, f := l.pending()
		n += f
	}
	return n
}

func (e *Exec) Calls() []int {
	var out []int
	for _, l := range e.leaves {
		out = append(out, l.calls())
	}
	return out
}

// NewExec returns a fresh interpreter.
func NewExec() func(w []string) string {
	e := &Exec{}
	return func(w []string) string { return hk.Guard(func() string { return e.Do(w) }) }
}

// ---- trees ---------------------------------------------------------------------------------------------

// leavesOf lists the leaves in build order (depth first, left to right).
func leavesOf(n *stores.Node, acc *[]*stores.Node) {
	if len(n.Kids) == 0 {
		*acc = append(*acc, n)
		return
	}
	for _, k := range n.Kids {
		leavesOf(k, acc)
	}
}

func schedWord(s string) string {
	if s == "" {
		return "-"
	}
	return s
}

// modelTokens renders the tree for the Lean driver; next() yields the schedules in leaf order.
func modelTokens(n *stores.Node, next func() string) string {
	switch n.Kind {
	case "mem", "localdisk", "diskpacked":
		return "faulty " + schedWord(next()) + " mem"
	case "memcache":
		return fmt.Sprintf("faulty %s memcache %d", schedWord(next()), n.Max)
	case "ns":
		return "ns " + modelTokens(n.Kids[0], next)
	case "proxy":
		o := modelTokens(n.Kids[0], next)
		c := modelTokens(n.Kids[1], next)
		return fmt.Sprintf("proxy %d %s %s", n.Max, o, c)
	}
	name := map[string]string{"overlay": "overlay", "shard": "shard2", "replica": "replica2", "cond": "cond2"}[n.Kind]
	if len(n.Kids) != 2 { // shard / replica over 3 or 4 sub-stores (stores.Node.ModelToken)
		name = fmt.Sprintf("%sN %d", n.Kind, len(n.Kids))
	}
	for _, k := range n.Kids {
		name += " " + modelTokens(k, next)
	}
	return name
}

func realTokens(n *stores.Node, next func() string) string {
	k := c01.KindToken(n)
	if n.Max != 0 {
		k += ":" + strconv.Itoa(n.Max)
	}
	if len(n.Kids) == 0 {
		return k + "@" + schedWord(next())
	}
	for _, c := range n.Kids {
		k += " " + realTokens(c, next)
	}
	return k
}

// cfgLine is the cfg op of a tree with the given per-leaf schedules.
func cfgLine(n *stores.Node, scheds []string) string {
	i, j := 0, 0
	return "cfg " + modelTokens(n, func() string { i++; return scheds[i-1] }) + " // " +
		realTokens(n, func() string { j++; return scheds[j-1] })
}

func hasKind(n *stores.Node, kinds ...string) bool {
	for _, k := range kinds {
		if n.Kind == k {
			return true
		}
	}
	for _, c := range n.Kids {
		if hasKind(c, kinds...) {
			return true
		}
	}
	return false
}
