package c13

import (
	"errors"
	"fmt"
	"strconv"
	"sync/atomic"
	"time"

	"go4.org/syncutil"

	"perkeep.org/pkg/blob"
	"perkeep.org/pkg/blobserver"
)

// freeSlots counts how many Starts a gate of capacity cap still admits (and releases them again).
func freeSlots(g *syncutil.Gate, cap int) int {
	got := make(chan struct{}, cap)
	for i := 0; i < cap; i++ {
		go func() { g.Start(); got <- struct{}{} }()
	}
	n := 0
	for n < cap {
		select {
		case <-got:
			n++
		case <-time.After(150 * time.Millisecond):
			// the blocked Starts stay parked on this private gate
			for i := 0; i < n; i++ {
				g.Done()
			}
			return n
		}
	}
	for i := 0; i < n; i++ {
		g.Done()
	}
	return n
}

// gateStat runs the real StatBlobsParallelHelper on a fresh gate of capacity cap over n blobs whose
// workers are held until released; worker `fail` (or none: "-") answers an error.  The schedule is
// forced: with cap = 1 the workers run one after the other; otherwise fail < min(cap, n), the first
// min(cap, n) workers are started, the failing one is released first and the others only after the
// cancellation had time to reach the loop.  Answer: how many gate slots the call left taken.
func gateStat(w []string) string {
	if len(w) != 4 {
		return "bad-op"
	}
	cap, err1 := strconv.Atoi(w[1])
	n, err2 := strconv.Atoi(w[2])
	fail := -1
	if w[3] != "-" {
		f, err := strconv.Atoi(w[3])
		if err != nil || f < 0 {
			return "bad-op"
		}
		fail = f
	}
	if err1 != nil || err2 != nil || cap < 1 || cap > 64 || n < 1 || n > 64 || fail >= n {
		return "bad-op"
	}
	first := min(cap, n)
	if fail >= 0 && cap != 1 && fail >= first {
		return "bad-op"
	}
	gate := syncutil.NewGate(cap)
	blobs := make([]blob.Ref, n)
	idx := map[blob.Ref]int{}
	release := make([]chan struct{}, n)
	for i := range blobs {
		blobs[i] = blob.RefFromString(fmt.Sprint("c13-gate-", i))
		idx[blobs[i]] = i
		release[i] = make(chan struct{})
	}
	started := make(chan int, n)
	var nStarted atomic.Int32
	worker := func(br blob.Ref) (blob.SizedRef, error) {
		i := idx[br]
		nStarted.Add(1)
		started <- i
		<-release[i]
		if i == fail {
			return blob.SizedRef{}, errors.New("c13: worker failure")
		}
		return blob.SizedRef{Ref: br, Size: 1}, nil
	}
	done := make(chan error, 1)
	go func() {
		done <- blobserver.StatBlobsParallelHelper(ctx, blobs, func(blob.SizedRef) error { return nil }, gate, worker)
	}()
	released := make([]bool, n)
	rel := func(i int) {
		if !released[i] {
			released[i] = true
			close(release[i])
		}
	}
	var res error
	finished := false
	deadline := time.After(opTimeout)
	if cap == 1 {
		for !finished {
			select {
			case i := <-started:
				rel(i)
			case res = <-done:
				finished = true
			case <-deadline:
				return "hang"
			}
		}
	} else {
		for k := 0; k < first; k++ {
			select {
			case <-started:
			case <-deadline:
				return "hang"
			}
		}
		if fail >= 0 {
			rel(fail)
			time.Sleep(40 * time.Millisecond)
		}
		for i := 0; i < first; i++ {
			rel(i)
		}
		for !finished {
			select {
			case i := <-started:
				rel(i)
			case res = <-done:
				finished = true
			case <-deadline:
				return "hang"
			}
		}
	}
	ans := "ok"
	if res != nil {
		ans = "err"
	}
	return fmt.Sprintf("gate leaked %d %s", cap-freeSlots(gate, cap), ans)
}
