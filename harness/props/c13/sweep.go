package c13

import (
	"bytes"
	"context"
	"fmt"
	"io"
	"os"
	"path/filepath"
	"runtime"
	"sort"
	"strings"
	"sync"
	"sync/atomic"
	"time"

	"go4.org/jsonconfig"

	"perkeep.org/pkg/blob"
	"perkeep.org/pkg/blobserver"
	"perkeep.org/pkg/blobserver/diskpacked"
	"perkeep.org/pkg/blobserver/files"
	"perkeep.org/pkg/blobserver/memory"
	"perkeep.org/pkg/sorted"

	"verifharness/props/c01"
	"verifharness/stores"
)

// Exhaustive single-fault sweeps BELOW the Storage interface: every lower-layer call (VFS call of the
// files store, index KeyValue call of diskpacked) that one operation makes – counted from the recorded
// call log of a healthy run, not from a constant – fails once, in each failure mode that call has.
//
// Scenarios: receive of a NEW blob, RE-receive of an existing acknowledged blob, remove, remove of an
// absent blob, a RemoveBlobs batch of three acknowledged blobs, a batch mixing present and absent blobs,
// fetch, stat, a StatBlobs batch, enumerate; on a store that already holds four acknowledged blobs, one
// of which no remove ever names (the bystander).
// After each faulted operation the oracle demands: the call answered an error or was exact; every
// previously acknowledged, unremoved blob is still fetched back intact and stat'ed with its size; the
// operation's own blob is absent or intact (never partial); enumerate lists exactly the blobs that can
// be fetched (no temp/partial entry); a healthy retry succeeds and leaves the exact state.

// ---- recording / faulting lower layers ------------------------------------------------------------------

// callPlan numbers the lower-layer calls of the armed window and fails call `at` (if ≥ 0).
type callPlan struct {
	mu    sync.Mutex
	armed bool
	n     int
	log   []string
	at    int
	mode  byte // 'b' fail without effect, 'a' take effect, then answer the error
	at2   int  // a second failing call (bursts), -1 = none
	mode2 byte
	hit   string
}

func (p *callPlan) arm(at int, mode byte) { p.arm2(at, mode, -1, 'b') }

// arm2 arms a burst: call `at` and call `at2` of the window fail
func (p *callPlan) arm2(at int, mode byte, at2 int, mode2 byte) {
	p.mu.Lock()
	p.armed, p.n, p.log, p.at, p.mode, p.hit = true, 0, nil, at, mode, ""
	p.at2, p.mode2 = at2, mode2
	p.mu.Unlock()
}

func (p *callPlan) disarm() (n int, log []string, hit string) {
	p.mu.Lock()
	defer p.mu.Unlock()
	p.armed = false
	return p.n, p.log, p.hit
}

// call registers one lower-layer call; it returns 'n', 'b' or 'a'.
func (p *callPlan) call(name string) byte {
	p.mu.Lock()
	defer p.mu.Unlock()
	if !p.armed {
		return 'n'
	}
	i := p.n
	p.n++
	p.log = append(p.log, name)
	if i == p.at {
		p.hit = name
		return p.mode
	}
	if i == p.at2 && p.at2 >= 0 {
		p.hit += "+" + name
		return p.mode2
	}
	return 'n'
}

// mutating lower-layer calls have the additional failure mode "took effect, answer lost"
var mutatingCall = map[string]bool{
	"Remove": true, "RemoveDir": true, "MkdirAll": true, "Rename": true, "TempFile": true,
	"Write": true, "Sync": true, "Close": true,
	"Set": true, "Delete": true, "CommitBatch": true,
	"ReceiveBlob": true, "RemoveBlobs": true,
}

type planVFS struct {
	files.VFS
	p *callPlan
}

func perr(op, path string) error { return &os.PathError{Op: op, Path: path, Err: errInjected} }

func (v *planVFS) Remove(n string) error {
	switch v.p.call("Remove") {
	case 'b':
		return perr("remove", n)
	case 'a':
		v.VFS.Remove(n)
		return perr("remove", n)
	}
	return v.VFS.Remove(n)
}
func (v *planVFS) RemoveDir(n string) error {
	switch v.p.call("RemoveDir") {
	case 'b':
		return perr("rmdir", n)
	case 'a':
		v.VFS.RemoveDir(n)
		return perr("rmdir", n)
	}
	return v.VFS.RemoveDir(n)
}
func (v *planVFS) Stat(n string) (os.FileInfo, error) {
	if v.p.call("Stat") != 'n' {
		return nil, perr("stat", n)
	}
	return v.VFS.Stat(n)
}
func (v *planVFS) Lstat(n string) (os.FileInfo, error) {
	if v.p.call("Lstat") != 'n' {
		return nil, perr("lstat", n)
	}
	return v.VFS.Lstat(n)
}
func (v *planVFS) Open(n string) (files.ReadableFile, error) {
	if v.p.call("Open") != 'n' {
		return nil, perr("open", n)
	}
	return v.VFS.Open(n)
}
func (v *planVFS) MkdirAll(n string, perm os.FileMode) error {
	switch v.p.call("MkdirAll") {
	case 'b':
		return perr("mkdir", n)
	case 'a':
		v.VFS.MkdirAll(n, perm)
		return perr("mkdir", n)
	}
	return v.VFS.MkdirAll(n, perm)
}
func (v *planVFS) Rename(o, n string) error {
	switch v.p.call("Rename") {
	case 'b':
		return &os.LinkError{Op: "rename", Old: o, New: n, Err: errInjected}
	case 'a':
		v.VFS.Rename(o, n)
		return &os.LinkError{Op: "rename", Old: o, New: n, Err: errInjected}
	}
	return v.VFS.Rename(o, n)
}
func (v *planVFS) TempFile(dir, prefix string) (files.WritableFile, error) {
	switch v.p.call("TempFile") {
	case 'b':
		return nil, perr("open", dir)
	case 'a':
		if f, err := v.VFS.TempFile(dir, prefix); err == nil {
			f.Close() // created, but the caller never learns its name
		}
		return nil, perr("open", dir)
	}
	f, err := v.VFS.TempFile(dir, prefix)
	if err != nil {
		return nil, err
	}
	return &planFile{WritableFile: f, p: v.p}, nil
}
func (v *planVFS) ReadDirNames(dir string) ([]string, error) {
	if v.p.call("ReadDirNames") != 'n' {
		return nil, perr("readdir", dir)
	}
	return v.VFS.ReadDirNames(dir)
}

type planFile struct {
	files.WritableFile
	p *callPlan
}

func (f *planFile) Write(b []byte) (int, error) {
	switch f.p.call("Write") {
	case 'b':
		n, _ := f.WritableFile.Write(b[:len(b)/2]) // a short write, then the error
		return n, errInjected
	case 'a':
		n, _ := f.WritableFile.Write(b)
		return n, errInjected
	}
	return f.WritableFile.Write(b)
}
func (f *planFile) Sync() error {
	switch f.p.call("Sync") {
	case 'b':
		return errInjected
	case 'a':
		f.WritableFile.Sync()
		return errInjected
	}
	return f.WritableFile.Sync()
}
func (f *planFile) Close() error {
	switch f.p.call("Close") {
	case 'b', 'a':
		f.WritableFile.Close() // the descriptor is gone either way
		return errInjected
	}
	return f.WritableFile.Close()
}

// planKV: a sorted.KeyValue (memory) whose calls follow a callPlan (type "c13plankv")
type planKV struct {
	sorted.KeyValue
	p *callPlan
}

func (k *planKV) Get(key string) (string, error) {
	if k.p.call("Get") != 'n' {
		return "", errInjected
	}
	return k.KeyValue.Get(key)
}
func (k *planKV) Set(key, value string) error {
	switch k.p.call("Set") {
	case 'b':
		return errInjected
	case 'a':
		k.KeyValue.Set(key, value)
		return errInjected
	}
	return k.KeyValue.Set(key, value)
}
func (k *planKV) Delete(key string) error {
	switch k.p.call("Delete") {
	case 'b':
		return errInjected
	case 'a':
		k.KeyValue.Delete(key)
		return errInjected
	}
	return k.KeyValue.Delete(key)
}
func (k *planKV) CommitBatch(b sorted.BatchMutation) error {
	switch k.p.call("CommitBatch") {
	case 'b':
		return errInjected
	case 'a':
		k.KeyValue.CommitBatch(b)
		return errInjected
	}
	return k.KeyValue.CommitBatch(b)
}
func (k *planKV) Find(start, end string) sorted.Iterator {
	if k.p.call("Find") != 'n' {
		return failedIter{}
	}
	return k.KeyValue.Find(start, end)
}

// failedIter is the iterator of a range scan that failed: no rows, Close reports the error
type failedIter struct{}

func (failedIter) Next() bool         { return false }
func (failedIter) Key() string        { return "" }
func (failedIter) KeyBytes() []byte   { return nil }
func (failedIter) Value() string      { return "" }
func (failedIter) ValueBytes() []byte { return nil }
func (failedIter) Close() error       { return errInjected }

var (
	planKVMu   sync.Mutex
	planKVs    = map[string]*callPlan{}
	planKVOnce sync.Once
	planKVSeq  int
)

func newPlanKVConf(p *callPlan) map[string]any {
	planKVOnce.Do(func() {
		sorted.RegisterKeyValue("c13plankv", func(cfg jsonconfig.Obj) (sorted.KeyValue, error) {
			id := cfg.RequiredString("id")
			if err := cfg.Validate(); err != nil {
				return nil, err
			}
			planKVMu.Lock()
			pl := planKVs[id]
			planKVMu.Unlock()
			if pl == nil {
				return nil, fmt.Errorf("c13plankv: unknown id %q", id)
			}
			return &planKV{KeyValue: sorted.NewMemoryKeyValue(), p: pl}, nil
		})
	})
	planKVMu.Lock()
	planKVSeq++
	id := fmt.Sprintf("plan%d", planKVSeq)
	planKVs[id] = p
	planKVMu.Unlock()
	return map[string]any{"type": "c13plankv", "id": id}
}

// ---- the sweep ----------------------------------------------------------------------------------------------

type sweepWorld struct {
	sto   blobserver.Storage
	plan  *callPlan
	dir   string
	close func()
	// reindex, when set, rebuilds the index from the data files and reports the error class
	reindex func() string
	// after, when set, runs after every operation (waits for the goroutines the operation started)
	after func(base int)
	// noRemove: the store does not implement RemoveBlobs (encrypt)
	noRemove bool
}

type sweepBlob struct {
	ref blob.Ref
	val []byte
}

type scenario struct {
	name string
	// acked: indexes of the blobs acknowledged before the op; the op acts on the blobs `ons` (recv and
	// fetch: one blob; rm and stat: one call with all of them = a batch)
	acked []int
	kind  string // recv rm fetch stat enum
	ons   []int
	// needsRemove: the scenario (or its set-up) removes
	needsRemove bool
}

// removedInSetup: received and removed again before every operation (stores that can remove): an
// overlay holds a tombstone for it, and the overlay worlds keep a copy of it in the lower layer
const removedInSetup = 5

// postBlob is received only after the failures have stopped
const postBlob = 6

// blobs 0..3 are acknowledged before every operation, blob 4 is not there; blob 3 is never the target
// of a remove: the acknowledged, unrelated bystander
func sweepScenarios() []scenario {
	ack := []int{0, 1, 2, 3}
	return []scenario{
		{"recv-new", ack, "recv", []int{4}, false},
		{"recv-dup", ack, "recv", []int{0}, false},
		{"rm", ack, "rm", []int{0}, true},
		{"rm-absent", ack, "rm", []int{4}, true},
		{"rm-batch", ack, "rm", []int{0, 1, 2}, true},
		{"rm-batch-mixed", ack, "rm", []int{1, 4, 0}, true},
		{"fetch", ack, "fetch", []int{1}, false},
		{"stat", ack, "stat", []int{0}, false},
		{"stat-batch", ack, "stat", []int{2, 4, 0, 1}, false},
		{"enum", ack, "enum", []int{0}, false},
		// receive after remove, and reads / a second remove of the removed ref
		{"recv-removed", ack, "recv", []int{removedInSetup}, true},
		{"fetch-removed", ack, "fetch", []int{removedInSetup}, true},
		{"stat-removed", ack, "stat", []int{removedInSetup, 0}, true},
		{"rm-removed", ack, "rm", []int{removedInSetup}, true},
	}
}

// doOp executes the scenario's operation; answer class: ok / err / notexist / panic / hang, plus whether
// a read answered exactly
func doOp(w *sweepWorld, sc scenario, blobs []sweepBlob, present map[int]bool) (cls string, exact bool) {
	b := blobs[sc.ons[0]]
	on := sc.ons[0]
	var refs []blob.Ref
	for _, i := range sc.ons {
		refs = append(refs, blobs[i].ref)
	}
	base := runtime.NumGoroutine()
	cls = watchdog(opTimeout, func() string {
		switch sc.kind {
		case "recv":
			sb, err := blobserver.Receive(ctx, w.sto, b.ref, bytes.NewReader(b.val))
			if err == nil && int(sb.Size) == len(b.val) {
				exact = true
			}
			return stores.ErrClass(err)
		case "rm":
			err := w.sto.RemoveBlobs(ctx, refs)
			exact = err == nil
			return stores.ErrClass(err)
		case "fetch":
			v, c := stores.Fetch(ctx, w.sto, b.ref)
			exact = (c == "ok" && present[on] && bytes.Equal(v, b.val)) || (c == "notexist" && !present[on])
			return c
		case "stat":
			l, c := stores.Stat(ctx, w.sto, refs)
			if c == "ok" {
				sub := map[int]bool{}
				for _, i := range sc.ons {
					if present[i] {
						sub[i] = true
					}
				}
				exact = enumMatches(l, blobs, sub)
			}
			return c
		default:
			l, c := stores.Enumerate(ctx, w.sto, "", 1000)
			if c == "ok" {
				exact = enumMatches(l, blobs, present)
			}
			return c
		}
	})
	if w.after != nil && cls != "hang" {
		w.after(base)
	}
	return cls, exact
}

func enumMatches(l []stores.SR, blobs []sweepBlob, present map[int]bool) bool {
	var want []string
	for i, b := range blobs {
		if present[i] {
			want = append(want, fmt.Sprintf("%s:%d", b.ref, len(b.val)))
		}
	}
	sort.Strings(want)
	var got []string
	for _, x := range l {
		got = append(got, fmt.Sprintf("%s:%d", x.Key, x.Size))
	}
	return strings.Join(got, ",") == strings.Join(want, ",")
}

// checkState: what can be read back.  Returns violations.  present[i] = 1 must be there, 0 must not,
// 2 either (the faulted op's own blob); on return `present` is resolved to what was observed.
func checkState(w *sweepWorld, blobs []sweepBlob, must map[int]int, resolved map[int]bool) (viol []string) {
	for i, b := range blobs {
		v, cls := stores.Fetch(ctx, w.sto, b.ref)
		there := false
		switch {
		case cls == "ok" && bytes.Equal(v, b.val):
			there = true
		case cls == "notexist":
		case cls == "ok" && len(v) == len(b.val) && len(b.val) > 0 && len(bytes.Trim(v, "\x00")) == 0:
			viol = append(viol, fmt.Sprintf("blob%d-fetched-as-zeros", i))
			there = true
		case cls == "ok" || cls == "sizemismatch":
			viol = append(viol, fmt.Sprintf("blob%d-fetched-partial-or-wrong(%d of %d bytes)", i, len(v), len(b.val)))
		default:
			viol = append(viol, fmt.Sprintf("blob%d-fetch-%s-after-failure-stopped", i, cls))
		}
		switch must[i] {
		case 1:
			if !there {
				viol = append(viol, fmt.Sprintf("acknowledged-blob%d-lost", i))
			}
		case 0:
			if there {
				viol = append(viol, fmt.Sprintf("absent-blob%d-appeared", i))
			}
		}
		resolved[i] = there
		// stat agrees with fetch
		l, c := stores.Stat(ctx, w.sto, []blob.Ref{b.ref})
		if c != "ok" || (there && (len(l) != 1 || int(l[0].Size) != len(b.val))) || (!there && len(l) != 0) {
			viol = append(viol, fmt.Sprintf("blob%d-stat-disagrees-with-fetch(%s,%d)", i, c, len(l)))
		}
	}
	l, c := stores.Enumerate(ctx, w.sto, "", 1000)
	if c != "ok" || !enumMatches(l, blobs, resolved) {
		viol = append(viol, fmt.Sprintf("enumerate-disagrees-with-fetch(%s,%d entries)", c, len(l)))
	}
	return viol
}

var notReached atomic.Int32

type sweepResult struct {
	calls  map[string]int // scenario → lower-layer calls of the healthy op
	cases  map[string]int // scenario → faulted cases run
	names  map[string]bool
	viol   []string
	bursts int
}

// sweep runs all scenarios on worlds produced by mk.
func sweep(mk func() (*sweepWorld, error), blobs []sweepBlob, bursts bool) (*sweepResult, error) {
	res := &sweepResult{calls: map[string]int{}, cases: map[string]int{}, names: map[string]bool{}}
	setup := func(sc scenario) (*sweepWorld, map[int]bool, error) {
		w, err := mk()
		if err != nil {
			return nil, nil, err
		}
		present := map[int]bool{}
		for _, i := range sc.acked {
			if _, err := blobserver.Receive(ctx, w.sto, blobs[i].ref, bytes.NewReader(blobs[i].val)); err != nil {
				w.close()
				return nil, nil, fmt.Errorf("setup receive: %v", err)
			}
			present[i] = true
		}
		if !w.noRemove {
			b := blobs[removedInSetup]
			_, err := blobserver.Receive(ctx, w.sto, b.ref, bytes.NewReader(b.val))
			if err == nil {
				err = w.sto.RemoveBlobs(ctx, []blob.Ref{b.ref})
			}
			if err != nil {
				w.close()
				return nil, nil, fmt.Errorf("setup receive+remove: %v", err)
			}
		}
		return w, present, nil
	}
	hangs := 0
	for _, sc := range sweepScenarios() {
		if hangs >= 2 {
			// a wedged configuration: every further case would cost a watchdog period
			res.viol = append(res.viol, sc.name+"/skipped:sweep-aborted-after-2-hangs")
			break
		}
		// the healthy run: how many lower-layer calls does the op make, and which
		w, present, err := setup(sc)
		if err != nil {
			return nil, err
		}
		if w.noRemove && sc.needsRemove {
			w.close()
			continue
		}
		w.plan.arm(-1, 'b')
		cls, exact := doOp(w, sc, blobs, present)
		n, log, _ := w.plan.disarm()
		w.close()
		if !exact || (cls != "ok" && cls != "notexist") {
			res.viol = append(res.viol, fmt.Sprintf("%s/healthy:answer-%s-not-exact", sc.name, cls))
			if cls == "hang" {
				hangs++
			}
			continue
		}
		res.calls[sc.name] = n
		type spec struct {
			k     int
			mode  byte
			k2    int
			mode2 byte
		}
		var specs []spec
		for k := 0; k < n; k++ {
			modes := []byte{'b'}
			if mutatingCall[log[k][strings.LastIndexByte(log[k], '.')+1:]] {
				modes = append(modes, 'a')
			}
			for _, mode := range modes {
				specs = append(specs, spec{k, mode, -1, 'b'})
			}
			if bursts {
				// short bursts: the call right after (or one further) fails too – it may be a call the
				// healthy run never makes, e.g. the undo of the failed step – in every combination of modes
				for _, d := range []int{1, 2} {
					for _, mode := range modes {
						for _, mode2 := range []byte{'b', 'a'} {
							specs = append(specs, spec{k, mode, k + d, mode2})
						}
					}
				}
			}
		}
		for _, sp := range specs {
			{
				k, mode := sp.k, sp.mode
				w, present, err := setup(sc)
				if err != nil {
					return nil, err
				}
				tag := fmt.Sprintf("%s/call%d-%s-%c", sc.name, k, log[k], mode)
				if sp.k2 >= 0 {
					tag += fmt.Sprintf("+call%d-%c", sp.k2, sp.mode2)
					res.bursts++
				}
				res.cases[sc.name]++
				res.names[log[k][strings.LastIndexByte(log[k], '.')+1:]] = true
				if hangs >= 2 {
					w.close()
					break
				}
				// everything after the set-up runs under a watchdog of its own: the state checks and the
				// retry call into the store as well
				type caseOut struct {
					viol []string
					hung bool
				}
				done := make(chan caseOut, 1)
				go func() {
					v, h := func() (viol []string, hung bool) {
						w.plan.arm2(k, mode, sp.k2, sp.mode2)
						cls, exact := doOp(w, sc, blobs, present)
						_, lg, hit := w.plan.disarm()
						tag := tag
						if sp.k2 >= 0 {
							// name the second failing call: it may be one the healthy run does not make
							name2 := "not-made"
							if sp.k2 < len(lg) {
								name2 = lg[sp.k2]
							}
							tag = fmt.Sprintf("%s/call%d-%s-%c+call%d-%s-%c", sc.name, k, log[k], mode, sp.k2, name2, sp.mode2)
						}
						add := func(v string) { viol = append(viol, tag+":"+v) }
						if cls == "hang" || cls == "panic" {
							add(cls)
							if cls == "hang" {
								os.RemoveAll(w.dir) // the world may be wedged: do not close it
								return viol, true
							}
						}
						if hit == "" {
							// the operation made fewer lower-layer calls than the healthy run (the order of a
							// batch's sub-calls is not fixed): it ran healthy, and is checked as such
							notReached.Add(1)
						}
						if cls != "err" && !exact {
							add("answer-" + cls + "-neither-error-nor-exact")
						}
						// what must be there now
						must := map[int]int{}
						for i := range blobs {
							if present[i] {
								must[i] = 1
							}
						}
						for _, on := range sc.ons {
							switch {
							case sc.kind == "recv" && cls == "ok":
								must[on] = 1
							case sc.kind == "recv" && !present[on]:
								must[on] = 2 // failed receive of a new blob: absent or complete
							case sc.kind == "rm" && cls == "ok":
								must[on] = 0
							case sc.kind == "rm" && present[on]:
								must[on] = 2 // failed remove: each blob of the batch still there (intact) or gone
							}
						}
						resolved := map[int]bool{}
						for _, v := range checkState(w, blobs, must, resolved) {
							add(v)
						}
						// a healthy retry succeeds and the state is then exact
						rcls, rexact := doOp(w, sc, blobs, resolved)
						if !rexact || (rcls != "ok" && rcls != "notexist") {
							add("healthy-retry-" + rcls)
						}
						final := map[int]int{}
						for i := range blobs {
							if resolved[i] {
								final[i] = 1
							}
						}
						for _, on := range sc.ons {
							if sc.kind == "recv" {
								final[on] = 1
							}
							if sc.kind == "rm" {
								final[on] = 0
							}
						}
						for _, v := range checkState(w, blobs, final, map[int]bool{}) {
							add("after-retry:" + v)
						}
						// failures have stopped: the store accepts and serves a blob it has never seen
						nb := blobs[postBlob]
						if _, err := blobserver.Receive(ctx, w.sto, nb.ref, bytes.NewReader(nb.val)); err != nil {
							add("after-failures-stopped:receive-of-a-new-blob-fails")
						} else if v, c := stores.Fetch(ctx, w.sto, nb.ref); c != "ok" || !bytes.Equal(v, nb.val) {
							add("after-failures-stopped:new-blob-fetch-" + c)
						}
						if w.reindex != nil {
							if r := w.reindex(); r != "ok" {
								add("own-recovery-fails:" + r)
							}
						}
						w.close()
						return viol, false
					}()
					done <- caseOut{v, h}
				}()
				select {
				case o := <-done:
					res.viol = append(res.viol, o.viol...)
					if o.hung {
						hangs++
					}
				case <-time.After(3 * opTimeout):
					res.viol = append(res.viol, tag+":hang-after-the-faulted-call")
					os.RemoveAll(w.dir)
					hangs++
				}
			}
			if hangs >= 2 {
				break
			}
		}
	}
	return res, nil
}

func (r *sweepResult) line(tag string) string {
	var calls, cases, names []string
	for _, sc := range sweepScenarios() {
		calls = append(calls, fmt.Sprintf("%s:%d", sc.name, r.calls[sc.name]))
		cases = append(cases, fmt.Sprintf("%s:%d", sc.name, r.cases[sc.name]))
	}
	for n := range r.names {
		names = append(names, n)
	}
	sort.Strings(names)
	v := r.viol
	if len(v) > 40 {
		v = v[:40]
	}
	return fmt.Sprintf("%s calls=%s cases=%s faulted=%s bursts=%d not-reached=%d violations=%d %s", tag, strings.Join(calls, ","),
		strings.Join(cases, ","), strings.Join(names, ","), r.bursts, notReached.Load(), len(r.viol), strings.Join(v, ";"))
}

func sweepBlobs(size int) []sweepBlob {
	var out []sweepBlob
	for i := 0; i < 7; i++ {
		v := bytes.Repeat([]byte{byte('p' + i)}, size)
		if size > 0 {
			v[0] = byte('0' + i)
		} else if i > 0 {
			v = []byte{byte('x' + i)} // only one empty blob exists
		}
		out = append(out, sweepBlob{blob.RefFromBytes(v), v})
	}
	return out
}

// probeFilesSweep: the files store over a recording/faulting VFS
func probeFilesSweep(size int) string {
	mk := func() (*sweepWorld, error) {
		dir, err := os.MkdirTemp("", "c13fsweep-")
		if err != nil {
			return nil, err
		}
		p := &callPlan{at: -1, at2: -1}
		sto := files.NewStorage(&planVFS{VFS: files.OSFS(), p: p}, dir)
		return &sweepWorld{sto: sto, plan: p, dir: dir, close: func() { os.RemoveAll(dir) }}, nil
	}
	res, err := sweep(mk, sweepBlobs(size), true)
	if err != nil {
		return "bad-op " + err.Error()
	}
	return res.line(fmt.Sprintf("filessweep size=%d", size))
}

// probeDiskpackedSweep: diskpacked over a recording/faulting index KeyValue
func probeDiskpackedSweep(size, maxFile int) string {
	mk := func() (*sweepWorld, error) {
		dir, err := os.MkdirTemp("", "c13dsweep-")
		if err != nil {
			return nil, err
		}
		p := &callPlan{at: -1, at2: -1}
		s, err := blobserver.CreateStorage("diskpacked", stores.NewLoader(), jsonconfig.Obj{
			"path": dir, "maxFileSize": float64(maxFile), "metaIndex": newPlanKVConf(p)})
		if err != nil {
			os.RemoveAll(dir)
			return nil, err
		}
		closed := false
		cl := func() {
			if c, ok := s.(interface{ Close() error }); ok && !closed {
				closed = true
				c.Close()
			}
		}
		w := &sweepWorld{sto: s, plan: p, dir: dir, close: func() { cl(); os.RemoveAll(dir) }}
		w.reindex = func() string {
			cl()
			// the pack files must be walkable by the store's own recovery
			if n, _ := filepath.Glob(filepath.Join(dir, "pack-*.blobs")); len(n) == 0 {
				return "no-pack-files"
			}
			return stores.ErrClass(diskpacked.Reindex(ctx, dir, true, jsonconfig.Obj(newPlanKVConf(&callPlan{at: -1, at2: -1}))))
		}
		return w, nil
	}
	res, err := sweep(mk, sweepBlobs(size), true)
	if err != nil {
		return "bad-op " + err.Error()
	}
	return res.line(fmt.Sprintf("dpsweep size=%d max=%d", size, maxFile))
}

// ---- the same sweep one level up: storage trees over leaves that fail at the Storage interface ---------------

// planSto puts a leaf behind a callPlan shared by all leaves of the tree: the calls of one operation
// are numbered across the leaves in the order they are made.
type planSto struct {
	inner blobserver.Storage
	p     *callPlan
	name  string
}

func (s *planSto) one(method string, empty bool) *faultSto {
	if empty {
		return &faultSto{inner: s.inner}
	}
	m := s.p.call(s.name + "." + method)
	if m == 'n' {
		return &faultSto{inner: s.inner}
	}
	return &faultSto{inner: s.inner, sched: []byte{m}}
}
func (s *planSto) Fetch(c context.Context, br blob.Ref) (io.ReadCloser, uint32, error) {
	return s.one("Fetch", false).Fetch(c, br)
}
func (s *planSto) ReceiveBlob(c context.Context, br blob.Ref, src io.Reader) (blob.SizedRef, error) {
	return s.one("ReceiveBlob", false).ReceiveBlob(c, br, src)
}
func (s *planSto) StatBlobs(c context.Context, blobs []blob.Ref, fn func(blob.SizedRef) error) error {
	return s.one("StatBlobs", len(blobs) == 0).StatBlobs(c, blobs, fn)
}
func (s *planSto) RemoveBlobs(c context.Context, blobs []blob.Ref) error {
	return s.one("RemoveBlobs", len(blobs) == 0).RemoveBlobs(c, blobs)
}
func (s *planSto) EnumerateBlobs(c context.Context, dest chan<- blob.SizedRef, after string, limit int) error {
	return s.one("EnumerateBlobs", false).EnumerateBlobs(c, dest, after, limit)
}

// probeTreeSweep: a storage tree (c01 notation) whose leaves share one call plan
func probeTreeSweep(size int, tokens []string) string {
	root, rest, ok := c01.ParseTree(tokens)
	if !ok || len(rest) != 0 {
		return "bad-op"
	}
	mk := func() (*sweepWorld, error) {
		env, err := stores.NewEnv()
		if err != nil {
			return nil, err
		}
		p := &callPlan{at: -1, at2: -1}
		nLeaf := 0
		sto, err := env.Build(root, func(kind string, s blobserver.Storage) blobserver.Storage {
			nLeaf++
			return &planSto{inner: s, p: p, name: fmt.Sprintf("L%d", nLeaf-1)}
		})
		if err != nil {
			env.Close()
			return nil, err
		}
		w := &sweepWorld{sto: sto, plan: p, dir: env.Dir, close: env.Close}
		w.after = settleTo
		return w, nil
	}
	res, err := sweep(mk, sweepBlobs(size), false)
	if err != nil {
		return "bad-op " + err.Error()
	}
	return res.line(fmt.Sprintf("treesweep size=%d", size))
}

// ---- stores that own a sorted.KeyValue: that KeyValue as the failing lower layer ---------------------------------

// probeKVSweep: overlay (its `deleted` set, over a lower layer that already holds blobs – among them
// the one the set-up removes, so that only the tombstone hides it), namespace (inventory), encrypt
// (metaIndex; no remove) and blobpacked (metaIndex) over healthy memory stores, with every call of the
// store's own KeyValue (Get/Set/Delete/CommitBatch/Find) failing once in every scenario.
func probeKVSweep(kind string, size int) string {
	blobs := sweepBlobs(size)
	var keyFile string
	if kind == "encrypt" {
		kf, err := os.CreateTemp("", "c13key-")
		if err != nil {
			return "bad-op"
		}
		kf.WriteString(encIdentity + "\n")
		kf.Close()
		os.Chmod(kf.Name(), 0o600)
		keyFile = kf.Name()
		defer os.Remove(keyFile)
	}
	mk := func() (*sweepWorld, error) {
		p := &callPlan{at: -1, at2: -1}
		ld := stores.NewLoader()
		kv := newPlanKVConf(p)
		a, b := &memory.Storage{}, &memory.Storage{}
		var conf jsonconfig.Obj
		typ := kind
		w := &sweepWorld{plan: p, close: func() {}}
		switch kind {
		case "overlay":
			for _, i := range []int{0, removedInSetup} {
				if _, err := blobserver.Receive(ctx, a, blobs[i].ref, bytes.NewReader(blobs[i].val)); err != nil {
					return nil, err
				}
			}
			conf = jsonconfig.Obj{"lower": ld.Add(a), "upper": ld.Add(b), "deleted": kv}
		case "namespace":
			conf = jsonconfig.Obj{"storage": ld.Add(a), "inventory": kv}
		case "encrypt":
			conf = jsonconfig.Obj{"I_AGREE": encAgreement, "keyFile": keyFile, "blobs": ld.Add(&rawMem{m: map[blob.Ref][]byte{}}),
				"meta": ld.Add(&rawMem{m: map[blob.Ref][]byte{}}), "metaIndex": kv}
			w.noRemove = true
		case "blobpacked":
			conf = jsonconfig.Obj{"smallBlobs": ld.Add(a), "largeBlobs": ld.Add(b), "metaIndex": kv}
		default:
			return nil, fmt.Errorf("unknown kind")
		}
		s, err := blobserver.CreateStorage(typ, ld, conf)
		if err != nil {
			return nil, err
		}
		w.sto = s
		w.after = settleTo
		return w, nil
	}
	res, err := sweep(mk, blobs, true)
	if err != nil {
		return "bad-op " + strings.ReplaceAll(err.Error(), "\n", " ")
	}
	return res.line(fmt.Sprintf("kvsweep %s size=%d", kind, size))
}

// settleTo waits until the goroutine count is back at base (at most 2 s)
func settleTo(base int) {
	deadline := time.Now().Add(2 * time.Second)
	for i := 0; runtime.NumGoroutine() > base && time.Now().Before(deadline); i++ {
		if i < 50 {
			runtime.Gosched()
		} else {
			time.Sleep(100 * time.Microsecond)
		}
	}
}
