// Package c18: the HTTP blob protocol end to end (in-process servers built from high-level
// configurations, raw requests and pkg/client) against the Lean model Pk.BlobHTTP and the reference map.
package c18
