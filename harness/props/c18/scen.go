package c18

// Directed scenarios of C18: the stat cap, the long-poll branches (the only ops that take wall time),
// a store larger than the client's batch size / the server's maximum page, a file large enough to be
// packed by blobpacked, a malformed op stream, and the re-execution of the findings' witnesses.

import (
	"fmt"
	"strings"

	"perkeep.org/pkg/blob"
	"perkeep.org/pkg/schema"
)

func (w *world) tiny(i int) item {
	c := []byte(fmt.Sprintf("b%d", i))
	return item{blob.RefFromBytes(c).String(), c}
}

// upload items by multipart requests of `per` parts
func (w *world) bulk(items []item, per int) {
	for len(items) > 0 {
		n := per
		if n > len(items) {
			n = len(items)
		}
		var parts []mpart
		var trues []string
		for _, it := range items[:n] {
			parts = append(parts, mpart{it.ref, it.content})
			trues = append(trues, hb(it.content))
		}
		w.doMultipart(parts, trues)
		items = items[n:]
	}
}

func (w *world) scenarioStatCap() {
	stos := []string{"mem"}
	if w.r.Thorough() {
		stos = storageKinds
	}
	for _, sto := range stos {
		if !w.begin("stat cap "+sto, sto, "mem", "bs") {
			continue
		}
		var refs []string
		for i := 0; i < 1003; i++ {
			it := w.tiny(i)
			w.pool = append(w.pool, it)
			refs = append(refs, it.ref)
		}
		var up []item
		for _, i := range []int{0, 1, 2, 17, 498, 499, 500, 998, 999, 1000, 1001, 1002} {
			up = append(up, w.pool[i])
		}
		w.bulk(up, 5)
		for _, n := range []int{0, 1, 999, 1000, 1001, 1002} {
			w.doStat("post", "1", "", refs[:n])
		}
		w.doStat("get", "1", "", refs[:1000])
		w.doStat("get", "1", "", refs[:1001])
		// a hole: what follows it is not looked at, however much there is
		holed := append([]string(nil), refs[:1002]...)
		holed[499] = ""
		w.doStat("post", "1", "", holed)
		// the cap is tested before the value is parsed
		bogusLate := append([]string(nil), refs[:1001]...)
		bogusLate[1000] = "not-a-ref"
		w.doStat("post", "1", "", bogusLate)
		bogusEarly := append([]string(nil), refs[:1001]...)
		bogusEarly[2] = "not-a-ref"
		w.doStat("post", "1", "", bogusEarly)
		// 1001 times the same ref: the cap counts parameters, not distinct refs
		same := make([]string, 1001)
		for i := range same {
			same[i] = refs[0]
		}
		w.doStat("post", "1", "", same)
		w.doStat("post", "1", "", same[:1000])
		w.doStat("post", "", "", refs[:3])
		w.r.Distinct("stat-cap/" + sto)
	}
}

func (w *world) scenarioLongPoll() {
	stos := []string{"mem", "diskpacked"}
	if w.r.Thorough() {
		stos = storageKinds
	}
	for _, sto := range stos {
		if !w.begin("long poll "+sto, sto, "mem", "bs") {
			continue
		}
		for i := 0; i < 6; i++ {
			w.pool = append(w.pool, w.tiny(i))
		}
		// nothing there, nothing arrives: the handler waits for the deadline and answers an empty list
		w.doEnum("", "", "1")
		w.r.Hit("mech:enum-long-poll-deadline")
		w.doClientEnum("", "", 0, 1)
		// a blob arrives during the wait
		a := w.pool[0]
		out := w.op("enumpoll - " + hx("5") + " " + hx(a.ref) + " " + hb(a.content) + " " + hb(a.content))
		w.ref[a.ref] = a.content
		want := "200 " + showPairs([]pair{{a.ref, uint64(len(a.content))}}) + " cont=- put=204"
		if out != want {
			w.fail("enum-long-poll-missed-blob", "a blob uploaded while enumerate waits (maxwaitsec=5) is what the answer lists", want, out)
		}
		w.r.Hit("mech:enum-long-poll-woken-by-upload")
		// something is there: the answer comes at once (this is what the pre-fix loop got wrong)
		b := w.pool[1]
		rem := w.remaining("")
		out = w.op("enumpoll " + hx("1") + " " + hx("30") + " " + hx(b.ref) + " " + hb(b.content) + " " + hb(b.content))
		w.ref[b.ref] = b.content
		if strings.HasSuffix(out, " put=204") {
			w.checkPage(strings.TrimSuffix(out, " put=204"), "", "1", "30", rem[:1])
		} else {
			w.fail("enum-long-poll-answer", "enumerate with maxwaitsec over a non-empty store", "200 … put=204", out)
		}
		w.doEnum("", "2", "30")
		w.doEnum("", "", "+7")
		w.doClientEnum("1", "", 0, 2)
		// stat: a missing blob and a wait: the answer comes at the deadline, with what is there
		w.doStat("post", "1", "1", []string{a.ref, w.pool[4].ref})
		w.r.Hit("mech:stat-long-poll-deadline")
		// … or as soon as the missing blob arrives
		c := w.pool[2]
		vals := []string{a.ref, c.ref}
		var sb strings.Builder
		sb.WriteString("statpoll " + hx("5") + " " + hx(c.ref) + " " + hb(c.content) + " " + hb(c.content))
		for _, v := range vals {
			sb.WriteString(" " + hx(v))
		}
		out = w.op(sb.String())
		w.ref[c.ref] = c.content
		w.checkStat(out, "1", vals, " put=204")
		w.r.Hit("mech:stat-long-poll-woken-by-upload")
		w.sweep()
		w.r.Distinct("long-poll/" + sto)
	}
}

func (w *world) scenarioBigStore(n int) {
	if !w.begin(fmt.Sprintf("big store %d", n), "mem", "mem", "bs") {
		return
	}
	for i := 0; i < n; i++ {
		w.pool = append(w.pool, w.tiny(i))
	}
	w.bulk(w.pool, 150)
	w.doClientEnum("", "", 0, 0) // the client's own batch size
	w.r.Hit("mech:client-own-batch-size")
	w.doClientEnum("", "", 1500, 0)
	w.doClientEnum("", w.present()[n/2], 0, 0)
	w.doEnum("", "", "")
	w.doEnum("", "99999", "")
	w.doEnum("", "10001", "")
	w.doEnum("", "0", "")
	w.doEnum("", "1000", "")
	w.doEnum(w.present()[n-3], "1000", "")
	if n > 10000 {
		w.r.Hit("mech:limit-clamped-to-maxEnumerate")
		w.rawPaging("99999")
	}
	w.rawPaging("1000")
	var refs []string
	for _, it := range w.pool[:1000] {
		refs = append(refs, it.ref)
	}
	w.doStat("post", "1", "", refs)
	w.doStat("post", "1", "30", refs)
	w.doClientStat(refs[:40])
	w.r.Distinct(fmt.Sprintf("big-store/%d", n))
}

// a file of 9 × 64 KiB uploaded chunk by chunk, then its schema blob: blobpacked packs it into a zip
// (the chunks leave the loose store); everything stays visible through the protocol
func (w *world) scenarioPackedFile(sto string) {
	if !w.begin("packed file "+sto, sto, "leveldb", "cond") {
		return
	}
	R := w.r.R
	var parts []schema.BytesPart
	total := 0
	for i := 0; i < 9; i++ {
		c := R.Bytes(65536)
		it := item{blob.RefFromBytes(c).String(), c}
		w.pool = append(w.pool, it)
		parts = append(parts, schema.BytesPart{Size: uint64(len(c)), BlobRef: blob.MustParse(it.ref)})
		total += len(c)
		if i%2 == 0 {
			w.doPut(it.ref, hb(c), c, i == 4)
		} else {
			w.doClientUpload(it, c, false)
		}
	}
	fm := schema.NewFileMap("big.bin")
	if err := fm.PopulateParts(int64(total), parts); err != nil {
		w.fail("harness", "PopulateParts: "+err.Error(), "", "")
		return
	}
	js, err := fm.JSON()
	if err != nil {
		w.fail("harness", "file schema JSON: "+err.Error(), "", "")
		return
	}
	fit := item{blob.RefFromString(js).String(), []byte(js)}
	w.pool = append(w.pool, fit, w.tiny(1), w.tiny(2))
	w.doPut(fit.ref, hb(fit.content), fit.content, false)
	w.doPut(w.pool[10].ref, hb(w.pool[10].content), w.pool[10].content, false)
	w.r.Hit("mech:file-large-enough-to-pack:" + sto)
	w.doGet(w.pool[0].ref, false)
	w.doGet(w.pool[8].ref, true)
	w.doRange(w.pool[3].ref)
	w.doFetch(w.pool[5].ref)
	w.doEnum("", "3", "")
	w.sweep()
	w.r.Distinct("packed-file/" + sto)
}

// blobs around schema.MaxSchemaBlobSize (1 MiB: what cond's schema sniffing reads before it gives up) and
// up to the 16 MiB cap, plain and schema-looking, through every upload path, on roots that route writes
// through the index (cond, replica) and on the storage itself; then every read path.  Contents are
// generated (`r<seed>:<len>` / `s<seed>:<len>`), so the op lines stay short.
func (w *world) scenarioBigBlobs() {
	const MiB = 1 << 20
	type conf struct {
		sto, idx, root string
		sizes          []int
	}
	full := []int{MiB - 1, MiB, MiB + 1, MiB + 2, 2 * MiB}
	edge := []int{MiB + 1, MiB + 2}
	var confs []conf
	if w.r.Thorough() {
		for _, sto := range storageKinds {
			for _, idx := range indexKinds {
				confs = append(confs, conf{sto, idx, "cond", full}, conf{sto, idx, "replica", edge})
			}
			confs = append(confs, conf{sto, "mem", "bs", edge})
		}
		capSizes := []int{16*MiB - 1, 16 * MiB}
		confs = append(confs, conf{"mem", "mem", "cond", capSizes}, conf{"disk", "leveldb", "cond", capSizes},
			conf{"blobpacked", "sqlite", "replica", capSizes}, conf{"diskpacked", "kv", "bs", capSizes})
	} else {
		confs = []conf{{"mem", "mem", "cond", full}, {"disk", "leveldb", "replica", full}, {"diskpacked", "kv", "cond", edge},
			{"blobpacked", "sqlite", "cond", edge}, {"blobpacked", "mem", "replica", edge}, {"disk", "kv", "cond", edge},
			{"mem", "sqlite", "bs", edge}}
	}
	method := w.r.R.Intn(5)
	for _, c := range confs {
		if !w.begin(fmt.Sprintf("big blobs %s/%s/%s", c.sto, c.idx, c.root), c.sto, c.idx, c.root) {
			continue
		}
		small := w.tiny(7)
		w.pool = append(w.pool, small)
		for _, n := range c.sizes {
			for _, schemaLooking := range []bool{false, true} {
				kind := "sha224"
				if w.r.R.Chance(20) {
					kind = "sha1"
				}
				it := genItem(schemaLooking, uint64(w.r.R.Intn(1<<20)), n, kind)
				w.pool = append(w.pool, it)
				method++
				switch method % 5 {
				case 0:
					w.doPut(it.ref, hb(it.content), it.content, false)
				case 1:
					w.doPut(it.ref, hb(it.content), it.content, true)
				case 2:
					// the big part first: a part after it must still be received
					w.doMultipart([]mpart{{it.ref, it.content}, {small.ref, small.content}}, []string{hb(it.content), hb(small.content)})
				case 3:
					w.doClientUpload(it, it.content, false)
				default:
					w.doClientUpload(it, it.content, true) // what Client.ReceiveBlob does: SkipStat
				}
				w.r.Hit(fmt.Sprintf("mech:big-blob:%s:%s", c.root, sizeClass(n)))
				w.doStat("post", "1", "", []string{it.ref})
				w.doGet(it.ref, false)
				w.doGet(it.ref, true)
				w.doRange(it.ref)
				if w.r.R.Chance(50) {
					w.doFetch(it.ref)
				}
			}
		}
		w.doEnum("", "", "")
		w.doClientEnum("3", "", 0, 0)
		var all []string
		for _, it := range w.pool {
			all = append(all, it.ref)
		}
		w.doStat("post", "1", "", all)
		w.doClientStat(all)
		w.r.Distinct(fmt.Sprintf("big-blobs/%s/%s/%s", c.sto, c.idx, c.root))
	}
	// the generated contents are not needed any more
	for k := range genReg {
		delete(genReg, k)
	}
}

func sizeClass(n int) string {
	const MiB = 1 << 20
	switch {
	case n < MiB:
		return "<1MiB"
	case n == MiB:
		return "=1MiB"
	case n == MiB+1:
		return "1MiB+1"
	case n == MiB+2:
		return "1MiB+2"
	case n >= 16*MiB-1:
		return "cap"
	}
	return ">1MiB"
}

func (w *world) scenarioMalformed() {
	w.newCase("malformed op stream")
	w.kinds = map[string]bool{}
	for _, l := range []string{"enum - - -", "frob", "cfg x y z", "cfg mem mem", "cfg mem mem bs", "put", "put zz", "put 2f - len -",
		"enum - -", "enum - - - -", "stat head 31 -", "stat post", "get", "get 2e2e", "head 73746174", "mp |", "mp 00 none",
		"cenum - - x 0", "cenum zz - 0 0", "ccache maybe", "cupload 00 - - 0", "cupload " + hx(w.tiny(1).ref) + " - - 2",
		"cstat 00", "cfetch", "cfetch 00", "enumpoll - - 2f - -", "statpoll", "PUT - - len -"} {
		out := w.op(l)
		if l != "cfg mem mem bs" && out != "bad-op" {
			w.r.Fail("malformed-op-answered", "a malformed op line was executed: "+l, "bad-op", out, w.r.CaseOps())
		}
	}
}

// probes: the witnesses of the findings, re-executed on the current tree (as op lines, so that the
// model answers them too)
func (w *world) probes() {
	a, b := w.tiny(1), w.tiny(2)
	for _, sto := range []string{"mem", "disk"} {
		if !w.begin("probe "+sto, sto, "mem", "bs") {
			continue
		}
		w.pool = []item{a, b, w.tiny(3)}
		w.doPut(a.ref, hb(a.content), a.content, false)
		w.doPut(b.ref, hb(b.content), b.content, false)
		// F-C18-1: maxwaitsec > 0 answered an empty list although blobs are there
		out := w.doEnum("", "", "1")
		if sto == "mem" {
			w.r.Probe("F-C18-1", !strings.Contains(out, ":"), "enumerate?maxwaitsec=1 over 2 blobs: "+trunc(out, 80))
		}
		// F-C18-2: limit=0 reached the storage: memory sent everything (with continueAfter), the others nothing
		out = w.doEnum("", "0", "")
		repro := strings.Count(out, ":") != 2 || !strings.HasSuffix(out, "cont=-")
		if sto == "mem" {
			w.r.Probe("F-C18-2", repro, "enumerate?limit=0 over 2 blobs on memory storage: "+trunc(out, 80))
		} else if repro {
			w.r.Probe("F-C18-2", true, "enumerate?limit=0 over 2 blobs on localdisk storage: "+trunc(out, 80))
		}
		// F-C18-3: Client.StatBlobs reported every found blob twice
		out = w.doClientStat([]string{a.ref, w.pool[2].ref})
		if sto == "mem" {
			w.r.Probe("F-C18-3", strings.Count(out, ":") != 1, "client.StatBlobs of one present blob: "+trunc(out, 80))
		}
		// F-C18-4: with a have-cache, a cached blob was reported again when another blob needed a request
		w.op("ccache on")
		w.doClientUpload(a, a.content, false)
		out = w.doClientStat([]string{a.ref, b.ref})
		if sto == "mem" {
			w.r.Probe("F-C18-4", strings.Count(out, ":") != 2, "client.StatBlobs of a cached and an uncached blob: "+trunc(out, 80))
		}
	}
}
