package c18

import (
	"context"
	"fmt"
	"strings"
	"sync"
	"testing"

	"perkeep.org/pkg/blob"
)

type memHave struct {
	mu sync.Mutex
	m  map[blob.Ref]uint32
}

func (h *memHave) StatBlobCache(br blob.Ref) (uint32, bool) {
	h.mu.Lock()
	defer h.mu.Unlock()
	s, ok := h.m[br]
	return s, ok
}
func (h *memHave) NoteBlobExists(br blob.Ref, size uint32) {
	h.mu.Lock()
	defer h.mu.Unlock()
	h.m[br] = size
}

func TestExplore(t *testing.T) {
	s, err := buildServer("mem", "mem", "bs")
	if err != nil {
		t.Fatal(err)
	}
	defer s.close()
	var refs []blob.Ref
	for _, c := range []string{"a", "b", "c"} {
		br := blob.RefFromString(c)
		refs = append(refs, br)
		s.do("PUT", s.root+"camli/"+br.String(), nil, strings.NewReader(c))
	}
	refs = append(refs, blob.RefFromString("missing"))
	for round := 0; round < 2; round++ {
		var mu sync.Mutex
		n := map[string]int{}
		err = s.cl.StatBlobs(context.Background(), refs, func(sb blob.SizedRef) error {
			mu.Lock()
			n[sb.Ref.String()[:12]]++
			mu.Unlock()
			return nil
		})
		fmt.Println("round", round, err, n)
		if round == 0 {
			s.cl.SetHaveCache(&memHave{m: map[blob.Ref]uint32{}})
		}
	}
	n := map[string]int{}
	var mu sync.Mutex
	err = s.cl.StatBlobs(context.Background(), refs, func(sb blob.SizedRef) error {
		mu.Lock()
		n[sb.Ref.String()[:12]]++
		mu.Unlock()
		return nil
	})
	fmt.Println("cached", err, n)
}
