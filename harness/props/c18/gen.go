package c18

// Generator and oracle of C18.  The oracle is the reference map (ref text -> bytes) kept here in Go,
// with real hashing: every answer of the implementation is checked against what the map semantics
// demand (independently of the Lean model, which gets the same op lines through ./check).

import (
	"crypto/sha1"
	"crypto/sha256"
	"encoding/hex"
	"fmt"
	"sort"
	"strconv"
	"strings"

	"perkeep.org/pkg/blob"

	"verifharness/hk"
)

type item struct {
	ref     string // canonical ref text
	content []byte
}

type world struct {
	r              *hk.Run
	st             *execState
	sto, idx, root string
	ref            map[string][]byte // the oracle: what an accepted upload put there
	pool           []item            // blobs of this case (some never uploaded)
	poisoned       bool              // a client upload was skipped with a body that is not the ref's content
	cache          bool
	kinds          map[string]bool
	pages          int
	stop           bool
}

func hx(s string) string   { return hk.Hex([]byte(s)) }
// hb: a content field of an op line: the generator's token for registered generated content, else hex
func hb(b []byte) string {
	if len(b) > 4096 {
		if g, ok := genReg[fmt.Sprintf("%d:%d", len(b), fnv32(b))]; ok && string(g.content) == string(b) {
			return g.tok
		}
	}
	return hk.Hex(b)
}

type genEntry struct {
	tok     string
	content []byte
}

// generated contents by (length, fnv32): so that op lines carry `r<seed>:<len>` instead of megabytes of hex
var genReg = map[string]genEntry{}

// genItem: a blob with generated content (schema-looking or plain), registered for hb
func genItem(schemaLooking bool, seed uint64, n int, refKind string) item {
	tok := fmt.Sprintf("r%d:%d", seed, n)
	c := genBlob(seed, n)
	if schemaLooking {
		tok = fmt.Sprintf("s%d:%d", seed, n)
		c, _ = schemaBlob(seed, n)
	}
	genReg[fmt.Sprintf("%d:%d", len(c), fnv32(c))] = genEntry{tok, c}
	return item{refOf(refKind, c), c}
}
func dec(n int) string     { return strconv.Itoa(n) }
func hdec(n int) string    { return hx(strconv.Itoa(n)) }
func short(s string) string { return trunc(s, 300) }

func trunc(s string, n int) string {
	if len(s) > n {
		return s[:n] + "…"
	}
	return s
}

func (w *world) op(line string) string {
	out := w.st.guarded(strings.Fields(line))
	w.r.Op(line, out)
	if i := strings.IndexByte(line, ' '); i > 0 {
		w.kinds[line[:i]] = true
	} else {
		w.kinds[line] = true
	}
	return out
}

func (st *execState) guarded(ws []string) string {
	return hk.Guard(func() string { return st.exec(ws) })
}

func (w *world) fail(sig, detail, expected, observed string) {
	w.r.Fail(sig, fmt.Sprintf("[%s/%s/%s] %s", w.sto, w.idx, w.root, detail), short(expected), short(observed), w.r.CaseOps())
}

// ---- blobs ----

func refOf(kind string, content []byte) string {
	switch kind {
	case "sha1":
		h := sha1.Sum(content)
		return "sha1-" + hex.EncodeToString(h[:])
	case "sha256":
		h := sha256.Sum256(content)
		return "sha256-" + hex.EncodeToString(h[:])
	}
	return blob.RefFromBytes(content).String()
}

var schemaKinds = []string{"bytes", "file", "directory", "static-set", "symlink", "frobnicate"}

func (w *world) newContent(big bool) []byte {
	R := w.r.R
	switch c := R.Intn(100); {
	case big:
		n := 32768 + R.Intn(9000) - 10
		b := R.Bytes(n)
		if R.Bool() {
			for i := range b {
				b[i] = 'a' + b[i]%26
			}
		}
		return b
	case c < 4:
		return nil
	case c < 12:
		return R.Bytes(1)
	case c < 40:
		// schema-looking JSON of a type the index accepts unsigned (through the cond root it is also
		// handed to the index)
		return []byte(fmt.Sprintf(`{"camliVersion": 1, "camliType": %q, "fileName": "f%d", "parts": []}`, R.Pick(schemaKinds), R.Intn(1<<30)))
	case c < 55:
		return []byte(fmt.Sprintf("text blob %d é ü", R.Intn(1<<30)))
	case c < 60:
		return []byte(fmt.Sprintf(`{"not": "schema", "n": %d}`, R.Intn(1<<30)))
	default:
		return R.Bytes(2 + R.Intn(60))
	}
}

func (w *world) newItem(big bool) item {
	c := w.newContent(big)
	kind := "sha224"
	switch x := w.r.R.Intn(10); {
	case x < 2:
		kind = "sha1"
	case x < 3:
		kind = "sha256"
	}
	return item{refOf(kind, c), c}
}

func (w *world) pick() item { return w.pool[w.r.R.Intn(len(w.pool))] }

func (w *world) present() []string {
	ks := make([]string, 0, len(w.ref))
	for k := range w.ref {
		ks = append(ks, k)
	}
	sort.Strings(ks)
	return ks
}

// remaining: the reference enumeration strictly after a cursor (any string)
func (w *world) remaining(after string) []pair {
	var out []pair
	for _, k := range w.present() {
		if k > after {
			out = append(out, pair{k, uint64(len(w.ref[k]))})
		}
	}
	return out
}

// mangled ref texts: things blob.Parse rejects, unknown hash names, non-canonical spellings
func (w *world) mangle(ref string) string {
	R := w.r.R
	switch R.Intn(12) {
	case 0:
		return strings.ToUpper(ref)
	case 1:
		return ref[:len(ref)-1]
	case 2:
		return ref + "0"
	case 3:
		return strings.Replace(ref, "-", "", 1)
	case 4:
		return "foo-" + ref[len(ref)-8:]
	case 5:
		return "foo-abc"
	case 6:
		return "1ab-" + ref[len(ref)-6:]
	case 7:
		return ""
	case 8:
		return ref[:strings.Index(ref, "-")+1]
	case 9:
		return "sha224-" + strings.Repeat("g", 56)
	case 10:
		return "upload"
	default:
		return ref[:len(ref)-2] + "zz"
	}
}

func validRef(t string) (blob.Ref, bool) { return blob.Parse(t) }

// hashOK: do these bytes hash to the ref (real hashing; unsupported hash => false)
func hashOK(t string, body []byte) bool {
	br, ok := blob.Parse(t)
	if !ok || !br.IsSupported() {
		return false
	}
	h := br.Hash()
	h.Write(body)
	return br.HashMatches(h)
}

// ---- uploads ----

func (w *world) trueField(it item) string { return hb(it.content) }

// corrupt: a body that does not hash to the ref
func (w *world) corrupt(it item) []byte {
	b := append([]byte(nil), it.content...)
	if len(b) == 0 || w.r.R.Chance(30) {
		return append(b, 'x')
	}
	b[w.r.R.Intn(len(b))] ^= 0x20
	return b
}

func (w *world) doPut(t string, trueF string, body []byte, chunked bool) {
	mode := "len"
	if chunked {
		mode = "chunked"
	}
	out := w.op("put " + hx(t) + " " + trueF + " " + mode + " " + hb(body))
	want := hashOK(t, body)
	if want {
		br, _ := validRef(t)
		if _, had := w.ref[br.String()]; !had {
			w.ref[br.String()] = body
		}
		if out != "204" {
			w.fail("put-valid-rejected", "PUT of a blob whose bytes hash to its ref", "204", out)
		}
		w.r.Hit("upload:put-accepted")
		return
	}
	if out == "204" {
		w.fail("put-invalid-accepted", fmt.Sprintf("PUT %q with bytes that do not hash to it", t), "400", out)
	}
	w.r.Hit("upload:put-rejected:" + out)
}

func (w *world) doMultipart(parts []mpart, trues []string) {
	var sb strings.Builder
	sb.WriteString("mp")
	for i, p := range parts {
		if i > 0 {
			sb.WriteString(" |")
		}
		sb.WriteString(" " + hx(p.name) + " " + trues[i] + " " + hb(p.body))
	}
	out := w.op(sb.String())
	// the reference: names that are not refs are skipped, the first part whose bytes do not hash to
	// its name ends the request, everything before it is stored and listed
	var exp []pair
	errText := false
	for _, p := range parts {
		br, ok := validRef(p.name)
		if !ok {
			errText = true
			continue
		}
		if !hashOK(p.name, p.body) {
			errText = true
			break
		}
		if _, had := w.ref[br.String()]; !had {
			w.ref[br.String()] = p.body
		}
		exp = append(exp, pair{br.String(), uint64(len(p.body))})
	}
	e := "err=0"
	if errText {
		e = "err=1"
	}
	want := join2(join2("200", showPairs(exp)), e)
	if out != want {
		w.fail("multipart-answer", "multipart upload: received list / errorText", want, out)
	}
	w.r.Hit(fmt.Sprintf("upload:multipart-parts=%d", bucket(len(parts))))
}

func bucket(n int) int {
	switch {
	case n <= 3:
		return n
	case n < 10:
		return 5
	case n < 100:
		return 10
	case n < 1000:
		return 100
	}
	return 1000
}

func (w *world) doClientUpload(it item, body []byte, skipStat bool) {
	_, had := w.ref[it.ref]
	ss := "0"
	if skipStat {
		ss = "1"
	}
	out := w.op("cupload " + hx(it.ref) + " " + w.trueField(it) + " " + hb(body) + " " + ss)
	good := hashOK(it.ref, body)
	w.r.Hit("mech:client-stat-then-upload")
	switch {
	case strings.HasPrefix(out, "ok "):
		if strings.HasSuffix(out, "skipped=1") {
			w.r.Hit("mech:client-upload-skipped")
			if !had {
				w.fail("client-upload-skipped-absent", "client.Upload reported Skipped for a blob the server does not have", "upload", out)
			}
			if !good {
				w.poisoned = true
			}
		} else {
			if !good {
				w.fail("client-upload-invalid-accepted", "client.Upload of bytes that do not hash to the ref succeeded", "err", out)
			} else if !had {
				w.ref[it.ref] = body
			}
			if out != fmt.Sprintf("ok %d skipped=0", len(body)) {
				w.fail("client-upload-size", "client.Upload result size", fmt.Sprintf("ok %d skipped=0", len(body)), out)
			}
		}
	case out == "err":
		if good {
			w.fail("client-upload-valid-failed", "client.Upload of a valid blob failed", "ok", out)
		}
		w.r.Hit("upload:client-rejected")
	default:
		w.fail("client-upload-answer", "client.Upload", "ok|err", out)
	}
}

// after an accepted upload: the blob is visible through every read path
func (w *world) checkVisible(ref string) {
	body, ok := w.ref[ref]
	if !ok {
		return
	}
	R := w.r.R
	if R.Chance(60) {
		w.doGet(ref, R.Chance(25))
	}
	if R.Chance(40) {
		w.doStat("post", "1", "", []string{ref})
	}
	if R.Chance(25) {
		w.doFetch(ref)
	}
	_ = body
}

// ---- reads ----

var getPat = func(t string) bool {
	i := strings.Index(t, "-")
	if i <= 0 || i == len(t)-1 {
		return false
	}
	name, hexs := t[:i], t[i+1:]
	if name[0] < 'a' || name[0] > 'z' {
		return false
	}
	for _, c := range name {
		if !(c >= 'a' && c <= 'z' || c >= '0' && c <= '9') {
			return false
		}
	}
	for _, c := range hexs {
		if !(c >= 'a' && c <= 'f' || c >= '0' && c <= '9') {
			return false
		}
	}
	return true
}

func (w *world) doGet(t string, head bool) {
	verb := "get"
	if head {
		verb = "head"
	}
	out := w.op(verb + " " + hx(t))
	br, ok := validRef(t)
	body, have := w.ref[br.String()]
	switch {
	case ok && getPat(t) && have:
		want := fmt.Sprintf("200 %d %s", len(body), showBody(body))
		if head {
			want = fmt.Sprintf("200 %d -", len(body))
		}
		if out != want {
			w.fail("get-present-wrong", verb+" of a present blob: bytes / Content-Length", want, out)
		}
		if len(body) < 32768 {
			w.r.Hit("mech:get-small-slurp")
		} else {
			w.r.Hit("mech:get-large-stream")
		}
	case ok && getPat(t):
		if out != "404" {
			w.fail("get-absent-not-404", verb+" of an absent blob", "404", out)
		}
		w.r.Hit("get:404")
	default:
		if strings.HasPrefix(out, "200") {
			w.fail("get-malformed-200", fmt.Sprintf("%s of a malformed ref %q answered a blob", verb, t), "400", out)
		}
		w.r.Hit("get:malformed:" + trunc(out, 3))
	}
}

// a ranged GET (oracle only: net/http's ServeContent does the slicing)
func (w *world) doRange(ref string) {
	body := w.ref[ref]
	if len(body) < 2 {
		return
	}
	a := w.r.R.Intn(len(body) - 1)
	b := a + w.r.R.Intn(len(body)-a)
	code, cl, data, err := w.st.s.rawGet("GET", ref, map[string]string{"Range": fmt.Sprintf("bytes=%d-%d", a, b)})
	w.r.ImplOnly("get-range")
	w.r.Hit("mech:get-range-slurp")
	if err != nil || code != 206 || int(cl) != b-a+1 || string(data) != string(body[a:b+1]) {
		w.fail("get-range-wrong", fmt.Sprintf("GET %s Range bytes=%d-%d", ref, a, b),
			fmt.Sprintf("206 %d %s", b-a+1, showBody(body[a:b+1])), fmt.Sprintf("%d %d %s %v", code, cl, showBody(data), err))
	}
}

func (w *world) doFetch(ref string) {
	out := w.op("cfetch " + hx(ref))
	br, _ := validRef(ref)
	if body, ok := w.ref[br.String()]; ok {
		want := fmt.Sprintf("ok %d %s", len(body), showBody(body))
		if out != want {
			w.fail("client-fetch-wrong", "client.Fetch of a present blob", want, out)
		}
	} else if out != "notexist" {
		w.fail("client-fetch-absent", "client.Fetch of an absent blob", "notexist", out)
	}
}

// doStat: vals are the blob1.. values ("" = absent)
func (w *world) doStat(method, ver, maxwait string, vals []string) {
	var sb strings.Builder
	sb.WriteString("stat " + method + " " + hx(ver) + " " + hx(maxwait))
	for _, v := range vals {
		sb.WriteString(" " + hx(v))
	}
	out := w.op(sb.String())
	w.checkStat(out, ver, vals, "")
}

func (w *world) checkStat(out, ver string, vals []string, suffix string) {
	considered := vals
	for i, v := range vals {
		if v == "" {
			considered = vals[:i]
			w.r.Hit("mech:stat-scan-stops-at-hole")
			break
		}
	}
	w.r.Hit(fmt.Sprintf("mech:stat-blobN-scan:n=%d", bucket(len(considered))))
	if ver == "" {
		if !strings.HasPrefix(out, "400") {
			w.fail("stat-noversion-accepted", "stat without camliversion", "400", out)
		}
		return
	}
	allValid := true
	for _, v := range considered {
		if _, ok := validRef(v); !ok {
			allValid = false
		}
	}
	switch {
	case len(considered) > 1000:
		w.r.Hit("mech:stat-over-cap")
		if !strings.HasPrefix(out, "400") {
			w.fail("stat-over-cap-accepted", fmt.Sprintf("stat of %d blobs", len(considered)), "400", out)
		}
	case !allValid:
		if !strings.HasPrefix(out, "400") {
			w.fail("stat-bogus-accepted", "stat with an unparsable ref", "400", out)
		}
	default:
		// exactly the present subset, true sizes, no duplicates
		seen := map[string]bool{}
		var exp []pair
		for _, v := range considered {
			br, _ := validRef(v)
			k := br.String()
			if body, ok := w.ref[k]; ok && !seen[k] {
				seen[k] = true
				exp = append(exp, pair{k, uint64(len(body))})
			}
		}
		sortPairs(exp)
		want := join2("200", showPairs(exp)) + suffix
		if out != want {
			w.fail("stat-not-exact", fmt.Sprintf("stat of %d blobs (within the cap)", len(considered)), want, out)
		}
		if len(considered) == 1000 {
			w.r.Hit("mech:stat-at-cap")
		}
	}
}

func isDigits(s string) bool {
	if s == "" {
		return false
	}
	for _, c := range s {
		if c < '0' || c > '9' {
			return false
		}
	}
	return true
}

// atoiNonZero: would strconv.Atoi give a non-zero number (the oracle's reading of "a wait was asked")
func atoiNonZero(s string) (nonzero, positive bool) {
	t := s
	neg := false
	if strings.HasPrefix(t, "-") {
		neg, t = true, t[1:]
	} else if strings.HasPrefix(t, "+") {
		t = t[1:]
	}
	if !isDigits(t) || strings.Trim(t, "0") == "" {
		return false, false
	}
	return true, !neg
}

func parsePairs(ws []string) ([]pair, bool) {
	var out []pair
	for _, x := range ws {
		i := strings.IndexByte(x, ':')
		if i < 0 {
			return nil, false
		}
		k, ok := hk.UnHex(x[:i])
		n, err := strconv.ParseUint(x[i+1:], 10, 64)
		if !ok || err != nil {
			return nil, false
		}
		out = append(out, pair{string(k), n})
	}
	return out, true
}

// checkPage: one enumerate answer against the reference map.  quiescent: nothing is uploaded meanwhile.
func (w *world) checkPage(out, after, limit, maxwait string, rem []pair) (page []pair, cont string, ok bool) {
	nz, _ := atoiNonZero(maxwait)
	if out == "400" {
		if !(after != "" && nz) {
			w.fail("enum-400", fmt.Sprintf("enumerate after=%q limit=%q maxwaitsec=%q refused", after, limit, maxwait), "200", out)
		}
		w.r.Hit("enum:400-after-with-maxwaitsec")
		return nil, "", false
	}
	f := strings.Fields(out)
	if len(f) < 2 || f[0] != "200" || !strings.HasPrefix(f[len(f)-1], "cont=") {
		w.fail("enum-answer", "enumerate answer", "200 … cont=", out)
		return nil, "", false
	}
	if after != "" && nz {
		w.fail("enum-after-with-wait-accepted", "enumerate with after and a non-zero maxwaitsec", "400", out)
	}
	cb, ok1 := hk.UnHex(f[len(f)-1][5:])
	page, ok2 := parsePairs(f[1 : len(f)-1])
	if !ok1 || !ok2 {
		w.fail("enum-answer", "enumerate answer", "200 … cont=", out)
		return nil, "", false
	}
	cont = string(cb)
	// P1: the page is a gap-free prefix of what the map holds after the cursor (ascending, true sizes)
	if len(page) > len(rem) || showPairs(page) != showPairs(rem[:len(page)]) {
		w.fail("enum-page-not-prefix", fmt.Sprintf("enumerate after=%q limit=%q maxwaitsec=%q: page is not the next blobs of the map", after, limit, maxwait),
			showPairs(rem), showPairs(page))
		return page, cont, false
	}
	// P2: at most `limit`
	if isDigits(limit) && len(limit) < 9 {
		n, _ := strconv.Atoi(limit)
		if n >= 1 && len(page) > n {
			w.fail("enum-over-limit", fmt.Sprintf("enumerate limit=%s returned %d blobs", limit, len(page)), "≤ "+limit, dec(len(page)))
		}
	}
	// P3: truncated <=> continueAfter (= the last ref sent)
	if cont == "" {
		if len(page) != len(rem) {
			w.fail("enum-truncated-without-continue", fmt.Sprintf("enumerate after=%q limit=%q maxwaitsec=%q stopped after %d of %d blobs without continueAfter",
				after, limit, maxwait, len(page), len(rem)), showPairs(rem), out)
			return page, cont, false
		}
	} else {
		w.r.Hit("mech:continueAfter-full-page")
		if len(page) == 0 || cont != page[len(page)-1].ref {
			w.fail("enum-continue-not-last", "continueAfter is not the last ref of the page", "", out)
			return page, cont, false
		}
	}
	return page, cont, true
}

func (w *world) doEnum(after, limit, maxwait string) string {
	out := w.op("enum " + hx(after) + " " + hx(limit) + " " + hx(maxwait))
	w.checkPage(out, after, limit, maxwait, w.remaining(after))
	if nz, pos := atoiNonZero(maxwait); nz && pos && after == "" {
		w.r.Hit("mech:enum-long-poll-branch")
	}
	return out
}

// rawPaging: a protocol client written here: follow continueAfter with a fixed limit
func (w *world) rawPaging(limit string) {
	after := ""
	var all []pair
	for i := 0; i < len(w.ref)+3; i++ {
		rem := w.remaining(after)
		out := w.op("enum " + hx(after) + " " + hx(limit) + " -")
		page, cont, ok := w.checkPage(out, after, limit, "", rem)
		if !ok {
			return
		}
		all = append(all, page...)
		w.pages++
		if cont == "" {
			break
		}
		if len(page) > 0 && len(rem) == len(page) {
			w.r.Hit("mech:extra-empty-page-when-count-is-multiple-of-limit")
		}
		after = cont
	}
	if showPairs(all) != showPairs(w.remaining("")) {
		w.fail("paging-incomplete", "following continueAfter with limit="+limit, showPairs(w.remaining("")), showPairs(all))
	}
}

func (w *world) doClientEnum(batch, after string, optLimit, waitSec int) {
	b := "-"
	if batch != "" {
		b = hx(batch)
	}
	n0 := *w.st.s.enumReqs
	out := w.op("cenum " + b + " " + hx(after) + " " + dec(optLimit) + " " + dec(waitSec))
	if reqs := *w.st.s.enumReqs - n0; reqs > 1 {
		w.r.Hit("mech:client-follows-continueAfter")
		w.pages += reqs
	}
	if after != "" && waitSec != 0 {
		if out != "err" {
			w.fail("client-enum-after-with-wait", "EnumerateBlobsOpts with After and MaxWait", "err", out)
		}
		return
	}
	exp := w.remaining(after)
	if optLimit > 0 && len(exp) > optLimit {
		exp = exp[:optLimit]
	}
	want := join2("ok", showPairs(exp))
	if out != want {
		w.fail("client-enum-not-complete", fmt.Sprintf("EnumerateBlobsOpts after=%q Limit=%d MaxWait=%ds with server page size %q: not every blob exactly once in order",
			after, optLimit, waitSec, batch), want, out)
	}
	if waitSec > 0 {
		w.r.Hit("mech:client-enum-long-poll")
	}
}

func (w *world) doClientStat(refs []string) string {
	var sb strings.Builder
	sb.WriteString("cstat")
	for _, k := range refs {
		sb.WriteString(" " + hx(k))
	}
	out := w.op(sb.String())
	var exp []pair
	for _, k := range refs {
		br, _ := validRef(k)
		if body, ok := w.ref[br.String()]; ok {
			exp = append(exp, pair{br.String(), uint64(len(body))})
		}
	}
	sortPairs(exp)
	want := join2("ok", showPairs(exp))
	if out == want {
		return out
	}
	if w.poisoned {
		// sizes may come from a have-cache that a mis-keyed upload filled: compare refs only
		f := strings.Fields(out)
		if len(f) > 0 && f[0] == "ok" {
			if got, ok := parsePairs(f[1:]); ok && len(got) == len(exp) {
				same := true
				for i := range got {
					same = same && got[i].ref == exp[i].ref
				}
				if same {
					w.r.Hit("client-stat:size-from-poisoned-cache")
					return out
				}
			}
		}
	}
	w.fail("client-stat-not-exact", fmt.Sprintf("client.StatBlobs of %d refs: each present blob exactly once with its size", len(refs)), want, out)
	return out
}

// ---- histories ----

var limitTexts = []string{"", "", "0", "1", "1", "2", "2", "3", "4", "5", "7", "10", "100", "00002", "10000", "10001", "99999999999", "4294967296", "x", "+1", "-1", "1_0", "2 ", "1e1"}
var waitTexts = []string{"", "", "", "0", "00", "-3", "x", "+0", "-0", "1", "2", "30", "31", "+7", "99999999999999999999", "1s"}

func (w *world) cursor() string {
	R := w.r.R
	ks := w.present()
	switch c := R.Intn(10); {
	case c < 3 || len(ks) == 0:
		return ""
	case c < 6:
		return ks[R.Intn(len(ks))]
	case c < 7:
		k := ks[R.Intn(len(ks))]
		return k[:len(k)-1]
	case c < 8:
		return ks[R.Intn(len(ks))] + "0"
	case c < 9:
		return R.Pick([]string{"sha1-", "sha224-", "sha", "t", "zzzz", "sha224-8", "SHA224-", "\x00", "é"})
	default:
		return w.pick().ref
	}
}

func (w *world) uploadSome() {
	R := w.r.R
	it := w.pick()
	switch c := R.Intn(100); {
	case c < 30:
		body, tf := it.content, w.trueField(it)
		if R.Chance(12) {
			body = w.corrupt(it)
		}
		w.doPut(it.ref, tf, body, R.Chance(30))
		w.checkVisible(it.ref)
	case c < 38:
		// malformed / unsupported / non-canonical path element
		t := w.mangle(it.ref)
		if !plainElem(t) {
			return
		}
		w.doPut(t, "none", it.content, R.Chance(30))
	case c < 70:
		n := 1 + R.Intn(5)
		if R.Chance(10) {
			n = 0
		}
		var parts []mpart
		var trues []string
		for i := 0; i < n; i++ {
			p := w.pick()
			switch d := R.Intn(100); {
			case d < 8:
				parts = append(parts, mpart{p.ref, w.corrupt(p)})
				trues = append(trues, w.trueField(p))
			case d < 16:
				parts = append(parts, mpart{R.Pick([]string{"file", "x", "foo-abc", strings.ToUpper(p.ref), p.ref + "0", "sha224-12"}), p.content})
				trues = append(trues, "none")
			default:
				parts = append(parts, mpart{p.ref, p.content})
				trues = append(trues, w.trueField(p))
			}
		}
		w.doMultipart(parts, trues)
		if len(parts) > 0 {
			w.checkVisible(parts[R.Intn(len(parts))].name)
		}
	default:
		body := it.content
		if R.Chance(10) {
			body = w.corrupt(it)
		}
		w.doClientUpload(it, body, R.Chance(35))
		w.checkVisible(it.ref)
	}
}

func (w *world) statSome() {
	R := w.r.R
	n := R.Intn(7)
	if R.Chance(15) {
		n = 8 + R.Intn(30)
	}
	vals := make([]string, n)
	for i := range vals {
		vals[i] = w.pick().ref
		switch d := R.Intn(100); {
		case d < 4:
			vals[i] = "" // a hole: the scan stops here
		case d < 8:
			vals[i] = w.mangle(vals[i])
		case d < 14 && i > 0:
			vals[i] = vals[R.Intn(i)] // a duplicate
		}
	}
	ver := "1"
	if R.Chance(6) {
		ver = ""
	}
	mw := ""
	// a wait blocks until the deadline when a blob is missing: only ask for one when nothing is
	allPresent := true
	for _, v := range vals {
		br, ok := validRef(v)
		if _, have := w.ref[br.String()]; v == "" || !ok || !have {
			allPresent = false
		}
	}
	if allPresent && R.Chance(50) {
		mw = R.Pick([]string{"1", "5", "30", "99", "-2", "x"})
		w.r.Hit("mech:stat-maxwaitsec-all-present")
	} else if R.Chance(10) {
		mw = R.Pick([]string{"0", "-2", "x", "+0"})
	}
	w.doStat(R.Pick([]string{"get", "post", "post"}), ver, mw, vals)
}

func (w *world) enumSome() {
	R := w.r.R
	after := w.cursor()
	limit := R.Pick(limitTexts)
	if R.Chance(30) {
		limit = dec(R.Intn(len(w.ref) + 3))
	}
	mw := R.Pick(waitTexts)
	if _, pos := atoiNonZero(mw); pos && after == "" && len(w.ref) == 0 {
		mw = "" // would block until the deadline
	}
	w.doEnum(after, limit, mw)
}

func (w *world) clientEnumSome() {
	R := w.r.R
	batch := ""
	switch c := R.Intn(10); {
	case c < 2:
	case c < 8:
		batch = dec(1 + R.Intn(len(w.ref)+2))
	default:
		batch = R.Pick([]string{"1", "2", "0", "x", "10001", "00003"})
	}
	after := ""
	if R.Chance(35) {
		after = w.cursor()
	}
	optLimit := 0
	if R.Chance(35) {
		optLimit = 1 + R.Intn(len(w.ref)+2)
	}
	waitSec := 0
	if R.Chance(25) && (len(w.ref) > 0 || after != "") {
		waitSec = 1 + R.Intn(3)
	}
	w.doClientEnum(batch, after, optLimit, waitSec)
}

func (w *world) history(nOps int) {
	R := w.r.R
	for i := 0; i < nOps && !w.stop; i++ {
		switch c := R.Intn(100); {
		case c < 30:
			w.uploadSome()
		case c < 45:
			w.statSome()
		case c < 57:
			it := w.pick()
			t := it.ref
			if R.Chance(20) {
				t = w.mangle(t)
				if !plainElem(t) {
					continue
				}
			}
			w.doGet(t, R.Chance(25))
		case c < 60:
			if ks := w.present(); len(ks) > 0 {
				w.doRange(ks[R.Intn(len(ks))])
			}
		case c < 75:
			w.enumSome()
		case c < 85:
			w.clientEnumSome()
		case c < 92:
			n := R.Intn(6)
			seen := map[string]bool{}
			var refs []string
			for j := 0; j < n; j++ {
				k := w.pick().ref
				if !seen[k] || R.Chance(5) {
					refs = append(refs, k)
				}
				seen[k] = true
			}
			w.doClientStat(refs)
		case c < 95:
			w.doFetch(w.pick().ref)
		default:
			w.cache = !w.cache
			if w.cache {
				w.op("ccache on")
			} else {
				w.op("ccache off")
			}
		}
	}
}

// sweep: at the end of a history every read path is compared with the whole map
func (w *world) sweep() {
	R := w.r.R
	w.doClientEnum("", "", 0, 0)
	w.doClientEnum(dec(1+R.Intn(len(w.ref)+1)), "", 0, 0)
	w.rawPaging(dec(1 + R.Intn(len(w.ref)+1)))
	if n := len(w.ref); n > 0 && n < 200 {
		// a limit that divides the count: the last full page is followed by an empty one
		for d := 1; d <= n; d++ {
			if n%d == 0 && (d > 1 || n < 8) {
				w.rawPaging(dec(d))
				break
			}
		}
	}
	var all []string
	for _, it := range w.pool {
		all = append(all, it.ref)
	}
	if len(all) <= 1000 {
		w.doStat("post", "1", "", all)
	}
	for _, k := range w.present() {
		if len(w.ref) < 40 || R.Chance(20) {
			w.doGet(k, false)
		}
	}
}

// newCase: a case marker resets the model; the implementation side starts from nothing too
func (w *world) newCase(label string) {
	w.r.Case(label)
	w.st.s = nil
	setLive(nil)
}

func (w *world) begin(label, sto, idx, root string) bool {
	w.newCase(label)
	w.sto, w.idx, w.root = sto, idx, root
	w.ref = map[string][]byte{}
	w.kinds = map[string]bool{}
	w.pool, w.poisoned, w.cache, w.pages = nil, false, false, 0
	out := w.op("cfg " + sto + " " + idx + " " + root)
	if out != "ok" {
		w.fail("cfg-failed", "the server could not be built from the high-level configuration", "ok", out)
		return false
	}
	w.r.Hit("config:" + sto + "/" + idx)
	w.r.Hit("root:" + root)
	return true
}

func (w *world) finish() {
	ks := make([]string, 0, len(w.kinds))
	for k := range w.kinds {
		ks = append(ks, k)
	}
	sort.Strings(ks)
	if len(w.ref) >= 2 && w.pages >= 2 {
		w.r.Distinct(fmt.Sprintf("%s/%s/%s|%s|n=%d|pages=%d", w.sto, w.idx, w.root, strings.Join(ks, ","), len(w.ref), w.pages))
	}
}

func Run(r *hk.Run) {
	st := &execState{}
	w := &world{r: r, st: st}
	defer setLive(nil)
	R := r.R
	r.Res.Rule = "a case = one in-process server built by serverinit from a high-level configuration (storage memory/localdisk/diskpacked/blobpacked × index memory/leveldb/kv/sqlite; blob root /bs/, /bs-and-maybe-also-index/, or raw uploads through the replica /bs-and-index/ with reads on /bs/) behind an httptest.Server, then a random history of raw protocol requests (PUT with and without Content-Length, multipart with 0–5 parts, batch stat by GET and POST with holes, duplicates, bogus refs, 0..1002 blobs, GET/HEAD/Range, enumerate with every limit text, cursor and maxwaitsec text) and pkg/client calls (Upload with and without pre-stat and have-cache, StatBlobs, Fetch, EnumerateBlobsOpts with its page size rewritten by the transport to every value, After, Limit, MaxWait), ended by a sweep (client enumeration, raw paging with two limits, stat of the whole pool, GET of every blob). Every answer is checked against the reference map here and, line by line, against the Lean model. distinct_nontrivial = distinct (configuration, set of op kinds, number of blobs stored, number of enumerate pages fetched) tuples of histories that stored ≥ 2 blobs and paged through ≥ 2 pages, plus one per directed scenario and configuration (stat cap, long poll, big store, packed file, and blobs of 1 MiB−1 … 2 MiB / 16 MiB with generated plain and schema-looking content through PUT, chunked PUT, multipart, Client.Upload with and without pre-stat, on the cond root, the bs+index replica and the storage itself)"

	type conf struct{ sto, idx, root string }
	var confs []conf
	for _, sto := range storageKinds {
		for _, idx := range indexKinds {
			confs = append(confs, conf{sto, idx, "bs"}, conf{sto, idx, "cond"})

		}
	}
	rounds, nOps, poolN := 1, 80, 14
	if r.Thorough() {
		rounds, nOps, poolN = 6, 160, 24
	}
	for round := 0; round < rounds; round++ {
		for _, c := range confs {
			if !w.begin(fmt.Sprintf("history %s/%s/%s", c.sto, c.idx, c.root), c.sto, c.idx, c.root) {
				continue
			}
			n := poolN/2 + R.Intn(poolN)
			for j := 0; j < n; j++ {
				w.pool = append(w.pool, w.newItem(j == 3 && R.Chance(60)))
			}
			w.history(nOps/2 + R.Intn(nOps))
			w.sweep()
			w.finish()
			if len(r.Res.Samples) < 4 {
				r.Sample(map[string]any{"config": c, "blobs": len(w.ref), "last_ops": tail(r.CaseOps(), 3)})
			}
		}
	}
	w.scenarioStatCap()
	w.scenarioLongPoll()
	w.scenarioBigStore(1050)
	if r.Thorough() {
		w.scenarioBigStore(10030)
		w.scenarioPackedFile("blobpacked")
		w.scenarioPackedFile("diskpacked")
	} else {
		w.scenarioPackedFile("blobpacked")
	}
	w.scenarioBigBlobs()
	w.scenarioMalformed()
	w.probes()
}

func tail(xs []string, n int) []string {
	if len(xs) > n {
		xs = xs[len(xs)-n:]
	}
	out := make([]string, len(xs))
	for i, x := range xs {
		out[i] = trunc(x, 160)
	}
	return out
}
