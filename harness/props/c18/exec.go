package c18

// The interpreter of the C18 line protocol (see lean/PkVerif/Drv/C18.lean) on the real code: raw HTTP
// requests against the in-process server, and pkg/client against the same server.

import (
	"bytes"
	"context"
	"encoding/json"
	"errors"
	"fmt"
	"io"
	"mime/multipart"
	"net/http"
	"net/url"
	"os"
	"sort"
	"strconv"
	"strings"
	"sync"
	"time"

	"perkeep.org/pkg/blob"
	"perkeep.org/pkg/client"

	"verifharness/hk"
)

var ctx = context.Background()

// memHave is a HaveCache (what pk-put keeps on disk), in memory
type memHave struct {
	mu sync.Mutex
	m  map[blob.Ref]uint32
}

func (h *memHave) StatBlobCache(br blob.Ref) (uint32, bool) {
	h.mu.Lock()
	defer h.mu.Unlock()
	s, ok := h.m[br]
	return s, ok
}

func (h *memHave) NoteBlobExists(br blob.Ref, size uint32) {
	h.mu.Lock()
	defer h.mu.Unlock()
	h.m[br] = size
}

type execState struct {
	s *server
}

// one server is alive at a time (also across interpreters: the replay mode makes a new one per case)
var (
	liveMu sync.Mutex
	live   *server
)

func setLive(s *server) {
	liveMu.Lock()
	defer liveMu.Unlock()
	if live != nil && live != s {
		live.close()
	}
	live = s
}

func NewExec() func(w []string) string {
	st := &execState{}
	setLive(nil)
	return func(w []string) string {
		return hk.Guard(func() string { return st.exec(w) })
	}
}

type pair struct {
	ref  string
	size uint64
}

func showPairs(ps []pair) string {
	parts := make([]string, len(ps))
	for i, p := range ps {
		parts[i] = hk.Hex([]byte(p.ref)) + ":" + strconv.FormatUint(p.size, 10)
	}
	return strings.Join(parts, " ")
}

func sortPairs(ps []pair) {
	sort.SliceStable(ps, func(i, j int) bool {
		if ps[i].ref != ps[j].ref {
			return ps[i].ref < ps[j].ref
		}
		return ps[i].size < ps[j].size
	})
}

func join2(a, b string) string {
	if b == "" {
		return a
	}
	return a + " " + b
}

// plainElem: a path element that reaches the blob handlers as it is (no slash, not a dot segment the
// mux would redirect, not one of the router's action names)
func plainElem(t string) bool {
	return !strings.Contains(t, "/") && t != "." && t != ".." && t != "enumerate-blobs" && t != "stat" && t != "ws"
}

type sizedJSON struct {
	BlobRef string `json:"blobRef"`
	Size    uint64 `json:"size"`
}

// chunkedBody hides the length of its reader, so that net/http sends the body chunked
type chunkedBody struct{ io.Reader }

func (s *server) rawPut(t string, chunked bool, body []byte) string {
	var rd io.Reader = bytes.NewReader(body)
	if chunked {
		rd = chunkedBody{rd}
	}
	resp, _, err := s.do("PUT", s.wroot+"camli/"+url.PathEscape(t), nil, rd)
	if err != nil {
		return "err"
	}
	return strconv.Itoa(resp.StatusCode)
}

type mpart struct {
	name string
	body []byte
}

func (s *server) rawMultipart(parts []mpart) string {
	var buf bytes.Buffer
	mw := multipart.NewWriter(&buf)
	for _, p := range parts {
		w, err := mw.CreateFormFile(p.name, p.name)
		if err != nil {
			return "bad-op"
		}
		w.Write(p.body)
	}
	mw.Close()
	resp, data, err := s.do("POST", s.wroot+"camli/upload", map[string]string{"Content-Type": mw.FormDataContentType()}, &buf)
	if err != nil {
		return "err"
	}
	if resp.StatusCode != 200 {
		return strconv.Itoa(resp.StatusCode)
	}
	var ur struct {
		Received  []sizedJSON `json:"received"`
		ErrorText string      `json:"errorText"`
	}
	if err := json.Unmarshal(data, &ur); err != nil {
		return "200 badjson"
	}
	ps := make([]pair, len(ur.Received))
	for i, e := range ur.Received {
		ps[i] = pair{e.BlobRef, e.Size}
	}
	e := "err=0"
	if ur.ErrorText != "" {
		e = "err=1"
	}
	return join2(join2("200", showPairs(ps)), e)
}

func (s *server) rawStat(method string, ver, maxwait []byte, vals [][]byte) string {
	form := url.Values{}
	if len(ver) > 0 {
		form.Set("camliversion", string(ver))
	}
	if len(maxwait) > 0 {
		form.Set("maxwaitsec", string(maxwait))
	}
	for i, v := range vals {
		if len(v) > 0 {
			form.Set("blob"+strconv.Itoa(i+1), string(v))
		}
	}
	var resp *http.Response
	var data []byte
	var err error
	if method == "get" {
		resp, data, err = s.do("GET", s.root+"camli/stat?"+form.Encode(), nil, nil)
	} else {
		resp, data, err = s.do("POST", s.root+"camli/stat", map[string]string{"Content-Type": "application/x-www-form-urlencoded"},
			strings.NewReader(form.Encode()))
	}
	if err != nil {
		return "err"
	}
	switch resp.StatusCode {
	case 200:
		var sr struct {
			Stat []sizedJSON `json:"stat"`
		}
		if err := json.Unmarshal(data, &sr); err != nil {
			return "200 badjson"
		}
		ps := make([]pair, len(sr.Stat))
		for i, e := range sr.Stat {
			ps[i] = pair{e.BlobRef, e.Size}
		}
		sortPairs(ps)
		return join2("200", showPairs(ps))
	}
	// (the reason of a 400 is only logged: the body is a constant)
	return strconv.Itoa(resp.StatusCode)
}

func (s *server) rawGet(method, t string, hdr map[string]string) (code int, cl int64, body []byte, err error) {
	resp, data, err := s.do(method, s.root+"camli/"+url.PathEscape(t), hdr, nil)
	if err != nil {
		return 0, 0, nil, err
	}
	return resp.StatusCode, resp.ContentLength, data, nil
}

type enumAnswer struct {
	code  int
	blobs []pair
	cont  string
	bad   bool
}

func (a enumAnswer) String() string {
	if a.bad {
		return strconv.Itoa(a.code) + " badjson"
	}
	if a.code != 200 {
		return strconv.Itoa(a.code)
	}
	return join2(join2("200", showPairs(a.blobs)), "cont="+hk.Hex([]byte(a.cont)))
}

func (s *server) rawEnum(after, limit, maxwait []byte) (enumAnswer, error) {
	q := url.Values{}
	if len(after) > 0 {
		q.Set("after", string(after))
	}
	if len(limit) > 0 {
		q.Set("limit", string(limit))
	}
	if len(maxwait) > 0 {
		q.Set("maxwaitsec", string(maxwait))
	}
	p := s.root + "camli/enumerate-blobs"
	if len(q) > 0 {
		p += "?" + q.Encode()
	}
	resp, data, err := s.do("GET", p, nil, nil)
	if err != nil {
		return enumAnswer{}, err
	}
	a := enumAnswer{code: resp.StatusCode}
	if resp.StatusCode != 200 {
		return a, nil
	}
	var er struct {
		Blobs         []sizedJSON `json:"blobs"`
		ContinueAfter string      `json:"continueAfter"`
	}
	if err := json.Unmarshal(data, &er); err != nil {
		a.bad = true
		return a, nil
	}
	for _, e := range er.Blobs {
		a.blobs = append(a.blobs, pair{e.BlobRef, e.Size})
	}
	a.cont = er.ContinueAfter
	return a, nil
}

// during: starts `long` (a long-polling request), lets it run for a moment, then runs `then` (an upload)
func during(long func() string, then func() string) (string, string) {
	done := make(chan string, 1)
	go func() { done <- hk.Guard(long) }()
	var first string
	got := false
	select {
	case first = <-done:
		got = true
	case <-time.After(100 * time.Millisecond):
	}
	second := then()
	if !got {
		first = <-done
	}
	return first, second
}

func unhexAll(ws []string) ([][]byte, bool) {
	out := make([][]byte, len(ws))
	for i, w := range ws {
		b, ok := hk.UnHex(w)
		if !ok {
			return nil, false
		}
		out[i] = b
	}
	return out, true
}

func parseRefs(ws []string) ([]blob.Ref, bool) {
	bs, ok := unhexAll(ws)
	if !ok {
		return nil, false
	}
	out := make([]blob.Ref, len(bs))
	for i, b := range bs {
		br, ok := blob.Parse(string(b))
		if !ok {
			return nil, false
		}
		out[i] = br
	}
	return out, true
}

func (st *execState) exec(w []string) string {
	if len(w) == 0 {
		return "bad-op"
	}
	if w[0] == "cfg" {
		if len(w) != 4 {
			return "bad-op"
		}
		st.s = nil
		setLive(nil)
		s, err := buildServer(w[1], w[2], w[3])
		if err != nil {
			return "bad-op"
		}
		st.s = s
		setLive(s)
		return "ok"
	}
	s := st.s
	if s == nil {
		return "bad-op"
	}
	switch w[0] {
	case "put":
		if len(w) != 5 || (w[3] != "len" && w[3] != "chunked") {
			return "bad-op"
		}
		t, ok1 := hk.UnHex(w[1])
		_, ok2 := matcherOK(w[2])
		body, ok3 := contentTok(w[4])
		if !ok1 || !ok2 || !ok3 || !plainElem(string(t)) {
			return "bad-op"
		}
		return s.rawPut(string(t), w[3] == "chunked", body)
	case "mp":
		var parts []mpart
		if len(w) > 1 {
			for _, g := range splitBar(w[1:]) {
				if len(g) != 3 {
					return "bad-op"
				}
				n, ok1 := hk.UnHex(g[0])
				_, ok2 := matcherOK(g[1])
				b, ok3 := contentTok(g[2])
				if !ok1 || !ok2 || !ok3 {
					return "bad-op"
				}
				parts = append(parts, mpart{string(n), b})
			}
		}
		return s.rawMultipart(parts)
	case "stat":
		if len(w) < 4 || (w[1] != "get" && w[1] != "post") {
			return "bad-op"
		}
		hs, ok := unhexAll(w[2:])
		if !ok {
			return "bad-op"
		}
		return s.rawStat(w[1], hs[0], hs[1], hs[2:])
	case "get", "head":
		if len(w) != 2 {
			return "bad-op"
		}
		t, ok := hk.UnHex(w[1])
		if !ok || !plainElem(string(t)) {
			return "bad-op"
		}
		code, cl, body, err := s.rawGet(strings.ToUpper(w[0]), string(t), nil)
		if err != nil {
			return "err"
		}
		if code != 200 {
			return strconv.Itoa(code)
		}
		if w[0] == "head" {
			if len(body) != 0 {
				return "200 head-with-body"
			}
			return fmt.Sprintf("200 %d -", cl)
		}
		return fmt.Sprintf("200 %d %s", cl, showBody(body))
	case "enum":
		if len(w) != 4 {
			return "bad-op"
		}
		hs, ok := unhexAll(w[1:])
		if !ok {
			return "bad-op"
		}
		a, err := s.rawEnum(hs[0], hs[1], hs[2])
		if err != nil {
			return "err"
		}
		return a.String()
	case "enumpoll":
		if len(w) != 6 {
			return "bad-op"
		}
		hs, ok := unhexAll([]string{w[1], w[2], w[3], w[5]})
		_, ok2 := matcherOK(w[4])
		if !ok || !ok2 || !plainElem(string(hs[2])) {
			return "bad-op"
		}
		first, second := during(func() string {
			a, err := s.rawEnum(nil, hs[0], hs[1])
			if err != nil {
				return "err"
			}
			return a.String()
		}, func() string { return s.rawPut(string(hs[2]), false, hs[3]) })
		return first + " put=" + second
	case "statpoll":
		if len(w) < 5 {
			return "bad-op"
		}
		hs, ok := unhexAll([]string{w[1], w[2], w[4]})
		_, ok2 := matcherOK(w[3])
		vals, ok3 := unhexAll(w[5:])
		if !ok || !ok2 || !ok3 || !plainElem(string(hs[1])) {
			return "bad-op"
		}
		first, second := during(func() string { return s.rawStat("post", []byte("1"), hs[0], vals) },
			func() string { return s.rawPut(string(hs[1]), false, hs[2]) })
		return first + " put=" + second
	case "cenum":
		if len(w) != 5 {
			return "bad-op"
		}
		batch := ""
		if w[1] != "-" {
			b, ok := hk.UnHex(w[1])
			if !ok {
				return "bad-op"
			}
			batch = string(b)
		}
		after, ok := hk.UnHex(w[2])
		ol, err1 := strconv.ParseUint(w[3], 10, 31)
		ws, err2 := strconv.ParseUint(w[4], 10, 31)
		if !ok || err1 != nil || err2 != nil {
			return "bad-op"
		}
		*s.limitRewrite = batch
		defer func() { *s.limitRewrite = "" }()
		ch := make(chan blob.SizedRef, 16)
		errc := make(chan error, 1)
		go func() {
			errc <- s.cl.EnumerateBlobsOpts(ctx, ch, client.EnumerateOpts{After: string(after),
				MaxWait: time.Duration(ws) * time.Second, Limit: int(ol)})
		}()
		var ps []pair
		for sb := range ch {
			ps = append(ps, pair{sb.Ref.String(), uint64(sb.Size)})
		}
		res := "ok"
		if err := <-errc; err != nil {
			res = "err"
		}
		return join2(res, showPairs(ps))
	case "ccache":
		if len(w) != 2 {
			return "bad-op"
		}
		switch w[1] {
		case "on":
			s.cl.SetHaveCache(&memHave{m: map[blob.Ref]uint32{}})
		case "off":
			s.cl.SetHaveCache(nil)
		default:
			return "bad-op"
		}
		return "ok"
	case "cstat":
		refs, ok := parseRefs(w[1:])
		if !ok {
			return "bad-op"
		}
		var mu sync.Mutex
		var ps []pair
		err := s.cl.StatBlobs(ctx, refs, func(sb blob.SizedRef) error {
			mu.Lock()
			defer mu.Unlock()
			ps = append(ps, pair{sb.Ref.String(), uint64(sb.Size)})
			return nil
		})
		sortPairs(ps)
		res := "ok"
		if err != nil {
			res = "err"
		}
		return join2(res, showPairs(ps))
	case "cupload":
		if len(w) != 5 || (w[4] != "0" && w[4] != "1") {
			return "bad-op"
		}
		refs, ok := parseRefs(w[1:2])
		_, ok2 := matcherOK(w[2])
		body, ok3 := contentTok(w[3])
		if !ok || !ok2 || !ok3 {
			return "bad-op"
		}
		pr, err := s.cl.Upload(ctx, &client.UploadHandle{BlobRef: refs[0], Contents: bytes.NewReader(body), SkipStat: w[4] == "1"})
		if err != nil {
			return "err"
		}
		sk := 0
		if pr.Skipped {
			sk = 1
		}
		return fmt.Sprintf("ok %d skipped=%d", pr.Size, sk)
	case "cfetch":
		refs, ok := parseRefs(w[1:])
		if !ok || len(refs) != 1 {
			return "bad-op"
		}
		rc, size, err := s.cl.Fetch(ctx, refs[0])
		if errors.Is(err, os.ErrNotExist) {
			return "notexist"
		}
		if err != nil {
			return "err"
		}
		data, err := io.ReadAll(rc)
		rc.Close()
		if err != nil {
			return "err"
		}
		return fmt.Sprintf("ok %d %s", size, showBody(data))
	}
	return "bad-op"
}

// matcherOK: the `<true|none>` field is only for the model ("what the ref denotes"); the real code hashes
func matcherOK(w string) ([]byte, bool) {
	if w == "none" {
		return nil, true
	}
	if len(w) > 0 && (w[0] == 'r' || w[0] == 's') {
		// (not materialised: only its well-formedness matters on this side)
		_, _, ok := genArgs(w)
		if ok && w[0] == 's' {
			_, ok = schemaBlob(0, genLen(w))
		}
		return nil, ok
	}
	return hk.UnHex(w)
}

// genBlob: generated content `r<seed>:<len>` (the model computes the same bytes; C15's pattern)
func genBlob(seed uint64, n int) []byte {
	b := make([]byte, n)
	for i := range b {
		b[i] = byte((seed + uint64(i)) % 1048576 * 2654435761 / 65536)
	}
	return b
}

const schemaPrefix = `{"camliVersion": 1, "camliType": "bytes", "pad": "`
const schemaSuffix = `"}`

// schemaBlob: generated schema-looking JSON `s<seed>:<len>` of exactly n bytes
func schemaBlob(seed uint64, n int) ([]byte, bool) {
	if n < len(schemaPrefix)+len(schemaSuffix) {
		return nil, false
	}
	mid := genBlob(seed, n-len(schemaPrefix)-len(schemaSuffix))
	for i := range mid {
		mid[i] = 'a' + mid[i]%26
	}
	return append(append([]byte(schemaPrefix), mid...), schemaSuffix...), true
}

func genArgs(w string) (seed uint64, n int, ok bool) {
	a, b, found := strings.Cut(w[1:], ":")
	if !found || strings.Contains(b, ":") {
		return 0, 0, false
	}
	sd, err1 := strconv.ParseUint(a, 10, 62)
	ln, err2 := strconv.ParseUint(b, 10, 31)
	if err1 != nil || err2 != nil || (len(a) > 1 && a[0] == '0') || (len(b) > 1 && b[0] == '0') {
		return 0, 0, false
	}
	return sd, int(ln), true
}

func genLen(w string) int { _, n, _ := genArgs(w); return n }

// contentTok: a content field: hex, `-`, `r<seed>:<len>` or `s<seed>:<len>`
func contentTok(w string) ([]byte, bool) {
	if len(w) > 0 && (w[0] == 'r' || w[0] == 's') {
		seed, n, ok := genArgs(w)
		if !ok || n > 1<<25 {
			return nil, false
		}
		if w[0] == 'r' {
			return genBlob(seed, n), true
		}
		return schemaBlob(seed, n)
	}
	return hk.UnHex(w)
}

func fnv32(b []byte) uint32 {
	h := uint32(2166136261)
	for _, x := range b {
		h = (h ^ uint32(x)) * 16777619
	}
	return h
}

// showBody: bodies in answers: hex up to 4096 bytes, a digest above
func showBody(b []byte) string {
	if len(b) > 4096 {
		return "d" + strconv.FormatUint(uint64(fnv32(b)), 10)
	}
	return hk.Hex(b)
}

func splitBar(ws []string) [][]string {
	out := [][]string{nil}
	for _, w := range ws {
		if w == "|" {
			out = append(out, nil)
			continue
		}
		out[len(out)-1] = append(out[len(out)-1], w)
	}
	return out
}
