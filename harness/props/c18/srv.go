package c18

// An in-process perkeep server built the way perkeepd builds it: a HIGH-LEVEL configuration
// (serverconfig.Config) -> serverinit.Load -> InstallHandlers on a mux, served by an httptest.Server
// on a loopback listener.  The storage and index kinds are the ones the high-level configuration can
// select and that are constructible offline.

import (
	"encoding/json"
	"fmt"
	"io"
	"net/http"
	"net/http/httptest"
	"os"
	"path/filepath"
	"strings"

	"perkeep.org/pkg/auth"
	"perkeep.org/pkg/client"
	"perkeep.org/pkg/serverinit"
	"perkeep.org/pkg/types/serverconfig"

	// handler and storage constructors the generated low-level configuration names
	_ "perkeep.org/pkg/blobserver/blobpacked"
	_ "perkeep.org/pkg/blobserver/cond"
	_ "perkeep.org/pkg/blobserver/diskpacked"
	_ "perkeep.org/pkg/blobserver/localdisk"
	_ "perkeep.org/pkg/blobserver/memory"
	_ "perkeep.org/pkg/blobserver/replica"
	_ "perkeep.org/pkg/importer/allimporters"
	_ "perkeep.org/pkg/search"
	_ "perkeep.org/pkg/server"
	_ "perkeep.org/pkg/sorted/kvfile"
	_ "perkeep.org/pkg/sorted/leveldb"
	_ "perkeep.org/pkg/sorted/sqlite"
)

const (
	authUser = "alice"
	authPass = "secret"
)

var (
	storageKinds = []string{"mem", "disk", "diskpacked", "blobpacked"}
	indexKinds   = []string{"mem", "leveldb", "kv", "sqlite"}
)

type server struct {
	sto, idx string
	tmp      string
	ts       *httptest.Server
	closer   io.Closer
	base     string // http://127.0.0.1:port
	root     string // the blob root the ops address: /bs/ or /bs-and-maybe-also-index/
	wroot    string // the root raw uploads go to (root, or /bs-and-index/: the replica bs+index)
	hc       *http.Client
	// pkg/client clients: one that discovers the blob root, one addressed at the root in use
	cl *client.Client
	// rewriting transport state: the value the `limit` parameter of enumerate requests is replaced by
	limitRewrite *string
	enumReqs     *int
}

// the perkeep source tree (for the test key ring): the harness runs with cwd=/repo
func sourceRoot() (string, error) {
	dir, err := os.Getwd()
	if err != nil {
		return "", err
	}
	for d := dir; ; d = filepath.Dir(d) {
		if data, err := os.ReadFile(filepath.Join(d, "go.mod")); err == nil && strings.Contains(string(data), "module perkeep.org") {
			return d, nil
		}
		if d == filepath.Dir(d) {
			break
		}
	}
	if _, err := os.Stat("/repo/go.mod"); err == nil {
		return "/repo", nil
	}
	return "", fmt.Errorf("perkeep source root not found from %s", dir)
}

func (s *server) close() {
	if s == nil {
		return
	}
	if s.cl != nil {
		s.cl.Close()
	}
	if s.ts != nil {
		s.ts.CloseClientConnections()
		s.ts.Close()
	}
	if s.closer != nil {
		s.closer.Close()
	}
	if s.tmp != "" {
		os.RemoveAll(s.tmp)
	}
}

// rewriteTransport replaces the `limit` parameter of enumerate requests (pkg/client hard-codes 1000) so
// that the real client loop is exercised against every server-side page size.
type rewriteTransport struct {
	rt    http.RoundTripper
	limit *string
	n     *int
}

func (t rewriteTransport) RoundTrip(req *http.Request) (*http.Response, error) {
	if strings.HasSuffix(req.URL.Path, "/camli/enumerate-blobs") {
		*t.n++
		if *t.limit != "" {
			q := req.URL.Query()
			q.Set("limit", *t.limit)
			r2 := req.Clone(req.Context())
			r2.URL.RawQuery = q.Encode()
			req = r2
		}
	}
	return t.rt.RoundTrip(req)
}

// buildServer: root is "bs" (the storage itself), "cond" (/bs-and-maybe-also-index/: schema blobs are
// also handed to the index, which is where the index kind takes part in an upload) or "replica"
// (raw uploads go to /bs-and-index/, everything else to /bs/)
func buildServer(sto, idx, root string) (*server, error) {
	srcRoot, err := sourceRoot()
	if err != nil {
		return nil, err
	}
	tmp, err := os.MkdirTemp("", "pkh-c18-")
	if err != nil {
		return nil, err
	}
	s := &server{sto: sto, idx: idx, tmp: tmp}
	fail := func(err error) (*server, error) { s.close(); return nil, err }
	os.Setenv("CAMLI_CONFIG_DIR", filepath.Join(tmp, "cfg"))

	ts := httptest.NewUnstartedServer(nil)
	s.ts = ts
	addr := ts.Listener.Addr().String()
	s.base = "http://" + addr

	conf := serverconfig.Config{
		Listen:             addr,
		Auth:               "userpass:" + authUser + ":" + authPass,
		Identity:           "26F5ABDA",
		IdentitySecretRing: filepath.Join(srcRoot, filepath.FromSlash("pkg/jsonsign/testdata/test-secring.gpg")),
	}
	switch sto {
	case "mem":
		conf.MemoryStorage = true
	case "disk":
		conf.BlobPath = filepath.Join(tmp, "blobs")
	case "blobpacked":
		conf.BlobPath = filepath.Join(tmp, "blobs")
		conf.PackRelated = true
	case "diskpacked":
		conf.BlobPath = filepath.Join(tmp, "blobs")
		conf.PackBlobs = true
	default:
		return fail(fmt.Errorf("bad sto"))
	}
	if conf.BlobPath != "" {
		// serverinit's package-level noMkdir stays set once a memoryStorage configuration was loaded in
		// this process, so the directories are made here
		for _, d := range []string{"", "cache", "packed"} {
			if err := os.MkdirAll(filepath.Join(conf.BlobPath, d), 0o700); err != nil {
				return fail(err)
			}
		}
	}
	switch idx {
	case "mem":
		conf.MemoryIndex = true
	case "leveldb":
		conf.LevelDB = filepath.Join(tmp, "index.leveldb")
	case "kv":
		conf.KVFile = filepath.Join(tmp, "index.kv")
	case "sqlite":
		conf.SQLite = filepath.Join(tmp, "index.sqlite")
	default:
		return fail(fmt.Errorf("bad idx"))
	}
	switch root {
	case "bs":
		s.root = "/bs/"
	case "cond":
		s.root = "/bs-and-maybe-also-index/"
	case "replica":
		// raw uploads through the replica of /bs/ and the index; reads (and pkg/client) on /bs/: reading
		// through the replica would merge in the index' own enumeration, which /sync/ fills asynchronously
		s.root, s.wroot = "/bs/", "/bs-and-index/"
	default:
		return fail(fmt.Errorf("bad root"))
	}
	if s.wroot == "" {
		s.wroot = s.root
	}
	confData, err := json.Marshal(conf)
	if err != nil {
		return fail(err)
	}
	cfg, err := serverinit.Load(confData)
	if err != nil {
		return fail(fmt.Errorf("Load: %v", err))
	}
	mux := http.NewServeMux()
	closer, err := cfg.InstallHandlers(mux, s.base)
	if err != nil {
		return fail(fmt.Errorf("InstallHandlers: %v", err))
	}
	s.closer = closer
	ts.Config.Handler = mux
	ts.Start()
	s.hc = ts.Client()

	limit, n := "", 0
	s.limitRewrite, s.enumReqs = &limit, &n
	// the client is pointed at the root in use (a server URL with a path is used verbatim as the blob
	// root; for "cond" that is also what discovery would answer)
	cl, err := client.New(
		client.OptionServer(s.base+strings.TrimSuffix(s.root, "/")),
		client.OptionAuthMode(auth.NewBasicAuth(authUser, authPass)),
		client.OptionNoExternalConfig(),
	)
	if err != nil {
		return fail(fmt.Errorf("client.New: %v", err))
	}
	cl.SetHTTPClient(&http.Client{Transport: rewriteTransport{ts.Client().Transport, s.limitRewrite, s.enumReqs}})
	cl.Logger.SetOutput(io.Discard)
	s.cl = cl
	return s, nil
}

// do issues one raw protocol request with credentials
func (s *server) do(method, pathAndQuery string, hdr map[string]string, body io.Reader) (*http.Response, []byte, error) {
	req, err := http.NewRequest(method, s.base+pathAndQuery, body)
	if err != nil {
		return nil, nil, err
	}
	req.SetBasicAuth(authUser, authPass)
	for k, v := range hdr {
		req.Header.Set(k, v)
	}
	resp, err := s.hc.Do(req)
	if err != nil {
		return nil, nil, err
	}
	defer resp.Body.Close()
	data, err := io.ReadAll(resp.Body)
	return resp, data, err
}
