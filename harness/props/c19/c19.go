package c19

import (
	"fmt"
	"sort"
	"strings"

	"perkeep.org/pkg/blob"
	"perkeep.org/pkg/blobserver"
	"verifharness/hk"
)

// NewExec returns a fresh interpreter of the C19 line protocol on the real code.
func NewExec() func(words []string) string {
	e := newExecState()
	return func(ws []string) string { return e.StepWD(ws) }
}

// ---- one case: ops on the implementation + the property's own oracle after every op ----------------

type kase struct {
	r         *hk.Run
	e         *Exec
	prevRows  map[int]bool
	acks      int
	work      int // copy / drain / restart ops
	live      bool
	prevRowsM []map[int]bool // multi cases: per handler
	dead      bool           // a watchdog fired (or too many did in this run): no further ops in this case
}

// Stall budget: each watchdog hit costs its watchdog time, and the finding is recorded with its replay
// at the first one. After maxRunStalls hits of the runSync/op watchdogs the cases stop at their next
// drain; after maxLiveStalls hits of the settle watchdog the live cases stop at their next settle.
const (
	maxRunStalls  = 3
	maxLiveStalls = 2
)

func begin(r *hk.Run, label string) *kase {
	r.Case(label)
	return &kase{r: r, e: newExecState(), prevRows: map[int]bool{}}
}

func has(l []int, x int) bool {
	i := sort.SearchInts(l, x)
	return i < len(l) && l[i] == x
}

// op executes one op line on the real code, records it, and evaluates the safety part of the
// property statement on the observable state:
//
//	(queue durable)  every acknowledged blob is at the destination or has its queue row
//	(row removal)    a row that disappeared belongs to a blob the destination holds
//	(bit identical)  the destination holds exactly the uploaded bytes, and only source blobs
func (k *kase) op(line string) string {
	if k.dead {
		return "skipped"
	}
	ws := strings.Fields(line)
	if len(ws) > 0 {
		all, live := Stalls()
		if (k.live && (ws[0] == "settle" || ws[0] == "msettle") && live >= maxLiveStalls) ||
			(!k.live && (ws[0] == "drain" || ws[0] == "drainfirst" || ws[0] == "msettle") && all-live >= maxRunStalls) {
			k.dead = true
			k.r.Hit("skipped-after-repeated-stalls")
			return "skipped"
		}
	}
	out := k.e.StepWD(ws)
	dump := ""
	if IsStall(out) {
		// A watchdog fired. Slowness alone must not be a finding: run the case's ops once more in a
		// fresh world (fresh handler, stores, queue) with the full watchdogs. Only a stall that
		// happens again is reported; otherwise the case goes on in the fresh world.
		first, firstDump := out, k.e.LastDump
		k.e.Close()
		fresh := newExecState()
		fresh.rerun = true
		out2 := ""
		for _, o := range append(k.r.CaseOps(), line) {
			out2 = fresh.StepWD(strings.Fields(o))
			if IsStall(out2) {
				break
			}
		}
		if !IsStall(out2) {
			k.r.Hit("stall-not-reproduced")
			k.r.Note(fmt.Sprintf("watchdog fired once and did not reproduce in a fresh world: case %q op %q -> %q, re-run -> %q; goroutines at the first stall: %s",
				strings.Join(k.r.CaseOps(), "; "), line, first, out2, firstDump))
			fresh.rerun = false
			k.e, out = fresh, out2
		} else {
			ConfirmStall(out2)
			k.e, out = fresh, out2
			dump = " | goroutines at the stall (re-run in a fresh world): " + fresh.LastDump + " | goroutines at the first stall: " + firstDump
		}
	}
	k.r.Op(line, out)
	if strings.HasPrefix(out, "broken") || out == "panic" || IsStall(out) {
		k.dead = true
		if strings.HasPrefix(out, "stalled") {
			// the watchdog of `drain` / `drainfirst`: the real runSync never returned (twice)
			k.r.Fail("runsync-stalled-with-pending-blobs", "op "+line+" -> "+out+": runSync did not return; the copy loop is stuck with blobs pending"+dump, "runSync returns (copied=N)", out, k.r.CaseOps())
			return out
		}
		if strings.HasPrefix(out, "timeout") {
			// the watchdog of `settle`: the real syncLoop left a pending blob uncopied for several poll intervals (twice)
			k.r.Fail("syncloop-stalled-with-pending-blob", "op "+line+" -> "+out+dump, "needCopy drained (eventual delivery)", out, k.r.CaseOps())
			return out
		}
		k.r.Fail("harness-"+strings.SplitN(out, ":", 2)[0], "op "+line+" -> "+out+dump, "an answer", out, k.r.CaseOps())
		return out
	}
	if len(ws) > 0 {
		switch ws[0] {
		case "up", "upend", "upbegin":
			if out == "ack" {
				k.acks++
				k.r.Hit("mech:upload-acked-after-hook")
			}
			if out == "err" {
				if ws[0] == "upend" {
					k.r.Hit("mech:upload-refused:parked")
				} else {
					k.r.Hit("mech:upload-refused:" + ws[2])
				}
			}
		case "copy", "cpbegin", "cpend":
			k.work++
			if out == "fail" && ws[0] != "cpend" {
				k.r.Hit("mech:copy-rejected:" + ws[2])
			}
			if ws[0] == "copy" && len(ws) == 4 && ws[3] != "ok" && out == "ok" {
				k.r.Hit("mech:row-delete-failed:" + ws[3])
			}
			if out == "ok" {
				k.r.Hit("mech:copy-ok")
			}
		case "drain", "restart", "settle":
			k.work++
		}
	}
	if k.e.multi != nil {
		if len(ws) > 0 && ws[0] == "mup" && out == "ack" {
			k.acks++
		}
		if len(ws) > 0 && (ws[0] == "msettle" || ws[0] == "mrestart") {
			k.work++
		}
		settled := len(ws) == 1 && ws[0] == "msettle" && out != "bad-op"
		if !k.live || settled {
			k.judgeMulti(settled)
		}
		return out
	}
	if k.live && (len(ws) == 0 || ws[0] != "settle") {
		// while the real loop runs concurrently only quiescent states are compared and judged
		return out
	}
	k.judge()
	if len(ws) == 1 && ws[0] == "restart" && !k.live && strings.HasPrefix(out, "need=") {
		// readQueueToMemory: every queued blob is pending in the new process
		v := k.e.Observe()
		for _, i := range v.Rows {
			if !has(v.Need, i) {
				k.r.Fail("queued-row-not-reloaded-at-restart", fmt.Sprintf("after the restart the queue has %d rows but needCopy has %d entries; blob %d is queued and not pending (never copied by this process)", len(v.Rows), len(v.Need), i), "needCopy = rows", fmt.Sprintf("rows=%d need=%d", len(v.Rows), len(v.Need)), k.r.CaseOps())
				break
			}
		}
		if len(v.Rows) > 1000 {
			k.r.Hit("mech:restart-over-large-queue")
		}
	}
	return out
}

func (k *kase) judge() {
	v := k.e.Observe()
	ops := k.r.CaseOps()
	if len(v.BadRows) > 0 || v.Foreign > 0 {
		k.r.Fail("queue-row-malformed", fmt.Sprintf("bad rows %v, foreign refs %d", v.BadRows, v.Foreign), "rows ref -> size of uploaded blobs", v.String(), ops)
	}
	for i := range k.prevRows {
		if !has(v.Rows, i) {
			if _, at := v.Dst[i]; !at {
				k.r.Fail("row-deleted-before-dest-ack", fmt.Sprintf("row of blob %d left the queue, destination does not hold it", i), "row kept", v.String(), ops)
			} else {
				k.r.Hit("mech:row-deleted-after-dest-ack")
			}
		}
	}
	for _, i := range v.Acked {
		_, at := v.Dst[i]
		if !at && !has(v.Rows, i) {
			k.r.Fail("acked-blob-without-row", fmt.Sprintf("upload of blob %d was acknowledged; it is neither at the destination nor in the queue", i), "row present", v.String(), ops)
		}
		if !has(v.Src, i) {
			k.r.Fail("acked-blob-not-in-source", fmt.Sprintf("blob %d", i), "in source", v.String(), ops)
		}
	}
	for i, same := range v.Dst {
		if !same {
			k.r.Fail("dest-bytes-differ", fmt.Sprintf("destination bytes of blob %d differ from the uploaded bytes", i), "identical", v.String(), ops)
		}
		if !has(v.Src, i) {
			k.r.Fail("dest-blob-not-in-source", fmt.Sprintf("blob %d", i), "subset of source", v.String(), ops)
		}
	}
	for _, i := range v.Need {
		if _, at := v.Dst[i]; !at && has(v.Rows, i) {
			k.r.Hit("mech:row-kept-while-pending")
		}
	}
	k.prevRows = map[int]bool{}
	for _, i := range v.Rows {
		k.prevRows[i] = true
	}
}

// finish runs the failure-free continuation (restart + drain, or settle in live mode) and evaluates
// the liveness part of the statement.
// judgeMulti is the oracle of a source with several sync destinations, per destination: rows leave
// a handler's queue only after ITS destination holds the blob; bytes identical; an acknowledged
// upload (every hook succeeded) is at each destination or in each queue; and, at a settled state,
// every blob the source stored is at every destination whose own hook did not fail for it – a
// failing hook of handler A must not change what handler B does. For the handler whose own hook
// failed the caveat of F-C19-2 applies (delivered unless a restart came first).
func (k *kase) judgeMulti(settled bool) {
	m := k.e.multi
	v := m.observe()
	ops := k.r.CaseOps()
	if v.Foreign > 0 {
		k.r.Fail("queue-row-malformed", "foreign refs in a multi case", "none", v.String(), ops)
	}
	if k.prevRowsM == nil {
		k.prevRowsM = make([]map[int]bool, len(v.H))
	}
	for j, h := range v.H {
		name := fmt.Sprintf("handler %d of %d", j+1, len(v.H))
		if len(h.BadRows) > 0 {
			k.r.Fail("queue-row-malformed", name, "rows ref -> size", v.String(), ops)
		}
		for i := range k.prevRowsM[j] {
			if _, at := h.Dst[i]; !has(h.Rows, i) && !at {
				k.r.Fail("row-deleted-before-dest-ack", fmt.Sprintf("%s: row of blob %d left the queue, its destination does not hold it", name, i), "row kept", v.String(), ops)
			}
		}
		k.prevRowsM[j] = map[int]bool{}
		for _, i := range h.Rows {
			k.prevRowsM[j][i] = true
		}
		for i, same := range h.Dst {
			if !same {
				k.r.Fail("dest-bytes-differ", fmt.Sprintf("%s: bytes of blob %d differ", name, i), "identical", v.String(), ops)
			}
			if !has(v.Src, i) {
				k.r.Fail("dest-blob-not-in-source", fmt.Sprintf("%s: blob %d", name, i), "subset of source", v.String(), ops)
			}
		}
		for _, i := range v.Acked {
			if _, at := h.Dst[i]; !at && !has(h.Rows, i) {
				k.r.Fail("acked-blob-without-row", fmt.Sprintf("%s: upload of blob %d was acknowledged; it is neither at this destination nor in this queue", name, i), "row present", v.String(), ops)
			}
		}
		if !settled {
			continue
		}
		if m.live {
			var stale int
			h.Rows, stale = pendingRows(h.Rows, h.Dst)
			if stale > 0 {
				k.r.Hit("mech:stale-row-of-delivered-blob-live")
			}
		}
		if len(h.Rows) > 0 || len(h.Need) > 0 {
			k.r.Fail("pending-left-after-recovery", name+": rows or needCopy not empty after a failure-free drain", "empty", v.String(), ops)
		}
		for _, i := range v.Src {
			if _, at := h.Dst[i]; at {
				continue
			}
			if m.hookFailed[i][j+1] {
				// this handler's OWN hook failed for the blob and a restart came before it copied it
				k.r.Fail("unacked-source-blob-not-delivered-after-restart", fmt.Sprintf("%s: its own queue write failed during the upload of blob %d, a restart followed; the blob never reaches this destination", name, i), "delivered", v.String(), ops)
				continue
			}
			var failed []string
			for jj := range m.hookFailed[i] {
				failed = append(failed, fmt.Sprint(jj))
			}
			sort.Strings(failed)
			k.r.Fail("multi-healthy-destination-missed-blob", fmt.Sprintf("%s never gets blob %d although its own hook did not fail (hooks that failed during that upload: handler %s): a failing receive hook of one sync handler changed what another does", name, i, strings.Join(failed, ",")), "delivered to every destination whose hook did not fail", v.String(), ops)
		}
		k.r.Hit("mech:multi-destination-settled")
	}
}

func (k *kase) finishMulti() {
	if !k.dead {
		k.op("msettle")
	}
	if !k.dead {
		k.op("mrestart")
		k.op("msettle")
	}
	if !k.dead && k.acks > 0 {
		k.r.Distinct(strings.Join(k.r.CaseOps(), ";"))
	}
	k.e.Close()
}

func (k *kase) finish() {
	if k.e.multi != nil {
		k.finishMulti()
		return
	}
	if k.dead {
		k.e.Close()
		return
	}
	before := k.e.Observe()
	if k.live {
		k.op("restart")
		k.op("settle")
	} else {
		if out := k.op("restart"); out != "need=0" {
			k.r.Hit("mech:queue-reloaded-at-start")
		}
		k.op("drain ok -")
		k.op("dump")
	}
	if k.dead {
		k.e.Close()
		return
	}
	v := k.e.Observe()
	ops := k.r.CaseOps()
	for _, i := range v.Acked {
		if _, at := v.Dst[i]; !at {
			k.r.Fail("acked-not-delivered-after-recovery", fmt.Sprintf("acknowledged blob %d is not at the destination after restart + failure-free drain", i), "delivered", v.String(), ops)
		}
	}
	if k.live {
		// see pendingRows: a stale row of a delivered blob is possible (and harmless) under the real loop
		var stale int
		v.Rows, stale = pendingRows(v.Rows, v.Dst)
		if stale > 0 {
			k.r.Hit("mech:stale-row-of-delivered-blob-live")
		}
	}
	if len(v.Rows) > 0 || len(v.Need) > 0 {
		k.r.Fail("pending-left-after-recovery", "rows or needCopy not empty after a failure-free drain", "empty", v.String(), ops)
	}
	for _, i := range v.Src {
		if _, at := v.Dst[i]; !at && !has(v.Acked, i) {
			// the statement at full strength: every blob received by the source store
			k.r.Fail("unacked-source-blob-not-delivered-after-restart", fmt.Sprintf("blob %d was stored by the source, its upload was not acknowledged (queue write failed / crashed before the row), and after a restart it is never copied", i), "delivered", v.String(), ops)
		}
	}
	if len(before.Rows) > 0 && len(v.Rows) == 0 {
		k.r.Hit("mech:pending-at-crash-completed-after-restart")
	}
	// the source-minus-destination merge used by full sync / validation, on the final stores
	k.listMissing(v)
	if k.acks > 0 && k.work > 0 {
		k.r.Distinct(strings.Join(ops, ";"))
	}
	k.e.Close()
}

func (k *kase) listMissing(v View) {
	feed := func(m *mapStore) <-chan blob.SizedRef {
		ch := make(chan blob.SizedRef, 64)
		go func() {
			defer close(ch)
			for _, br := range m.refs() {
				b, _ := m.get(br)
				ch <- blob.SizedRef{Ref: br, Size: uint32(len(b))}
			}
		}()
		return ch
	}
	missc := make(chan blob.SizedRef, 64)
	mism := 0
	go blobserver.ListMissingDestinationBlobs(missc, func(blob.Ref) { mism++ }, feed(k.e.w.src), feed(k.e.w.dst))
	var got []int
	for sb := range missc {
		if i, ok := k.e.idOf(sb.Ref); ok {
			got = append(got, i)
		} else {
			got = append(got, -1)
		}
	}
	sort.Ints(got)
	var want []int
	for _, i := range v.Src {
		if _, at := v.Dst[i]; !at {
			want = append(want, i)
		}
	}
	k.r.ImplOnly("list-missing")
	if fmt.Sprint(got) != fmt.Sprint(want) || mism != 0 {
		k.r.Fail("list-missing-destination-differs", "ListMissingDestinationBlobs(source, destination)", fmt.Sprint(want), fmt.Sprintf("%v mismatches=%d", got, mism), k.r.CaseOps())
	}
	if len(got) > 0 {
		k.r.Hit("mech:list-missing-nonempty")
	}
}

// ---- generators -------------------------------------------------------------------------------------

var upFaults = []string{"ok", "qseterr", "srcerr"}
var delFaults = []string{"ok", "qdelerr"}
var poss = []string{"pre", "post"}

// withKinds: base words plus base:kind for every error kind
func withKinds(bases ...string) []string {
	var out []string
	for _, b := range bases {
		out = append(out, b)
		if b == "ok" {
			continue
		}
		for _, kd := range errKinds[1:] {
			out = append(out, b+":"+kd)
		}
	}
	return out
}

var (
	allUpFaults  = withKinds(upFaults...)
	allDelFaults = withKinds(delFaults...)
	allFaults    = allCopyFaults()
)

func script(r *hk.Run, label string, ops []string) {
	k := begin(r, label)
	for _, o := range ops {
		k.op(o)
	}
	k.finish()
}

// F-C19-1 (fixed): re-upload after a failed queue write was acknowledged without a row.
var witnessF1 = []string{"up 1 qseterr", "up 1 ok", "restart", "drain ok -", "dump"}

// F-C19-1, interleaving form: second upload acknowledged while the first one's row write is in flight.
var witnessF1race = []string{"upbegin 1 ok pre", "up 1 ok", "restart", "drain ok -", "dump"}

// F-C19-2 (known): unacknowledged upload, stored by the source, lost for the sync after a restart.
var witnessF2 = []string{"up 1 qseterr", "restart", "drain ok -", "dump"}

func replay(ops []string) (View, []string) {
	e := newExecState()
	defer e.Close()
	var outs []string
	for _, o := range ops {
		outs = append(outs, hk.Guard(func() string { return e.Step(strings.Fields(o)) }))
	}
	return e.Observe(), outs
}

func genWitnesses(r *hk.Run) {
	script(r, "witness-F1", witnessF1[:2])
	script(r, "witness-F1-race", witnessF1race[:2])
	script(r, "witness-F2", witnessF2[:1])
	script(r, "witness-F2-crash-in-upload", []string{"upbegin 1 ok pre"})
}

// primaries: the blob the matrices are about – the empty blob, the 1-byte blob, an ordinary one
var primaries = []string{"2", "0", "1"}

func genFaultMatrix(r *hk.Run) {
	for _, p := range primaries {
		P := func(s string) string { return strings.ReplaceAll(s, "#", p) }
		for _, f := range allFaults {
			for _, dq := range allDelFaults {
				for _, mode := range []string{"atomic", "pre", "post"} {
					for _, mid := range []string{"", "up # ok", "up # qseterr", "restart", "up 10 ok"} {
						if mode == "atomic" && mid != "" && mid != "restart" {
							continue
						}
						if strings.Contains(dq, ":") && (f != "ok" || mid != "") {
							continue // the kinds of queue.Delete errors only matter when the deletion is reached
						}
						k := begin(r, "fault-matrix blob "+p+" "+f+" "+dq+" "+mode+" ["+P(mid)+"]")
						k.op(P("up # ok"))
						k.op("up 3 ok")
						if mode == "atomic" {
							k.op(P(fmt.Sprintf("copy # %s %s", f, dq)))
							if mid != "" {
								k.op(P(mid))
							}
						} else {
							out := k.op(P(fmt.Sprintf("cpbegin # %s %s %s", f, dq, mode)))
							k.op("dump")
							if mid != "" {
								k.op(P(mid))
								k.op("dump")
							}
							if out == "parked" {
								k.op(P("cpend #"))
							}
						}
						k.op("dump")
						k.op(P("copy # ok ok"))
						k.op("dump")
						k.finish()
					}
				}
			}
		}
	}
}

func genUploadMatrix(r *hk.Run) {
	mids := []string{"", "up # ok", "up # qseterr", "copy # ok ok", "copy # desterr ok", "restart", "drain ok -", "up 10 ok"}
	for _, p := range primaries {
		P := func(s string) string { return strings.ReplaceAll(s, "#", p) }
		for _, pre := range []string{"", "up # ok", "up # qseterr"} {
			for _, q := range allUpFaults {
				for _, pos := range poss {
					for _, mid := range mids {
						if strings.Contains(q, ":") && mid != "" && mid != "restart" && mid != "up # ok" {
							continue
						}
						k := begin(r, "upload-matrix blob "+p+" ["+P(pre)+"] "+q+" "+pos+" ["+P(mid)+"]")
						if pre != "" {
							k.op(P(pre))
						}
						out := k.op(P(fmt.Sprintf("upbegin # %s %s", q, pos)))
						k.op("dump")
						if mid != "" {
							k.op(P(mid))
							k.op("dump")
						}
						if out == "parked" {
							k.op(P("upend #"))
						}
						k.op("dump")
						k.finish()
					}
				}
			}
		}
	}
}

// A zero-length (id 0) or one-byte (id 1) blob as the ONLY pending item: as the very first upload,
// uploaded alone after everything else was delivered, as the only row in the queue at a restart, after
// a failed first attempt – through the step-driven runSync and through the real syncLoop (enqueue
// wake-up, the 5 s poll, readQueueToMemory at restart), each under the eventual-delivery oracle.
func genLonePending(r *hk.Run) {
	for _, z := range []string{"0", "1"} {
		Z := func(s string) string { return strings.ReplaceAll(s, "#", z) }
		for _, sc := range [][]string{
			{"up # ok", "drain ok -", "dump"},
			{"up # ok", "dump"},
			{"up 2 ok", "up 3 ok", "drain ok -", "dump", "up # ok", "drain ok -", "dump"},
			{"up 2 ok", "copy 2 ok ok", "up # ok", "dump"},
			{"up # ok", "restart", "drain ok -", "dump"},
			{"up 2 ok", "up # ok", "copy 2 ok ok", "restart", "dump", "drain ok -", "dump"},
			{"up # ok", "copy # desterr ok", "drain ok -", "dump"},
			{"up # ok", "drain desterr:enoent #", "drain ok -", "dump"},
			{"up # ok", "copy # ok qdelerr", "dump", "restart", "drain ok -", "dump"},
			{"up # qseterr", "drain ok -", "dump"},
			{"up # ok", "drain ok -", "up # ok", "drain ok -", "dump"},
			{"up 0 ok", "up 1 ok", "drain ok -", "dump"},
		} {
			k := begin(r, "lone-pending blob "+z)
			for _, o := range sc {
				k.op(Z(o))
			}
			r.Hit("mech:lone-pending-boundary-blob:" + z)
			k.finish()
		}
		for _, sc := range [][]string{
			{"up # ok", "settle"},
			{"up 2 ok", "up 3 ok", "settle", "up # ok", "settle"},
			{"up # ok", "settle", "restart", "up # ok", "settle"},
			{"up 2 ok", "up # ok", "settle", "restart", "settle"},
			{"up # ok", "restart", "settle"}, // (almost always) the only row in the queue at the restart
			{"up # ok", "restart", "restart", "settle", "up 3 ok", "settle"},
		} {
			k := begin(r, "lone-pending-live blob "+z)
			k.op("live")
			k.live = true
			for _, o := range sc {
				k.op(Z(o))
			}
			r.Hit("mech:lone-pending-boundary-blob-live:" + z)
			k.finish()
		}
	}
}

func idList(ids []int) string {
	s := make([]string, len(ids))
	for i, x := range ids {
		s[i] = fmt.Sprint(x)
	}
	return strings.Join(s, ",")
}

// Backlog + outage through the real runSync (worker pool of 5, results counted): n = 6..40 pending
// blobs in ONE batch; the destination or the source fails for the whole batch, for k >= 5 of the n
// blobs, or for the first k attempts whichever blobs they are; then it recovers. Oracle: runSync
// returns (watchdog), rows intact until acknowledged (safety oracle after every op), everything
// delivered afterwards.
func genBacklog(r *hk.Run, sizes []int, faults []string) {
	for _, n := range sizes {
		ids := []int{0, 1}
		for i := 10; len(ids) < n; i++ {
			ids = append(ids, i)
		}
		ups := func(k *kase) {
			for _, i := range ids {
				k.op(fmt.Sprintf("up %d ok", i))
			}
		}
		for _, f := range faults {
			// the whole batch fails, then recovery
			k := begin(r, fmt.Sprintf("backlog n=%d whole-batch %s", n, f))
			ups(k)
			k.op("drain " + f + " " + idList(ids))
			k.op("dump")
			k.op("drain ok -")
			k.op("dump")
			r.Hit("mech:backlog-outage-whole-batch")
			k.finish()
			// k of n fail (k = 5, n-1), the others are copied in the same batch
			for _, kk := range []int{5, n - 1} {
				k := begin(r, fmt.Sprintf("backlog n=%d %d-fail %s", n, kk, f))
				ups(k)
				k.op("drain " + f + " " + idList(ids[len(ids)-kk:]))
				k.op("dump")
				if kk == 5 {
					k.op("restart")
				}
				k.op("drain ok -")
				k.op("dump")
				r.Hit("mech:backlog-outage-k-of-n")
				k.finish()
			}
			// the first k attempts fail, whichever blobs the pool picks
			if isOutageFault(f) {
				for _, kk := range []int{5, 6, n - 1, n, n + 3} {
					k := begin(r, fmt.Sprintf("backlog n=%d first-%d-attempts %s", n, kk, f))
					ups(k)
					k.op(fmt.Sprintf("drainfirst %s %d", f, kk))
					k.op("dump")
					k.op("drain ok -")
					k.op("dump")
					r.Hit("mech:backlog-outage-first-k-attempts")
					k.finish()
				}
			}
		}
	}
}

// the same through the real syncLoop (blobserver.CreateHandler): the store is down for a time window
// while a backlog builds up, then it is back; delivery by the wake-up of a later upload, or by the
// 5 s poll alone (poll = true); restarts in between.
func genBacklogLive(r *hk.Run, sizes []int, polls int) {
	outages := []string{"desterr", "fetcherr:enoent", "desterr:canceled", "fetcherr"}
	for c, n := range sizes {
		o := outages[c%len(outages)]
		for variant := 0; variant < 3; variant++ {
			k := begin(r, fmt.Sprintf("backlog-live n=%d %s variant %d", n, o, variant))
			k.op("live")
			k.live = true
			k.op("outage " + o)
			for i := 0; i < n; i++ {
				k.op(fmt.Sprintf("up %d ok", 10+i))
				if variant == 1 && i == n/2 {
					k.op("restart")
				}
			}
			if variant == 2 {
				// the new loop's first batch is the whole backlog, and it fails: wait for that
				k.op("restart")
				k.op("awaitfail 5")
			}
			k.op("recover")
			k.op("up 3 ok") // wakes the loop
			k.op("settle")
			r.Hit("mech:backlog-outage-live")
			k.finish()
		}
	}
	for c := 0; c < polls; c++ {
		n := 6 + 5*c
		k := begin(r, fmt.Sprintf("backlog-live-poll n=%d", n))
		k.op("live")
		k.live = true
		k.op("outage " + outages[c%len(outages)])
		for i := 0; i < n; i++ {
			k.op(fmt.Sprintf("up %d ok", 10+i))
		}
		k.op("recover")
		k.op("settle") // nothing wakes the loop: the 5 s poll has to pick the backlog up
		r.Hit("mech:backlog-outage-live-poll-only")
		k.finish()
	}
}

// A source with 2..3 sync destinations (separate queues, separate destinations, hooks on one source
// hub), step-driven and through blobserver.CreateHandler("sync") with the real loops. Uploads during
// which ONE handler's queue.Set fails, at every registration position; then recovery.
func genMulti(r *hk.Run, random int) {
	for _, mode := range []string{"step", "live"} {
		for n := 2; n <= 3; n++ {
			for h := 0; h <= n; h++ {
				scripts := [][]string{
					{"mup 1 0", fmt.Sprintf("mup 2 %d", h), "mup 3 0", "msettle"},
					{fmt.Sprintf("mup 2 %d", h), "msettle", "mup 2 0", "msettle"},
					{fmt.Sprintf("mup 0 %d", h), "msettle", "mrestart", "mup 1 0"},
					{"mup 1 0", "msettle", fmt.Sprintf("mup 1 %d", h), fmt.Sprintf("mup 2 %d", h), "msettle", "mrestart", "msettle"},
				}
				if mode == "step" {
					// the caveat of F-C19-2 for the handler whose own hook failed: restart before it copied
					scripts = append(scripts,
						[]string{fmt.Sprintf("mup 2 %d", h), "mrestart", "msettle"},
						[]string{"mup 1 0", fmt.Sprintf("mup 2 %d", h), "mrestart", "mup 3 0", "msettle", fmt.Sprintf("mup 2 %d", h%n+1), "msettle"})
				}
				for _, sc := range scripts {
					k := begin(r, fmt.Sprintf("multi n=%d %s failing-hook=%d", n, mode, h))
					k.op(fmt.Sprintf("multi %d %s", n, mode))
					k.live = mode == "live"
					for _, o := range sc {
						k.op(o)
					}
					r.Hit(fmt.Sprintf("mech:multi-dest-hook-failure:n=%d:pos=%d:%s", n, h, mode))
					k.finish()
				}
			}
		}
	}
	for c := 0; c < random; c++ {
		rd := r.R.Fork()
		n := 2 + rd.Intn(2)
		mode := "step"
		if c%8 == 0 {
			mode = "live"
		}
		k := begin(r, "multi-random "+mode)
		k.op(fmt.Sprintf("multi %d %s", n, mode))
		k.live = mode == "live"
		dirty := false // live: an upload with a failing hook since the last msettle (a restart now would race the loop)
		for j, m := 0, 3+rd.Intn(14); j < m; j++ {
			switch x := rd.Intn(100); {
			case x < 60:
				h := 0
				if rd.Chance(45) {
					h = 1 + rd.Intn(n)
				}
				k.op(fmt.Sprintf("mup %d %d", rd.Intn(6), h))
				dirty = dirty || h > 0
			case x < 80:
				k.op("msettle")
				dirty = false
			default:
				if mode == "live" && dirty {
					k.op("msettle")
					dirty = false
				}
				k.op("mrestart")
			}
		}
		k.finish()
	}
	k := begin(r, "multi-malformed")
	for _, o := range []string{"multi 3 step", "mup 1 4", "mup 1", "mup x 0", "mup 1 0", "multi 2 step", "up 1 ok", "dump", "msettle now", "msettle"} {
		k.op(o)
	}
	k.finish()
	k = begin(r, "multi-malformed-first-op")
	for _, o := range []string{"multi 4 step", "multi 2", "multi 2 fast", "up 1 ok", "multi 2 step", "mup 1 0", "msettle", "dump"} {
		k.op(o)
	}
	k.finish()
}

// Restarts over LARGE queues: n tiny blobs queued (bulkup), then a restart – every queued blob must be
// pending in the new process (needCopy = rows) – then drain with the usual oracle. readQueueToMemory /
// enumerateQueuedBlobs and runSync (maxBatch 1000, workch of 1000) see more than one "page".
func genLargeQueue(r *hk.Run, sizes []int, live bool) {
	for _, n := range sizes {
		k := begin(r, fmt.Sprintf("large-queue n=%d", n))
		k.op("up 1 ok")
		k.op(fmt.Sprintf("bulkup %d", n))
		k.op("restart")
		k.op("dump")
		k.op("drain ok -")
		k.op("dump")
		r.Hit(fmt.Sprintf("mech:large-queue:%d", n))
		k.finish()
		// two bulks, a partial drain with failures in between, two restarts
		k = begin(r, fmt.Sprintf("large-queue-split n=%d", n))
		k.op(fmt.Sprintf("bulkup %d", n/2))
		k.op("restart")
		k.op(fmt.Sprintf("bulkup %d", n-n/2))
		k.op("drainfirst desterr 7")
		k.op("up 2 ok")
		k.op(fmt.Sprintf("bulkup %d", n))
		k.op("restart")
		k.op("dump")
		k.finish()
	}
	if live {
		// through the real syncLoop: the store is down while the queue fills, restart, then it is back
		n := 1001
		if r.Thorough() {
			n = 2002
		}
		k := begin(r, fmt.Sprintf("large-queue-live n=%d", n))
		k.op("live")
		k.live = true
		k.op("outage fetcherr")
		k.op(fmt.Sprintf("bulkup %d", n))
		k.op("restart")
		k.op("awaitfail 5")
		k.op("recover")
		k.op("up 3 ok")
		k.op("settle")
		r.Hit("mech:large-queue-live")
		k.finish()
	}
}

// boundary sizes: 32768 (io.Copy's buffer), 32769, 65536, 511, MaxBlobSize-1, MaxBlobSize
func genBoundarySizes(r *hk.Run, big bool) {
	ids := []int{4, 5, 6, 7}
	if big {
		ids = append(ids, 8, 9)
	}
	for _, i := range ids {
		k := begin(r, fmt.Sprintf("boundary-size blob %d (%d bytes)", i, len(content(i))))
		k.op(fmt.Sprintf("up %d ok", i))
		k.op(fmt.Sprintf("copy %d corrupt ok", i))
		k.op(fmt.Sprintf("copy %d shortread:ueof ok", i))
		k.op(fmt.Sprintf("copy %d fetchsize ok", i))
		k.op(fmt.Sprintf("copy %d destsize ok", i))
		k.op("restart")
		k.op("drain ok -")
		k.op("dump")
		r.Hit(fmt.Sprintf("mech:boundary-size:%d", len(content(i))))
		k.finish()
	}
}

// the op alphabet of the random and exhaustive generators, over ids 0..n-1
func randomOp(rd *hk.Rand, n int, parkedU, parkedC map[int]bool) string {
	i := rd.Intn(n)
	switch x := rd.Intn(100); {
	case x < 22:
		q := "ok"
		if rd.Chance(30) {
			q = rd.Pick(allUpFaults)
		}
		return fmt.Sprintf("up %d %s", i, q)
	case x < 32:
		q := "ok"
		if rd.Chance(30) {
			q = rd.Pick(allUpFaults)
		}
		return fmt.Sprintf("upbegin %d %s %s", i, q, rd.Pick(poss))
	case x < 42:
		for j := range parkedU {
			if rd.Bool() {
				i = j
			}
		}
		return fmt.Sprintf("upend %d", i)
	case x < 62:
		f := "ok"
		if rd.Chance(50) {
			f = rd.Pick(allFaults)
		}
		dq := "ok"
		if rd.Chance(20) {
			dq = rd.Pick(allDelFaults)
		}
		return fmt.Sprintf("copy %d %s %s", i, f, dq)
	case x < 72:
		f := "ok"
		if rd.Chance(30) {
			f = rd.Pick(allFaults)
		}
		dq := "ok"
		if rd.Chance(20) {
			dq = rd.Pick(allDelFaults)
		}
		return fmt.Sprintf("cpbegin %d %s %s %s", i, f, dq, rd.Pick(poss))
	case x < 82:
		for j := range parkedC {
			if rd.Bool() {
				i = j
			}
		}
		return fmt.Sprintf("cpend %d", i)
	case x < 88:
		if rd.Chance(50) {
			return "drain ok -"
		}
		var bad []string
		for j := 0; j < n; j++ {
			if rd.Chance(40) {
				bad = append(bad, fmt.Sprint(j))
			}
		}
		if len(bad) == 0 {
			bad = []string{"-"}
		}
		return fmt.Sprintf("drain %s %s", rd.Pick(allFaults[1:]), strings.Join(bad, ","))
	case x < 95:
		return "restart"
	default:
		return "dump"
	}
}

func track(op, out string, parkedU, parkedC map[int]bool) {
	ws := strings.Fields(op)
	var i int
	if len(ws) > 1 {
		fmt.Sscan(ws[1], &i)
	}
	switch ws[0] {
	case "upbegin":
		if out == "parked" {
			parkedU[i] = true
		}
	case "upend":
		delete(parkedU, i)
	case "cpbegin":
		if out == "parked" {
			parkedC[i] = true
		}
	case "cpend":
		delete(parkedC, i)
	case "restart":
		for j := range parkedU {
			delete(parkedU, j)
		}
		for j := range parkedC {
			delete(parkedC, j)
		}
	}
}

func genRandom(r *hk.Run, cases, length, ids int) {
	for c := 0; c < cases; c++ {
		rd := r.R.Fork()
		k := begin(r, "random")
		pu, pc := map[int]bool{}, map[int]bool{}
		n := 4 + rd.Intn(length)
		for j := 0; j < n; j++ {
			o := randomOp(rd, ids, pu, pc)
			track(o, k.op(o), pu, pc)
		}
		k.op("dump")
		if c == 0 {
			r.Sample(map[string]any{"kind": "random", "ops": r.CaseOps()})
		}
		k.finish()
	}
}

// restarts at every step: a random script, then for every prefix the prefix + recovery
func genCrashEverywhere(r *hk.Run, scripts, length int) {
	for c := 0; c < scripts; c++ {
		rd := r.R.Fork()
		// record a script by running it once
		k := begin(r, "crash-base")
		pu, pc := map[int]bool{}, map[int]bool{}
		var ops []string
		for j := 0; j < length; j++ {
			o := randomOp(rd, 3, pu, pc)
			if o == "restart" || o == "dump" {
				o = "up 1 ok"
			}
			track(o, k.op(o), pu, pc)
			ops = append(ops, o)
		}
		k.finish()
		for p := 0; p < len(ops); p++ {
			k := begin(r, fmt.Sprintf("crash-after-%d", p))
			for _, o := range ops[:p] {
				k.op(o)
			}
			r.Hit("mech:restart-at-every-step")
			k.finish()
		}
	}
}

var exAlphabet = []string{
	"up 0 ok", "up 0 qseterr", "upbegin 0 ok pre", "upbegin 0 qseterr post", "upend 0",
	"copy 0 ok ok", "copy 0 desterr ok", "copy 0 corrupt ok", "copy 0 fetcherr:notexist ok", "drain fetcherr:enoent 0,1", "cpbegin 0 ok ok pre", "cpbegin 0 ok qdelerr post", "cpend 0",
	"restart", "up 1 ok", "drain destsize 0",
}

// every op sequence of the given depth over exAlphabet, each followed by the recovery
func genExhaustive(r *hk.Run, depth int) {
	idx := make([]int, depth)
	for {
		k := begin(r, "exhaustive")
		for _, a := range idx {
			k.op(exAlphabet[a])
		}
		k.finish()
		j := depth - 1
		for j >= 0 {
			idx[j]++
			if idx[j] < len(exAlphabet) {
				break
			}
			idx[j] = 0
			j--
		}
		if j < 0 {
			return
		}
	}
}

// the real syncLoop goroutine, built through blobserver.CreateHandler("sync", …)
func genLive(r *hk.Run, cases int) {
	for c := 0; c < cases; c++ {
		rd := r.R.Fork()
		k := begin(r, "live")
		k.op("live")
		k.live = true
		n := 5 + rd.Intn(20)
		next := 0
		for j := 0; j < n; j++ {
			switch x := rd.Intn(100); {
			case x < 70:
				i := next
				if rd.Chance(25) && next > 0 {
					i = rd.Intn(next)
				} else {
					next++
				}
				k.op(fmt.Sprintf("up %d ok", i))
			case x < 85:
				k.op("restart")
			default:
				k.op("settle")
			}
		}
		r.Hit("mech:real-syncLoop-via-CreateHandler")
		k.finish()
	}
}

func genMalformed(r *hk.Run) {
	k := begin(r, "malformed")
	for _, o := range []string{"", "up", "up 1", "up x ok", "up 01 ok", "up 1 maybe", "up 12345 ok", "copy 1 ok", "copy 1 nofault ok",
		"copy 1 ok nodq", "cpbegin 1 ok ok mid", "drain ok", "drain nofault -", "drain ok 1,,2", "drain ok ,", "restart now", "dump all",
		"upend", "cpend x", "bulkup", "bulkup x", "bulkup 12345", "bulkup 2", "drainfirst desterr", "drainfirst corrupt 3", "drainfirst desterr x", "drainfirst destsize 2", "outage desterr", "recover", "copy 1 fetcherr: ok", "copy 1 fetcherr:nokind ok", "copy 1 fetcherr:eof:eof ok", "copy 1 ok:eof ok", "copy 1 fetchsize:eof ok",
		"copy 1 shortread:eof0 ok:eof", "up 1 ok:eof", "up 1 qseterr:", "up 1 srcerr:eof0", "copy 1 ok qdelerr:x", "frobnicate", "live", "settle", "upbegin 1 ok", "upbegin 1 ok pre extra", "up 1 ok", "copy 1 ok ok", "dump"} {
		k.op(o)
	}
	k.finish()
	k = begin(r, "malformed-live")
	k.op("live")
	k.live = true
	for _, o := range []string{"up 1 qseterr", "copy 1 ok ok", "dump", "live", "drain ok -", "outage corrupt", "outage", "recover now", "awaitfail", "awaitfail x", "awaitfail 0", "drainfirst desterr 3", "outage desterr:eof", "recover", "up 1 ok", "settle"} {
		k.op(o)
	}
	k.finish()
}

// Run is the generator + oracle of C19.
func Run(r *hk.Run) {
	r.Res.Rule = "cases: (a) witnesses of F-C19-1/2; (b) copy-fault matrix {all 32 fault words: ok, fetchsize, corrupt, destsize, shortread:eof0 and fetcherr/shortread/desterr x 9 error kinds (generic, os.ErrNotExist, PathError{ENOENT}, context.Canceled, DeadlineExceeded, io.EOF, io.ErrUnexpectedEOF, blobserver.ErrCorruptBlob, sorted.ErrNotFound)} x {queue.Delete ok/err} x {atomic, parked before/after queue.Delete} x {nothing, duplicate upload, failing upload, restart, other upload in between}; (c) upload matrix {nothing, acked, failed earlier upload} x {ok, queue.Set error, source error} x {parked before/after queue.Set} x 8 interleaved ops; (d) every op sequence of depth D (4 quick, 5 thorough) over a 16-op alphabet; (e) random walks over 4 blobs (ids 0..3: empty, 1 byte, two ordinary) and over 8 blobs (adding 32768/32769/65536/511 bytes) with all ops; (f) random scripts cut (crash + restart) after every prefix; (i) a zero-length / one-byte blob as the only pending item (first upload, alone after everything was delivered, only row at restart, after a failed attempt) in step and live mode, boundary sizes 511/32768/32769/65536/MaxBlobSize-1/MaxBlobSize, and all matrices for the empty, the 1-byte and an ordinary blob; (j) backlog + outage through the real runSync worker pool and the real syncLoop: 6..40 pending blobs in one batch, the source/destination failing for the whole batch, for k >= 5 of n blobs, for the first k attempts, or for a time window, then recovering (every wait under a watchdog: a runSync / syncLoop that never comes back is a finding with its ops); (k) a source with 2..3 sync handlers (own queue and destination each, hooks on one source hub; step-driven and via CreateHandler with the real loops): uploads during which one handler's queue.Set fails, at every registration position, then recovery – oracle per destination; (l) restarts over large queues (bulkup: 1001/2002 queued tiny blobs in quick, 999..3003 in thorough; needCopy = rows after the restart, then drain), also through the real syncLoop; (g) the real syncLoop via blobserver.CreateHandler(\"sync\") with restarts; (h) malformed ops. Every case ends with restart + failure-free drain and the liveness oracle; the safety oracle runs after every op. distinct = distinct op sequences; non-trivial = at least one acknowledged upload and one copy/drain/restart"
	genWitnesses(r)
	genLonePending(r)
	if r.Thorough() {
		genLargeQueue(r, []int{999, 1000, 1001, 1002, 2000, 2002, 2500, 3003}, true)
	} else {
		genLargeQueue(r, []int{1001, 2002}, true)
	}
	if r.Thorough() {
		genMulti(r, 3000)
	} else {
		genMulti(r, 300)
	}
	if r.Thorough() {
		genBacklog(r, []int{6, 7, 8, 11, 20, 40}, []string{"desterr", "desterr:canceled", "fetcherr", "fetcherr:enoent", "fetcherr:notexist", "shortread:ueof", "corrupt", "fetchsize", "destsize"})
		genBacklogLive(r, []int{6, 7, 10, 16, 25, 40}, 3)
	} else {
		genBacklog(r, []int{6, 9, 40}, []string{"desterr", "fetcherr:enoent", "corrupt", "destsize"})
		genBacklogLive(r, []int{6, 12, 40}, 1)
	}
	genBoundarySizes(r, true)
	genFaultMatrix(r)
	genUploadMatrix(r)
	if r.Thorough() {
		genExhaustive(r, 5)
		genRandom(r, 40000, 80, 4)
		genRandom(r, 4000, 80, 8)
		genCrashEverywhere(r, 400, 40)
		genLive(r, 60)
	} else {
		genExhaustive(r, 4)
		genRandom(r, 3000, 50, 4)
		genRandom(r, 300, 50, 8)
		genCrashEverywhere(r, 60, 30)
		genLive(r, 8)
	}
	genMalformed(r)

	// regression probes of the findings
	v1, _ := replay(witnessF1)
	_, d1 := v1.Dst[1]
	r.Probe("F-C19-1", has(v1.Acked, 1) && !d1, "up 1 qseterr; up 1 ok; restart; drain -> "+v1.String())
	v1r, _ := replay(witnessF1race)
	_, d1r := v1r.Dst[1]
	if has(v1r.Acked, 1) && !d1r {
		r.Probe("F-C19-1", true, "upbegin 1 ok pre; up 1 ok; restart; drain -> "+v1r.String())
	}
	v2, _ := replay(witnessF2)
	_, d2 := v2.Dst[1]
	r.Probe("F-C19-2", has(v2.Src, 1) && !d2 && len(v2.Rows) == 0, "up 1 qseterr; restart; drain -> "+v2.String())
}
