package c19

import (
	"verifharness/hk"
)

// NewExec returns a fresh interpreter of the C19 line protocol on the real code.
func NewExec() func(words []string) string {
	e := newExecState()
	return func(ws []string) string { return hk.Guard(func() string { return e.Step(ws) }) }
}

func Run(r *hk.Run) { r.Note("wip") }
