// Package c19 is the correspondence harness of property C19 (asynchronous sync delivers every blob
// eventually; its queue is durable). It drives the REAL pkg/server.SyncHandler over harness stores:
//
//   - source and destination are non-verifying map stores (so that bit-identity at the destination
//     rests on the sync handler's own size/digest check);
//   - the pending queue is one sorted.NewMemoryKeyValue that outlives every "restart";
//   - every handler generation talks to its own fault-injecting wrappers of the three; a crash/restart
//     kills the old generation's wrappers (they become inert) and builds a new handler over the same
//     underlying stores and queue;
//   - queue.Set / queue.Delete can be parked before or after their effect, which splits an upload
//     (blobserver.Receive -> hub hook -> enqueue) and a copy (copyBlob -> setError) at exactly the
//     micro-steps of the Lean model.
package c19

import (
	"bytes"
	"context"
	"errors"
	"fmt"
	"io"
	"io/fs"
	"os"
	"regexp"
	"runtime"
	"sort"
	"strconv"
	"strings"
	"sync"
	"sync/atomic"
	"syscall"
	"time"

	"go4.org/jsonconfig"
	"perkeep.org/pkg/blob"
	"perkeep.org/pkg/blobserver"
	"perkeep.org/pkg/constants"
	"perkeep.org/pkg/server"
	"perkeep.org/pkg/sorted"
)

var ctx = context.Background()

// Watchdogs. Every wait of the harness is bounded; a wait that runs out answers `stalled …` (the
// runSync loop of drain / drainfirst never returned), `timeout …` (settle: the real syncLoop left
// blobs pending) or `hang` (anything else) and stores a goroutine dump in Exec.LastDump. The watchdog
// itself decides nothing: the generator re-runs the case's ops in a fresh world and only a stall that
// happens again is a finding (ConfirmStall). Confirmed stalls shorten the later watchdogs, so that a
// broken copy loop costs seconds, not the tier's timeout.
var (
	stalls     atomic.Int32 // confirmed stalls of any kind in this process
	liveStalls atomic.Int32 // confirmed settle stalls
)

// Stalls reports the confirmed watchdog hits so far: (all, of the live settle alone).
func Stalls() (all, live int) { return int(stalls.Load()), int(liveStalls.Load()) }

// ConfirmStall records a stall that reproduced in a fresh world.
func ConfirmStall(out string) {
	stalls.Add(1)
	if strings.HasPrefix(out, "timeout") {
		liveStalls.Add(1)
	}
}

// IsStall: the answer of an op whose wait ran into a watchdog.
func IsStall(out string) bool {
	return out == "hang" || strings.HasPrefix(out, "stalled") || strings.HasPrefix(out, "timeout")
}

// wd is the watchdog time of a kind of wait: full before any confirmed stall and in re-runs that have
// to confirm the first one, shorter afterwards. Generous on purpose: slowness alone (an oversubscribed
// machine) must not look like a stall; the re-run in a fresh world is the second line of defence.
func (e *Exec) wd(kind string) time.Duration {
	confirmed := stalls.Load() > 0
	switch kind {
	case "runsync":
		switch {
		case !confirmed:
			return 12 * time.Second
		case e.rerun:
			return 4 * time.Second
		}
		return 1500 * time.Millisecond
	case "settle":
		// the real loop polls every queueSyncInterval (5 s): a pending blob may legitimately wait that
		// long after a missed wake-up
		switch {
		case !confirmed:
			return 15 * time.Second
		case e.rerun:
			return 9 * time.Second
		}
		return 7 * time.Second
	case "park":
		if confirmed && !e.rerun {
			return 10 * time.Second
		}
		return 60 * time.Second
	}
	// a whole op
	if confirmed && !e.rerun {
		return 30 * time.Second
	}
	return 180 * time.Second
}

var (
	reGoArgs   = regexp.MustCompile(`\((0x[0-9a-f]+|\.\.\.|, |\{|\}|\?)+\)`)
	reGoHeader = regexp.MustCompile(`^goroutine \d+ \[([^\],]*)[^\]]*\]:`)
)

// stackDump is runtime.Stack(all) reduced to the goroutines inside perkeep's server / blobserver
// packages and this harness, identical stacks collapsed, at most max bytes.
func stackDump(max int) string {
	buf := make([]byte, 8<<20)
	buf = buf[:runtime.Stack(buf, true)]
	count := map[string]int{}
	var order []string
	for _, g := range strings.Split(string(buf), "\n\n") {
		if !strings.Contains(g, "perkeep.org/pkg/server") && !strings.Contains(g, "perkeep.org/pkg/blobserver") &&
			!strings.Contains(g, "verifharness/props/c19") {
			continue
		}
		lines := strings.Split(g, "\n")
		if m := reGoHeader.FindStringSubmatch(lines[0]); m != nil {
			lines[0] = "[" + m[1] + "]"
		}
		var keep []string
		for _, l := range lines {
			if strings.HasPrefix(l, "\t") {
				// file:line +0x… -> file:line
				l = strings.TrimSpace(l)
				if i := strings.Index(l, " +0x"); i > 0 {
					l = l[:i]
				}
				if i := strings.LastIndex(l, "/"); i > 0 {
					l = l[i+1:]
				}
				keep[len(keep)-1] += " @" + l
				continue
			}
			keep = append(keep, reGoArgs.ReplaceAllString(l, "()"))
		}
		key := strings.Join(keep, " < ")
		if count[key] == 0 {
			order = append(order, key)
		}
		count[key]++
	}
	var b strings.Builder
	for _, k := range order {
		fmt.Fprintf(&b, "%dx %s | ", count[k], k)
		if b.Len() > max {
			b.WriteString("…")
			break
		}
	}
	return b.String()
}

// StepWD is Step under a per-op watchdog: no op of the protocol may block the harness.
func (e *Exec) StepWD(ws []string) string {
	done := make(chan string, 1)
	go func() {
		done <- func() (out string) {
			defer func() {
				if recover() != nil {
					out = "panic"
				}
			}()
			return e.Step(ws)
		}()
	}()
	t := time.NewTimer(e.wd("op"))
	defer t.Stop()
	select {
	case out := <-done:
		return out
	case <-t.C:
		e.LastDump = stackDump(6000)
		e.broken = "hang"
		return "hang"
	}
}

// ---- blobs ------------------------------------------------------------------------------------------

// Boundary sizes sit on fixed ids (a ref is a content address, so there is exactly one empty blob):
//
//	0 -> 0 bytes (Pk.Sync.emptyBlob)   1 -> 1 byte
//	4 -> 32768 (io.Copy's buffer)      5 -> 32769
//	6 -> 65536                         7 -> 511
//	8 -> constants.MaxBlobSize - 1     9 -> constants.MaxBlobSize
//
// every other id is a short text of 11..35 bytes.
const emptyID = 0

func sizedContent(i, n int) []byte {
	b := make([]byte, n)
	tag := fmt.Sprintf("c19-sized-%d|", i)
	for k := range b {
		b[k] = tag[k%len(tag)]
	}
	return b
}

var (
	blobMu    sync.Mutex
	blobCache = map[int][]byte{}
	refCache  = map[int]blob.Ref{}
)

func makeContent(i int) []byte {
	switch i {
	case emptyID:
		return []byte{}
	case 1:
		return []byte("a")
	case 4:
		return sizedContent(i, 32768)
	case 5:
		return sizedContent(i, 32769)
	case 6:
		return sizedContent(i, 65536)
	case 7:
		return sizedContent(i, 511)
	case 8:
		return sizedContent(i, constants.MaxBlobSize-1)
	case 9:
		return sizedContent(i, constants.MaxBlobSize)
	}
	return []byte(fmt.Sprintf("c19-blob-%d|", i) + strings.Repeat("x", (i*7)%23))
}

// content returns the bytes of blob i (shared, read-only).
func content(i int) []byte {
	blobMu.Lock()
	defer blobMu.Unlock()
	b, ok := blobCache[i]
	if !ok {
		b = makeContent(i)
		if i < 16 {
			blobCache[i] = b
		}
	}
	return b
}

func refOf(i int) blob.Ref {
	b := content(i)
	blobMu.Lock()
	defer blobMu.Unlock()
	r, ok := refCache[i]
	if !ok {
		r = blob.RefFromBytes(b)
		if i < 16 {
			refCache[i] = r
		}
	}
	return r
}

// ---- a plain, non-verifying map store ---------------------------------------------------------------

type mapStore struct {
	mu sync.Mutex
	m  map[blob.Ref][]byte
}

func newMapStore() *mapStore { return &mapStore{m: map[blob.Ref][]byte{}} }

func (s *mapStore) get(br blob.Ref) ([]byte, bool) {
	s.mu.Lock()
	defer s.mu.Unlock()
	b, ok := s.m[br]
	return b, ok
}

func (s *mapStore) put(br blob.Ref, b []byte) {
	s.mu.Lock()
	defer s.mu.Unlock()
	if _, had := s.m[br]; !had {
		s.m[br] = append([]byte(nil), b...)
	}
}

func (s *mapStore) refs() []blob.Ref {
	s.mu.Lock()
	defer s.mu.Unlock()
	out := make([]blob.Ref, 0, len(s.m))
	for br := range s.m {
		out = append(out, br)
	}
	sort.Slice(out, func(i, j int) bool { return out[i].Less(out[j]) })
	return out
}

// ---- fault vocabulary (same words as the Lean driver) -----------------------------------------------

// errKinds are the kinds of injected error values: every sentinel / error class that Go code
// commonly singles out with errors.Is or ==. A fault word is `base` (generic error) or `base:kind`.
var errKinds = []string{"generic", "notexist", "enoent", "canceled", "deadline", "eof", "ueof", "corruptblob", "notfound"}

var errInjected = errors.New("c19: injected fault")

func errOfKind(kind string) error {
	switch kind {
	case "notexist":
		return os.ErrNotExist
	case "enoent":
		return &fs.PathError{Op: "open", Path: "/c19/transiently/unavailable", Err: syscall.ENOENT}
	case "canceled":
		return context.Canceled
	case "deadline":
		return context.DeadlineExceeded
	case "eof":
		return io.EOF
	case "ueof":
		return io.ErrUnexpectedEOF
	case "corruptblob":
		return blobserver.ErrCorruptBlob
	case "notfound":
		return sorted.ErrNotFound
	}
	return errInjected
}

// splitKind parses `base` or `base:kind`.
func splitKind(w string) (base, kind string, ok bool) {
	parts := strings.Split(w, ":")
	switch len(parts) {
	case 1:
		return w, "generic", true
	case 2:
		for _, k := range errKinds {
			if k == parts[1] {
				return parts[0], k, true
			}
		}
	}
	return "", "", false
}

// errOfFault is the error value of a fault word whose base is one of bases, nil otherwise.
func errOfFault(w string, bases ...string) error {
	b, k, ok := splitKind(w)
	if !ok {
		return nil
	}
	for _, x := range bases {
		if b == x {
			return errOfKind(k)
		}
	}
	return nil
}

// copyFaults: the base outcomes of a copy attempt; fetcherr / shortread / desterr take a kind.
var copyFaults = []string{"ok", "fetcherr", "fetchsize", "shortread", "corrupt", "desterr", "destsize"}

func isCopyFault(w string) bool {
	switch w {
	case "ok", "fetchsize", "corrupt", "destsize", "shortread:eof0":
		return true
	}
	b, _, ok := splitKind(w)
	return ok && (b == "fetcherr" || b == "shortread" || b == "desterr")
}

// allCopyFaults enumerates every fault word.
func allCopyFaults() []string {
	out := []string{"ok", "fetchsize", "corrupt", "destsize", "shortread:eof0"}
	for _, b := range []string{"fetcherr", "shortread", "desterr"} {
		out = append(out, b)
		for _, k := range errKinds[1:] {
			out = append(out, b+":"+k)
		}
	}
	return out
}

var errKilled = errors.New("c19: handler generation was killed")

// ---- one world = persistent state; one gen = one process lifetime of the sync handler ---------------

type world struct {
	mu    sync.RWMutex // wrappers act under RLock; kill takes Lock
	src   *mapStore
	dst   *mapStore
	queue sorted.KeyValue

	omu    sync.Mutex
	outage string // fault word applied to every call at its site (the store is down), "" = up

	rejected atomic.Int32 // calls refused by the outage since the last `outage` / `restart` op
}

type bp struct {
	pos     string // "pre" | "post"
	fail    error  // the queue operation it guards fails (without effect) with this error
	parked  chan struct{}
	release chan struct{}
	once    sync.Once
}

func (b *bp) free() { b.once.Do(func() { close(b.release) }) }

type gen struct {
	w      *world
	killed bool // guarded by w.mu

	fmu    sync.Mutex
	fault  map[string]string // ref string -> copy fault (fetch*/dest*)
	srcerr map[string]error  // source ReceiveBlob fails
	qset   map[string]error  // queue.Set fails
	qdel   map[string]error  // queue.Delete fails
	bpSet  map[string]*bp    // one-shot breakpoints of queue.Set / queue.Delete, by key
	bpDel  map[string]*bp
	allBps []*bp

	firstFault string // `drainfirst`: the first firstLeft calls at the fault's site fail
	firstLeft  int

	src *genSrc
	dst *genDst
	q   *genQ
	sh  *server.SyncHandler
}

func newGen(w *world) *gen {
	g := &gen{w: w, fault: map[string]string{}, srcerr: map[string]error{}, qset: map[string]error{}, qdel: map[string]error{},
		bpSet: map[string]*bp{}, bpDel: map[string]*bp{}}
	g.src, g.dst, g.q = &genSrc{g}, &genDst{g}, &genQ{g}
	return g
}

func (g *gen) kill() {
	g.w.mu.Lock()
	g.killed = true
	g.w.mu.Unlock()
	// the package-level hub table of blobserver would otherwise keep every generation (hub -> hook ->
	// handler -> wrappers -> world) reachable for the life of the process
	blobserver.VerifForgetHub(g.src)
	g.fmu.Lock()
	for _, b := range g.allBps {
		b.free()
	}
	g.fmu.Unlock()
}

func (g *gen) arm(m map[string]*bp, key, pos string, fail error) *bp {
	b := &bp{pos: pos, fail: fail, parked: make(chan struct{}), release: make(chan struct{})}
	g.fmu.Lock()
	m[key] = b
	g.allBps = append(g.allBps, b)
	g.fmu.Unlock()
	return b
}

func (g *gen) disarm(m map[string]*bp, key string) {
	g.fmu.Lock()
	delete(m, key)
	g.fmu.Unlock()
}

// take removes and returns the breakpoint armed for key (one-shot: the first caller gets it).
func (g *gen) take(m map[string]*bp, key string) *bp {
	g.fmu.Lock()
	defer g.fmu.Unlock()
	b := m[key]
	delete(m, key)
	return b
}

// faultOf is the fault of one call at site ("fetcherr" = source Fetch, "desterr" = destination
// ReceiveBlob): the per-blob fault if one is set; else the counted fault of `drainfirst` (the first K
// calls at its site fail, whichever blobs they are); else the outage of the world (every call at its
// site fails until `recover`).
func (g *gen) faultOf(br blob.Ref, site string) string {
	g.fmu.Lock()
	defer g.fmu.Unlock()
	if f := g.fault[br.String()]; f != "" {
		return f
	}
	if g.firstLeft > 0 {
		if b, _, _ := splitKind(g.firstFault); b == site {
			g.firstLeft--
			return g.firstFault
		}
	}
	g.w.omu.Lock()
	o := g.w.outage
	g.w.omu.Unlock()
	if b, _, _ := splitKind(o); o != "" && b == site {
		g.w.rejected.Add(1)
		return o
	}
	return ""
}

// isOutageFault: faults that fail a call unconditionally and without any effect
func isOutageFault(w string) bool {
	b, _, ok := splitKind(w)
	return ok && (b == "fetcherr" || b == "desterr")
}

// act runs f under the generation lock unless the generation is dead.
func (g *gen) act(f func() error) error {
	g.w.mu.RLock()
	defer g.w.mu.RUnlock()
	if g.killed {
		return errKilled
	}
	return f()
}

func (b *bp) park(pos string) {
	if b == nil || b.pos != pos {
		return
	}
	select {
	case b.parked <- struct{}{}:
		<-b.release
	case <-b.release:
	}
}

// ---- source wrapper ---------------------------------------------------------------------------------

type genSrc struct{ g *gen }

type faultReader struct {
	data []byte
	off  int
	fail int   // error once off reaches fail (>= 0)
	err  error // the error returned then
}

func (r *faultReader) Read(p []byte) (int, error) {
	if r.fail >= 0 && r.off >= r.fail {
		return 0, r.err
	}
	if r.off >= len(r.data) {
		return 0, io.EOF
	}
	end := len(r.data)
	if r.fail >= 0 && end > r.fail {
		end = r.fail
	}
	n := copy(p, r.data[r.off:end])
	r.off += n
	return n, nil
}

func (s *genSrc) Fetch(_ context.Context, br blob.Ref) (rc io.ReadCloser, size uint32, err error) {
	err = s.g.act(func() error {
		b, ok := s.g.w.src.get(br)
		if !ok {
			return errors.New("c19: no such blob in source")
		}
		f := s.g.faultOf(br, "fetcherr")
		if e := errOfFault(f, "fetcherr"); e != nil {
			return e
		}
		if f == "shortread:eof0" {
			rc, size = io.NopCloser(&faultReader{data: b, fail: 0, err: io.EOF}), uint32(len(b))
			return nil
		}
		if e := errOfFault(f, "shortread"); e != nil {
			rc, size = io.NopCloser(&faultReader{data: b, fail: len(b) / 2, err: e}), uint32(len(b))
			return nil
		}
		switch f {
		case "fetchsize":
			rc, size = io.NopCloser(bytes.NewReader(b)), uint32(len(b))+1
		case "corrupt":
			if len(b) == 0 {
				// there is no other content of length zero: a corrupt read of the empty blob can
				// only show up as a size mismatch
				rc, size = io.NopCloser(bytes.NewReader([]byte{0})), 1
				return nil
			}
			c := append([]byte(nil), b...)
			c[len(c)/2] ^= 0x20
			rc, size = io.NopCloser(bytes.NewReader(c)), uint32(len(c))
		default:
			rc, size = io.NopCloser(bytes.NewReader(b)), uint32(len(b))
		}
		return nil
	})
	return
}

func (s *genSrc) ReceiveBlob(_ context.Context, br blob.Ref, r io.Reader) (sb blob.SizedRef, err error) {
	all, rerr := io.ReadAll(r)
	if rerr != nil {
		return sb, rerr
	}
	err = s.g.act(func() error {
		s.g.fmu.Lock()
		f := s.g.srcerr[br.String()]
		s.g.fmu.Unlock()
		if f != nil {
			return f
		}
		s.g.w.src.put(br, all)
		sb = blob.SizedRef{Ref: br, Size: uint32(len(all))}
		return nil
	})
	return
}

func statVia(m *mapStore, blobs []blob.Ref, fn func(blob.SizedRef) error) error {
	for _, br := range blobs {
		if b, ok := m.get(br); ok {
			if err := fn(blob.SizedRef{Ref: br, Size: uint32(len(b))}); err != nil {
				return err
			}
		}
	}
	return nil
}

func enumVia(c context.Context, m *mapStore, dest chan<- blob.SizedRef, after string, limit int) error {
	defer close(dest)
	n := 0
	for _, br := range m.refs() {
		if br.String() <= after {
			continue
		}
		if n >= limit {
			break
		}
		b, _ := m.get(br)
		select {
		case dest <- blob.SizedRef{Ref: br, Size: uint32(len(b))}:
			n++
		case <-c.Done():
			return c.Err()
		}
	}
	return nil
}

func (s *genSrc) StatBlobs(_ context.Context, blobs []blob.Ref, fn func(blob.SizedRef) error) error {
	return statVia(s.g.w.src, blobs, fn)
}
func (s *genSrc) EnumerateBlobs(c context.Context, dest chan<- blob.SizedRef, after string, limit int) error {
	return enumVia(c, s.g.w.src, dest, after, limit)
}
func (s *genSrc) RemoveBlobs(context.Context, []blob.Ref) error { return errors.New("c19: no removal") }

// ---- destination wrapper ----------------------------------------------------------------------------

type genDst struct{ g *gen }

func (d *genDst) ReceiveBlob(_ context.Context, br blob.Ref, r io.Reader) (sb blob.SizedRef, err error) {
	all, rerr := io.ReadAll(r)
	if rerr != nil {
		return sb, rerr
	}
	err = d.g.act(func() error {
		f := d.g.faultOf(br, "desterr")
		if e := errOfFault(f, "desterr"); e != nil {
			return e
		}
		d.g.w.dst.put(br, all)
		sb = blob.SizedRef{Ref: br, Size: uint32(len(all))}
		if f == "destsize" {
			sb.Size++
		}
		return nil
	})
	return
}
func (d *genDst) Fetch(_ context.Context, br blob.Ref) (io.ReadCloser, uint32, error) {
	b, ok := d.g.w.dst.get(br)
	if !ok {
		return nil, 0, errors.New("c19: no such blob in destination")
	}
	return io.NopCloser(bytes.NewReader(b)), uint32(len(b)), nil
}
func (d *genDst) StatBlobs(_ context.Context, blobs []blob.Ref, fn func(blob.SizedRef) error) error {
	return statVia(d.g.w.dst, blobs, fn)
}
func (d *genDst) EnumerateBlobs(c context.Context, dest chan<- blob.SizedRef, after string, limit int) error {
	return enumVia(c, d.g.w.dst, dest, after, limit)
}
func (d *genDst) RemoveBlobs(context.Context, []blob.Ref) error { return errors.New("c19: no removal") }

// ---- queue wrapper ----------------------------------------------------------------------------------

type genQ struct{ g *gen }

func (q *genQ) Get(key string) (string, error) { return q.g.w.queue.Get(key) }

func (q *genQ) Set(key, value string) error {
	b := q.g.take(q.g.bpSet, key)
	b.park("pre")
	err := q.g.act(func() error {
		q.g.fmu.Lock()
		f := q.g.qset[key]
		q.g.fmu.Unlock()
		if f != nil {
			return f
		}
		if b != nil && b.fail != nil {
			return b.fail
		}
		return q.g.w.queue.Set(key, value)
	})
	b.park("post")
	return err
}

func (q *genQ) Delete(key string) error {
	b := q.g.take(q.g.bpDel, key)
	b.park("pre")
	err := q.g.act(func() error {
		q.g.fmu.Lock()
		f := q.g.qdel[key]
		q.g.fmu.Unlock()
		if f != nil {
			return f
		}
		if b != nil && b.fail != nil {
			return b.fail
		}
		return q.g.w.queue.Delete(key)
	})
	b.park("post")
	return err
}

func (q *genQ) BeginBatch() sorted.BatchMutation { return q.g.w.queue.BeginBatch() }
func (q *genQ) CommitBatch(b sorted.BatchMutation) error {
	return q.g.act(func() error { return q.g.w.queue.CommitBatch(b) })
}
func (q *genQ) Find(start, end string) sorted.Iterator { return q.g.w.queue.Find(start, end) }
func (q *genQ) Close() error                           { return nil }

// ---- loader and queue registration for the CreateHandler("sync") path -------------------------------

type loader struct{ g *gen }

func (l loader) FindHandlerByType(string) (string, any, error) {
	return "", nil, blobserver.ErrHandlerTypeNotFound
}
func (l loader) AllHandlers() (map[string]string, map[string]any) { return nil, nil }
func (l loader) MyPrefix() string                                 { return "/sync/" }
func (l loader) BaseURL() string                                  { return "http://c19.invalid" }
func (l loader) GetHandlerType(string) string                     { return "" }
func (l loader) GetHandler(string) (any, error)                   { return nil, errors.New("c19: no handlers") }
func (l loader) GetStorage(prefix string) (blobserver.Storage, error) {
	switch prefix {
	case "/src/":
		return l.g.src, nil
	case "/dst/":
		return l.g.dst, nil
	}
	return nil, errors.New("c19: unknown storage " + prefix)
}

var (
	regOnce   sync.Once
	liveMu    sync.Mutex
	liveQueue sorted.KeyValue
)

func registerQueueType() {
	regOnce.Do(func() {
		sorted.RegisterKeyValue("c19shared", func(jsonconfig.Obj) (sorted.KeyValue, error) {
			if liveQueue == nil {
				return nil, errors.New("c19: no queue prepared")
			}
			return liveQueue, nil
		})
	})
}

// newHandler builds the handler of generation g: through the verif hook (no loop goroutine) in step
// mode, through blobserver.CreateHandler("sync", …) with the real syncLoop in live mode.
func (g *gen) newHandler(live bool) error {
	if !live {
		sh, err := server.VerifNewSyncHandler("/src/", "/dst/", g.src, g.dst, g.q)
		g.sh = sh
		return err
	}
	registerQueueType()
	liveMu.Lock()
	defer liveMu.Unlock()
	liveQueue = g.q
	h, err := blobserver.CreateHandler("sync", loader{g}, jsonconfig.Obj{
		"from": "/src/", "to": "/dst/", "queue": map[string]any{"type": "c19shared"}})
	liveQueue = nil
	if err != nil {
		return err
	}
	sh, ok := h.(*server.SyncHandler)
	if !ok {
		return errors.New("c19: CreateHandler(sync) returned a foreign type")
	}
	g.sh = sh
	return nil
}

// ---- the interpreter --------------------------------------------------------------------------------

type parkedOp struct {
	b    *bp
	done chan error
}

// Exec is one case's implementation-side state.
type Exec struct {
	w        *world
	g        *gen
	live     bool
	nops     int
	ids      map[string]int // ref string -> id, for everything ever mentioned
	acked    map[int]bool
	upl      map[int]*parkedOp
	cps      map[int]*parkedOp
	broken   string
	bulkNext int    // next bulk id offset
	multi    *multi // non-nil: the case is a multi-destination case (multi.go)
	rerun    bool   // this Exec re-runs a case to confirm a stall: full watchdogs

	// LastDump is the goroutine dump taken when a watchdog of this Exec last fired.
	LastDump string
}

func newExecState() *Exec {
	w0 := &world{src: newMapStore(), dst: newMapStore(), queue: sorted.NewMemoryKeyValue()}
	e := &Exec{w: w0,
		ids: map[string]int{}, acked: map[int]bool{}, upl: map[int]*parkedOp{}, cps: map[int]*parkedOp{}}
	e.g = newGen(e.w)
	if err := e.g.newHandler(false); err != nil {
		e.broken = err.Error()
	}
	return e
}

// Close makes the current generation inert (leaked loop goroutines of live handlers only ever see errors).
func (e *Exec) Close() {
	e.g.kill()
	if e.multi != nil {
		e.multi.close()
	}
	// a live handler's syncLoop goroutine never ends and keeps its (now inert) wrappers and through
	// them this world reachable: drop the blob data
	for _, m := range []*mapStore{e.w.src, e.w.dst} {
		m.mu.Lock()
		m.m = map[blob.Ref][]byte{}
		m.mu.Unlock()
	}
}

func parseID(s string) (int, bool) {
	if s == "" || len(s) > 4 {
		return 0, false
	}
	for _, c := range s {
		if c < '0' || c > '9' {
			return 0, false
		}
	}
	if len(s) > 1 && s[0] == '0' {
		return 0, false
	}
	n, err := strconv.Atoi(s)
	return n, err == nil
}

func (e *Exec) note(i int) blob.Ref {
	br := refOf(i)
	e.ids[br.String()] = i
	return br
}

func (e *Exec) waitParkedOrDone(b *bp, done chan error) (parked bool, err error, hang bool) {
	t := time.NewTimer(e.wd("park"))
	defer t.Stop()
	select {
	case <-b.parked:
		return true, nil, false
	case err = <-done:
		return false, err, false
	case <-t.C:
		e.LastDump = stackDump(6000)
		e.broken = "hang"
		return false, nil, true
	}
}

// waitDone waits for a released parked operation to finish.
func (e *Exec) waitDone(done chan error) (err error, hang bool) {
	t := time.NewTimer(e.wd("park"))
	defer t.Stop()
	select {
	case err = <-done:
		return err, false
	case <-t.C:
		e.LastDump = stackDump(6000)
		e.broken = "hang"
		return nil, true
	}
}

func (e *Exec) upload(i int, br blob.Ref) error {
	_, err := blobserver.Receive(ctx, e.g.src, br, bytes.NewReader(content(i)))
	return err
}

func (e *Exec) pending() (need map[blob.Ref]uint32, copying map[blob.Ref]bool) {
	n, c := e.g.sh.VerifPending()
	copying = map[blob.Ref]bool{}
	for _, br := range c {
		copying[br] = true
	}
	return n, copying
}

func (e *Exec) setUpFault(br blob.Ref, q string) {
	e.g.fmu.Lock()
	delete(e.g.qset, br.String())
	delete(e.g.srcerr, br.String())
	if err := errOfFault(q, "qseterr"); err != nil {
		e.g.qset[br.String()] = err
	}
	if err := errOfFault(q, "srcerr"); err != nil {
		e.g.srcerr[br.String()] = err
	}
	e.g.fmu.Unlock()
}

func (e *Exec) setCopyFault(br blob.Ref, f, dq string) {
	e.g.fmu.Lock()
	delete(e.g.fault, br.String())
	delete(e.g.qdel, br.String())
	if f != "ok" {
		e.g.fault[br.String()] = f
	}
	if err := errOfFault(dq, "qdelerr"); err != nil {
		e.g.qdel[br.String()] = err
	}
	e.g.fmu.Unlock()
}

func (e *Exec) clearFaults() {
	e.g.fmu.Lock()
	e.g.fault, e.g.qdel = map[string]string{}, map[string]error{}
	e.g.fmu.Unlock()
}

func validUpFault(q string) bool {
	b, _, ok := splitKind(q)
	return q == "ok" || (ok && (b == "qseterr" || b == "srcerr"))
}
func validDelFault(q string) bool {
	b, _, ok := splitKind(q)
	return q == "ok" || (ok && b == "qdelerr")
}
func isSrcErr(q string) bool { return errOfFault(q, "srcerr") != nil }
func validPos(p string) bool { return p == "pre" || p == "post" }

// Step executes one op line on the real code.
func (e *Exec) Step(ws []string) string {
	if e.broken != "" {
		return "broken:" + e.broken
	}
	e.nops++
	if len(ws) == 0 {
		return "bad-op"
	}
	if e.multi != nil {
		return e.multi.step(e, ws)
	}
	if e.live {
		return e.stepLive(ws)
	}
	switch ws[0] {
	case "multi":
		// multi N step|live (first op only): N sync handlers with separate queues and destinations
		// on ONE source storage
		if len(ws) != 3 || e.nops != 1 || (ws[1] != "2" && ws[1] != "3") || (ws[2] != "step" && ws[2] != "live") {
			return "bad-op"
		}
		e.g.kill()
		e.multi = newMulti(int(ws[1][0]-'0'), ws[2] == "live")
		if err := e.multi.start(); err != nil {
			e.broken = err.Error()
			return "broken:" + e.broken
		}
		return "ok"
	case "live":
		if len(ws) != 1 || e.nops != 1 {
			return "bad-op"
		}
		e.g.kill()
		e.g = newGen(e.w)
		e.live = true
		if err := e.g.newHandler(true); err != nil {
			e.broken = err.Error()
			return "broken:" + e.broken
		}
		return "ok"
	case "up":
		if len(ws) != 3 || !validUpFault(ws[2]) {
			return "bad-op"
		}
		i, ok := parseID(ws[1])
		if !ok {
			return "bad-op"
		}
		br := e.note(i)
		e.setUpFault(br, ws[2])
		err := e.upload(i, br)
		e.setUpFault(br, "ok")
		if err != nil {
			return "err"
		}
		e.acked[i] = true
		return "ack"
	case "upbegin":
		if len(ws) != 4 || !validUpFault(ws[2]) || !validPos(ws[3]) {
			return "bad-op"
		}
		i, ok := parseID(ws[1])
		if !ok {
			return "bad-op"
		}
		if e.upl[i] != nil {
			return "busy"
		}
		br := e.note(i)
		if isSrcErr(ws[2]) {
			e.setUpFault(br, ws[2])
		}
		// the breakpoint is one-shot and carries the queue fault, so a concurrent atomic upload of
		// the same blob neither parks nor inherits the fault
		b := e.g.arm(e.g.bpSet, br.String(), ws[3], errOfFault(ws[2], "qseterr"))
		done := make(chan error, 1)
		go func() { done <- e.upload(i, br) }()
		parked, err, hang := e.waitParkedOrDone(b, done)
		e.g.disarm(e.g.bpSet, br.String())
		e.setUpFault(br, "ok")
		if hang {
			return "hang"
		}
		if !parked {
			if err != nil {
				return "err"
			}
			e.acked[i] = true
			return "ack"
		}
		e.upl[i] = &parkedOp{b: b, done: done}
		return "parked"
	case "upend":
		if len(ws) != 2 {
			return "bad-op"
		}
		i, ok := parseID(ws[1])
		if !ok {
			return "bad-op"
		}
		p := e.upl[i]
		if p == nil {
			return "none"
		}
		delete(e.upl, i)
		p.b.free()
		err, hang := e.waitDone(p.done)
		if hang {
			return "hang"
		}
		if err != nil {
			return "err"
		}
		e.acked[i] = true
		return "ack"
	case "copy", "cpbegin":
		begin := ws[0] == "cpbegin"
		if (begin && len(ws) != 5) || (!begin && len(ws) != 4) || !isCopyFault(ws[2]) || !validDelFault(ws[3]) {
			return "bad-op"
		}
		if begin && !validPos(ws[4]) {
			return "bad-op"
		}
		i, ok := parseID(ws[1])
		if !ok {
			return "bad-op"
		}
		br := e.note(i)
		need, copying := e.pending()
		size, isNeed := need[br]
		if !isNeed {
			return "notpending"
		}
		if copying[br] {
			return "busy"
		}
		sb := blob.SizedRef{Ref: br, Size: size}
		if !begin {
			e.setCopyFault(br, ws[2], ws[3])
			err := e.g.sh.VerifCopyBlob(ctx, sb)
			e.setCopyFault(br, "ok", "ok")
			if err != nil {
				return "fail"
			}
			return "ok"
		}
		e.setCopyFault(br, ws[2], "ok")
		b := e.g.arm(e.g.bpDel, br.String(), ws[4], errOfFault(ws[3], "qdelerr"))
		done := make(chan error, 1)
		go func() { done <- e.g.sh.VerifCopyBlob(ctx, sb) }()
		parked, err, hang := e.waitParkedOrDone(b, done)
		e.g.disarm(e.g.bpDel, br.String())
		e.setCopyFault(br, "ok", "ok")
		if hang {
			return "hang"
		}
		if !parked {
			if err != nil {
				return "fail"
			}
			return "ok"
		}
		e.cps[i] = &parkedOp{b: b, done: done}
		return "parked"
	case "cpend":
		if len(ws) != 2 {
			return "bad-op"
		}
		i, ok := parseID(ws[1])
		if !ok {
			return "bad-op"
		}
		p := e.cps[i]
		if p == nil {
			return "none"
		}
		delete(e.cps, i)
		p.b.free()
		err, hang := e.waitDone(p.done)
		if hang {
			return "hang"
		}
		if err != nil {
			return "fail"
		}
		return "ok"
	case "drain":
		if len(ws) != 3 || !isCopyFault(ws[1]) {
			return "bad-op"
		}
		var ids []int
		if ws[2] != "-" {
			for _, s := range strings.Split(ws[2], ",") {
				i, ok := parseID(s)
				if !ok {
					return "bad-op"
				}
				ids = append(ids, i)
			}
		}
		if len(e.cps) > 0 {
			return "busy"
		}
		for _, i := range ids {
			e.setCopyFault(e.note(i), ws[1], "ok")
		}
		out := e.runSyncLoop()
		e.clearFaults()
		return out
	case "drainfirst":
		// the first K copy attempts (whichever blobs the worker pool picks) fail with an
		// unconditional, effect-free fault; later attempts are clean
		if len(ws) != 3 || !isOutageFault(ws[1]) {
			return "bad-op"
		}
		kk, ok := parseID(ws[2])
		if !ok {
			return "bad-op"
		}
		if len(e.cps) > 0 {
			return "busy"
		}
		e.g.fmu.Lock()
		e.g.firstFault, e.g.firstLeft = ws[1], kk
		e.g.fmu.Unlock()
		out := e.runSyncLoop()
		e.g.fmu.Lock()
		e.g.firstFault, e.g.firstLeft = "", 0
		e.g.fmu.Unlock()
		return out
	case "bulkup":
		// N distinct tiny blobs (ids from bulkBase up), each a whole clean upload
		if len(ws) != 2 {
			return "bad-op"
		}
		n, ok := parseID(ws[1])
		if !ok {
			return "bad-op"
		}
		return e.bulkup(n)
	case "restart":
		if len(ws) != 1 {
			return "bad-op"
		}
		e.restart(false)
		if e.broken != "" {
			return "broken:" + e.broken
		}
		need, _ := e.pending()
		return fmt.Sprintf("need=%d", len(need))
	case "dump":
		if len(ws) != 1 {
			return "bad-op"
		}
		return e.Dump()
	}
	return "bad-op"
}

// runSyncLoop is `for sh.runSync(…) > 0 {}` on the real handler, under a watchdog: a runSync that does
// not come back (e.g. it waits for results of workers that are gone) yields "stalled".
func (e *Exec) runSyncLoop() string { return e.runSyncLoopOn(e.g.sh) }

func (e *Exec) runSyncLoopOn(sh *server.SyncHandler) string {
	done := make(chan int, 1)
	go func() {
		total := 0
		for round := 0; round < 10000; round++ {
			n := sh.VerifRunSync()
			total += n
			if n == 0 {
				break
			}
		}
		done <- total
	}()
	t := time.NewTimer(e.wd("runsync"))
	defer t.Stop()
	select {
	case total := <-done:
		return fmt.Sprintf("copied=%d", total)
	case <-t.C:
		e.LastDump = stackDump(6000)
		e.broken = "stalled"
		need, _ := sh.VerifPending()
		return fmt.Sprintf("stalled need=%d", len(need))
	}
}

func (e *Exec) bulkup(n int) string {
	acked := 0
	for k := 0; k < n; k++ {
		i := bulkBase + e.bulkNext
		e.bulkNext++
		br := e.note(i)
		if err := e.upload(i, br); err == nil {
			e.acked[i] = true
			acked++
		}
	}
	return fmt.Sprintf("acked=%d", acked)
}

func (e *Exec) restart(live bool) {
	e.g.kill()
	e.upl, e.cps = map[int]*parkedOp{}, map[int]*parkedOp{}
	e.g = newGen(e.w)
	if err := e.g.newHandler(live); err != nil {
		e.broken = err.Error()
	}
}

func (e *Exec) stepLive(ws []string) string {
	switch {
	case len(ws) == 3 && ws[0] == "up" && ws[2] == "ok":
		i, ok := parseID(ws[1])
		if !ok {
			return "bad-op"
		}
		br := e.note(i)
		if err := e.upload(i, br); err != nil {
			return "err"
		}
		e.acked[i] = true
		return "ack"
	case len(ws) == 2 && ws[0] == "bulkup":
		n, ok := parseID(ws[1])
		if !ok {
			return "bad-op"
		}
		return e.bulkup(n)
	case len(ws) == 2 && ws[0] == "outage" && isOutageFault(ws[1]):
		e.w.omu.Lock()
		e.w.outage = ws[1]
		e.w.omu.Unlock()
		e.w.rejected.Store(0)
		return "ok"
	case len(ws) == 2 && ws[0] == "awaitfail":
		// wait (under the settle watchdog) until the outage has refused K calls since the last
		// `outage` / `restart`: makes "a whole batch failed while the store was down" a fact
		// instead of a matter of timing
		kk, ok := parseID(ws[1])
		if !ok {
			return "bad-op"
		}
		deadline := time.Now().Add(e.wd("settle"))
		for int(e.w.rejected.Load()) < kk {
			if time.Now().After(deadline) {
				e.LastDump = stackDump(6000)
				e.broken = "stalled"
				return "timeout " + e.Dump()
			}
			time.Sleep(time.Millisecond)
		}
		return "ok"
	case len(ws) == 1 && ws[0] == "recover":
		e.w.omu.Lock()
		e.w.outage = ""
		e.w.omu.Unlock()
		return "ok"
	case len(ws) == 1 && ws[0] == "restart":
		e.w.rejected.Store(0)
		e.restart(true)
		if e.broken != "" {
			return "broken:" + e.broken
		}
		return "ok"
	case len(ws) == 1 && ws[0] == "settle":
		deadline := time.Now().Add(e.wd("settle"))
		for {
			need, copying := e.pending()
			if len(need) == 0 && len(copying) == 0 {
				return e.liveDump()
			}
			if time.Now().After(deadline) {
				e.LastDump = stackDump(6000)
				e.broken = "stalled"
				return "timeout " + e.liveDump()
			}
			time.Sleep(2 * time.Millisecond)
		}
	}
	return "bad-op"
}

// ---- observation ------------------------------------------------------------------------------------

// View is the observable state, by blob id.
type View struct {
	Src, Rows, Need, Copying, Acked, Upl, Cps []int
	Dst                                       map[int]bool // id -> bytes identical to the uploaded content
	BadRows                                   []string     // rows that do not parse or whose size is wrong
	Foreign                                   int          // refs never mentioned by an op (must be 0)
}

func (e *Exec) idOf(br blob.Ref) (int, bool) {
	i, ok := e.ids[br.String()]
	return i, ok
}

func (e *Exec) Observe() View {
	v := View{Dst: map[int]bool{}}
	for _, br := range e.w.src.refs() {
		if i, ok := e.idOf(br); ok {
			v.Src = append(v.Src, i)
		} else {
			v.Foreign++
		}
	}
	for _, br := range e.w.dst.refs() {
		if i, ok := e.idOf(br); ok {
			b, _ := e.w.dst.get(br)
			v.Dst[i] = bytes.Equal(b, content(i))
		} else {
			v.Foreign++
		}
	}
	it := e.w.queue.Find("", "")
	for it.Next() {
		br, ok := blob.Parse(it.Key())
		i, known := 0, false
		if ok {
			i, known = e.idOf(br)
		}
		if !ok || !known {
			v.BadRows = append(v.BadRows, it.Key())
			continue
		}
		if it.Value() != strconv.Itoa(len(content(i))) {
			v.BadRows = append(v.BadRows, it.Key()+"="+it.Value())
		}
		v.Rows = append(v.Rows, i)
	}
	it.Close()
	need, copying := e.pending()
	for br := range need {
		if i, ok := e.idOf(br); ok {
			v.Need = append(v.Need, i)
		} else {
			v.Foreign++
		}
	}
	for br := range copying {
		if i, ok := e.idOf(br); ok {
			v.Copying = append(v.Copying, i)
		} else {
			v.Foreign++
		}
	}
	for i := range e.acked {
		v.Acked = append(v.Acked, i)
	}
	for i := range e.upl {
		v.Upl = append(v.Upl, i)
	}
	for i := range e.cps {
		v.Cps = append(v.Cps, i)
	}
	for _, l := range [][]int{v.Src, v.Rows, v.Need, v.Copying, v.Acked, v.Upl, v.Cps} {
		sort.Ints(l)
	}
	return v
}

// bulkBase: ids of the blobs uploaded by `bulkup` (not expressible as an op argument). In state lines
// they are printed as ranges lo-hi so that a queue of thousands of rows stays one short line.
const bulkBase = 100000

// joinInts prints a sorted id list: ids below bulkBase one by one, bulk ids as maximal ranges.
func joinInts(l []int) string {
	var s []string
	for k := 0; k < len(l); k++ {
		if l[k] < bulkBase {
			s = append(s, strconv.Itoa(l[k]))
			continue
		}
		j := k
		for j+1 < len(l) && l[j+1] == l[j]+1 {
			j++
		}
		if j == k {
			s = append(s, strconv.Itoa(l[k]))
		} else {
			s = append(s, strconv.Itoa(l[k])+"-"+strconv.Itoa(l[j]))
		}
		k = j
	}
	return strings.Join(s, ",")
}

func (v View) String() string {
	s := fmt.Sprintf("src=%s dst=%s rows=%s need=%s copying=%s acked=%s upl=%s cps=%s",
		joinInts(v.Src), dstString(v.Dst), joinInts(v.Rows), joinInts(v.Need), joinInts(v.Copying),
		joinInts(v.Acked), joinInts(v.Upl), joinInts(v.Cps))
	if len(v.BadRows) > 0 || v.Foreign > 0 {
		s += fmt.Sprintf(" badrows=%d foreign=%d", len(v.BadRows), v.Foreign)
	}
	return s
}

func (e *Exec) Dump() string { return e.Observe().String() }

// pendingRows drops the rows of blobs the destination already holds. While the real loop runs
// concurrently with uploads, a re-upload of a blob whose copy is just completing (between
// queue.Delete and the removal from needCopy) legitimately leaves such a stale row: enqueue writes the
// row (again), finds the blob still pending in memory, and the completing copy then drops the pending
// entry. The row is harmless (the blob is delivered; after a restart it is copied once more and the
// row goes) but it depends on timing, so the state lines of the live modes show pending rows only.
func pendingRows(rows []int, dst map[int]bool) (pending []int, stale int) {
	for _, i := range rows {
		if _, at := dst[i]; at {
			stale++
		} else {
			pending = append(pending, i)
		}
	}
	return
}

func (e *Exec) liveDump() string {
	v := e.Observe()
	v.Rows, _ = pendingRows(v.Rows, v.Dst)
	return v.String()
}
