package c19

import (
	"bytes"
	"fmt"
	"sort"
	"strconv"
	"strings"
	"time"

	"perkeep.org/pkg/blob"
	"perkeep.org/pkg/blobserver"
	"perkeep.org/pkg/sorted"
)

// multi is a source with N sync destinations: N real sync handlers (separate queues, separate
// destinations) whose receive hooks are registered, in order, on the hub of ONE source storage –
// the standard "primary -> index plus primary -> replica" shape. Ops:
//
//	multi N step|live       (first op) step: handlers without loop, driven by msettle; live: CreateHandler("sync")
//	mup I H                 upload blob I; the queue.Set of handler H fails (H = 0: none) -> ack | err
//	msettle                 step: runSync loop of every handler; live: wait for every loop -> state line
//	mrestart                crash + restart of all handlers over their queues -> ok
type multi struct {
	n     int
	live  bool
	src   *mapStore
	ws    []*world // one per handler: shared src, own dst, own queue
	srcG  *gen     // the generation of the shared source wrapper
	gs    []*gen   // one per handler
	ids   map[string]int
	acked map[int]bool
	// hookFailed[i][j]: an upload of blob i ran while handler j's queue.Set was failing, and no later
	// upload of i found handler j's queue healthy
	hookFailed map[int]map[int]bool
}

func newMulti(n int, live bool) *multi {
	m := &multi{n: n, live: live, src: newMapStore(), ids: map[string]int{}, acked: map[int]bool{}, hookFailed: map[int]map[int]bool{}}
	for j := 0; j < n; j++ {
		m.ws = append(m.ws, &world{src: m.src, dst: newMapStore(), queue: sorted.NewMemoryKeyValue()})
	}
	return m
}

// start builds a generation: the shared source wrapper, then the handlers in order 1..N (so their
// hooks are registered in that order).
func (m *multi) start() error {
	m.srcG = newGen(m.ws[0])
	m.gs = nil
	for j := 0; j < m.n; j++ {
		g := newGen(m.ws[j])
		g.src = m.srcG.src
		m.gs = append(m.gs, g)
		if err := g.newHandler(m.live); err != nil {
			return err
		}
	}
	return nil
}

func (m *multi) kill() {
	for _, g := range m.gs {
		g.kill()
	}
	m.srcG.kill()
}

func (m *multi) close() {
	m.kill()
	stores := []*mapStore{m.src}
	for _, w := range m.ws {
		stores = append(stores, w.dst)
	}
	for _, s := range stores {
		s.mu.Lock()
		s.m = map[blob.Ref][]byte{}
		s.mu.Unlock()
	}
}

func (m *multi) step(e *Exec, ws []string) string {
	switch {
	case len(ws) == 3 && ws[0] == "mup":
		i, ok := parseID(ws[1])
		h, ok2 := parseID(ws[2])
		if !ok || !ok2 || h > m.n {
			return "bad-op"
		}
		br := refOf(i)
		m.ids[br.String()] = i
		if h > 0 {
			g := m.gs[h-1]
			g.fmu.Lock()
			g.qset[br.String()] = errInjected
			g.fmu.Unlock()
		}
		_, err := blobserver.Receive(ctx, m.srcG.src, br, bytes.NewReader(content(i)))
		if h > 0 {
			g := m.gs[h-1]
			g.fmu.Lock()
			delete(g.qset, br.String())
			g.fmu.Unlock()
		}
		if m.hookFailed[i] == nil {
			m.hookFailed[i] = map[int]bool{}
		}
		for j := 1; j <= m.n; j++ {
			if j == h {
				m.hookFailed[i][j] = true
			} else {
				delete(m.hookFailed[i], j)
			}
		}
		if err != nil {
			return "err"
		}
		m.acked[i] = true
		return "ack"
	case len(ws) == 1 && ws[0] == "mrestart":
		m.kill()
		if err := m.start(); err != nil {
			e.broken = err.Error()
			return "broken:" + e.broken
		}
		return "ok"
	case len(ws) == 1 && ws[0] == "msettle":
		if !m.live {
			for _, g := range m.gs {
				if out := e.runSyncLoopOn(g.sh); strings.HasPrefix(out, "stalled") {
					return out
				}
			}
			return m.dump()
		}
		deadline := time.Now().Add(e.wd("settle"))
		for {
			busy := false
			for _, g := range m.gs {
				need, copying := g.sh.VerifPending()
				if len(need) > 0 || len(copying) > 0 {
					busy = true
				}
			}
			if !busy {
				return m.dump()
			}
			if time.Now().After(deadline) {
				e.LastDump = stackDump(6000)
				e.broken = "stalled"
				return "timeout " + m.dump()
			}
			time.Sleep(2 * time.Millisecond)
		}
	}
	return "bad-op"
}

// MView is the observable state of a multi case.
type MView struct {
	Src, Acked []int
	H          []View // per handler: Dst, Rows, Need (Src/Acked unused)
	Foreign    int
}

func (m *multi) observe() MView {
	var v MView
	for _, br := range m.src.refs() {
		if i, ok := m.ids[br.String()]; ok {
			v.Src = append(v.Src, i)
		} else {
			v.Foreign++
		}
	}
	for i := range m.acked {
		v.Acked = append(v.Acked, i)
	}
	sort.Ints(v.Src)
	sort.Ints(v.Acked)
	for j, w := range m.ws {
		hv := View{Dst: map[int]bool{}}
		for _, br := range w.dst.refs() {
			if i, ok := m.ids[br.String()]; ok {
				b, _ := w.dst.get(br)
				hv.Dst[i] = bytes.Equal(b, content(i))
			} else {
				v.Foreign++
			}
		}
		it := w.queue.Find("", "")
		for it.Next() {
			br, ok := blob.Parse(it.Key())
			i, known := 0, false
			if ok {
				i, known = m.ids[br.String()]
			}
			if !ok || !known || it.Value() != strconv.Itoa(len(content(i))) {
				hv.BadRows = append(hv.BadRows, it.Key()+"="+it.Value())
				continue
			}
			hv.Rows = append(hv.Rows, i)
		}
		it.Close()
		need, _ := m.gs[j].sh.VerifPending()
		for br := range need {
			if i, ok := m.ids[br.String()]; ok {
				hv.Need = append(hv.Need, i)
			} else {
				v.Foreign++
			}
		}
		sort.Ints(hv.Rows)
		sort.Ints(hv.Need)
		v.H = append(v.H, hv)
	}
	return v
}

// dstString prints a destination: ids below bulkBase one by one ("!" = bytes differ), then the intact
// bulk ids as ranges, then the damaged bulk ids one by one.
func dstString(d map[int]bool) string {
	ids := make([]int, 0, len(d))
	for i := range d {
		ids = append(ids, i)
	}
	sort.Ints(ids)
	var out []string
	var good []int
	var bad []string
	for _, i := range ids {
		switch {
		case i < bulkBase && d[i]:
			out = append(out, strconv.Itoa(i))
		case i < bulkBase:
			out = append(out, strconv.Itoa(i)+"!")
		case d[i]:
			good = append(good, i)
		default:
			bad = append(bad, strconv.Itoa(i)+"!")
		}
	}
	if len(good) > 0 {
		out = append(out, joinInts(good))
	}
	out = append(out, bad...)
	return strings.Join(out, ",")
}

func (v MView) String() string {
	s := fmt.Sprintf("src=%s acked=%s", joinInts(v.Src), joinInts(v.Acked))
	for _, h := range v.H {
		s += fmt.Sprintf(" | d=%s r=%s n=%s", dstString(h.Dst), joinInts(h.Rows), joinInts(h.Need))
		if len(h.BadRows) > 0 {
			s += fmt.Sprintf(" badrows=%d", len(h.BadRows))
		}
	}
	if v.Foreign > 0 {
		s += fmt.Sprintf(" foreign=%d", v.Foreign)
	}
	return s
}

func (m *multi) dump() string {
	v := m.observe()
	if m.live {
		for j := range v.H {
			v.H[j].Rows, _ = pendingRows(v.H[j].Rows, v.H[j].Dst)
		}
	}
	return v.String()
}
