package c16

import (
	"bytes"
	"encoding/json"
	"fmt"
	"reflect"
	"strings"
	"time"
	"unicode"

	"perkeep.org/pkg/blob"
	"perkeep.org/pkg/jsonsign"

	"verifharness/hk"
)

const sep = `,"camliSig":"`

type gen struct {
	r        *hk.Run
	w        *world
	kn       []*knownBlob
	key      []*knownBlob               // the two signing keys
	signed   map[string]map[string]bool // signer ref text -> payloads (T) that key has signed
	nv       int
	keyOps   []string // the `key` ops of the current case (prefix of every replay)
	lastLine string   // the last `v` op
	docOp    string   // when set: the short op that rebuilds the base document of the `v` ops
}

func (g *gen) newCase(label string, kinds map[*knownBlob]int) {
	g.r.Case(label)
	g.w = newWorld()
	g.keyOps = nil
	for _, k := range g.kn {
		if kind, ok := kinds[k]; ok {
			l := fmt.Sprintf("key %s %d", hk.Hex([]byte(k.ref.String())), kind)
			g.keyOps = append(g.keyOps, l)
			g.op(l)
		}
	}
}

func (g *gen) stdKeys() map[*knownBlob]int {
	m := map[*knownBlob]int{}
	for _, k := range g.kn {
		m[k] = k.maxKind
	}
	return m
}

// op executes a (non-`v`) op on the case's world through the protocol interpreter.
func (g *gen) op(line string) string {
	out := hk.Guard(func() string { return g.w.exec(strings.Fields(line)) })
	g.r.Op(line, out)
	return out
}

func (g *gen) logSigned(signer blob.Ref, t string) {
	m := g.signed[signer.String()]
	if m == nil {
		m = map[string]bool{}
		g.signed[signer.String()] = m
	}
	m[t] = true
}

// ---- random JSON text ---------------------------------------------------------------------------

var wsChoices = []string{"", "", "", " ", "\n", "\t", "  ", "\r\n", " \n "}

func (g *gen) ws() string { return g.r.R.Pick(wsChoices) }

var strPieces = []string{
	"a", "foo", "Bar", "0", " ", "camliSig", "x y", "é", "世界", "😀", "\u00a0", "\u2028", "ß",
	`\n`, `\"`, `\\`, `\/`, `\t`, `\b`, `\f`, `\r`, `\u00e9`, `\u4e16`, `\ud83d\ude00`, `\uD83D\uDE00`, `\ud800`, `\udc00`,
	`\ud800\u0041`, `\u0000`, `\u007f`, `,\"camliSig\":\"`, `,"camliSig":`, "}", "{", ",", ":", "[", "]", "=", "-----",
}

func (g *gen) strLit() string {
	rnd := g.r.R
	var b strings.Builder
	b.WriteByte('"')
	n := rnd.Intn(5)
	for i := 0; i < n; i++ {
		p := rnd.Pick(strPieces)
		if strings.ContainsAny(p, `"`) && !strings.Contains(p, `\"`) {
			p = strings.ReplaceAll(p, `"`, `\"`)
		}
		b.WriteString(p)
	}
	if rnd.Chance(3) {
		b.WriteString(rnd.Pick([]string{"\xff", "\xc3", "\xe2\x80", "\xed\xa0\x80", "\xc0\x80", "\xf4\x90\x80\x80"}))
	}
	b.WriteByte('"')
	return b.String()
}

var numChoices = []string{"0", "1", "-1", "12", "3.25", "-0.5", "1e3", "1E+2", "2e-7", "-0", "0.0", "123456789012345678901234567890",
	"1e308", "1.7976931348623157e308", "4.9e-324", "1e-400", "0e999", "9007199254740993"}

func (g *gen) value(depth int) string {
	rnd := g.r.R
	k := rnd.Intn(10)
	if depth >= 3 && k >= 7 {
		k = rnd.Intn(7)
	}
	switch k {
	case 0, 1, 2:
		return g.strLit()
	case 3, 4:
		return rnd.Pick(numChoices)
	case 5:
		return rnd.Pick([]string{"true", "false", "null"})
	case 6:
		return rnd.Pick([]string{"[]", "{}", "[ ]", "{ }", `""`})
	case 7, 8:
		n := rnd.Intn(4)
		parts := make([]string, n)
		for i := range parts {
			parts[i] = g.ws() + g.value(depth+1) + g.ws()
		}
		return "[" + strings.Join(parts, ",") + "]"
	default:
		n := 1 + rnd.Intn(3)
		var b strings.Builder
		b.WriteString("{")
		for i := 0; i < n; i++ {
			if i > 0 {
				b.WriteString(",")
			}
			if i > 0 && rnd.Chance(25) {
				// a genuine separator look-alike inside a nested object
				b.WriteString(`"camliSig":"` + g.fakeSig() + `"`)
				continue
			}
			b.WriteString(g.ws() + g.strLit() + g.ws() + ":" + g.ws() + g.value(depth+1) + g.ws())
		}
		b.WriteString("}")
		return b.String()
	}
}

func (g *gen) fakeSig() string {
	const b64 = "ABCDEFGHIJKLMNOPQRSTUVWXYZabcdefghijklmnopqrstuvwxyz0123456789+/"
	n := g.r.R.Intn(40)
	b := make([]byte, n)
	for i := range b {
		b[i] = b64[g.r.R.Intn(64)]
	}
	s := string(b)
	if g.r.R.Bool() {
		s += "=AbCd"
	}
	return s
}

var trailChoices = []string{"", "", "\n", " ", "  \n", "\t", "\r\n", "\u0085", "\u00a0", "\u2003", "\u3000", "\u1680\n", " \u2028\u2029 ", "\u202f\u205f", "\u200a", "\v\f"}

type unsignedDoc struct {
	text      string
	signer    string // text used as camliSigner value ("" when absent / not a string)
	flavour   string
	lookalike bool
}

// object builds one unsigned JSON object. flavour: "" = well-formed schema-like object.
func (g *gen) object(signerRef string, flavour string, maxExtra int) unsignedDoc {
	rnd := g.r.R
	type member struct {
		text  string
		exact bool // must be joined with a bare ","
	}
	var ms []member
	mk := func(k, v string) member { return member{text: g.ws() + k + g.ws() + ":" + g.ws() + v + g.ws()} }
	signerVal := `"` + signerRef + `"`
	switch flavour {
	case "signer-number":
		signerVal = "123"
	case "signer-null":
		signerVal = "null"
	case "signer-escaped":
		if signerRef == "" {
			break
		}
		// the same ref, written with a \u escape for its first letter
		signerVal = fmt.Sprintf(`"\u%04x%s"`, signerRef[0], signerRef[1:])
	}
	if flavour != "no-version" {
		ms = append(ms, mk(`"camliVersion"`, rnd.Pick([]string{"1", "1", "1", "2", `"1"`, "null"})))
	}
	if flavour != "no-signer" {
		ms = append(ms, mk(`"camliSigner"`, signerVal))
	}
	ud := unsignedDoc{signer: signerRef, flavour: flavour}
	n := rnd.Intn(maxExtra + 1)
	for i := 0; i < n; i++ {
		switch {
		case rnd.Chance(18):
			ms = append(ms, member{text: `"camliSig":"` + g.fakeSig() + `"`, exact: true})
		case rnd.Chance(10):
			ms = append(ms, mk(`"camliType"`, rnd.Pick([]string{`"claim"`, `"permanode"`, `"file"`})))
		default:
			ms = append(ms, mk(g.strLit(), g.value(0)))
		}
	}
	var foldFront, foldBack []member
	if strings.HasPrefix(flavour, "fold") {
		// extra keys that differ from camliSigner / camliVersion / camliSig only by case or by Unicode
		// case folding (s -> U+017F long s; K -> U+212A Kelvin sign has no target in these names but is
		// tried on a "k"-free name anyway): to a Go MAP they are unrelated keys
		same := `"` + signerRef + `"`
		otherRef := g.key[0].ref.String()
		if otherRef == signerRef {
			otherRef = g.key[1].ref.String()
		}
		other := `"` + otherRef + `"`
		mkExact := func(k, v string) member { return member{text: k + ":" + v} }
		var cands []member
		for _, k := range foldNames("camliSigner") {
			cands = append(cands, mkExact(k, same), mkExact(k, other), mkExact(k, rnd.Pick([]string{"null", "123", `""`, `"sha224-zz"`})))
		}
		for _, k := range foldNames("camliVersion") {
			cands = append(cands, mkExact(k, rnd.Pick([]string{"2", "null", `"x"`})))
		}
		for _, k := range foldNames("camliSig") {
			cands = append(cands, mkExact(k, `"`+g.fakeSig()+`"`))
		}
		n := 1 + rnd.Intn(3)
		for i := 0; i < n; i++ {
			c := cands[rnd.Intn(len(cands))]
			if flavour == "fold-before" || (flavour == "fold-both" && i%2 == 0) {
				foldFront = append(foldFront, c)
			} else {
				foldBack = append(foldBack, c)
			}
		}
	}
	if flavour == "dup-signer" {
		// an earlier camliSigner naming another key: the LAST one wins
		ms = append([]member{mk(`"camliSigner"`, `"`+g.key[1].ref.String()+`"`)}, ms...)
	}
	// shuffle, keeping a possible dup-signer first
	start := 0
	if flavour == "dup-signer" {
		start = 1
	}
	for i := len(ms) - 1; i > start; i-- {
		j := start + rnd.Intn(i-start+1)
		ms[i], ms[j] = ms[j], ms[i]
	}
	ms = append(append(foldFront, ms...), foldBack...)
	var b strings.Builder
	b.WriteString(rnd.Pick([]string{"", "", " ", "\n"}))
	b.WriteString("{")
	for i, m := range ms {
		if i > 0 {
			b.WriteString(",")
			if m.exact {
				ud.lookalike = true
			}
		}
		b.WriteString(m.text)
	}
	b.WriteString("}")
	b.WriteString(rnd.Pick(trailChoices))
	if rnd.Chance(25) {
		b.WriteString(rnd.Pick(trailChoices))
	}
	ud.text = b.String()
	if strings.Count(ud.text, sep) == 0 {
		ud.lookalike = false
	}
	return ud
}

// foldNames: JSON key literals that equal name under encoding/json's struct-field folding (ASCII case,
// s/S -> U+017F, k/K -> U+212A) but not as exact strings.
func foldNames(name string) []string {
	q := func(s string) string { return `"` + s + `"` }
	out := []string{q(strings.ToUpper(name[:1]) + name[1:]), q(strings.ToUpper(name)), q(strings.ToLower(name))}
	if i := strings.IndexAny(name, "sS"); i >= 0 {
		out = append(out, q(name[:i]+"\u017f"+name[i+1:]), q(name[:i]+`\u017f`+name[i+1:]))
	}
	if i := strings.IndexAny(name, "kK"); i >= 0 {
		out = append(out, q(name[:i]+"\u212a"+name[i+1:]))
	}
	var res []string
	for _, o := range out {
		if o != q(name) {
			res = append(res, o)
		}
	}
	return res
}

func (g *gen) sigTime() time.Time {
	rnd := g.r.R
	switch rnd.Intn(6) {
	case 0:
		return time.Unix(0, 0)
	case 1:
		return time.Unix(-int64(rnd.Intn(1<<31)), 0)
	case 2:
		return time.Unix(int64(1)<<32+int64(rnd.Intn(1<<30)), 0)
	default:
		return time.Unix(1300000000+int64(rnd.Intn(400000000)), 0)
	}
}

// ---- the property's own reference (independent of the Lean model) -------------------------------

type refView struct {
	ok        bool // the unsigned text is a JSON object with camliVersion and a string camliSigner
	trimmed   string
	t         string // trimmed minus the final '}'
	m         map[string]any
	signerStr string
}

func reference(unsigned string) (rv refView) {
	rv.trimmed = strings.TrimRightFunc(unsigned, unicode.IsSpace)
	var m map[string]any
	if err := json.Unmarshal([]byte(rv.trimmed), &m); err != nil || m == nil {
		return
	}
	rv.m = m
	if _, ok := m["camliVersion"]; !ok {
		return
	}
	s, ok := m["camliSigner"].(string)
	if !ok || !strings.HasSuffix(rv.trimmed, "}") {
		return
	}
	rv.signerStr = s
	rv.t = rv.trimmed[:len(rv.trimmed)-1]
	rv.ok = true
	return
}

type signedDoc struct {
	doc    []byte
	t      string
	signer *knownBlob
	at     time.Time
	sig    string
	ud     unsignedDoc
}

// signDoc runs one `sign` op and the sign-then-verify oracle.  It returns the signed document when
// the real Sign succeeded.
func (g *gen) signDoc(ud unsignedDoc, at time.Time) *signedDoc {
	r := g.r
	rv := reference(ud.text)
	// what the library returns for the reference payload (the oracle column of the op)
	armored := ""
	var kb *knownBlob
	if br, ok := blob.Parse(rv.signerStr); ok && rv.m != nil {
		kb = known[br.String()]
	}
	hasSecret := false
	tRef := rv.t
	if !rv.ok && rv.m != nil && strings.HasSuffix(rv.trimmed, "}") {
		// objects without camliVersion are still signed by Sign
		if s, ok := rv.m["camliSigner"].(string); ok {
			if br, ok := blob.Parse(s); ok {
				kb = known[br.String()]
			}
			tRef = rv.trimmed[:len(rv.trimmed)-1]
		}
	}
	if kb != nil && kb.ent != nil {
		if _, ok := g.w.secrets[fmt.Sprintf("%X", kb.pub.Fingerprint)]; ok {
			hasSecret = true
			a, err := armoredDetachSign(kb.ent, tRef, at)
			if err == nil {
				armored = a
			}
		}
	}
	var line, out string
	if kb != nil && hasSecret && !kb.deterministic() {
		// DSA / ECDSA signatures differ from call to call: run the real Sign first and hand the model the
		// library's answer in the shape reArmor gives it (the RSA cases tie Sign's own armor stripping)
		out = hk.Guard(func() string { return g.w.signOp(ud.text, at) })
		armored = ""
		if d, ok := hk.UnHex(strings.TrimPrefix(out, "ok ")); ok && strings.HasPrefix(out, "ok ") {
			if i := bytes.LastIndex(d, []byte(sep)); i >= 0 && len(d) >= i+len(sep)+3 {
				armored = jsonsign.VerifReArmor(string(d[i+len(sep) : len(d)-3]))
			}
		}
		line = fmt.Sprintf("sign %s %s %d", hk.Hex([]byte(ud.text)), hk.Hex([]byte(armored)), at.Unix())
		r.Op(line, out)
		r.Hit("sign:randomized-algorithm(" + algoName(kb.pub.PubKeyAlgo) + ")")
	} else {
		line = fmt.Sprintf("sign %s %s %d", hk.Hex([]byte(ud.text)), hk.Hex([]byte(armored)), at.Unix())
		out = g.op(line)
	}
	if strings.HasPrefix(out, "ok ") {
		r.Hit("sign:ok")
	} else {
		r.Hit("sign:" + strings.ReplaceAll(out, " ", ":"))
	}
	if !strings.HasPrefix(out, "ok ") {
		if rv.ok && hasSecret {
			r.Fail("sign-rejects-valid-object", "Sign fails on a JSON object with camliVersion and a camliSigner whose key is available",
				"signed document", out, []string{line})
		}
		return nil
	}
	docB, _ := hk.UnHex(strings.TrimPrefix(out, "ok "))
	doc := string(docB)
	if kb == nil || !hasSecret {
		r.Fail("sign-without-key", "Sign succeeded although the harness knows no secret key for the signer", "error", out, []string{line})
		return nil
	}
	g.logSigned(kb.ref, tRef)
	sd := &signedDoc{doc: docB, t: tRef, signer: kb, at: at, ud: ud}
	// O3a: shape  T + ,"camliSig":"S"}\n  and still valid JSON exposing the original fields
	if !strings.HasPrefix(doc, tRef+sep) || !strings.HasSuffix(doc, "\"}\n") {
		r.Fail("signed-doc-shape", "signed document is not T+separator+S+\"}\\n", tRef+sep+"…", doc, []string{line})
		return sd
	}
	sd.sig = doc[len(tRef)+len(sep) : len(doc)-3]
	var dm map[string]any
	if err := json.Unmarshal(docB, &dm); err != nil {
		r.Fail("signed-doc-invalid-json", "signed document is not valid JSON: "+err.Error(), "valid JSON", doc, []string{line})
	} else {
		cs, isStr := dm["camliSig"].(string)
		want := map[string]any{}
		for k, v := range rv.m {
			want[k] = v
		}
		want["camliSig"] = cs
		if !isStr || cs != sd.sig || !reflect.DeepEqual(dm, want) {
			r.Fail("signed-doc-fields-differ", "signed document does not expose the original fields plus camliSig", fmt.Sprint(want), fmt.Sprint(dm), []string{line})
		}
	}
	if directCheck(kb.pub, []byte(tRef), sd.sig) != 0 {
		r.Fail("signature-not-over-payload", "the library does not accept the produced signature for T", "valid", "invalid", []string{line})
	}
	if ud.lookalike {
		r.Hit("signed:payload-contains-separator")
	}
	return sd
}

// refClaim is the specification's reading of a document, computed without jsonsign: BP is everything
// before the LAST separator, the signer is the blobref under the EXACT key "camliSigner" of the JSON
// object BP+"}" (Go map semantics: exact, case-sensitive key; the last duplicate wins).
func refClaim(doc []byte) (bp []byte, signer blob.Ref, ok bool) {
	i := bytes.LastIndex(doc, []byte(sep))
	if i < 0 {
		return nil, blob.Ref{}, false
	}
	bp = doc[:i]
	var m map[string]any
	if err := json.Unmarshal(append(append([]byte(nil), bp...), '}'), &m); err != nil || m == nil {
		return bp, blob.Ref{}, false
	}
	s, isStr := m["camliSigner"].(string)
	if !isStr {
		return bp, blob.Ref{}, false
	}
	signer, ok = blob.Parse(s)
	return bp, signer, ok
}

type origInfo struct {
	t      string
	signer blob.Ref
}

// vop emits one `v` op (mutation word m of the base document) with its oracle column and evaluates
// the property's oracle on the implementation's answer.
func (g *gen) vop(base []byte, m string, orig *origInfo) vinfo {
	r := g.r
	d, ok := applyMut(base, m)
	if !ok {
		panic("c16: bad mutation " + m)
	}
	vi := g.w.verify(d)
	fact, cls := g.w.fact(vi)
	line := "v " + m + " " + fact
	g.lastLine = line
	out := vi.String()
	r.Op(line, out)
	g.nv++
	if g.nv%211 == 0 {
		// the interpreter used for replays must agree with what was recorded
		save := g.w.doc
		g.w.doc = base
		if got := g.w.exec(strings.Fields(line)); got != out {
			r.Fail("harness-replay-differs", "interpreter disagrees with the recorded answer", out, got, []string{line})
		}
		g.w.doc = save
	}
	r.Hit("v:" + vi.class)
	if cls >= 0 {
		r.Hit("mech:signature-checked-over-payload")
	}
	if vi.class == "sigkeys" {
		r.Hit("mech:signature-object-exactly-one-key")
	}
	replay := func() []string {
		if g.docOp != "" {
			return append(append([]string(nil), g.keyOps...), g.docOp, line)
		}
		return append(append([]string(nil), g.keyOps...), "doc "+hk.Hex(base), line)
	}
	if vi.accepted {
		if bytes.Count(d, []byte(sep)) > 1 {
			r.Hit("mech:last-separator-of-several")
		}
		if cls != 0 {
			r.Fail("accepted-but-library-rejects", "Verify accepts a document whose (signer, BP, camliSig) the OpenPGP library rejects",
				"rejected", out, replay())
		}
		refBP, refSigner, refOK := refClaim(d)
		if !refOK || !bytes.Equal(refBP, vi.bp) || refSigner != vi.signer {
			r.Fail("accepted-signer-or-payload-not-the-documents", "Verify accepts with a BP/signer that is not (bytes before the last separator, blobref under the exact key camliSigner)",
				fmt.Sprintf("bp=%d bytes signer=%v", len(refBP), refSigner), out, replay())
		}
		if !refOK || !g.signed[refSigner.String()][string(refBP)] {
			r.Fail("accepted-unsigned-payload", "Verify accepts a payload that the key named under the exact key camliSigner never signed", "rejected", out, replay())
		}
		if orig != nil && (string(refBP) != orig.t || refSigner != orig.signer || string(vi.bp) != orig.t || vi.signer != orig.signer) {
			r.Fail("mutation-accepted-with-changed-payload-or-signer", "a mutated document verifies with another payload or signer",
				"rejected, or payload and signer unchanged", out, replay())
		}
		if orig != nil && m != "b" {
			r.Hit("mutation-still-verifies")
			if len(g.r.Res.Samples) < 5 && g.nv%7 == 0 {
				r.Sample(map[string]any{"kind": "mutation outside BP still verifies", "mutation": m, "answer": out})
			}
		}
	}
	return vi
}

var subSet = []byte{'"', ',', '}', '{', '\\', ' ', ':', 'A', '=', 0x00, 0xff, '\n', '/', 'u', '0'}
var insSet = []byte{'"', ',', '}', ' ', '\\', 'A', '=', 0x00, 0xff, '\n', '{', ':'}

// sweep: every position of the signed document: substitutions, insertions, deletion.
func (g *gen) sweep(sd *signedDoc, full bool) {
	base := sd.doc
	g.op("doc " + hk.Hex(base))
	orig := &origInfo{t: sd.t, signer: sd.signer.ref}
	key := fmt.Sprintf("%08x", fnv(base))
	vi := g.vop(base, "b", orig)
	if !vi.accepted {
		return
	}
	n := 0
	for p := 0; p <= len(base); p++ {
		if p < len(base) {
			o := base[p]
			if full {
				for v := 0; v < 256; v++ {
					if byte(v) != o {
						g.vop(base, fmt.Sprintf("s%d:%d", p, v), orig)
						n++
					}
				}
			} else {
				seen := map[byte]bool{o: true}
				for _, v := range append([]byte{o ^ 1, o ^ 0x20, o ^ 0x80, o + 1}, subSet...) {
					if !seen[v] {
						seen[v] = true
						g.vop(base, fmt.Sprintf("s%d:%d", p, v), orig)
						n++
					}
				}
			}
			g.vop(base, fmt.Sprintf("d%d", p), orig)
			n++
		}
		if full {
			for v := 0; v < 256; v++ {
				g.vop(base, fmt.Sprintf("i%d:%d", p, v), orig)
				n++
			}
		} else {
			ins := insSet
			if p < len(base) {
				ins = append([]byte{base[p]}, insSet...)
			}
			seen := map[byte]bool{}
			for _, v := range ins {
				if !seen[v] {
					seen[v] = true
					g.vop(base, fmt.Sprintf("i%d:%d", p, v), orig)
					n++
				}
			}
		}
	}
	g.r.Distinct("sweep:" + key)
	g.r.Res.Histogram["sweep-mutations"] += n
	if full {
		g.r.Res.Histogram["full-sweeps(all 255 substitutions, 256 insertions, deletion at every position)"]++
	} else {
		g.r.Res.Histogram["set-sweeps(>=15 substitutions, >=12 insertions, deletion at every position)"]++
	}
}

// randomMutations: a sample of single-byte mutations of a signed document.
func (g *gen) randomMutations(sd *signedDoc, n int) {
	rnd := g.r.R
	base := sd.doc
	g.op("doc " + hk.Hex(base))
	orig := &origInfo{t: sd.t, signer: sd.signer.ref}
	g.vop(base, "b", orig)
	for i := 0; i < n; i++ {
		p := rnd.Intn(len(base) + 1)
		var m string
		switch k := rnd.Intn(3); {
		case k == 0 && p < len(base):
			v := byte(rnd.U64())
			if v == base[p] {
				v ^= 1
			}
			m = fmt.Sprintf("s%d:%d", p, v)
		case k == 1 && p < len(base):
			m = fmt.Sprintf("d%d", p)
		default:
			m = fmt.Sprintf("i%d:%d", p, byte(rnd.U64()))
		}
		g.vop(base, m, orig)
	}
	g.r.Distinct(fmt.Sprintf("rand:%08x", fnv(base)))
}

// crafted: whole-document variants of a signed document (not single-byte).
func (g *gen) crafted(sd *signedDoc) {
	r := g.r
	doc := string(sd.doc)
	t, s := sd.t, sd.sig
	orig := &origInfo{t: t, signer: sd.signer.ref}
	other := g.key[0]
	if sd.signer == g.key[0] {
		other = g.key[1]
	}
	x := func(d string, o *origInfo) vinfo {
		return g.vop(nil, "x"+hk.Hex([]byte(d)), o)
	}
	expect := func(vi vinfo, accepted bool, what string) {
		if vi.accepted != accepted {
			r.Fail("crafted-"+what, fmt.Sprintf("crafted document (%s): accepted=%v", what, vi.accepted), fmt.Sprint(accepted), vi.String(),
				append(append([]string(nil), g.keyOps...), g.lastLine))
		}
	}
	// things that leave what is signed alone
	expect(x(t+sep+s+"\" }\n \t", orig), true, "whitespace-in-signature-object")
	expect(x(t+sep+s+"\"}", orig), true, "no-final-newline")
	expect(x(t+sep+s+"\", \"camliSig\":\""+s+"\"}\n", orig), true, "duplicate-camliSig-key-same-value")
	if len(s) > 0 {
		esc := fmt.Sprintf(`\u%04x`, s[0]) + s[1:]
		expect(x(t+sep+esc+"\"}\n", orig), true, "escaped-signature-char")
	}
	// things that must be rejected
	expect(x(t+sep+s+"\",\"x\":1}\n", orig), false, "second-key-in-signature-object")
	expect(x(t+sep+s+"\", \"camliSig\":5}\n", orig), false, "camliSig-not-a-string")
	expect(x(t+sep+s+"\"}\nx", orig), false, "junk-after-signature-object")
	expect(x(t+sep+s+"\"}}", orig), false, "extra-brace")
	expect(x(t+" "+sep+s+"\"}\n", orig), false, "space-appended-to-payload")
	expect(x(" "+doc, orig), false, "space-prepended-to-payload")
	expect(x(t, orig), false, "payload-only")
	expect(x(t+"}", orig), false, "unsigned-object")
	plainSigner := sd.ud.flavour == "" && strings.Count(doc, sd.signer.ref.String()) == 1
	if plainSigner {
		expect(x(strings.Replace(doc, sd.signer.ref.String(), other.ref.String(), 1), orig), false, "signer-swapped")
		expect(x(strings.Replace(doc, sd.signer.ref.String(), g.kn[3].ref.String(), 1), orig), false, "signer-not-a-key")
		expect(x(strings.Replace(doc, sd.signer.ref.String(), "sha224-"+strings.Repeat("0", 56), 1), orig), false, "signer-unknown")
	}
	// keys that differ from camliSigner / camliVersion only by case or Unicode case folding are OTHER keys:
	// (a) the document signed by the key under the exact key still verifies, (b) a signature by the key
	// named only under a look-alike key is refused
	if plainSigner {
		signWith := func(k *knownBlob, payload string) string {
			a, err := armoredDetachSign(k.ent, payload, sd.at)
			if err != nil {
				return ""
			}
			g.logSigned(k.ref, payload)
			return payload + sep + stripArmorRef(a) + "\"}\n"
		}
		brace := strings.Index(t, "{")
		for vi, name := range foldNames("camliSigner") {
			for _, val := range []*knownBlob{other, sd.signer} {
				extra := name + `:"` + val.ref.String() + `"`
				after := t + "," + extra
				before := t[:brace+1] + extra + "," + t[brace+1:]
				for _, pl := range []string{after, before} {
					what := fmt.Sprintf("casefold-signer-%d", vi)
					honest := &origInfo{t: pl, signer: sd.signer.ref}
					expect(x(signWith(sd.signer, pl), honest), true, what+"-signed-by-exact-key")
					if val != sd.signer {
						expect(x(signWith(other, pl), honest), false, what+"-signed-by-lookalike-key")
					}
					r.Hit("casefold:signer-lookalike-documents")
				}
			}
			// only the look-alike key, no exact camliSigner at all
			only := strings.Replace(t, `"camliSigner"`, name, 1)
			expect(x(signWith(sd.signer, only), &origInfo{t: only, signer: sd.signer.ref}), false, "casefold-signer-only-lookalike")
		}
		if strings.Count(t, `"camliVersion"`) == 1 {
			for _, name := range foldNames("camliVersion") {
				only := strings.Replace(t, `"camliVersion"`, name, 1)
				expect(x(signWith(sd.signer, only), &origInfo{t: only, signer: sd.signer.ref}), false, "casefold-version-only-lookalike")
				both := t + "," + name + ":null"
				expect(x(signWith(sd.signer, both), &origInfo{t: both, signer: sd.signer.ref}), true, "casefold-version-extra")
			}
		}
	}
	// a signature by the OTHER key over the same payload, the document still naming the first key
	if a, err := armoredDetachSign(other.ent, t, sd.at); err == nil {
		g.logSigned(other.ref, t)
		s2 := stripArmorRef(a)
		vi := x(t+sep+s2+"\"}\n", orig)
		expect(vi, false, "signature-by-other-key")
		r.Hit("resign:other-key-same-payload-rejected")
		for _, f := range g.signers() {
			if f == other || f == sd.signer {
				continue
			}
			if af, err := armoredDetachSignCfg(f.ent, t, g.signCfg(sd.at)); err == nil {
				g.logSigned(f.ref, t)
				expect(x(t+sep+stripArmorRef(af)+"\"}\n", orig), false, "signature-by-other-key-"+algoName(f.pub.PubKeyAlgo))
				r.Hit("resign:forged-by-" + algoName(f.pub.PubKeyAlgo) + "-key-rejected")
			}
		}
		// re-signed properly by the other key: the payload names the other key
		t2 := strings.Replace(t, sd.signer.ref.String(), other.ref.String(), -1)
		if t2 != t && plainSigner {
			if a2, err := armoredDetachSign(other.ent, t2, sd.at); err == nil {
				g.logSigned(other.ref, t2)
				vi := x(t2+sep+stripArmorRef(a2)+"\"}\n", &origInfo{t: t2, signer: other.ref})
				// accepted iff the payload is otherwise fine (it was for the first key)
				expect(vi, true, "resigned-by-other-key")
				r.Hit("resign:properly-resigned-accepted")
				// and the first key's signature under the re-targeted payload
				expect(x(t2+sep+s+"\"}\n", &origInfo{t: t2, signer: other.ref}), false, "old-signature-on-retargeted-payload")
			}
		}
	}
	// signing the signed document again: the payload then contains a whole earlier signature
	if out, err := g.w.sign(doc, sd.at); err == nil {
		tt := strings.TrimRightFunc(doc, unicode.IsSpace)
		tt = tt[:len(tt)-1]
		g.logSigned(sd.signer.ref, tt)
		expect(x(out, &origInfo{t: tt, signer: sd.signer.ref}), true, "double-signed")
		r.Hit("signed:double-signed")
	}
	r.Distinct(fmt.Sprintf("crafted:%08x", fnv(sd.doc)))
}

// stripArmorRef: the reference of Sign's armor stripping (blank line .. "\n-----", newlines removed).
func stripArmorRef(a string) string {
	i1 := strings.Index(a, "\n\n")
	i2 := strings.Index(a, "\n-----")
	if i1 < 0 || i2 < i1+2 {
		return ""
	}
	return strings.ReplaceAll(a[i1+2:i2], "\n", "")
}

// jsonFuzz ties the JSON model directly to encoding/json.
func (g *gen) jsonFuzz(texts []string, perText int) {
	rnd := g.r.R
	for _, t := range texts {
		g.op("json " + hk.Hex([]byte(t)))
		for i := 0; i < perText && len(t) > 0; i++ {
			b := []byte(t)
			p := rnd.Intn(len(b))
			switch rnd.Intn(4) {
			case 0:
				b[p] = byte(rnd.U64())
			case 1:
				b[p] = fuzzA[rnd.Intn(len(fuzzA))]
			case 2:
				b = append(b[:p:p], b[p+1:]...)
			default:
				b = append(b[:p:p], append([]byte{fuzzB[rnd.Intn(len(fuzzB))]}, b[p:]...)...)
			}
			g.op("json " + hk.Hex(b))
		}
	}
}

const fuzzA = "\"\\,:{}[] 0e-.u"
const fuzzB = "\"\\,:{}[] 0e-.\xc3"

var jsonCorners = []string{
	``, ` `, `null`, ` null `, `nul`, `true`, `12`, `"x"`, `[]`, `{}`, `{} x`, `{}{}`, `{,}`, `{"a"}`, `{"a":}`, `{"a":1,}`, `{a:1}`,
	`{"a":1 "b":2}`, `{"a":01}`, `{"a":-}`, `{"a":1.}`, `{"a":.5}`, `{"a":1e}`, `{"a":1e+}`, `{"a":-0e-0}`, `{"a":1E400}`, `{"a":-1e400}`,
	`{"a":1.7976931348623157e308}`, `{"a":1.7976931348623158e308}`, `{"a":1.797693134862315807e308}`, `{"a":1.797693134862315808e308}`,
	`{"a":179769313486231580793728971405303415079934132710037826936173778980444968292764750946649017977587207096330286416692887910946555547851940402630657488671505820681908902000708383676273854845817711531764475730270069855571366959622842914819860834936475292719074168444365510704342711559699508093042880177904174497791}`,
	`{"a":179769313486231580793728971405303415079934132710037826936173778980444968292764750946649017977587207096330286416692887910946555547851940402630657488671505820681908902000708383676273854845817711531764475730270069855571366959622842914819860834936475292719074168444365510704342711559699508093042880177904174497792}`,
	`{"a":0.00000000000000000000000000001e337}`, `{"a":0.00000000000000000000000000001e338}`, `{"a":17976931348623158000e289}`, `{"a":1e309}`, `{"a":0e99999}`, `{"a":0.0e400}`,
	`{"a":1e-99999}`, `{"a":[1e999]}`, `{"a":{"b":[{"c":-2e308}]}}`, `[1e999]`, `1e999`,
	`{"a":"\u12"}`, `{"a":"\u12G4"}`, `{"a":"\x"}`, `{"a":"\'"}`, `{"a":"` + "\x1f" + `"}`, `{"a":"` + "\x7f" + `"}`, `{"a":"\ud800\udc00"}`, `{"a":"\udc00\ud800"}`,
	`{"a":"\ud83d"}`, `{"a":"\ud83d\u"}`, `{"a":"\ud83dx"}`, `{"a":"\uDBFF\uDFFF"}`, `{"a":"\ufffd"}`, `{"a":"` + "\xef\xbf\xbd" + `"}`,
	`{"` + "\xff" + `":1,"` + "\xfe" + `":2}`, `{"\u0061":1,"a":2}`, `{"A":1,"a":2}`, `{"":1}`, `{"a":1,"a":"x","a":[ ]}`,
	`{"a":tru}`, `{"a":truee}`, `{"a":nulL}`, `{"a":false,"b":null,"c":true}`, "\ufeff{}", "{}\u00a0", "{\u00a0}", "{\"a\":1}\x00",
	`{"camliSig":"x"}`, `{"camliSig":"x","camliSig":"y"}`, `{"camliSig":"x","camliSi\u0067":"y"}`, `{"camliSig":"x","camlisig":"y"}`,
}

// Run generates the C16 cases.
func Run(r *hk.Run) {
	_, kn, err := knownBlobs()
	if err != nil {
		r.Fail("harness-setup", "cannot load the test key rings: "+err.Error(), "", "", nil)
		return
	}
	g := &gen{r: r, kn: kn, key: []*knownBlob{kn[0], kn[1]}, signed: map[string]map[string]bool{}}
	rnd := r.R
	th := r.Thorough()
	r.Res.Rule = "a case = one signed (or unsignable) generated JSON object; non-trivial = every signed document that gets a position sweep " +
		"(every position: deletion, substitution and insertion of a byte set [all 255/256 values in `full` sweeps]), a random-mutation batch or the crafted whole-document variants " +
		"(re-signed by the other key, signer swapped, duplicate keys, trailing bytes, double-signed); distinct = distinct (document digest, treatment)"

	// (1) stdlib-facing parts of the model: TrimRightFunc(IsSpace), reArmor, encoding/json
	g.newCase("trim-rearmor-json", nil)
	for _, tr := range trailChoices {
		for _, body := range []string{"", "{}", "{\"a\":1}", "x\u00a0y", "\xc2", "\xe2\x80", "a\xa0", "a\x85", "\x80\x80"} {
			g.op("trim " + hk.Hex([]byte(body+tr)))
			g.op("trim " + hk.Hex([]byte(body+tr+"\xc2")))
			g.op("trim " + hk.Hex([]byte(tr+body+tr+tr)))
		}
	}
	for i := 0; i < 200; i++ {
		b := rnd.Bytes(rnd.Intn(6))
		tails := [][]byte{{0xc2, 0x85}, {0xc2, 0xa0}, {0xe1, 0x9a, 0x80}, {0xe2, 0x80, byte(0x80 + rnd.Intn(0x30))}, {0xe2, 0x81, 0x9f}, {0xe3, 0x80, 0x80},
			{byte(9 + rnd.Intn(6))}, {0x20}, {0xe2, 0x80}, {0x80, 0x80}, {0xf0, 0xe2, 0x80, 0x80}, {0xe2, 0x80, 0x8b}, {0x1c}, {0xc2, 0x86}, {0xe1, 0x9a, 0x81}}
		for k := rnd.Intn(4); k > 0; k-- {
			b = append(b, tails[rnd.Intn(len(tails))]...)
		}
		g.op("trim " + hk.Hex(b))
	}
	for _, n := range []int{0, 1, 2, 59, 60, 61, 119, 120, 121, 180, 372, 400} {
		body := g.fakeSigN(n)
		for _, s := range []string{body, body + "=", body + "=abcd", body + "==\n=abcd", "=" + body, body + "=ab=cd=", body[:n/2] + "=" + body[n/2:]} {
			g.op("rearmor " + hk.Hex([]byte(s)))
		}
	}
	g.jsonFuzz(jsonCorners, 0)
	deep := strings.Repeat("[", 10000) + strings.Repeat("]", 10000)
	g.op("json " + hk.Hex([]byte(`{"a":`+deep[1:len(deep)-1]+`}`)))
	g.op("json " + hk.Hex([]byte(`{"a":`+deep+`}`)))
	g.op("json " + hk.Hex([]byte(strings.Repeat(`{"a":`, 10000)+"1"+strings.Repeat("}", 10000))))
	g.op("json " + hk.Hex([]byte(strings.Repeat(`{"a":`, 10001)+"1"+strings.Repeat("}", 10001))))
	r.Hit("json:depth-limit-probed")

	// (1b) every error branch of Sign, deterministically
	g.newCase("sign-error-branches", g.stdKeys())
	k0 := g.key[0].ref.String()
	for _, u := range []string{
		"", " ", "{", "[1]", `"x"`, "12", "nul", `{"camliSigner":"` + k0 + `"} x`, `{"camliSigner":"` + k0 + `"}` + "\xc2", `{"camliSigner":"` + k0 + `",}`,
		`{"camliSigner":"` + k0 + `","n":1e999}`,                                       // jsonparse
		"null", " null \n", "{}", `{"camliVersion":1}`, `{"camlisigner":"` + k0 + `"}`, // nosigner
		`{"camliSigner":123}`, `{"camliSigner":""}`, `{"camliSigner":null}`, `{"camliSigner":["` + k0 + `"]}`, `{"camliSigner":"` + strings.ToUpper(k0) + `"}`, `{"camliSigner":" ` + k0 + `"}`, // malformed
		`{"camliSigner":"sha224-` + strings.Repeat("0", 56) + `"}`, `{"camliSigner":"sha1-` + strings.Repeat("0", 40) + `"}`, `{"camliSigner":"foo-0"}`, // nokey
		`{"camliSigner":"` + g.kn[3].ref.String() + `"}`,                                                                                    // badkey
		`{"camliVersion":1,"camliSigner":"` + g.kn[2].ref.String() + `"}`,                                                                   // noentity
		`{"camliSigner":"` + k0 + `"}`, `{"camliSigner":"` + k0 + `"}` + "\u00a0\u3000\n", `{"camliSigner":"x","camliSigner":"` + k0 + `"}`, // ok (no version)
		`{"camliVersion":1,"camliSigner":"` + k0 + `"}`, // ok
	} {
		g.signDoc(unsignedDoc{text: u}, time.Unix(1400000000, 0))
	}

	// (1b') the tail of the document: compact JSON ending in }} / }]} / }"}, every short tail, the HTTP handler
	g.compactTails()
	g.tailEnumeration()
	g.handlerRoundTrip()

	// (1b'') document sizes
	g.sizes()

	// (1c) keys and signatures of every algorithm the library knows; every way it can refuse a signature
	g.algorithmMatrix()
	g.packetVariants()

	// (2) generated objects: sign, verify, mutate
	nDocs, nFullSweep, nSetSweep, nRand := 40, 1, 4, 150
	if th {
		nDocs, nFullSweep, nSetSweep, nRand = 240, 3, 24, 600
	}
	flavours := []string{"", "", "", "", "", "", "dup-signer", "signer-escaped", "no-version", "no-signer", "signer-number", "signer-null",
		"fold-before", "fold-after", "fold-both", "fold-after"}
	var good []*signedDoc
	var texts []string
	for i := 0; i < nDocs; i++ {
		k := g.key[rnd.Intn(2)]
		if i >= 8 && rnd.Chance(30) {
			all := g.signers()
			k = all[rnd.Intn(len(all))]
		}
		fl := flavours[rnd.Intn(len(flavours))]
		if i < 6 {
			fl = ""
		}
		if i == 6 {
			fl = "fold-after"
		}
		if i == 7 {
			fl = "fold-before"
		}
		ref := k.ref.String()
		switch {
		case i >= 8 && rnd.Chance(4):
			ref = "sha224-" + strings.Repeat("ab", 28) // no such blob
		case i >= 8 && rnd.Chance(3):
			ref = g.kn[3].ref.String() // a blob that is not a key
		case i >= 8 && rnd.Chance(3):
			ref = g.kn[2].ref.String() // a public key without secret key
		case i >= 8 && rnd.Chance(3):
			ref = rnd.Pick([]string{"", "sha224-xyz", "sha224", "SHA224-" + strings.Repeat("ab", 28), "foo-bar", "sha1-" + strings.Repeat("0", 39)})
		}
		maxExtra := 5
		if i == 0 {
			maxExtra = 1 // the fully swept document is kept small
		}
		ud := g.object(ref, fl, maxExtra)
		if i == 1 || i == 4 {
			// make sure look-alikes are among the swept documents
			for !ud.lookalike {
				ud = g.object(ref, fl, maxExtra)
			}
		}
		kinds := g.stdKeys()
		if i >= 8 && rnd.Chance(5) {
			delete(kinds, k) // the key blob is not there at all
		}
		g.newCase(fmt.Sprintf("object %d flavour=%q lookalike=%v", i, fl, ud.lookalike), kinds)
		texts = append(texts, ud.text)
		sd := g.signDoc(ud, g.sigTime())
		if sd == nil {
			continue
		}
		rv := reference(ud.text)
		g.op("doc " + hk.Hex(sd.doc))
		var orig *origInfo
		if rv.ok {
			orig = &origInfo{t: sd.t, signer: sd.signer.ref}
		}
		vi := g.vop(sd.doc, "b", orig)
		if rv.ok != vi.accepted {
			r.Fail("signed-doc-not-verifying", fmt.Sprintf("a freshly signed object (reference says verifiable=%v) gives accepted=%v", rv.ok, vi.accepted),
				fmt.Sprint(rv.ok), vi.String(), r.CaseOps())
			continue
		}
		if !vi.accepted {
			r.Hit("signed-but-unverifiable(no camliVersion)")
			continue
		}
		if string(vi.bp) != sd.t || vi.signer != sd.signer.ref || !reflect.DeepEqual(vi.payload, rv.m) {
			r.Fail("verified-payload-differs", "Verify's BP / signer / PayloadMap are not those that were signed", sd.t, string(vi.bp), r.CaseOps())
		}
		r.Hit("sign-then-verify:ok")
		if len(r.Res.Samples) < 2 {
			r.Sample(map[string]any{"kind": "signed document", "unsigned": ud.text, "signed": string(sd.doc)})
		}
		good = append(good, sd)
		g.crafted(sd)
		switch {
		case len(good) <= nFullSweep:
			g.sweep(sd, true)
		case len(good) <= nFullSweep+nSetSweep:
			g.sweep(sd, false)
		default:
			g.randomMutations(sd, nRand)
		}
		// the same document where the fetcher lacks the key, or serves it without our having the secret
		if len(good)%5 == 0 {
			g.newCase("verify-without-key-blob", map[*knownBlob]int{})
			g.vop(nil, "x"+hk.Hex(sd.doc), &origInfo{t: sd.t, signer: sd.signer.ref})
			g.newCase("verify-with-public-key-only", map[*knownBlob]int{sd.signer: 1})
			vi := g.vop(nil, "x"+hk.Hex(sd.doc), &origInfo{t: sd.t, signer: sd.signer.ref})
			if !vi.accepted {
				r.Fail("verify-needs-secret-key", "verification fails when only the public key is available", "ok", vi.String(), nil)
			}
		}
	}
	if len(good) == 0 {
		r.Fail("harness-no-signed-docs", "no document could be signed", "", "", nil)
	}

	// (3) the JSON model on the generated objects and their mutations
	g.newCase("json-on-generated-objects", nil)
	per := 20
	if th {
		per = 60
	}
	g.jsonFuzz(texts, per)

	// (4) garbage documents and a malformed op stream
	g.newCase("garbage-and-malformed", g.stdKeys())
	for _, d := range []string{"", sep, "{" + sep + "x\"}", sep + sep, "{\"camliVersion\":1" + sep + "\"}", "{}" + sep + "x\"}", "null" + sep + "x\"}",
		"{\"camliVersion\":1,\"camliSigner\":\"" + g.key[0].ref.String() + "\"" + sep + "\"}",
		"{\"camliVersion\":1,\"camliSigner\":\"" + g.key[0].ref.String() + "\"" + sep + "====\"}",
		"{\"camliVersion\":1,\"camliSigner\":\"" + g.key[0].ref.String() + "\"" + sep + "AAAA=AAAA\"}",
		"{\"camliVersion\":1,\"camliSigner\":\"" + g.key[0].ref.String() + "\"" + sep + "\\u003d\"}"} {
		g.vop(nil, "x"+hk.Hex([]byte(d)), nil)
	}
	if len(good) > 0 {
		sd := good[0]
		g.op("doc " + hk.Hex(sd.doc))
		for _, l := range []string{"v", "v b", "v b - -", "v q1:2 -", "v s1 -", "v s1:256 -", fmt.Sprintf("v s%d:1 -", len(sd.doc)), fmt.Sprintf("v i%d:1 -", len(sd.doc)+1),
			fmt.Sprintf("v d%d -", len(sd.doc)), "v d -", "v xzz -", "v b 0", "v b 0@", "v b @1", "v b 0@1@2", "v b x@1", "doc", "doc zz", "doc 0", "doc AB", "key",
			"key " + hk.Hex([]byte(g.key[0].ref.String())) + " 3", "key " + hk.Hex([]byte(g.key[0].ref.String())) + " 02", "sign", "sign 7b7d", "sign 7b7d - x", "sign 7b7d zz 0", "sign 7b7d - 1.5",
			"trim", "trim 0", "rearmor", "rearmor XY", "json", "json 1", "verify b -", "", "V b -", "sign 7b7d - 0 0"} {
			if strings.TrimSpace(l) == "" {
				continue
			}
			g.op(l)
		}
	}

	// (5) the indexer only trusts verified claims (pkg/index/receive.go)
	g.indexProbe(good)

	r.Res.Histogram["signed-documents"] = len(good)
	r.Note("OpenPGP (armor, packets, hashing, RSA) is the trusted library on both sides: the model receives its verdict for the (signer, BP, armored signature) triple as an oracle column, bound to the triple by an FNV digest")
}

func (g *gen) fakeSigN(n int) string {
	const b64 = "ABCDEFGHIJKLMNOPQRSTUVWXYZabcdefghijklmnopqrstuvwxyz0123456789+/"
	b := make([]byte, n)
	for i := range b {
		b[i] = b64[g.r.R.Intn(64)]
	}
	return string(b)
}
