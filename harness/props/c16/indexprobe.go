package c16

import (
	"context"
	"fmt"
	"io"
	"strings"
	"time"

	"perkeep.org/pkg/blob"
	"perkeep.org/pkg/index"
	"perkeep.org/pkg/schema"
)

// emptySource is a blob source without blobs (the index never needs to fetch anything here).
type emptySource struct{ w *world }

func (e emptySource) Fetch(ctx context.Context, br blob.Ref) (io.ReadCloser, uint32, error) {
	return e.w.Fetch(ctx, br)
}
func (e emptySource) EnumerateBlobs(ctx context.Context, dest chan<- blob.SizedRef, after string, limit int) error {
	close(dest)
	return nil
}

// indexProbe: pkg/index/receive.go only indexes a claim after jsonsign verified it.  Claims whose
// payload, signer or signature were altered must leave no claim row behind; the untouched claim does.
func (g *gen) indexProbe(good []*signedDoc) {
	r := g.r
	w := newWorld()
	for _, k := range g.kn {
		w.addKey(k, k.maxKind)
	}
	claimsOf := func(ix *index.Index, pn blob.Ref) int {
		cl, err := ix.AppendClaims(ctxbg, nil, pn, "", "")
		if err != nil {
			return -1
		}
		return len(cl)
	}
	n := 6
	if r.Thorough() {
		n = 30
	}
	for i := 0; i < n; i++ {
		k := g.key[i%2]
		other := g.key[(i+1)%2]
		pn := blob.RefFromString(fmt.Sprintf("permanode-%d-%d", r.Res.Seed, i))
		bld := schema.NewSetAttributeClaim(pn, "tag", fmt.Sprintf("value%d", i))
		at := time.Unix(1400000000+int64(i), 0)
		bld.SetClaimDate(at)
		bld.SetSigner(k.ref)
		unsigned, err := bld.JSON()
		if err != nil {
			r.Fail("harness-index-probe", "cannot build claim: "+err.Error(), "", "", nil)
			return
		}
		signed, err := w.sign(unsigned, at)
		if err != nil {
			r.Fail("harness-index-probe", "cannot sign claim: "+err.Error(), "", "", nil)
			return
		}
		t := strings.TrimSuffix(strings.TrimRight(unsigned, " \n\t\r"), "}")
		sigOther, _ := armoredDetachSign(other.ent, t, at)
		variants := map[string]string{
			"value-changed":          strings.Replace(signed, fmt.Sprintf("value%d", i), fmt.Sprintf("valuf%d", i), 1),
			"signer-swapped":         strings.Replace(signed, k.ref.String(), other.ref.String(), 1),
			"signature-by-other-key": t + sep + stripArmorRef(sigOther) + "\"}\n",
			"payload-byte-inserted":  strings.Replace(signed, ",", ", ", 1),
			"key-broken":             signed[:10] + " " + signed[10:],
			"signature-char-changed": signed[:len(signed)-40] + flipB64(signed[len(signed)-40]) + signed[len(signed)-39:],
		}
		for _, name := range hkSorted(variants) {
			doc := variants[name]
			ix := index.NewMemoryIndex()
			ix.KeyFetcher = w
			ix.InitBlobSource(emptySource{w})
			r.ImplOnly("index-receive-tampered")
			_, err := ix.ReceiveBlob(ctxbg, blob.RefFromString(doc), strings.NewReader(doc))
			stillClaim := false
			if sb, e := schema.BlobFromReader(blob.RefFromString(doc), strings.NewReader(doc)); e == nil && sb.Type() == schema.TypeClaim {
				stillClaim = true
				r.Hit("index:tampered-blob-still-a-claim-schema")
			}
			// "key-broken" is no longer sniffed as a schema blob by the indexer: indexed as plain bytes, no error
			if c := claimsOf(ix, pn); c != 0 || (stillClaim && err == nil && name != "key-broken") {
				r.Fail("index-trusts-unverified-claim", fmt.Sprintf("index accepted a tampered claim (%s): err=%v, claims=%d", name, err, c),
					"error and no claim row", fmt.Sprintf("err=%v claims=%d", err, c), []string{"v x" + hexOf(doc) + " -"})
			}
			ix.Close()
		}
		ix := index.NewMemoryIndex()
		ix.KeyFetcher = w
		ix.InitBlobSource(emptySource{w})
		r.ImplOnly("index-receive-genuine")
		_, err = ix.ReceiveBlob(ctxbg, blob.RefFromString(signed), strings.NewReader(signed))
		if c := claimsOf(ix, pn); c != 1 || err != nil {
			r.Fail("index-rejects-genuine-claim", fmt.Sprintf("index did not index a genuine claim: err=%v, claims=%d", err, c), "1 claim", fmt.Sprint(c), nil)
		}
		ix.Close()
		r.Hit("mech:indexer-trusts-only-verified-claims")
	}
}

func flipB64(c byte) string {
	if c == 'A' {
		return "B"
	}
	return "A"
}

func hexOf(s string) string { return fmt.Sprintf("%x", s) }

func hkSorted(m map[string]string) []string {
	ks := make([]string, 0, len(m))
	for k := range m {
		ks = append(ks, k)
	}
	for i := range ks {
		for j := i + 1; j < len(ks); j++ {
			if ks[j] < ks[i] {
				ks[i], ks[j] = ks[j], ks[i]
			}
		}
	}
	return ks
}
