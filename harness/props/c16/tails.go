package c16

// The tail of the unsigned document is where Sign (trim white space, drop exactly ONE '}') and
// NewVerificationRequest (BP + '}', '{' + rest) do their byte surgery.
//
//   - compactTails: hand-written compact JSON whose last member is an object / nested objects / an array
//     of objects / a string ending in '}' (texts ending in `}}`, `}}}`, `}]}`, `}"}`), each with every
//     trailing-white-space variant, through Sign -> Verify: the round trip must verify and give back
//     exactly the payload `trimmed minus ONE brace`.
//   - tailEnumeration: for a set of prefixes that leave a string / object / array / nested containers
//     open, EVERY tail X + "}" + Y with X, Y over {'}', ']', '"', ' ', '\n', '\t', '7'} (|X| <= 3 with
//     |Y| <= 1, and |X| <= 1 with |Y| <= 3) goes through the `sign` op (model compared on every one);
//     whatever Sign accepts is verified.
//   - handlerRoundTrip: the same compact documents through the HTTP sign handler
//     (pkg/jsonsign/signhandler, POST camli/sig/sign and camli/sig/verify).

import (
	"encoding/json"
	"fmt"
	"net/http"
	"net/http/httptest"
	"net/url"
	"reflect"
	"strings"
	"time"
	"unicode"

	"go4.org/jsonconfig"

	"perkeep.org/pkg/blobserver"
	"perkeep.org/pkg/blobserver/memory"
	_ "perkeep.org/pkg/jsonsign/signhandler"

	"verifharness/hk"
)

// signVerify: one unsigned text through `sign` and, if signed, `v`; the round-trip oracle.
func (g *gen) signVerify(text string, at time.Time, what string) {
	r := g.r
	sd := g.signDoc(unsignedDoc{text: text}, at)
	if sd == nil {
		return
	}
	rv := reference(text)
	var orig *origInfo
	if rv.ok {
		orig = &origInfo{t: sd.t, signer: sd.signer.ref}
	}
	vi := g.vop(nil, "x"+hk.Hex(sd.doc), orig)
	replay := func() []string {
		ops := r.CaseOps()
		return append(append([]string(nil), g.keyOps...), ops[len(ops)-2:]...)
	}
	if rv.ok != vi.accepted {
		r.Fail("signed-doc-not-verifying", fmt.Sprintf("%s: a freshly signed object (reference says verifiable=%v) gives accepted=%v", what, rv.ok, vi.accepted),
			fmt.Sprint(rv.ok), vi.String(), replay())
		return
	}
	if vi.accepted && (string(vi.bp) != sd.t || vi.signer != sd.signer.ref || !reflect.DeepEqual(vi.payload, rv.m)) {
		r.Fail("verified-payload-differs", what+": Verify's BP / signer / PayloadMap are not those that were signed", sd.t, string(vi.bp), replay())
	}
	if vi.accepted {
		r.Hit("tail:round-trip-ok")
		if strings.HasSuffix(sd.t, "}") || strings.HasSuffix(sd.t, "]") {
			r.Hit("tail:payload-ends-in-closing-bracket")
		}
	}
}

var tailWS = []string{"", "\n", " ", "\t", "\r\n", "  \n", "\n\n", " \t\r\n", "\u00a0", "\u2003", "\u3000\n", "\v\f", "\u0085"}

func (g *gen) compactDocs() []string {
	k := g.key[0].ref.String()
	head := `{"camliVersion":1,"camliSigner":"` + k + `"`
	return []string{
		head + `,"meta":{"k":"v"}}`,
		head + `,"extra":{}}`,
		head + `,"a":{"b":{"c":{}}}}`,
		head + `,"a":{"b":{"c":{"d":1}}}}`,
		head + `,"l":[{"a":1},{"b":2}]}`,
		head + `,"l":[{}]}`,
		head + `,"l":[[{}]]}`,
		head + `,"s":"}"}`,
		head + `,"s":"}}"}`,
		head + `,"s":"x}\"}"}`,
		head + `,"s":"\\}"}`,
		head + `,"s":"]}"}`,
		head + `,"n":7}`,
		head + `,"l":[]}`,
		head + `,"l":[7]}`,
		head + `,"b":true}`,
		head + `,"z":null}`,
		head + `}`,
		`{"meta":{"k":"v"},"camliVersion":1,"camliSigner":"` + k + `"}`,
		`{"camliVersion":1,"x":{"camliSigner":"nested"},"camliSigner":"` + k + `","y":{"z":{}}}`,
		`{"camliSigner":"` + k + `","camliVersion":{"major":1}}`,
		// white space before the final brace stays in the payload
		head + `,"meta":{"k":"v"} }`,
		head + `,"meta":{"k":"v"}` + "\n}",
		head + `,"meta":{"k":"v" }}`,
		head + `,"meta":{}` + "\t}",
	}
}

func (g *gen) compactTails() {
	g.newCase("compact-documents-ending-in-closing-brackets", g.stdKeys())
	at := time.Unix(1400000000, 0)
	for _, d := range g.compactDocs() {
		for _, ws := range tailWS {
			g.signVerify(d+ws, at, "compact document")
		}
	}
	g.r.Distinct("compact-tails")
}

const tailAlphabet = "}]\" \n\t7"

func wordsUpTo(n int) []string {
	out := []string{""}
	prev := []string{""}
	for i := 0; i < n; i++ {
		var next []string
		for _, p := range prev {
			for j := 0; j < len(tailAlphabet); j++ {
				next = append(next, p+string(tailAlphabet[j]))
			}
		}
		out = append(out, next...)
		prev = next
	}
	return out
}

func (g *gen) tailEnumeration() {
	r := g.r
	g.newCase("tail-enumeration X}Y over {} ] \" space newline tab digit}", g.stdKeys())
	k := g.key[0].ref.String()
	head := `{"camliVersion":1,"camliSigner":"` + k + `"`
	prefixes := []string{
		head,
		head + `,"z":`,
		head + `,"z":7`,
		head + `,"z":"a`,
		head + `,"z":{`,
		head + `,"z":{"a":1`,
		head + `,"z":[`,
		head + `,"z":[1`,
		head + `,"z":[{"a":1`,
		head + `,"z":{"a":{"b":"x`,
		head + `,"z":[[{`,
	}
	x3, x1 := wordsUpTo(3), wordsUpTo(1)
	at := time.Unix(1400000000, 0)
	n, signed := 0, 0
	seen := map[string]bool{}
	for _, p := range prefixes {
		for pass := 0; pass < 2; pass++ {
			xs, ys := x3, x1
			if pass == 1 {
				xs, ys = x1, x3
			}
			for _, x := range xs {
				for _, y := range ys {
					text := p + x + "}" + y
					if seen[text] {
						continue
					}
					seen[text] = true
					n++
					// cheap pre-check with the reference: texts Sign will refuse only get the `sign` op
					if rv := reference(text); rv.m == nil {
						g.signDoc(unsignedDoc{text: text}, at)
						continue
					}
					signed++
					g.signVerify(text, at, "enumerated tail")
				}
			}
		}
	}
	r.Res.Histogram["tail:enumerated-texts"] += n
	r.Res.Histogram["tail:enumerated-texts-that-are-json-objects"] += signed
	r.Distinct("tail-enumeration")
}

// ---- the HTTP sign handler ---------------------------------------------------------------------------

type stubLoader struct{ sto blobserver.Storage }

func (l stubLoader) FindHandlerByType(string) (string, any, error) {
	return "", nil, blobserver.ErrHandlerTypeNotFound
}
func (l stubLoader) AllHandlers() (map[string]string, map[string]any) { return nil, nil }
func (l stubLoader) MyPrefix() string                                 { return "/sighelper/" }
func (l stubLoader) BaseURL() string                                  { return "http://localhost" }
func (l stubLoader) GetHandlerType(string) string                     { return "" }
func (l stubLoader) GetHandler(string) (any, error)                   { return nil, blobserver.ErrHandlerTypeNotFound }
func (l stubLoader) GetStorage(string) (blobserver.Storage, error)    { return l.sto, nil }

func (g *gen) handlerRoundTrip() {
	r := g.r
	h, err := blobserver.CreateHandler("jsonsign", stubLoader{&memory.Storage{}}, jsonconfig.Obj{
		"keyId": g.key[0].ent.PrimaryKey.KeyIdString(), "secretRing": "pkg/jsonsign/testdata/test-secring.gpg", "publicKeyDest": "/bs/",
	})
	if err != nil {
		r.Fail("harness-sign-handler", "cannot create the jsonsign handler: "+err.Error(), "", "", nil)
		return
	}
	post := func(path string, form url.Values) (int, string) {
		req := httptest.NewRequest("POST", "http://localhost/sighelper/"+path, strings.NewReader(form.Encode()))
		req.Header.Set("Content-Type", "application/x-www-form-urlencoded")
		req.Header.Set("X-PrefixHandler-PathBase", "/sighelper/")
		req.Header.Set("X-PrefixHandler-PathSuffix", path)
		rec := httptest.NewRecorder()
		h.ServeHTTP(rec, req)
		return rec.Code, rec.Body.String()
	}
	w := newWorld()
	w.addKey(g.key[0], 2)
	for _, d := range g.compactDocs() {
		for _, ws := range []string{"", "\n", " \t\r\n", "\u00a0"} {
			text := d + ws
			r.ImplOnly("http-sign-handler")
			code, signed := post("camli/sig/sign", url.Values{"json": {text}})
			rv := reference(text)
			t := strings.TrimRightFunc(text, unicode.IsSpace)
			t = t[:len(t)-1]
			if code != http.StatusOK {
				r.Fail("http-sign-handler-refuses-valid-object", fmt.Sprintf("POST camli/sig/sign answers %d for a valid object", code), "200", signed, nil)
				continue
			}
			if !strings.HasPrefix(signed, t+sep) || !strings.HasSuffix(signed, "\"}\n") {
				r.Fail("http-signed-doc-shape", "the sign handler's document is not T+separator+S+\"}\\n", t+sep+"…", signed, []string{"v x" + hk.Hex([]byte(signed)) + " -"})
				continue
			}
			var dm map[string]any
			if err := json.Unmarshal([]byte(signed), &dm); err != nil {
				r.Fail("http-signed-doc-invalid-json", "the sign handler's document is not valid JSON: "+err.Error(), "valid JSON", signed, nil)
				continue
			}
			g.logSigned(g.key[0].ref, t)
			vi := w.verify([]byte(signed))
			if vi.accepted != rv.ok || (vi.accepted && (string(vi.bp) != t || !reflect.DeepEqual(vi.payload, rv.m))) {
				r.Fail("http-signed-doc-not-verifying", "the sign handler's document does not verify to the signed payload", "ok", vi.String(), []string{"v x" + hk.Hex([]byte(signed)) + " -"})
				continue
			}
			_, body := post("camli/sig/verify", url.Values{"sjson": {signed}})
			var vres struct {
				SignatureValid bool           `json:"signatureValid"`
				VerifiedData   map[string]any `json:"verifiedData"`
			}
			if err := json.Unmarshal([]byte(body), &vres); err != nil || vres.SignatureValid != rv.ok || (rv.ok && !reflect.DeepEqual(vres.VerifiedData, rv.m)) {
				r.Fail("http-verify-handler-disagrees", "POST camli/sig/verify does not confirm the handler's own signature / payload", fmt.Sprint(rv.ok), body, nil)
				continue
			}
			r.Hit("http:sign-handler-round-trip-ok")
		}
	}
}
