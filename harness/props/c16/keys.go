package c16

// Keys of other public-key algorithms than the RSA test key rings, built at start-up from FIXED
// constants (not from the run's seed: a replay process must be able to serve the same key blobs).
//
//	ecdsa1, ecdsa2   ECDSA P-256, secret key available
//	dsa1, dsa2       DSA L1024/N160 over fixed parameters, secret key available
//	elgamal          ElGamal public key (cannot sign), public only
//	rsa-encrypt-only the modulus of test key 1 declared with algorithm 2 (cannot sign), public only

import (
	"bytes"
	"crypto/dsa"
	"crypto/ecdsa"
	"crypto/elliptic"
	"crypto/rsa"
	"crypto/sha256"
	"errors"
	"io"
	"math/big"
	"time"

	"golang.org/x/crypto/openpgp"
	"golang.org/x/crypto/openpgp/armor"
	"golang.org/x/crypto/openpgp/elgamal"
	"golang.org/x/crypto/openpgp/packet"
)

const (
	dsaP = "82c8f566e16dd7499b76cbe039847b5e353d152ffa79da11dd7ce06fd3b0b2c4aa64cb0bd9e42e4f9940f22c8b09deb05b3b76b5abff198280880a55958e61622ad5e0d6a9d3bea457a52815d9961891701f86c4c085d9d31be2c42285e4cfd4db1241d83b8d4d26808ea76a3b1b233161cc209c9257db6bb08f7c1475bed31b"
	dsaQ = "8d24a0aa3e1b857a0010bc2de73aaa7d46ab56d9"
	dsaG = "749befa0c06b91f62490232f5a797faf3c7d1a1953955912ebbd170df63b2f07a4e43fa5ed3bb518211f1b878059c1aaebf7d5e00cbc3ab3473db1cc0a0b4a2c634c59258fd17b60202714ac4bd0e004c35e28b98afc7c1e766144a78698ee9cba9304500eca1f7eb8027387c36d93f00f1f011af897dcc23e1604261e3cf0da"
)

var keyCreation = time.Unix(1300000000, 0)

func hexBig(s string) *big.Int {
	n, _ := new(big.Int).SetString(s, 16)
	return n
}

// scalar derives a number in [1, max-1] from a label.
func scalar(label string, max *big.Int) *big.Int {
	h1 := sha256.Sum256([]byte(label + "/1"))
	h2 := sha256.Sum256([]byte(label + "/2"))
	n := new(big.Int).SetBytes(append(h1[:], h2[:]...))
	n.Mod(n, new(big.Int).Sub(max, big.NewInt(1)))
	return n.Add(n, big.NewInt(1))
}

func armorPublic(pk *packet.PublicKey) (string, error) {
	var buf bytes.Buffer
	wc, err := armor.Encode(&buf, openpgp.PublicKeyType, nil)
	if err != nil {
		return "", err
	}
	if err := pk.Serialize(wc); err != nil {
		return "", err
	}
	wc.Close()
	buf.WriteByte('\n')
	return buf.String(), nil
}

// reparse reads the armored key blob the way jsonsign will.
func reparse(armored string) (*packet.PublicKey, error) {
	block, _ := armor.Decode(bytes.NewReader([]byte(armored)))
	if block == nil {
		return nil, errors.New("c16: generated key does not armor-decode")
	}
	p, err := packet.Read(block.Body)
	if err != nil {
		return nil, err
	}
	pk, ok := p.(*packet.PublicKey)
	if !ok {
		return nil, errors.New("c16: generated key blob is not a public key")
	}
	return pk, nil
}

func entityOf(priv *packet.PrivateKey, name string) *openpgp.Entity {
	isPrimary := true
	uid := packet.NewUserId(name, "verif c16", name+"@example.com")
	e := &openpgp.Entity{
		PrimaryKey: &priv.PublicKey,
		PrivateKey: priv,
		Identities: map[string]*openpgp.Identity{},
	}
	e.Identities[uid.Id] = &openpgp.Identity{
		Name:   uid.Id,
		UserId: uid,
		SelfSignature: &packet.Signature{
			CreationTime: keyCreation, SigType: packet.SigTypePositiveCert, PubKeyAlgo: priv.PubKeyAlgo,
			Hash: 0, IsPrimaryId: &isPrimary, FlagsValid: true, FlagSign: true, FlagCertify: true,
			IssuerKeyId: &e.PrimaryKey.KeyId,
		},
	}
	return e
}

// generatedKeys returns the extra key blobs (in a fixed order).
func generatedKeys(rsa1 *rsa.PublicKey) ([]*knownBlob, error) {
	var out []*knownBlob
	add := func(name string, pub *packet.PublicKey, ent *openpgp.Entity) error {
		arm, err := armorPublic(pub)
		if err != nil {
			return err
		}
		pk, err := reparse(arm)
		if err != nil {
			return err
		}
		kb := &knownBlob{content: arm, pub: pk, name: name, maxKind: 1}
		if ent != nil {
			kb.maxKind, kb.ent = 2, ent
		}
		out = append(out, kb)
		return nil
	}
	for _, name := range []string{"ecdsa1", "ecdsa2"} {
		c := elliptic.P256()
		d := scalar("verif-c16-"+name, c.Params().N)
		x, y := c.ScalarBaseMult(d.Bytes())
		priv := packet.NewECDSAPrivateKey(keyCreation, &ecdsa.PrivateKey{PublicKey: ecdsa.PublicKey{Curve: c, X: x, Y: y}, D: d})
		if err := add(name, &priv.PublicKey, entityOf(priv, name)); err != nil {
			return nil, err
		}
	}
	params := dsa.Parameters{P: hexBig(dsaP), Q: hexBig(dsaQ), G: hexBig(dsaG)}
	for _, name := range []string{"dsa1", "dsa2"} {
		x := scalar("verif-c16-"+name, params.Q)
		y := new(big.Int).Exp(params.G, x, params.P)
		priv := packet.NewDSAPrivateKey(keyCreation, &dsa.PrivateKey{PublicKey: dsa.PublicKey{Parameters: params, Y: y}, X: x})
		if err := add(name, &priv.PublicKey, entityOf(priv, name)); err != nil {
			return nil, err
		}
	}
	ex := scalar("verif-c16-elgamal", params.Q)
	eg := packet.NewElGamalPublicKey(keyCreation, &elgamal.PublicKey{G: params.G, P: params.P, Y: new(big.Int).Exp(params.G, ex, params.P)})
	if err := add("elgamal", eg, nil); err != nil {
		return nil, err
	}
	eo := packet.NewRSAPublicKey(keyCreation, rsa1)
	eo.PubKeyAlgo = packet.PubKeyAlgoRSAEncryptOnly
	if err := add("rsa-encrypt-only", eo, nil); err != nil {
		return nil, err
	}
	return out, nil
}

// constReader yields one byte value for ever: randomized signature algorithms (DSA, ECDSA) become
// reproducible from the run's seed, whatever number of bytes the standard library decides to skip.
type constReader byte

func (c constReader) Read(p []byte) (int, error) {
	for i := range p {
		p[i] = byte(c)
	}
	return len(p), nil
}

var _ io.Reader = constReader(0)

// deterministic reports whether signing with the key gives the same bytes every time (so that the
// harness can compute the library's answer before the real Sign runs).
func (k *knownBlob) deterministic() bool {
	return k.pub != nil && (k.pub.PubKeyAlgo == packet.PubKeyAlgoRSA || k.pub.PubKeyAlgo == packet.PubKeyAlgoRSASignOnly)
}

func algoName(a packet.PublicKeyAlgorithm) string {
	switch a {
	case packet.PubKeyAlgoRSA:
		return "rsa"
	case packet.PubKeyAlgoRSAEncryptOnly:
		return "rsa-encrypt-only"
	case packet.PubKeyAlgoDSA:
		return "dsa"
	case packet.PubKeyAlgoECDSA:
		return "ecdsa"
	case packet.PubKeyAlgoElGamal:
		return "elgamal"
	}
	return "other"
}
