package c16

// Document SIZE as a dimension: signed claims padded (a long string member) to exact byte lengths of the
// final signed text around every power-of-two-ish boundary a buffer, window or length field could have,
// through Sign -> Verify (must verify, payload equal), plus tamper edits at the head, in the middle and at
// the tail (must be rejected or leave payload and signer unchanged).  The op lines carry the padding as a
// (seed, length) token (`signp`, `docp`); mutations are relative to the base document.

import (
	"bytes"
	"fmt"
	"strings"
	"time"

	"perkeep.org/pkg/jsonsign"

	"verifharness/hk"
)

var docSizes = []int{700, 2048, 4000, 4095, 4096, 4097, 4200, 8192, 65535, 65536, 65537, 500000, 1 << 20}

func (g *gen) sizes() {
	r := g.r
	g.newCase("document-sizes", g.stdKeys())
	var ecdsa *knownBlob
	for _, k := range g.signers() {
		if algoName(k.pub.PubKeyAlgo) == "ecdsa" && ecdsa == nil {
			ecdsa = k
		}
	}
	keys := []*knownBlob{g.key[0], g.key[1], ecdsa}
	for ki, k := range keys {
		if k == nil {
			continue
		}
		for si, target := range docSizes {
			if !r.Thorough() && ki > 0 && target > 70000 && (ki+si)%2 == 0 {
				continue // quick: the two largest sizes alternate between the second and third key
			}
			seed := r.R.Intn(1000)
			at := time.Unix(1400000000+int64(target), 0)
			pre := fmt.Sprintf(`{"camliVersion":1,"camliSigner":"%s","camliType":"claim","pad":"`, k.ref.String())
			suf := "\"}\n"
			n := target - len(pre) - 500
			if n < 0 {
				n = 0
			}
			var doc, text string
			exact := false
			for try := 0; try < 24; try++ {
				text = pre + string(padBytes(seed, n)) + suf
				d, err := g.w.sign(text, at)
				if err != nil {
					r.Fail("sign-rejects-valid-object", fmt.Sprintf("Sign fails on a %d-byte object: %v", len(text), err), "signed document", "error", nil)
					break
				}
				doc = d
				if len(doc) == target {
					exact = true
					break
				}
				n += target - len(doc)
				if n < 0 {
					break
				}
			}
			if doc == "" {
				continue
			}
			if exact {
				r.Hit(fmt.Sprintf("size:%d-exact", target))
			} else {
				r.Hit(fmt.Sprintf("size:%d-approx", target))
			}
			t := pre + string(padBytes(seed, n)) + "\""
			g.logSigned(k.ref, t)
			if !strings.HasPrefix(doc, t+sep) || !strings.HasSuffix(doc, "\"}\n") {
				r.Fail("signed-doc-shape", fmt.Sprintf("%d-byte signed document is not T+separator+S+\"}\\n", len(doc)), "", "", nil)
				continue
			}
			sig := doc[len(t)+len(sep) : len(doc)-3]
			// the `signp` op (the model signs the same text; for ECDSA the armor column is rebuilt from the
			// real signature, and the real Sign of the replay makes another one: only the length is compared)
			armored := jsonsign.VerifReArmor(sig)
			if k.deterministic() {
				armored, _ = armoredDetachSign(k.ent, t, at)
			}
			line := fmt.Sprintf("signp %s %d %d %s %s %d", hk.Hex([]byte(pre)), seed, n, hk.Hex([]byte(suf)), hk.Hex([]byte(armored)), at.Unix())
			r.Op(line, fmt.Sprintf("ok %d:%d", len(doc), fnv([]byte(doc))))
			// base document for the mutations
			docp := fmt.Sprintf("docp %s %d %d %s", hk.Hex([]byte(pre)), seed, n, hk.Hex([]byte("\""+sep+sig+"\"}\n")))
			if out := g.op(docp); out != fmt.Sprintf("ok %d", len(doc)) || !bytes.Equal(g.w.doc, []byte(doc)) {
				r.Fail("harness-docp", "docp does not rebuild the signed document", fmt.Sprint(len(doc)), out, nil)
				continue
			}
			g.docOp = docp
			base := []byte(doc)
			orig := &origInfo{t: t, signer: k.ref}
			vi := g.vop(base, "b", orig)
			if !vi.accepted {
				r.Fail("signed-doc-not-verifying", fmt.Sprintf("a freshly signed %d-byte document (key %s) does not verify", len(doc), k.name),
					"ok", vi.String(), append(append([]string(nil), g.keyOps...), docp, g.lastLine))
			} else if string(vi.bp) != t || vi.signer != k.ref {
				r.Fail("verified-payload-differs", fmt.Sprintf("%d-byte document: Verify's BP / signer are not those signed", len(doc)), "", vi.String(), nil)
			} else {
				r.Hit("size:round-trip-ok")
			}
			// tamper edits: head, middle, tail of the payload, around the separator, inside the signature
			L, T := len(doc), len(t)
			pos := []int{0, 1, len(pre) - 1, len(pre), len(pre) + 1, T / 2, T/2 + 1, L - 4097, L - 4096, L - 4095, T - 2, T - 1, T, T + 1, T + len(sep), T + len(sep) + 5, L - 4, L - 3, L - 2, L - 1}
			if L > 70000 {
				pos = []int{0, len(pre), T / 2, L - 4096, T - 1, T, T + len(sep) + 5, L - 2}
			}
			for _, p := range pos {
				if p < 0 || p >= L {
					continue
				}
				g.vop(base, fmt.Sprintf("s%d:%d", p, base[p]^1), orig)
				if L <= 70000 {
					g.vop(base, fmt.Sprintf("d%d", p), orig)
					g.vop(base, fmt.Sprintf("i%d:%d", p, 32), orig)
				}
			}
			g.docOp = ""
			r.Distinct(fmt.Sprintf("size:%s:%d", k.name, target))
		}
	}
}
