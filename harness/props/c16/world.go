// Package c16: pkg/jsonsign (Sign, NewVerificationRequest, Verify, reArmor) against the Lean model
// Pk.JsonSign and against the property's own oracle.
package c16

import (
	"bytes"
	"context"
	"crypto"
	"crypto/rsa"
	"encoding/json"
	"errors"
	"fmt"
	"io"
	"os"
	"sort"
	"strconv"
	"strings"
	"sync"
	"time"
	"unicode"

	"golang.org/x/crypto/openpgp"
	"golang.org/x/crypto/openpgp/armor"
	"golang.org/x/crypto/openpgp/packet"

	"perkeep.org/pkg/blob"
	"perkeep.org/pkg/camerrors"
	"perkeep.org/pkg/jsonsign"

	"verifharness/hk"
)

var ctxbg = context.Background()

// knownBlob is one blob the key fetcher may be told to serve.
type knownBlob struct {
	ref     blob.Ref
	content string
	maxKind int             // 0: not a key; 1: public key only; 2: the secret key is available too
	ent     *openpgp.Entity // with private key when maxKind == 2
	pub     *packet.PublicKey
	name    string
}

var (
	knownOnce sync.Once
	known     map[string]*knownBlob // by ref text
	knownList []*knownBlob
	knownErr  error
)

const junkBlob = "this blob is not an OpenPGP public key\n"

func loadKnown() {
	known = map[string]*knownBlob{}
	add := func(k *knownBlob) {
		k.ref = blob.RefFromString(k.content)
		known[k.ref.String()] = k
		knownList = append(knownList, k)
	}
	for i, f := range []string{"pkg/jsonsign/testdata/test-secring.gpg", "pkg/jsonsign/testdata/test-secring2.gpg"} {
		id, err := jsonsign.KeyIdFromRing(f)
		if err != nil {
			knownErr = err
			return
		}
		ent, err := jsonsign.EntityFromSecring(id, f)
		if err != nil {
			knownErr = err
			return
		}
		arm, err := jsonsign.ArmoredPublicKey(ent)
		if err != nil {
			knownErr = err
			return
		}
		add(&knownBlob{content: arm, maxKind: 2, ent: ent, pub: ent.PrimaryKey, name: fmt.Sprintf("key%d", i+1)})
	}
	// a public key whose secret key the harness does not have
	if f, err := os.Open("pkg/jsonsign/testdata/password-foo-keyring.gpg"); err == nil {
		el, err := openpgp.ReadKeyRing(f)
		f.Close()
		if err == nil && len(el) > 0 {
			var buf bytes.Buffer
			if wc, err := armor.Encode(&buf, openpgp.PublicKeyType, nil); err == nil {
				el[0].PrimaryKey.Serialize(wc)
				wc.Close()
				buf.WriteByte('\n')
				add(&knownBlob{content: buf.String(), maxKind: 1, pub: el[0].PrimaryKey, name: "pubonly"})
			}
		}
	}
	add(&knownBlob{content: junkBlob, maxKind: 0, name: "junk"})
	// keys of other algorithms (fixed, generated at start-up): indices 4..
	if rp, ok := knownList[0].pub.PublicKey.(*rsa.PublicKey); ok {
		gk, err := generatedKeys(rp)
		if err != nil {
			knownErr = err
			return
		}
		for _, k := range gk {
			add(k)
		}
	} else {
		knownErr = errors.New("c16: test key 1 is not an RSA key")
	}
}

func knownBlobs() (map[string]*knownBlob, []*knownBlob, error) {
	knownOnce.Do(loadKnown)
	if knownErr == nil && len(knownList) < 10 {
		knownErr = errors.New("c16: test key rings incomplete")
	}
	return known, knownList, knownErr
}

// world is the environment of one case: what the key fetcher serves and which secret keys exist.
type world struct {
	blobs   map[blob.Ref]string
	secrets map[string]*openpgp.Entity // by fingerprint
	doc     []byte
}

func newWorld() *world {
	return &world{blobs: map[blob.Ref]string{}, secrets: map[string]*openpgp.Entity{}}
}

func (w *world) Fetch(ctx context.Context, br blob.Ref) (io.ReadCloser, uint32, error) {
	s, ok := w.blobs[br]
	if !ok {
		return nil, 0, os.ErrNotExist
	}
	return io.NopCloser(strings.NewReader(s)), uint32(len(s)), nil
}

func (w *world) FetchEntity(fingerprint string) (*openpgp.Entity, error) {
	if e, ok := w.secrets[fingerprint]; ok {
		return e, nil
	}
	return nil, errors.New("c16-noentity")
}

func (w *world) addKey(k *knownBlob, kind int) bool {
	if kind > k.maxKind || (kind == 0) != (k.maxKind == 0) {
		return false
	}
	w.blobs[k.ref] = k.content
	fp := ""
	if k.pub != nil {
		fp = fmt.Sprintf("%X", k.pub.Fingerprint)
	}
	if kind == 2 {
		w.secrets[fp] = k.ent
	} else if fp != "" {
		delete(w.secrets, fp)
	}
	return true
}

func fnv(parts ...[]byte) uint32 {
	h := uint32(2166136261)
	for i, p := range parts {
		if i > 0 {
			h = (h ^ 0) * 16777619
		}
		for _, b := range p {
			h = (h ^ uint32(b)) * 16777619
		}
	}
	return h
}

func signErrClass(err error) string {
	m := err.Error()
	switch {
	case strings.Contains(m, "json parse error"):
		return "jsonparse"
	case strings.Contains(m, "json lacks \"camliSigner\""):
		return "nosigner"
	case strings.Contains(m, "malformed or unsupported"):
		return "malformed"
	case strings.Contains(m, "failed to find public key"):
		return "nokey"
	case strings.Contains(m, "failed to parse public key"):
		return "badkey"
	case strings.Contains(m, "lacks trailing '}'"):
		return "nobrace"
	case strings.Contains(m, "c16-noentity"):
		return "noentity"
	case strings.Contains(m, "Failed to parse signature from gpg"):
		return "gpgparse"
	}
	return "other"
}

// sign runs the real Sign.
func (w *world) sign(unsigned string, t time.Time) (string, error) {
	sr := &jsonsign.SignRequest{UnsignedJSON: unsigned, Fetcher: w, ServerMode: true,
		SignatureTime: t, EntityFetcher: w}
	return sr.Sign(ctxbg)
}

func (w *world) signOp(unsigned string, t time.Time) string {
	doc, err := w.sign(unsigned, t)
	if err != nil {
		return "err " + signErrClass(err)
	}
	return "ok " + hk.Hex([]byte(doc))
}

// vinfo is what one NewVerificationRequest+Verify left behind.
type vinfo struct {
	class    string
	accepted bool
	hasParts bool
	bp       []byte
	sig      string
	signer   blob.Ref
	payload  map[string]any
}

func verifyErrClass(vr *jsonsign.VerifyRequest, err error) string {
	if errors.Is(err, camerrors.ErrMissingKeyBlob) {
		return "missingkey"
	}
	m := ""
	if vr.Err != nil {
		m = vr.Err.Error()
	}
	switch {
	case strings.Contains(m, "no 13-byte camliSig separator"):
		return "nosep"
	case strings.Contains(m, "invalid JSON in signature"):
		return "sigjson"
	case strings.Contains(m, "didn't have exactly 1 key"):
		return "sigkeys"
	case strings.Contains(m, "no 'camliSig' key"):
		return "nocamlisig"
	case strings.Contains(m, "camliSig not a string"):
		return "signotstring"
	case strings.Contains(m, "payload JSON is invalid"):
		return "payloadjson"
	case strings.Contains(m, "missing 'camliVersion'"):
		return "noversion"
	case strings.Contains(m, "missing 'camliSigner'"):
		return "nosigner"
	case strings.Contains(m, "invalid 'camliSigner'"):
		return "signernotstring"
	case strings.Contains(m, "malformed 'camliSigner'"):
		return "signermalformed"
	case strings.Contains(m, "error opening public key file"):
		return "badkey"
	case strings.Contains(m, "can't parse camliSig armor"):
		return "sig:1"
	case strings.Contains(m, "error reading PGP packet"):
		return "sig:2"
	case strings.Contains(m, "isn't a signature packet"):
		return "sig:3"
	case strings.Contains(m, "only verify SHA1 or SHA256"):
		return "sig:4"
	case strings.Contains(m, "only verify binary"):
		return "sig:5"
	case strings.Contains(m, "bad signature"):
		return "sig:6"
	}
	return "other"
}

// verify runs the real NewVerificationRequest + Verify on doc.
func (w *world) verify(doc []byte) (vi vinfo) {
	vr := jsonsign.NewVerificationRequest(string(doc), w)
	_, err := vr.Verify(ctxbg)
	bp, bpj, _ := vr.VerifParts()
	vi.hasParts = bpj != nil
	vi.bp = bp
	vi.sig = vr.CamliSig
	vi.signer = vr.CamliSigner
	if err == nil {
		vi.class, vi.accepted, vi.payload = "ok", true, vr.PayloadMap
	} else {
		vi.class = verifyErrClass(vr, err)
		if vr.PayloadMap != nil {
			vi.class = "payloadmap-left-behind"
		}
	}
	return vi
}

func (vi vinfo) String() string {
	idx, sg := "-", "-"
	if vi.hasParts {
		idx = strconv.Itoa(len(vi.bp))
	}
	if vi.signer.Valid() {
		sg = hk.Hex([]byte(vi.signer.String()))
	}
	return fmt.Sprintf("%s i=%s sig=%d:%d signer=%s", vi.class, idx, len(vi.sig), fnv([]byte(vi.sig)), sg)
}

// directCheck asks the OpenPGP library, without jsonsign's parsing, whether the armored signature
// `sig` is a good binary SHA1/SHA256 signature of exactly `bp` under `pub` (0) or why not.
func directCheck(pub *packet.PublicKey, bp []byte, sig string) int {
	block, _ := armor.Decode(strings.NewReader(jsonsign.VerifReArmor(sig)))
	if block == nil {
		return 1
	}
	p, err := packet.Read(block.Body)
	if err != nil {
		return 2
	}
	s, ok := p.(*packet.Signature)
	if !ok {
		return 3
	}
	if s.Hash != crypto.SHA1 && s.Hash != crypto.SHA256 {
		return 4
	}
	if s.SigType != packet.SigTypeBinary {
		return 5
	}
	h := s.Hash.New()
	h.Write(bp)
	if pub.VerifySignature(h, s) != nil {
		return 6
	}
	return 0
}

// fact is the oracle column of a `v` op for the triple the implementation extracted.
func (w *world) fact(vi vinfo) (string, int) {
	if !vi.hasParts || !vi.signer.Valid() {
		return "-", -1
	}
	kb := known[vi.signer.String()]
	if kb == nil || kb.pub == nil {
		return "-", -1
	}
	if _, ok := w.blobs[vi.signer]; !ok {
		return "-", -1
	}
	cls := directCheck(kb.pub, vi.bp, vi.sig)
	dg := fnv([]byte(vi.signer.String()), vi.bp, []byte(jsonsign.VerifReArmor(vi.sig)))
	return fmt.Sprintf("%d@%d", cls, dg), cls
}

// applyMut applies a mutation word to doc.
func applyMut(doc []byte, m string) ([]byte, bool) {
	if m == "b" {
		return doc, true
	}
	if m == "" {
		return nil, false
	}
	rest := m[1:]
	posByte := func() (int, int, bool) {
		a, b, ok := strings.Cut(rest, ":")
		if !ok {
			return 0, 0, false
		}
		p, e1 := strconv.Atoi(a)
		v, e2 := strconv.Atoi(b)
		if e1 != nil || e2 != nil || p < 0 || v < 0 || v > 255 || strings.ContainsAny(rest, "+-") {
			return 0, 0, false
		}
		return p, v, true
	}
	switch m[0] {
	case 's':
		p, v, ok := posByte()
		if !ok || p >= len(doc) {
			return nil, false
		}
		out := append([]byte(nil), doc...)
		out[p] = byte(v)
		return out, true
	case 'i':
		p, v, ok := posByte()
		if !ok || p > len(doc) {
			return nil, false
		}
		out := make([]byte, 0, len(doc)+1)
		out = append(out, doc[:p]...)
		out = append(out, byte(v))
		return append(out, doc[p:]...), true
	case 'd':
		p, err := strconv.Atoi(rest)
		if err != nil || p < 0 || p >= len(doc) || strings.ContainsAny(rest, "+-") {
			return nil, false
		}
		out := make([]byte, 0, len(doc))
		out = append(out, doc[:p]...)
		return append(out, doc[p+1:]...), true
	case 'x':
		return hk.UnHex(rest)
	}
	return nil, false
}

func jsonKind(v any) string {
	switch x := v.(type) {
	case nil:
		return "z"
	case bool:
		if x {
			return "t"
		}
		return "f"
	case float64:
		return "n"
	case string:
		return "s" + hk.Hex([]byte(x))
	case []any:
		return "a"
	case map[string]any:
		return "o"
	}
	return "?"
}

func jsonOp(data []byte) string {
	m := make(map[string]any)
	if err := json.Unmarshal(data, &m); err != nil {
		return "err"
	}
	if len(m) == 0 {
		return "ok -"
	}
	keys := make([]string, 0, len(m))
	for k := range m {
		keys = append(keys, k)
	}
	sort.Strings(keys)
	parts := make([]string, len(keys))
	for i, k := range keys {
		parts[i] = hk.Hex([]byte(k)) + "=" + jsonKind(m[k])
	}
	return "ok " + strings.Join(parts, ",")
}

func validFact(f string) bool {
	if f == "-" {
		return true
	}
	a, b, ok := strings.Cut(f, "@")
	if !ok {
		return false
	}
	isNum := func(s string) bool {
		if s == "" {
			return false
		}
		for _, c := range s {
			if c < '0' || c > '9' {
				return false
			}
		}
		return true
	}
	return isNum(a) && isNum(b)
}

// NewExec returns the interpreter of the c16 line protocol on the real code.
func NewExec() func(w []string) string {
	wd := newWorld()
	return func(w []string) string {
		return hk.Guard(func() string { return wd.exec(w) })
	}
}

func (wd *world) exec(w []string) string {
	kn, _, err := knownBlobs()
	if err != nil {
		return "setup-error"
	}
	if len(w) == 0 {
		return "bad-op"
	}
	switch w[0] {
	case "key":
		if len(w) != 3 {
			return "bad-op"
		}
		ref, ok := hk.UnHex(w[1])
		kind, e := strconv.Atoi(w[2])
		if !ok || e != nil || kind < 0 || kind > 2 || len(w[2]) != 1 {
			return "bad-op"
		}
		kb := kn[string(ref)]
		if kb == nil || !wd.addKey(kb, kind) {
			return "bad-op"
		}
		return "ok"
	case "doc":
		if len(w) != 2 {
			return "bad-op"
		}
		b, ok := hk.UnHex(w[1])
		if !ok {
			return "bad-op"
		}
		wd.doc = b
		return fmt.Sprintf("ok %d", len(b))
	case "trim":
		if len(w) != 2 {
			return "bad-op"
		}
		b, ok := hk.UnHex(w[1])
		if !ok {
			return "bad-op"
		}
		return hk.Hex([]byte(strings.TrimRightFunc(string(b), unicode.IsSpace)))
	case "rearmor":
		if len(w) != 2 {
			return "bad-op"
		}
		b, ok := hk.UnHex(w[1])
		if !ok {
			return "bad-op"
		}
		return hk.Hex([]byte(jsonsign.VerifReArmor(string(b))))
	case "json":
		if len(w) != 2 {
			return "bad-op"
		}
		b, ok := hk.UnHex(w[1])
		if !ok {
			return "bad-op"
		}
		return jsonOp(b)
	case "sign":
		if len(w) != 4 {
			return "bad-op"
		}
		u, ok1 := hk.UnHex(w[1])
		_, ok2 := hk.UnHex(w[2])
		ts, e := strconv.ParseInt(w[3], 10, 64)
		if !ok1 || !ok2 || e != nil || strings.HasPrefix(w[3], "+") {
			return "bad-op"
		}
		return wd.signOp(string(u), time.Unix(ts, 0))
	case "docp", "signp":
		want := 5
		if w[0] == "signp" {
			want = 7
		}
		if len(w) != want {
			return "bad-op"
		}
		pre, ok1 := hk.UnHex(w[1])
		seed, ok2 := decNat(w[2])
		n, ok3 := decNat(w[3])
		suf, ok4 := hk.UnHex(w[4])
		if !ok1 || !ok2 || !ok3 || !ok4 || n > 8<<20 {
			return "bad-op"
		}
		text := append(append(append([]byte(nil), pre...), padBytes(seed, n)...), suf...)
		if w[0] == "docp" {
			wd.doc = text
			return fmt.Sprintf("ok %d", len(text))
		}
		_, ok5 := hk.UnHex(w[5])
		ts, e := strconv.ParseInt(w[6], 10, 64)
		if !ok5 || e != nil || strings.HasPrefix(w[6], "+") {
			return "bad-op"
		}
		doc, err := wd.sign(string(text), time.Unix(ts, 0))
		if err != nil {
			return "err " + signErrClass(err)
		}
		return fmt.Sprintf("ok %d:%d", len(doc), fnv([]byte(doc)))
	case "v":
		if len(w) != 3 || !validFact(w[2]) {
			return "bad-op"
		}
		d, ok := applyMut(wd.doc, w[1])
		if !ok {
			return "bad-op"
		}
		return wd.verify(d).String()
	}
	return "bad-op"
}

// armoredDetachSign is what Sign asks the library for: the armored detached signature of t.
func armoredDetachSign(ent *openpgp.Entity, t string, at time.Time) (string, error) {
	return armoredDetachSignCfg(ent, t, &packet.Config{Time: func() time.Time { return at }, Rand: constReader(0x5a)})
}

func armoredDetachSignCfg(ent *openpgp.Entity, t string, cfg *packet.Config) (string, error) {
	var buf bytes.Buffer
	err := openpgp.ArmoredDetachSign(&buf, ent, strings.NewReader(t), cfg)
	return buf.String(), err
}

// padBytes: generated content (kept out of the op lines), the same function as the driver's.
func padBytes(seed, n int) []byte {
	b := make([]byte, n)
	for i := range b {
		b[i] = byte(97 + (seed+7*i+i/26)%26)
	}
	return b
}

func decNat(s string) (int, bool) {
	if s == "" || len(s) > 9 {
		return 0, false
	}
	for _, c := range s {
		if c < '0' || c > '9' {
			return 0, false
		}
	}
	n, err := strconv.Atoi(s)
	return n, err == nil
}
