package c16

// Forgeries and malformed signatures that exercise every way the OpenPGP library can refuse (or fail to
// check) a signature in jsonsign's VerifySignature:
//
//   - algorithmMatrix: every named key (RSA, ECDSA, DSA, and the keys that cannot sign: ElGamal, RSA
//     encrypt-only, plus an RSA key whose secret nobody here has) x every signing key (2 RSA, 2 ECDSA,
//     2 DSA): a well-formed signature with the CORRECT hash tag made by the signing key over the
//     payload that names the other key.  Only "named key == signing key" may be accepted.
//   - packetVariants: an honest signature of each algorithm edited at the packet level (version, type,
//     algorithm and hash octets, hash tag, MPIs, truncation, trailing data, CRC), hand-made v3 and
//     non-signature packets, and honest signatures with other hash functions / text mode / expiry.
//
// The oracle is the general one of vop (accepted => the key under the exact camliSigner key signed
// exactly BP, and the library accepts the triple) plus the explicit expectations below.

import (
	"bytes"
	"crypto"
	"encoding/base64"
	"fmt"
	"strings"
	"time"

	"golang.org/x/crypto/openpgp"
	"golang.org/x/crypto/openpgp/packet"

	"verifharness/hk"
)

func (g *gen) signers() []*knownBlob {
	var out []*knownBlob
	for _, k := range g.kn {
		if k.ent != nil {
			out = append(out, k)
		}
	}
	return out
}

func crc24(d []byte) uint32 {
	crc := uint32(0xB704CE)
	for _, b := range d {
		crc ^= uint32(b) << 16
		for i := 0; i < 8; i++ {
			crc <<= 1
			if crc&0x1000000 != 0 {
				crc ^= 0x1864CFB
			}
		}
	}
	return crc & 0xFFFFFF
}

// sigLine is the single-line camliSig text of a binary packet (base64 body, '=', base64 CRC-24).
func sigLine(p []byte) string {
	c := crc24(p)
	return base64.StdEncoding.EncodeToString(p) + "=" + base64.StdEncoding.EncodeToString([]byte{byte(c >> 16), byte(c >> 8), byte(c)})
}

// packetOfLine undoes sigLine (no CRC check).
func packetOfLine(line string) ([]byte, bool) {
	i := strings.LastIndex(line, "=")
	if i < 0 || len(line)-i != 5 {
		return nil, false
	}
	p, err := base64.StdEncoding.DecodeString(line[:i])
	return p, err == nil
}

// mkPacket writes a new-format packet header.
func mkPacket(tag byte, body []byte) []byte {
	out := []byte{0xC0 | tag}
	n := len(body)
	switch {
	case n < 192:
		out = append(out, byte(n))
	case n < 8384:
		n -= 192
		out = append(out, byte(192+n>>8), byte(n))
	default:
		out = append(out, 255, byte(n>>24), byte(n>>16), byte(n>>8), byte(n))
	}
	return append(out, body...)
}

// headerLen of a packet as x/crypto writes it (new format) or as gpg does (old format).
func headerLen(p []byte) int {
	if len(p) < 2 {
		return -1
	}
	if p[0]&0x40 != 0 {
		switch {
		case p[1] < 192:
			return 2
		case p[1] < 224:
			return 3
		case p[1] == 255:
			return 6
		}
		return -1
	}
	switch p[0] & 3 {
	case 0:
		return 2
	case 1:
		return 3
	case 2:
		return 5
	}
	return -1
}

func (g *gen) payloadNaming(k *knownBlob) string {
	rnd := g.r.R
	extra := []string{`"n":` + rnd.Pick(numChoices), `"s":` + g.strLit(), `"camliType":"claim"`, `"camliSig":"` + g.fakeSig() + `"`}
	return fmt.Sprintf(`{"camliVersion":1,"camliSigner":"%s",%s`, k.ref.String(), extra[rnd.Intn(len(extra))])
}

func (g *gen) signCfg(at time.Time) *packet.Config {
	return &packet.Config{Time: func() time.Time { return at }, Rand: constReader(1 + g.r.R.Intn(0x7f))}
}

// algorithmMatrix: named key x signing key.
func (g *gen) algorithmMatrix() {
	r := g.r
	g.newCase("algorithm-matrix named-key x signing-key", g.stdKeys())
	signers := g.signers()
	var named []*knownBlob
	for _, k := range g.kn {
		if k.pub != nil {
			named = append(named, k)
		}
	}
	rounds := 1
	if r.Thorough() {
		rounds = 4
	}
	for round := 0; round < rounds; round++ {
		for _, n := range named {
			t := g.payloadNaming(n)
			at := g.sigTime()
			for _, f := range signers {
				a, err := armoredDetachSignCfg(f.ent, t, g.signCfg(at))
				if err != nil {
					r.Fail("harness-matrix-sign", "cannot sign with "+f.name+": "+err.Error(), "", "", nil)
					continue
				}
				g.logSigned(f.ref, t)
				doc := t + sep + stripArmorRef(a) + "\"}\n"
				vi := g.vop(nil, "x"+hk.Hex([]byte(doc)), &origInfo{t: t, signer: n.ref})
				want := f == n
				key := fmt.Sprintf("matrix:named=%s,signed-by=%s", algoName(n.pub.PubKeyAlgo), algoName(f.pub.PubKeyAlgo))
				if f != n && n.pub.PubKeyAlgo == f.pub.PubKeyAlgo {
					key += "(another key)"
				}
				r.Hit(key + ":" + vi.class)
				if vi.accepted != want {
					sig := "forged-signature-by-key-of-another-algorithm-accepted"
					switch {
					case want:
						sig = "honest-signature-rejected-" + algoName(n.pub.PubKeyAlgo)
					case n.pub.PubKeyAlgo == f.pub.PubKeyAlgo:
						sig = "forged-signature-by-another-key-accepted"
					case !n.pub.PubKeyAlgo.CanSign():
						sig = "signature-accepted-under-a-key-that-cannot-sign"
					}
					r.Fail(sig, fmt.Sprintf("document names %s (%s), signature made by %s (%s) with the correct hash tag: accepted=%v",
						n.name, algoName(n.pub.PubKeyAlgo), f.name, algoName(f.pub.PubKeyAlgo), vi.accepted),
						fmt.Sprint(want), vi.String(), append(append([]string(nil), g.keyOps...), g.lastLine))
				}
			}
			r.Distinct("matrix:" + n.name + fmt.Sprint(round))
		}
	}
	// the real Sign with every signing key (RSA, ECDSA, DSA), then Verify
	for _, f := range signers {
		ud := unsignedDoc{text: g.payloadNaming(f) + "}" + g.r.R.Pick(trailChoices), signer: f.ref.String()}
		sd := g.signDoc(ud, g.sigTime())
		if sd == nil {
			r.Fail("sign-fails-"+algoName(f.pub.PubKeyAlgo), "Sign fails with key "+f.name, "signed document", "error", r.CaseOps()[len(r.CaseOps())-1:])
			continue
		}
		vi := g.vop(nil, "x"+hk.Hex(sd.doc), &origInfo{t: sd.t, signer: f.ref})
		if !vi.accepted {
			r.Fail("signed-doc-not-verifying", "a document signed by Sign with "+f.name+" does not verify", "ok", vi.String(),
				append(append([]string(nil), g.keyOps...), g.lastLine))
		}
		r.Hit("sign-then-verify:" + algoName(f.pub.PubKeyAlgo))
	}
}

// packetVariants: one honest signature per algorithm, edited.
func (g *gen) packetVariants() {
	r := g.r
	g.newCase("signature-packet-variants", g.stdKeys())
	x := func(t, line string, n *knownBlob) vinfo {
		return g.vop(nil, "x"+hk.Hex([]byte(t+sep+line+"\"}\n")), &origInfo{t: t, signer: n.ref})
	}
	reject := func(vi vinfo, what string) {
		r.Hit("packet:" + what + ":" + vi.class)
		if vi.accepted {
			r.Fail("malformed-signature-accepted-"+what, "a document with an altered / unsupported signature packet ("+what+") verifies", "rejected", vi.String(),
				append(append([]string(nil), g.keyOps...), g.lastLine))
		}
	}
	accept := func(vi vinfo, what string) {
		r.Hit("packet:" + what + ":" + vi.class)
		if !vi.accepted {
			r.Fail("honest-signature-rejected-"+what, "an honest signature ("+what+") is refused", "ok", vi.String(),
				append(append([]string(nil), g.keyOps...), g.lastLine))
		}
	}
	var bases []*knownBlob
	seen := map[packet.PublicKeyAlgorithm]bool{}
	for _, k := range g.signers() {
		if !seen[k.pub.PubKeyAlgo] {
			seen[k.pub.PubKeyAlgo] = true
			bases = append(bases, k)
		}
	}
	for _, k := range bases {
		an := algoName(k.pub.PubKeyAlgo)
		t := g.payloadNaming(k)
		at := g.sigTime()
		a, err := armoredDetachSignCfg(k.ent, t, g.signCfg(at))
		if err != nil {
			r.Fail("harness-packet-sign", err.Error(), "", "", nil)
			continue
		}
		g.logSigned(k.ref, t)
		line := stripArmorRef(a)
		p, ok := packetOfLine(line)
		h := headerLen(p)
		if !ok || h < 0 || len(p) < h+8 {
			r.Fail("harness-packet-parse", "cannot take the signature packet apart", "", line, nil)
			continue
		}
		accept(x(t, line, k), an+"-unchanged")
		accept(x(t, sigLine(p), k), an+"-re-encoded")
		edit := func(off int, v byte) []byte {
			q := append([]byte(nil), p...)
			q[off] = v
			return q
		}
		// body: version, sigtype, pubkey algorithm, hash algorithm, hashed-subpacket length …
		for _, v := range []byte{0, 2, 3, 5, 6} {
			reject(x(t, sigLine(edit(h, v)), k), fmt.Sprintf("%s-version-%d", an, v))
		}
		for _, v := range []byte{1, 2, 0x10, 0x13, 0x18, 0x20, 0x30, 0xff} {
			if v != p[h+1] {
				reject(x(t, sigLine(edit(h+1, v)), k), fmt.Sprintf("%s-sigtype-%#x", an, v))
			}
		}
		for _, v := range []byte{0, 1, 2, 3, 16, 17, 18, 19, 20, 22, 99} {
			if v != p[h+2] {
				reject(x(t, sigLine(edit(h+2, v)), k), fmt.Sprintf("%s-pubalgo-octet-%d", an, v))
			}
		}
		for _, v := range []byte{0, 1, 2, 3, 8, 9, 10, 11, 12, 99} {
			if v != p[h+3] {
				reject(x(t, sigLine(edit(h+3, v)), k), fmt.Sprintf("%s-hash-octet-%d", an, v))
			}
		}
		// hashed subpackets, hash tag, signature MPIs
		hashedLen := int(p[h+4])<<8 | int(p[h+5])
		if h+6+hashedLen+2 <= len(p) {
			for i := 0; i < hashedLen; i++ {
				reject(x(t, sigLine(edit(h+6+i, p[h+6+i]^1)), k), an+"-hashed-subpacket-bit")
			}
			unhashedLen := int(p[h+6+hashedLen])<<8 | int(p[h+7+hashedLen])
			tagOff := h + 8 + hashedLen + unhashedLen
			for i := 0; i < unhashedLen; i++ {
				// unhashed data is not covered by the signature: whatever happens, the general oracle applies
				vi := x(t, sigLine(edit(h+8+hashedLen+i, p[h+8+hashedLen+i]^1)), k)
				r.Hit("packet:" + an + "-unhashed-subpacket-bit:" + vi.class)
			}
			if tagOff+2 <= len(p) {
				reject(x(t, sigLine(edit(tagOff, p[tagOff]^0x80)), k), an+"-hash-tag")
				reject(x(t, sigLine(edit(tagOff+1, p[tagOff+1]^1)), k), an+"-hash-tag")
				for off := tagOff + 2; off < len(p); off += 1 + g.r.R.Intn(7) {
					// a flipped bit in an MPI's bit-count prefix may leave the number unchanged (the signature
					// then is still the named key's over BP): judged by the general oracle of vop only
					vi := x(t, sigLine(edit(off, p[off]^(1<<uint(g.r.R.Intn(8))))), k)
					r.Hit("packet:" + an + "-mpi-bit:" + vi.class)
				}
			}
		}
		for _, n := range []int{0, 1, h, h + 1, h + 4, h + 6, len(p) / 2, len(p) - 1} {
			reject(x(t, sigLine(p[:n]), k), an+"-truncated")
		}
		reject(x(t, sigLine(mkPacket(2, p[h:len(p)-3])), k), an+"-truncated-with-consistent-length")
		// things after / around the packet: judged by the general oracle only
		for i, q := range [][]byte{append(append([]byte(nil), p...), 0, 1, 2), append(append([]byte(nil), p...), p...)} {
			vi := x(t, sigLine(q), k)
			r.Hit("packet:" + an + "-" + []string{"trailing-bytes", "second-packet"}[i] + ":" + vi.class)
		}
		badCRC := line[:len(line)-1] + flipB64(line[len(line)-1])
		vi := x(t, badCRC, k)
		r.Hit("packet:" + an + "-bad-crc:" + vi.class)
		// hand-made version 3 signature and packets that are no signature
		v3 := []byte{3, 5, 0, 0x50, 0, 0, 0}
		v3 = append(v3, p[len(p)-20:len(p)-12]...)
		v3 = append(v3, p[h+2], p[h+3], 0xab, 0xcd, 0, 9, 1, 0xff)
		reject(x(t, sigLine(mkPacket(2, v3)), k), an+"-v3-signature")
		var pkb bytes.Buffer
		k.pub.Serialize(&pkb)
		reject(x(t, sigLine(pkb.Bytes()), k), an+"-public-key-packet-as-signature")
		reject(x(t, sigLine(mkPacket(11, []byte{'b', 0, 0, 0, 0, 0, 'x'})), k), an+"-literal-packet-as-signature")
		reject(x(t, sigLine(mkPacket(13, []byte("user id"))), k), an+"-userid-packet-as-signature")
		reject(x(t, sigLine(nil), k), an+"-empty-armor")
		reject(x(t, "", k), an+"-empty-camliSig")
		reject(x(t, "=", k), an+"-equals-only")
		// honest signatures the library can make in other modes
		for _, hf := range []crypto.Hash{crypto.SHA1, crypto.SHA224, crypto.SHA256, crypto.SHA384, crypto.SHA512} {
			cfg := g.signCfg(at)
			cfg.DefaultHash = hf
			a, err := armoredDetachSignCfg(k.ent, t, cfg)
			if err != nil {
				r.Hit("packet:" + an + "-cannot-sign-with-" + hf.String())
				continue
			}
			vi := x(t, stripArmorRef(a), k)
			if hf == crypto.SHA1 || hf == crypto.SHA256 {
				accept(vi, an+"-hash-"+hf.String())
			} else {
				reject(vi, an+"-hash-"+hf.String())
			}
		}
		var tb bytes.Buffer
		if err := openpgp.ArmoredDetachSignText(&tb, k.ent, strings.NewReader(t), g.signCfg(at)); err == nil {
			reject(x(t, stripArmorRef(tb.String()), k), an+"-text-mode-signature")
		}
		// a signature older than the key, one from the far future: neither jsonsign nor
		// PublicKey.VerifySignature look at times (the vendored library cannot make expiring signatures);
		// such a signature is still one made by the named key over BP
		for i, tm := range []time.Time{keyCreation.Add(-1000 * time.Hour), time.Unix(4000000000, 0)} {
			if a, err := armoredDetachSignCfg(k.ent, t, g.signCfg(tm)); err == nil {
				accept(x(t, stripArmorRef(a), k), an+"-signature-time-"+[]string{"older-than-key", "far-future"}[i])
			}
		}
		r.Distinct("packet-variants:" + an)
	}
}
