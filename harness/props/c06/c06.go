// Package c06: live index and corpus equal what a restart would load (pkg/index index.go, corpus.go,
// receive.go). The world builder, the interpreter and the schedules are those of c05; here every
// arrival is followed by the exported query surface of the live index+corpus (`obs`) and of a fresh
// index.New + KeepInMemory over the same sorted.KeyValue (`obsr`), which the oracle requires to agree.
package c06

import (
	"verifharness/hk"
	"verifharness/props/c05"
)

func NewExec() func([]string) string { return c05.NewExec() }

func Run(r *hk.Run) {
	r.Res.Rule = "distinct (blob set, final row dump) pairs; after every arrival of every schedule the live answers are compared with a reload"
	maxPerm, extra, nRandom := 5, 2, 8
	if r.Thorough() {
		maxPerm, extra, nRandom = 5, 4, 36
	}
	sets := c05.FixedSets(r.R)
	for i := 0; i < nRandom; i++ {
		sets = append(sets, c05.RandomSet(r.R, 3+r.R.Intn(5), i))
	}
	for i, s := range sets {
		c05.Explore(r, s, true, maxPerm, extra)
		if i < 3 {
			r.Sample(map[string]any{"set": s.Name, "delivered": s.Deliver, "blobs": len(s.Specs)})
		}
	}
	c05.MalformedObs(r)
	c05.ProbesFor(r, "F-C06")
}
