package c07

import (
	"fmt"
	"sort"
	"strconv"
	"strings"
	"time"

	"perkeep.org/pkg/schema"

	"verifharness/hk"
)

// ---- the generator's own record of what it delivered (input side of the oracle) ------------------------

type gclaim struct {
	id     int
	p      int // permanode whose claim rows it joins; -1 for a delete claim that targets a claim
	s      int
	kind   string // set|add|del|delete
	attr   string
	val    string
	date   int64
	tgt    string // delete claims: c<id> | p<p>
	tgtID  int    // delete claims targeting a claim
	isDel  bool
	rk     uint64
	arrive int
}

type gen struct {
	r      *hk.Run
	w      *world
	ex     func([]string) string
	claims []*gclaim
	byID   map[int]*gclaim
	nextID int
	ops    []string
	now    int64
	desc   bool // also ask search.Handler.Describe (bounded: a handler is never released)
}

func newGenWorld(r *hk.Run) *gen {
	w := newWorld()
	g := &gen{r: r, w: w, byID: map[int]*gclaim{}, nextID: 1, now: time.Now().UnixNano()}
	g.ex = func(ws []string) string { return hk.Guard(func() string { return w.exec(ws) }) }
	return g
}

func (g *gen) op(line string) string {
	out := g.ex(strings.Fields(line))
	g.ops = append(g.ops, line)
	if g.r != nil {
		g.r.Op(line, out)
	}
	return out
}

func (g *gen) pn(p int) { g.op(fmt.Sprintf("pn %d", p)) }

// sec: the generator's times are nanoseconds since the epoch (0 = the zero time)
const sec = int64(1000000000)

func goTime(t int64) time.Time { return time.Unix(t/sec, t%sec).UTC() }

// tArg spells a time the way the protocol wants it: z | <seconds>[.<fraction without trailing zeros>]
func tArg(t int64) string {
	if t == 0 {
		return "z"
	}
	s := strconv.FormatInt(t/sec, 10)
	if ns := t % sec; ns != 0 {
		s += "." + strings.TrimRight(fmt.Sprintf("%09d", ns), "0")
	}
	return s
}

// claim delivers an attribute claim dated at a whole second
func (g *gen) claim(p, s int, kind, attr, val string, dateSec int64) *gclaim {
	return g.claimNs(p, s, kind, attr, val, dateSec*sec)
}

// del delivers a delete claim dated at a whole second
func (g *gen) del(tgt string, s int, dateSec int64) *gclaim { return g.delNs(tgt, s, dateSec*sec) }

// claimNs delivers an attribute claim and returns it (nil if the implementation refused it)
func (g *gen) claimNs(p, s int, kind, attr, val string, date int64) *gclaim {
	var b *schema.Builder
	switch kind {
	case "set":
		b = schema.NewSetAttributeClaim(g.w.pn[p], attr, val)
	case "add":
		b = schema.NewAddAttributeClaim(g.w.pn[p], attr, val)
	default:
		b = schema.NewDelAttributeClaim(g.w.pn[p], attr, val)
	}
	b.SetClaimDate(goTime(date))
	tb, err := signBlob(g.w.ss[s], g.w.pubs, b)
	if err != nil {
		panic(err)
	}
	c := &gclaim{id: g.nextID, p: p, s: s, kind: kind, attr: attr, val: val, date: date, rk: refKey(tb.BlobRef())}
	g.nextID++
	out := g.op(fmt.Sprintf("claim %d %d %d %s %s %s %s %d", c.id, p, s, kind, hk.Hex([]byte(attr)), hk.Hex([]byte(val)), tArg(date), c.rk))
	if out != "ok" {
		return nil
	}
	g.noteArrival(c)
	c.arrive = len(g.claims)
	g.claims = append(g.claims, c)
	g.byID[c.id] = c
	return c
}

// noteArrival counts which branch of fixupLastClaim / appendAttrClaim the arriving claim row takes
func (g *gen) noteArrival(c *gclaim) {
	if g.r == nil || c.p < 0 {
		return
	}
	n, max := 0, int64(-1)
	signers := map[int]bool{}
	for _, o := range g.claims {
		if o.p == c.p {
			n++
			signers[o.s] = true
			if o.date > max {
				max = o.date
			}
		}
	}
	switch {
	case n == 0:
		g.r.Hit("mechanism:fixupLastClaim:first-claim-restoreInvariants")
	case c.date > max:
		g.r.Hit("mechanism:fixupLastClaim:append")
	case c.date == max:
		g.r.Hit("mechanism:fixupLastClaim:tie-resort")
	default:
		g.r.Hit("mechanism:fixupLastClaim:out-of-order-resort")
	}
	if !signers[c.s] {
		g.r.Hit(fmt.Sprintf("mechanism:appendAttrClaim:new-signer-after-%d", len(signers)))
	}
}

// delNs delivers a delete claim targeting tgt ("c<id>" or "p<p>")
func (g *gen) delNs(tgt string, s int, date int64) *gclaim {
	ref, pn, ok := g.w.target(tgt)
	if !ok {
		panic("bad target " + tgt)
	}
	b := schema.NewDeleteClaim(ref)
	b.SetClaimDate(goTime(date))
	tb, err := signBlob(g.w.ss[s], g.w.pubs, b)
	if err != nil {
		panic(err)
	}
	c := &gclaim{id: g.nextID, p: pn, s: s, kind: "delete", date: date, tgt: tgt, isDel: true, rk: refKey(tb.BlobRef()), tgtID: -1}
	if tgt[0] == 'c' {
		c.tgtID, _ = strconv.Atoi(tgt[1:])
	}
	g.nextID++
	out := g.op(fmt.Sprintf("delete %d %s %d %s %d", c.id, tgt, s, tArg(date), c.rk))
	if out != "ok" {
		return nil
	}
	g.noteArrival(c)
	c.arrive = len(g.claims)
	g.claims = append(g.claims, c)
	g.byID[c.id] = c
	return c
}

// ---- the spec, computed independently of implementation and model ----------------------------------------

// specDeleted: x is deleted iff some delete claim targets x that is not itself deleted.
func (g *gen) specDeleted(tgt string) bool {
	for _, d := range g.claims {
		if d.isDel && d.tgt == tgt && !g.specDeleted("c"+strconv.Itoa(d.id)) {
			return true
		}
	}
	return false
}

func specStep(vs []string, c *gclaim) []string {
	switch c.kind {
	case "set":
		return []string{c.val}
	case "add":
		return append(append([]string(nil), vs...), c.val)
	case "del":
		if c.val == "" {
			return nil
		}
		var out []string
		for _, v := range vs {
			if v != c.val {
				out = append(out, v)
			}
		}
		return out
	}
	return vs
}

func (g *gen) effT(t int64) int64 {
	if t == 0 {
		return g.now
	}
	return t
}

func signerOK(f string, s int) bool {
	switch f {
	case "a":
		return true
	case "0":
		return s == 0
	case "1":
		return s == 1
	}
	return false
}

// relevant returns the attribute claims of permanode p that count for (attr, T, f), in date order
// (ties in arrival order); withDeleted also keeps claims that are deleted.
func (g *gen) relevant(p int, attr string, t int64, f string, withDeleted bool) (cs []*gclaim, sawDeleted bool) {
	et := g.effT(t)
	for _, c := range g.claims {
		if c.isDel || c.p != p || c.attr != attr || c.date > et || !signerOK(f, c.s) {
			continue
		}
		if g.specDeleted("c" + strconv.Itoa(c.id)) {
			sawDeleted = true
			if !withDeleted {
				continue
			}
		}
		cs = append(cs, c)
	}
	sort.SliceStable(cs, func(i, j int) bool { return cs[i].date < cs[j].date })
	return cs, sawDeleted
}

const maxLinearisations = 3000

// linearise folds every date-respecting order of cs (equal dates are unordered) and returns the set
// of possible value lists; ok=false if there are too many orders to enumerate.
func linearise(cs []*gclaim) (res map[string][]string, ties bool, ok bool) {
	res = map[string][]string{}
	count := 0
	var rec func(i int, vs []string) bool
	rec = func(i int, vs []string) bool {
		if i == len(cs) {
			count++
			res[strings.Join(vs, "\x00")+fmt.Sprintf("\x01%d", len(vs))] = vs
			return count <= maxLinearisations
		}
		j := i
		for j < len(cs) && cs[j].date == cs[i].date {
			j++
		}
		if j-i == 1 {
			return rec(j, specStep(vs, cs[i]))
		}
		ties = true
		grp := append([]*gclaim(nil), cs[i:j]...)
		var perm func(k int, vs []string) bool
		perm = func(k int, vs []string) bool {
			if k == len(grp) {
				return rec(j, vs)
			}
			for m := k; m < len(grp); m++ {
				grp[k], grp[m] = grp[m], grp[k]
				if !perm(k+1, specStep(vs, grp[k])) {
					return false
				}
				grp[k], grp[m] = grp[m], grp[k]
			}
			return true
		}
		return perm(0, vs)
	}
	ok = rec(0, nil)
	return res, ties, ok
}

// ---- one query on one path, with its oracle ---------------------------------------------------------------

func showStrs(vs []string) string { return showVals(vs) }

func parseVals(s string) []string {
	f := strings.Fields(s)
	if len(f) == 0 {
		return nil
	}
	var out []string
	for _, h := range f[1:] {
		b, _ := hk.UnHex(h)
		out = append(out, string(b))
	}
	return out
}

func contains(vs []string, v string) bool {
	for _, x := range vs {
		if x == v {
			return true
		}
	}
	return false
}

// check compares an observed answer with the spec's set of acceptable answers; proj projects a spec
// value list to the answer format of the query.
func (g *gen) check(kind, mode string, p int, attr string, t int64, f string, observed string, proj func([]string) string, line string) {
	r := g.r
	if r == nil {
		return
	}
	cs, sawDel := g.relevant(p, attr, t, f, false)
	want, ties, ok := linearise(cs)
	if !ok {
		r.Hit("oracle:too-many-linearisations")
		return
	}
	if ties {
		r.Hit("oracle:ties-any-linearisation-accepted")
	}
	var wants []string
	for _, vs := range want {
		wants = append(wants, proj(vs))
	}
	sort.Strings(wants)
	for _, w := range wants {
		if w == observed {
			return
		}
	}
	sig := kind + "-differs-" + mode
	if mode != "idx" && sawDel && kind != "describe" {
		// does the answer equal the fold that ignores deletions of attribute claims?
		// (the corpus keeps equal dates in blobref order: fold exactly that arrangement)
		csAll, _ := g.relevant(p, attr, t, f, true)
		sort.SliceStable(csAll, func(i, j int) bool { return claimBefore(csAll[i], csAll[j]) })
		var vs []string
		for _, c := range csAll {
			vs = specStep(vs, c)
		}
		if proj(vs) == observed {
			sig = "corpus-attr-query-ignores-claim-deletion"
		}
	}
	r.Fail(sig, fmt.Sprintf("%s: permanode %d attr %q T=%s filter=%s", line, p, attr, tArg(t), f),
		strings.Join(wants, " | "), observed, append([]string(nil), g.ops...))
}

func first(vs []string) string {
	if len(vs) == 0 {
		return hk.Hex(nil)
	}
	return hk.Hex([]byte(vs[0]))
}

var corpusModes = []string{"inc", "load"}
var allModes = []string{"idx", "inc", "load"}

func (g *gen) qAttr(mode string, p int, attr string, t int64, f string) string {
	line := fmt.Sprintf("attr %s %d %s %s %s", mode, p, hk.Hex([]byte(attr)), tArg(t), f)
	out := g.op(line)
	g.check("attr", mode, p, attr, t, f, out, first, line)
	return out
}

// sameAnswer: since 83d40e9 the claim order is total (date, then blobref), so paths that fold the same
// claims must give the SAME answer, equal dates or not – not merely each an allowed one.
func (g *gen) sameAnswer(what, detail string, outs map[string]string, modes ...string) {
	if g.r == nil {
		return
	}
	for _, m := range modes[1:] {
		if outs[m] != outs[modes[0]] {
			g.r.Fail(what+"-paths-disagree", detail, modes[0]+": "+outs[modes[0]], m+": "+outs[m], append([]string(nil), g.ops...))
			return
		}
	}
}

func (g *gen) qAttrAll(p int, attr string, t int64, f string) {
	outs := map[string]string{}
	for _, m := range allModes {
		outs[m] = g.qAttr(m, p, attr, t, f)
	}
	g.sameAnswer("corpus-attr", fmt.Sprintf("attr p%d %q T=%s f=%s", p, attr, tArg(t), f), outs, "inc", "load")
}

func (g *gen) qValsAll(p int, attr string, t int64, f string) {
	outs := map[string]string{}
	for _, m := range corpusModes {
		outs[m] = g.qVals(m, p, attr, t, f)
	}
	g.sameAnswer("corpus-vals", fmt.Sprintf("vals p%d %q T=%s f=%s", p, attr, tArg(t), f), outs, "inc", "load")
}

func (g *gen) qHasAll(p int, attr, val string, t int64) {
	outs := map[string]string{}
	for _, m := range corpusModes {
		outs[m] = g.qHas(m, p, attr, val, t)
	}
	g.sameAnswer("corpus-has", fmt.Sprintf("has p%d %q %q T=%s", p, attr, val, tArg(t)), outs, "inc", "load")
}

func (g *gen) qDescAll(p int, attr string, t int64, s int) {
	outs := map[string]string{}
	for _, m := range allModes {
		outs[m] = g.qDesc(m, p, attr, t, s)
	}
	g.sameAnswer("describe", fmt.Sprintf("desc p%d %q T=%s owner=%d", p, attr, tArg(t), s), outs, "idx", "inc", "load")
}

func (g *gen) qVals(mode string, p int, attr string, t int64, f string) string {
	line := fmt.Sprintf("vals %s %d %s %s %s", mode, p, hk.Hex([]byte(attr)), tArg(t), f)
	out := g.op(line)
	g.check("vals", mode, p, attr, t, f, out, showStrs, line)
	return out
}

func (g *gen) qHas(mode string, p int, attr, val string, t int64) string {
	line := fmt.Sprintf("has %s %d %s %s %s", mode, p, hk.Hex([]byte(attr)), hk.Hex([]byte(val)), tArg(t))
	out := g.op(line)
	g.check("has", mode, p, attr, t, "a", out, func(vs []string) string { return b2s(contains(vs, val)) }, line)
	return out
}

// claimBefore: the documented order of a permanode's claims since 83d40e9: by date, equal dates by blobref
func claimBefore(a, b *gclaim) bool {
	if a.date != b.date {
		return a.date < b.date
	}
	return a.rk < b.rk
}

// normalise: Describe presents an attribute as a set of non-empty values (first occurrence kept)
func normalise(vs []string) []string {
	var out []string
	for _, v := range vs {
		if v != "" && !contains(out, v) {
			out = append(out, v)
		}
	}
	return out
}

// qDesc: search.Handler.Describe of the permanode by owner s; the zero time means all claims here
// (DescribeRequest.At), so the oracle uses the largest time for it.
func (g *gen) qDesc(mode string, p int, attr string, t int64, s int) string {
	line := fmt.Sprintf("desc %s %d %s %s %d", mode, p, hk.Hex([]byte(attr)), tArg(t), s)
	out := g.op(line)
	if g.r == nil {
		return out
	}
	g.r.Hit("describe:" + mode)
	ot := t
	if t == 0 {
		ot = MaxTime * sec
	}
	g.check("describe", mode, p, attr, ot, strconv.Itoa(s), out, func(vs []string) string { return showStrs(normalise(vs)) }, line)
	return out
}

// qVia observes which source the corpus uses; the cache may only be used when no claim row of the
// permanode is dated after the (effective) query time.
func (g *gen) qVia(mode string, p int, t int64, f string) {
	line := fmt.Sprintf("via %s %d %s %s", mode, p, tArg(t), f)
	out := g.op(line)
	if g.r == nil {
		return
	}
	g.r.Hit("via:" + out)
	if out == "cache" {
		et := g.effT(t)
		for _, c := range g.claims {
			if c.p == p && c.date > et {
				g.r.Fail("cache-used-although-newer-claims-"+mode, line, "fold", out, append([]string(nil), g.ops...))
				break
			}
		}
	}
}

func (g *gen) qDeleted(mode, tgt string) {
	line := fmt.Sprintf("deleted %s %s", mode, tgt)
	out := g.op(line)
	if g.r == nil {
		return
	}
	want := b2s(g.specDeleted(tgt))
	g.r.Hit("deleted:" + out)
	if out != want {
		g.r.Fail("isdeleted-differs-"+mode, line, want, out, append([]string(nil), g.ops...))
	}
}

func (g *gen) qClaims(mode string, p int, f string, attr string) {
	af := "*"
	if attr != "" {
		af = hk.Hex([]byte(attr))
	}
	line := fmt.Sprintf("claims %s %d %s %s", mode, p, f, af)
	out := g.op(line)
	if g.r == nil {
		return
	}
	// spec: the non-deleted claim rows of p of that signer (and attribute); any order for the index
	// (interface.go: "may be appended in any order"), date order for the corpus
	want := map[int]bool{}
	for _, c := range g.claims {
		if c.p == p && signerOK(f, c.s) && (attr == "" || c.attr == attr) {
			if g.specDeleted("c" + strconv.Itoa(c.id)) {
				g.r.Hit("mechanism:appendclaims-must-skip-deleted:" + mode)
				continue
			}
			want[c.id] = true
		}
	}
	got := map[int]bool{}
	var dates []*gclaim
	okSet := true
	if out != "-" {
		for _, w := range strings.Fields(out) {
			id, err := strconv.Atoi(w)
			if err != nil || got[id] || !want[id] {
				okSet = false
				break
			}
			got[id] = true
			dates = append(dates, g.byID[id])
		}
	}
	if !okSet || len(got) != len(want) {
		g.r.Fail("appendclaims-set-"+mode, line, fmt.Sprint(len(want))+" claims", out, append([]string(nil), g.ops...))
		return
	}
	if mode != "idx" && !sort.SliceIsSorted(dates, func(i, j int) bool { return claimBefore(dates[i], dates[j]) }) {
		g.r.Fail("appendclaims-order-"+mode, line, "date order, equal dates by blobref", out, append([]string(nil), g.ops...))
	}
}

func (g *gen) qOrder(mode string, p int) {
	line := fmt.Sprintf("order %s %d", mode, p)
	out := g.op(line)
	if g.r == nil {
		return
	}
	n := 0
	for _, c := range g.claims {
		if c.p == p {
			n++
		}
	}
	var dates []*gclaim
	seen := map[int]bool{}
	ok := true
	if out != "-" {
		for _, w := range strings.Fields(out) {
			id, err := strconv.Atoi(w)
			c := g.byID[id]
			if err != nil || c == nil || c.p != p || seen[id] {
				ok = false
				break
			}
			seen[id] = true
			dates = append(dates, c)
		}
	}
	if !ok || len(seen) != n {
		g.r.Fail("corpus-claims-set-"+mode, line, fmt.Sprint(n)+" claim rows", out, append([]string(nil), g.ops...))
		return
	}
	if !sort.SliceIsSorted(dates, func(i, j int) bool { return claimBefore(dates[i], dates[j]) }) {
		g.r.Fail("corpus-claims-unsorted-"+mode, line, "date order, equal dates by blobref", out, append([]string(nil), g.ops...))
	}
}

// qLocation: the real LocationHelper of the index without corpus (oracle only; outside the model's
// protocol because it parses floats): latitude/longitude attributes of p.
func (g *gen) qLocation(p int, t int64, f string) {
	if g.r == nil {
		return
	}
	at := time.Time{}
	if t != 0 {
		at = goTime(t)
	}
	got := hk.Guard(func() string { return g.w.location(p, at, f) })
	g.r.ImplOnly("location-idx")
	la, _ := g.relevant(p, "latitude", t, f, false)
	lo, _ := g.relevant(p, "longitude", t, f, false)
	wla, t1, ok1 := linearise(la)
	wlo, t2, ok2 := linearise(lo)
	if !ok1 || !ok2 || t1 || t2 {
		return
	}
	want := "none"
	for _, a := range wla {
		for _, o := range wlo {
			if len(a) > 0 && len(o) > 0 && a[0] != "" && o[0] != "" {
				la, err1 := strconv.ParseFloat(a[0], 64)
				lo, err2 := strconv.ParseFloat(o[0], 64)
				if err1 != nil || err2 != nil {
					want = "err" // location.go reports a value that is not a number
				} else {
					want = fmt.Sprintf("%g %g", la, lo)
				}
			}
		}
	}
	if got != want {
		g.r.Fail("location-idx-differs", fmt.Sprintf("PermanodeLocation(p%d, T=%s, f=%s) on the index without corpus", p, tArg(t), f),
			want, got, append([]string(nil), g.ops...))
	}
}
