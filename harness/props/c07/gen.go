package c07

import "verifharness/hk"

func Run(r *hk.Run) { r.Note("wip") }
