// Package c07: permanode attribute and deletion semantics (pkg/index corpus.go, util.go, index.go)
// against the Lean model Pk.Attr and against the property's own oracle (the documented claim fold).
package c07

import (
	"context"
	"fmt"
	"os"
	"path/filepath"
	"sort"
	"strconv"
	"strings"
	"sync"
	"time"
	"unicode/utf8"

	"perkeep.org/pkg/blob"
	"perkeep.org/pkg/index"
	"perkeep.org/pkg/jsonsign"
	"perkeep.org/pkg/schema"
	"perkeep.org/pkg/search"
	"perkeep.org/pkg/test"
	"perkeep.org/pkg/types/camtypes"

	"go4.org/types"

	"verifharness/hk"
)

var ctxbg = context.Background()

// ---- signers: the two test key rings of pkg/jsonsign/testdata --------------------------------------

type signer struct {
	keyID string
	pub   *test.Blob
	ref   blob.Ref
	ef    jsonsign.EntityFetcher
}

var (
	signersOnce sync.Once
	signers     [2]*signer // ordered by keyID (the order of the index's claim rows)
	signersErr  error
)

// UnknownKeyID is a well-formed GPG key id that signed nothing.
const UnknownKeyID = "FFFFFFFFFFFFFFFF"

func loadSigners() ([2]*signer, error) {
	signersOnce.Do(func() {
		root := sourceRoot()
		var ss []*signer
		for _, ring := range []string{"test-secring.gpg", "test-secring2.gpg"} {
			file := filepath.Join(root, "pkg", "jsonsign", "testdata", ring)
			keyID, err := jsonsign.KeyIdFromRing(file)
			if err != nil {
				signersErr = fmt.Errorf("%s: %v", ring, err)
				return
			}
			ent, err := jsonsign.EntityFromSecring(keyID, file)
			if err != nil {
				signersErr = fmt.Errorf("%s: %v", ring, err)
				return
			}
			arm, err := jsonsign.ArmoredPublicKey(ent)
			if err != nil {
				signersErr = err
				return
			}
			pub := &test.Blob{Contents: arm}
			ss = append(ss, &signer{keyID: keyID, pub: pub, ref: pub.BlobRef(),
				ef: &jsonsign.CachingEntityFetcher{Fetcher: &jsonsign.FileEntityFetcher{File: file}}})
		}
		sort.Slice(ss, func(i, j int) bool { return ss[i].keyID < ss[j].keyID })
		if ss[0].keyID == ss[1].keyID {
			signersErr = fmt.Errorf("the two test key rings hold the same key")
			return
		}
		signers = [2]*signer{ss[0], ss[1]}
	})
	return signers, signersErr
}

// sourceRoot is the perkeep tree: the harness runs with cwd=/repo.
func sourceRoot() string {
	if d, err := os.Getwd(); err == nil {
		for ; d != "/" && d != "."; d = filepath.Dir(d) {
			if _, err := os.Stat(filepath.Join(d, "pkg", "jsonsign", "testdata", "test-secring.gpg")); err == nil {
				return d
			}
		}
	}
	return "/repo"
}

// signed blobs are memoised by their unsigned JSON and signer (signing is deterministic; the memo
// only saves time)
var (
	signMu   sync.Mutex
	signMemo = map[string]*test.Blob{}
)

var sigTime = time.Unix(1322443956, 0)

func signBlob(s *signer, pubs *test.Fetcher, b *schema.Builder) (*test.Blob, error) {
	b.SetSigner(s.ref)
	unsigned, err := b.JSON()
	if err != nil {
		return nil, err
	}
	key := s.keyID + "\x00" + unsigned
	signMu.Lock()
	tb := signMemo[key]
	signMu.Unlock()
	if tb != nil {
		return tb, nil
	}
	sr := &jsonsign.SignRequest{UnsignedJSON: unsigned, Fetcher: pubs, EntityFetcher: s.ef, SignatureTime: sigTime}
	signed, err := sr.Sign(ctxbg)
	if err != nil {
		return nil, err
	}
	tb = &test.Blob{Contents: signed}
	signMu.Lock()
	if len(signMemo) > 200000 {
		signMemo = map[string]*test.Blob{}
	}
	signMemo[key] = tb
	signMu.Unlock()
	return tb, nil
}

// refKey is the order key of a blobref among refs of one hash: its first 12 hex digits as a number.
func refKey(r blob.Ref) uint64 {
	d := r.Digest()
	if len(d) > 12 {
		d = d[:12]
	}
	v, _ := strconv.ParseUint(d, 16, 64)
	return v
}

// ---- the world one case runs in -------------------------------------------------------------------------

// MaxTime bounds dates and query times of the protocol (seconds since the epoch; its nanoseconds
// fit an int64).  A time is written <seconds> or <seconds>.<1-9 digits, the last one not 0>.
const MaxTime = 9000000000

type claimInfo struct {
	ref    blob.Ref
	isDel  bool
	pn     int // permanode the claim row belongs to; -1: a delete claim targeting a claim
	signer int
}

type world struct {
	err      error
	ss       [2]*signer
	blobs    *test.Fetcher
	pubs     *test.Fetcher
	ixA      *index.Index // rows only, never a corpus
	ixB      *index.Index // corpus kept in memory from the start: built incrementally
	cB       *index.Corpus
	ixC      *index.Index // fresh index.New over ixB's storage + KeepInMemory: corpus loaded at start
	cC       *index.Corpus
	pn       [2]blob.Ref
	claims   map[int]*claimInfo
	idOfRef  map[blob.Ref]int
	nextLoad bool
	maxID    int
	content  map[string]bool // what was delivered, by content: the same claim twice is the same blob
	handlers map[handlerKey]*search.Handler
}

type handlerKey struct {
	ix    *index.Index
	owner int
}

// handler returns the search handler over the index of the given path, owned by signer s.  (A
// search.Handler starts two goroutines and registers with the blob hub for good: the generator asks
// for describes in a bounded number of cases.)
func (w *world) handler(mode string, s int) (*search.Handler, bool) {
	var ix *index.Index
	switch mode {
	case "idx":
		ix = w.ixA
	case "inc":
		ix = w.ixB
	case "load":
		if _, err := w.loaded(); err != nil {
			return nil, false
		}
		ix = w.ixC
	default:
		return nil, false
	}
	k := handlerKey{ix, s}
	if h := w.handlers[k]; h != nil {
		return h, true
	}
	if w.handlers == nil {
		w.handlers = map[handlerKey]*search.Handler{}
	}
	h := search.NewHandler(ix, index.NewOwner(w.ss[s].keyID, w.ss[s].ref))
	w.handlers[k] = h
	return h, true
}

func newWorld() *world {
	w := &world{claims: map[int]*claimInfo{}, idOfRef: map[blob.Ref]int{}, nextLoad: true, content: map[string]bool{}}
	w.ss, w.err = loadSigners()
	if w.err != nil {
		return w
	}
	index.SetVerboseCorpusLogging(false)
	w.blobs, w.pubs = new(test.Fetcher), new(test.Fetcher)
	for _, s := range w.ss {
		w.pubs.AddBlob(s.pub)
		w.blobs.AddBlob(s.pub)
	}
	mk := func() *index.Index {
		ix := index.NewMemoryIndex()
		ix.KeyFetcher = w.pubs
		ix.InitBlobSource(w.blobs)
		return ix
	}
	w.ixA, w.ixB = mk(), mk()
	w.cB, w.err = w.ixB.KeepInMemory()
	return w
}

func (w *world) deliver(tb *test.Blob) error {
	w.nextLoad = true
	if _, err := w.blobs.ReceiveBlob(ctxbg, tb.BlobRef(), tb.Reader()); err != nil {
		return err
	}
	if _, err := w.ixA.ReceiveBlob(ctxbg, tb.BlobRef(), tb.Reader()); err != nil {
		return err
	}
	_, err := w.ixB.ReceiveBlob(ctxbg, tb.BlobRef(), tb.Reader())
	return err
}

// loaded returns the corpus loaded at start from the rows written so far.
func (w *world) loaded() (*index.Corpus, error) {
	if !w.nextLoad && w.cC != nil {
		return w.cC, nil
	}
	ix, err := index.New(w.ixB.Storage())
	if err != nil {
		return nil, err
	}
	ix.KeyFetcher = w.pubs
	ix.InitBlobSource(w.blobs)
	c, err := ix.KeepInMemory()
	if err != nil {
		return nil, err
	}
	w.ixC, w.cC, w.nextLoad = ix, c, false
	return c, nil
}

func (w *world) corpus(mode string) (*index.Corpus, bool) {
	switch mode {
	case "inc":
		return w.cB, true
	case "load":
		c, err := w.loaded()
		return c, err == nil
	}
	return nil, false
}

func parseNat(s string, max uint64) (uint64, bool) {
	if s == "" || len(s) > 16 || (len(s) > 1 && s[0] == '0') {
		return 0, false
	}
	for _, c := range s {
		if c < '0' || c > '9' {
			return 0, false
		}
	}
	v, err := strconv.ParseUint(s, 10, 64)
	return v, err == nil && v <= max
}

// parseTime reads <seconds>[.<fraction>] in its canonical spelling.
func parseTime(s string) (time.Time, bool) {
	secs, frac, hasFrac := strings.Cut(s, ".")
	v, ok := parseNat(secs, MaxTime)
	if !ok || v == 0 {
		return time.Time{}, false
	}
	var ns int64
	if hasFrac {
		if len(frac) == 0 || len(frac) > 9 || frac[len(frac)-1] == '0' {
			return time.Time{}, false
		}
		for _, c := range frac {
			if c < '0' || c > '9' {
				return time.Time{}, false
			}
		}
		n, _ := strconv.ParseInt(frac+strings.Repeat("0", 9-len(frac)), 10, 64)
		ns = n
	}
	return time.Unix(int64(v), ns).UTC(), true
}

func parseT(s string) (time.Time, bool) {
	if s == "z" {
		return time.Time{}, true
	}
	return parseTime(s)
}

func (w *world) filter(s string) (keyID string, refs index.SignerRefSet, ok bool) {
	switch s {
	case "a":
		return "", nil, true
	case "0", "1":
		sg := w.ss[s[0]-'0']
		return sg.keyID, index.SignerRefSet{sg.ref.String()}, true
	case "u":
		return UnknownKeyID, nil, true
	}
	return "", nil, false
}

func textArg(s string) (string, bool) {
	b, ok := hk.UnHex(s)
	if !ok || !utf8.Valid(b) {
		return "", false
	}
	return string(b), true
}

func b2s(b bool) string {
	if b {
		return "true"
	}
	return "false"
}

func (w *world) ids(cls []camtypes.Claim) string {
	if len(cls) == 0 {
		return "-"
	}
	var sb strings.Builder
	for i, c := range cls {
		if i > 0 {
			sb.WriteByte(' ')
		}
		if id, ok := w.idOfRef[c.BlobRef]; ok {
			sb.WriteString(strconv.Itoa(id))
		} else {
			sb.WriteString("?")
		}
	}
	return sb.String()
}

// NewExec returns a fresh interpreter of the c07 line protocol on the real code.
func NewExec() func(w []string) string {
	wd := newWorld()
	return func(ws []string) string {
		return hk.Guard(func() string { return wd.exec(ws) })
	}
}

func (w *world) exec(a []string) string {
	if len(a) == 0 {
		return "bad-op"
	}
	if w.err != nil {
		fmt.Fprintln(os.Stderr, "c07: setup:", w.err)
		return "setup-error"
	}
	switch a[0] {
	case "pn": // pn <p>
		if len(a) != 2 || (a[1] != "0" && a[1] != "1") {
			return "bad-op"
		}
		p := int(a[1][0] - '0')
		if w.pn[p].Valid() {
			return "bad-op"
		}
		tb, err := signBlob(w.ss[0], w.pubs, schema.NewPlannedPermanode("c07-permanode-"+a[1]))
		if err != nil {
			return "err"
		}
		if err := w.deliver(tb); err != nil {
			return "err"
		}
		w.pn[p] = tb.BlobRef()
		return "ok"

	case "claim": // claim <id> <p> <s> <kind> <attr> <val> <date> <rk>
		if len(a) != 9 {
			return "bad-op"
		}
		id, ok1 := parseNat(a[1], 1<<30)
		attr, ok2 := textArg(a[5])
		val, ok3 := textArg(a[6])
		date, ok4 := parseTime(a[7])
		rk, ok5 := parseNat(a[8], 1<<48)
		if !ok1 || !ok2 || !ok3 || !ok4 || !ok5 || (a[2] != "0" && a[2] != "1") || (a[3] != "0" && a[3] != "1") {
			return "bad-op"
		}
		p, s := int(a[2][0]-'0'), int(a[3][0]-'0')
		if int(id) <= w.maxID || !w.pn[p].Valid() || attr == "" {
			return "bad-op" // ids grow with arrival: a target always precedes its deleters
		}
		ckey := fmt.Sprintf("claim %d %d %s %q %q %s", p, s, a[4], attr, val, a[7])
		if a[4] != "set" && a[4] != "add" && a[4] != "del" || w.content[ckey] {
			return "bad-op"
		}
		var b *schema.Builder
		switch a[4] {
		case "set":
			b = schema.NewSetAttributeClaim(w.pn[p], attr, val)
		case "add":
			b = schema.NewAddAttributeClaim(w.pn[p], attr, val)
		case "del":
			b = schema.NewDelAttributeClaim(w.pn[p], attr, val)
		default:
			return "bad-op"
		}
		b.SetClaimDate(date)
		return w.addClaim(int(id), &claimInfo{pn: p, signer: s}, b, rk, ckey)

	case "delete": // delete <id> <c<id>|p<p>> <s> <date> <rk>
		if len(a) != 6 || len(a[2]) < 2 {
			return "bad-op"
		}
		id, ok1 := parseNat(a[1], 1<<30)
		date, ok4 := parseTime(a[4])
		rk, ok5 := parseNat(a[5], 1<<48)
		if !ok1 || !ok4 || !ok5 || (a[3] != "0" && a[3] != "1") {
			return "bad-op"
		}
		if int(id) <= w.maxID {
			return "bad-op"
		}
		tgt, pn, ok := w.target(a[2])
		if !ok {
			return "bad-op"
		}
		ckey := fmt.Sprintf("delete %s %s %s", a[2], a[3], a[4])
		if w.content[ckey] {
			return "bad-op"
		}
		b := schema.NewDeleteClaim(tgt)
		b.SetClaimDate(date)
		return w.addClaim(int(id), &claimInfo{pn: pn, signer: int(a[3][0] - '0'), isDel: true}, b, rk, ckey)

	case "attr": // attr <mode> <p> <attr> <T> <f>
		if len(a) != 6 {
			return "bad-op"
		}
		pn, ok1 := w.pnArg(a[2])
		attr, ok2 := textArg(a[3])
		at, ok3 := parseT(a[4])
		keyID, refs, ok4 := w.filter(a[5])
		if !ok1 || !ok2 || !ok3 || !ok4 {
			return "bad-op"
		}
		if a[1] == "idx" {
			// the composition of pkg/index/location.go permanodeLocation + permAttr.get:
			// Index.AppendClaims, sort.Sort(camtypes.ClaimsByDate), claimsIntfAttrValue
			// (the order of these calls in the source is a regenerated fact: Gen.C07)
			cls, err := w.ixA.AppendClaims(ctxbg, nil, pn, keyID, "")
			if err != nil {
				return "err"
			}
			sort.Sort(camtypes.ClaimsByDate(cls))
			return hk.Hex([]byte(index.VerifClaimsAttrValue(cls, attr, at, refs)))
		}
		c, ok := w.corpus(a[1])
		if !ok {
			return "bad-op"
		}
		return hk.Hex([]byte(c.PermanodeAttrValue(pn, attr, at, keyID)))

	case "vals": // vals <mode> <p> <attr> <T> <f>
		if len(a) != 6 {
			return "bad-op"
		}
		pn, ok1 := w.pnArg(a[2])
		attr, ok2 := textArg(a[3])
		at, ok3 := parseT(a[4])
		keyID, _, ok4 := w.filter(a[5])
		c, ok5 := w.corpus(a[1])
		if !ok1 || !ok2 || !ok3 || !ok4 || !ok5 {
			return "bad-op"
		}
		return showVals(c.AppendPermanodeAttrValues(nil, pn, attr, at, keyID))

	case "has": // has <mode> <p> <attr> <val> <T>
		if len(a) != 6 {
			return "bad-op"
		}
		pn, ok1 := w.pnArg(a[2])
		attr, ok2 := textArg(a[3])
		val, ok3 := textArg(a[4])
		at, ok4 := parseT(a[5])
		c, ok5 := w.corpus(a[1])
		if !ok1 || !ok2 || !ok3 || !ok4 || !ok5 {
			return "bad-op"
		}
		return b2s(c.PermanodeHasAttrValue(pn, at, attr, val))

	case "via": // via <mode> <p> <T> <f>
		if len(a) != 5 {
			return "bad-op"
		}
		pn, ok1 := w.pnArg(a[2])
		at, ok3 := parseT(a[3])
		keyID, _, ok4 := w.filter(a[4])
		c, ok5 := w.corpus(a[1])
		if !ok1 || !ok3 || !ok4 || !ok5 {
			return "bad-op"
		}
		return c.VerifValuesAtSigner(pn, at, keyID)

	case "deleted": // deleted <mode> <c<id>|p<p>>
		if len(a) != 3 {
			return "bad-op"
		}
		tgt, _, ok := w.target(a[2])
		if !ok {
			return "bad-op"
		}
		if a[1] == "idx" {
			return b2s(w.ixA.IsDeleted(tgt))
		}
		c, ok := w.corpus(a[1])
		if !ok {
			return "bad-op"
		}
		return b2s(c.IsDeleted(tgt))

	case "claims": // claims <mode> <p> <f> <attr|*>
		if len(a) != 5 {
			return "bad-op"
		}
		pn, ok1 := w.pnArg(a[2])
		keyID, _, ok2 := w.filter(a[3])
		attr, ok3 := "", true
		if a[4] != "*" {
			attr, ok3 = textArg(a[4])
			if attr == "" {
				ok3 = false // the empty filter means "all": spelled *
			}
		}
		if !ok1 || !ok2 || !ok3 {
			return "bad-op"
		}
		var cls []camtypes.Claim
		var err error
		if a[1] == "idx" {
			cls, err = w.ixA.AppendClaims(ctxbg, nil, pn, keyID, attr)
		} else {
			c, ok := w.corpus(a[1])
			if !ok {
				return "bad-op"
			}
			cls, err = c.AppendClaims(ctxbg, nil, pn, keyID, attr)
		}
		if err != nil {
			return "err"
		}
		return w.ids(cls)

	case "desc": // desc <mode> <p> <attr> <T> <s>: search.Handler.Describe of the permanode
		if len(a) != 6 || (a[5] != "0" && a[5] != "1") {
			return "bad-op"
		}
		pn, ok1 := w.pnArg(a[2])
		attr, ok2 := textArg(a[3])
		at, ok3 := parseT(a[4])
		if !ok1 || !ok2 || !ok3 {
			return "bad-op"
		}
		h, ok := w.handler(a[1], int(a[5][0]-'0'))
		if !ok {
			return "bad-op"
		}
		dr := &search.DescribeRequest{BlobRef: pn, Depth: 1}
		if !at.IsZero() {
			dr.At = types.Time3339(at)
		}
		res, err := h.Describe(ctxbg, dr)
		if err != nil || res == nil {
			return "err"
		}
		db := res.Meta.Get(pn)
		if db == nil || db.Permanode == nil {
			return "nometa"
		}
		return showVals(db.Permanode.Attr[attr])

	case "order": // order <mode> <p>: pm.Claims as they stand
		if len(a) != 3 {
			return "bad-op"
		}
		pn, ok1 := w.pnArg(a[2])
		c, ok2 := w.corpus(a[1])
		if !ok1 || !ok2 {
			return "bad-op"
		}
		var cls []camtypes.Claim
		c.ForeachClaim(pn, time.Time{}, func(cl *camtypes.Claim) bool {
			cls = append(cls, *cl)
			return true
		})
		return w.ids(cls)
	}
	return "bad-op"
}

func showVals(vs []string) string {
	var sb strings.Builder
	sb.WriteString(strconv.Itoa(len(vs)))
	for _, v := range vs {
		sb.WriteByte(' ')
		sb.WriteString(hk.Hex([]byte(v)))
	}
	return sb.String()
}

func (w *world) pnArg(s string) (blob.Ref, bool) {
	if s != "0" && s != "1" {
		return blob.Ref{}, false
	}
	r := w.pn[s[0]-'0']
	return r, r.Valid()
}

// target resolves c<id> / p<p>; pn is the permanode whose claim rows a delete of it joins (-1: none)
func (w *world) target(s string) (ref blob.Ref, pn int, ok bool) {
	switch s[0] {
	case 'p':
		r, ok := w.pnArg(s[1:])
		return r, int(s[1] - '0'), ok
	case 'c':
		id, ok := parseNat(s[1:], 1<<30)
		if !ok {
			return blob.Ref{}, 0, false
		}
		ci, ok := w.claims[int(id)]
		if !ok {
			return blob.Ref{}, 0, false
		}
		return ci.ref, -1, true
	}
	return blob.Ref{}, 0, false
}

func (w *world) addClaim(id int, ci *claimInfo, b *schema.Builder, rk uint64, ckey string) string {
	tb, err := signBlob(w.ss[ci.signer], w.pubs, b)
	if err != nil {
		return "err"
	}
	ci.ref = tb.BlobRef()
	if refKey(ci.ref) != rk {
		if os.Getenv("C07_DEBUG") != "" {
			fmt.Fprintf(os.Stderr, "c07: claim %d: rk is %d\n", id, refKey(ci.ref))
		}
		return "rk-differs" // the op line does not describe the blob that signing produces
	}
	if _, dup := w.idOfRef[ci.ref]; dup {
		return "bad-op"
	}
	if err := w.deliver(tb); err != nil {
		return "err"
	}
	w.claims[id] = ci
	w.idOfRef[ci.ref] = id
	w.maxID = id
	w.content[ckey] = true
	return "ok"
}

// location asks the real LocationHelper of the index WITHOUT corpus (pkg/index/location.go: the one
// caller that folds the rows of Index.AppendClaims) for the permanode's latitude/longitude attributes.
func (w *world) location(p int, at time.Time, f string) string {
	var owner *index.Owner
	if f == "0" || f == "1" {
		owner = index.NewOwner(w.ss[f[0]-'0'].keyID, w.ss[f[0]-'0'].ref)
	} else if f == "u" {
		owner = index.NewOwner(UnknownKeyID, blob.RefFromString("no such key"))
	}
	lh := index.NewLocationHelper(w.ixA)
	loc, err := lh.PermanodeLocation(ctxbg, w.pn[p], at, owner)
	if err != nil {
		if os.IsNotExist(err) {
			return "none"
		}
		return "err"
	}
	return fmt.Sprintf("%g %g", loc.Latitude, loc.Longitude)
}
