package c07

import (
	"fmt"
	"sort"
	"strconv"
	"strings"
	"time"

	"verifharness/hk"
)

// times of the protocol: the generator keeps "past" dates below pastMax and "future" dates above
// futureMin; the model's clock (Drv/C07.lean nowC = 3·10⁹) and the real clock both lie in between.
const (
	pastMax   = 1700000000
	futureMin = 4100000000
)

// fractions of a second whose RFC 3339 spellings have different lengths: as TEXT (the index keys)
// "…:20Z" > "…:20.5Z" > "…:20.50001Z", the opposite of their order in time
var fracPool = []int64{0, 500000000, 500010000, 250000000, 123456789, 100000000, 999999999, 1, 50000000, 500000001}

var attrPool = []string{"tag", "title", "camliContent", "a b|c%+é/=&?", "latitude", "longitude"}
var valPool = []string{"x", "y", "", "x", "é ü|%2B+&=/?#", "sha224-a794846212ff67acdd00c6b90eee492baf674d41da8a621d2e8042dd",
	"1", "2.5", "-3", "a\tb\"c\\d", "%41", "z|z"}

func caseKey(g *gen) string {
	// the claim set up to renaming of ids: arrival order with relative dates
	var ds []int64
	for _, c := range g.claims {
		ds = append(ds, c.date)
	}
	sort.Slice(ds, func(i, j int) bool { return ds[i] < ds[j] })
	rank := map[int64]int{}
	for _, d := range ds {
		if _, ok := rank[d]; !ok {
			rank[d] = len(rank)
		}
	}
	var sb strings.Builder
	for _, c := range g.claims {
		fmt.Fprintf(&sb, "%d/%d/%s/%q/%q/%d/%s;", c.p, c.s, c.kind, c.attr, c.val, rank[c.date], c.tgt)
	}
	return sb.String()
}

// queryAll asks every path for (p, attr) at the given times and filters
func (g *gen) queryAll(p int, attr string, times []int64, filters []string, vals []string) {
	for _, t := range times {
		for _, f := range filters {
			g.qAttrAll(p, attr, t, f)
			g.qValsAll(p, attr, t, f)
		}
		for _, v := range vals {
			g.qHasAll(p, attr, v, t)
		}
		for _, m := range corpusModes {
			g.qVia(m, p, t, "a")
		}
	}
}

// Run generates the C07 cases.
func Run(r *hk.Run) {
	if _, err := loadSigners(); err != nil {
		r.Note("setup failed: " + err.Error())
		r.Fail("setup", err.Error(), "", "", nil)
		return
	}
	if now := time.Now().Unix(); now <= pastMax || now >= futureMin {
		r.Fail("setup", "the wall clock is outside the window the protocol's dates assume", "", fmt.Sprint(now), nil)
		return
	}
	r.Res.Rule = "a case = one history of claims delivered to a fresh index pair (rows only / corpus kept in memory), queried on three paths " +
		"(idx = Index.AppendClaims+sort+claimsIntfAttrValue without corpus, inc = live corpus, load = fresh index.New+KeepInMemory over the same rows); " +
		"in a bounded share of the cases also search.Handler.Describe over each of the three indexes. " +
		"(a) exhaustive: every sequence of ≤ L claims over {set x,set y,add x,add y,del x,del \"\"} on one attribute × every arrival order (L=3 quick, 4 thorough); " +
		"(a2) every sequence of ≤ 3 claims by two signers over {set x,add y,del x,del \"\"} on one attribute × every arrival order (thorough: + 4000 sampled sequences of 4); " +
		"(a3) 2–6 claims inside one second with fractions of different spelled lengths (index-row text order ≠ time order) and equal dates; " +
		"(b) random histories on 1–2 permanodes, 2 signers, 6 attributes, 12 values (empty, repeated, URL-special, UTF-8), dates out of arrival order, equal dates (any number of rows), sub-second dates, future dates, delete/undelete chains; " +
		"(c) delete chains of depth ≤ 7 with branches; (d) malformed op lines. distinct = distinct histories up to renaming of ids and dates (order-isomorphic); non-trivial = ≥ 2 claims"

	exhaustive(r)
	twoSigners(r)
	sameSecond(r)
	random(r)
	chains(r)
	malformed(r)
	probes(r)
}

// (a) every short claim sequence on one attribute, every arrival order
func exhaustive(r *hk.Run) {
	type mv struct{ kind, val string }
	alpha := []mv{{"set", "x"}, {"set", "y"}, {"add", "x"}, {"add", "y"}, {"del", "x"}, {"del", ""}}
	L := 3
	if r.Thorough() {
		L = 4
	}
	n := 0
	var rec func(seq []mv)
	perms := func(k int) [][]int {
		var out [][]int
		idx := make([]int, k)
		for i := range idx {
			idx[i] = i
		}
		var pr func(i int)
		pr = func(i int) {
			if i == k {
				out = append(out, append([]int(nil), idx...))
				return
			}
			for j := i; j < k; j++ {
				idx[i], idx[j] = idx[j], idx[i]
				pr(i + 1)
				idx[i], idx[j] = idx[j], idx[i]
			}
		}
		pr(0)
		return out
	}
	rec = func(seq []mv) {
		if len(seq) > 0 {
			for _, order := range perms(len(seq)) {
				// order[i] = the date rank of the i-th arriving claim
				r.Case(fmt.Sprintf("exhaustive n=%d", len(seq)))
				g := newGenWorld(r)
				g.desc = len(seq) <= 2
				g.pn(0)
				for _, k := range order {
					g.claim(0, 0, seq[k].kind, "tag", seq[k].val, int64(100*(k+1)))
				}
				times := []int64{0, 50 * sec}
				for k := range seq {
					times = append(times, int64(100*(k+1)+50)*sec)
				}
				g.queryAll(0, "tag", times, []string{"a", "0"}, []string{"x", "y"})
				g.qOrder("inc", 0)
				g.qOrder("load", 0)
				if g.desc {
					for _, t := range times {
						g.qDescAll(0, "tag", t, 0)
					}
				}
				if len(seq) >= 2 {
					r.Distinct(caseKey(g))
				}
				n++
			}
		}
		if len(seq) == L {
			return
		}
		for _, m := range alpha {
			rec(append(append([]mv(nil), seq...), m))
		}
	}
	rec(nil)
	r.Res.Histogram["exhaustive-cases"] = n
}

// (a2) every sequence of ≤ 3 claims by TWO signers on one attribute × every arrival order: the
// all-signers view pm.attr against the per-signer views, with claims arriving out of date order
func twoSigners(r *hk.Run) {
	type mv struct {
		kind, val string
		s         int
	}
	var alpha []mv
	for s := 0; s < 2; s++ {
		for _, m := range []mv{{"set", "x", 0}, {"add", "y", 0}, {"del", "x", 0}, {"del", "", 0}} {
			m.s = s
			alpha = append(alpha, m)
		}
	}
	n := 0
	one := func(seq []mv, order []int) {
		r.Case(fmt.Sprintf("two-signers n=%d", len(seq)))
		g := newGenWorld(r)
		g.pn(0)
		for _, k := range order {
			g.claim(0, seq[k].s, seq[k].kind, "tag", seq[k].val, int64(100*(k+1)))
		}
		times := []int64{0}
		for k := range seq {
			times = append(times, int64(100*(k+1)+50)*sec)
		}
		g.queryAll(0, "tag", times, []string{"a", "0", "1"}, []string{"x", "y"})
		if len(seq) >= 2 {
			r.Distinct(caseKey(g))
		}
		n++
	}
	var rec func(seq []mv)
	rec = func(seq []mv) {
		if len(seq) > 0 {
			for _, order := range permutations(len(seq)) {
				one(seq, order)
			}
		}
		if len(seq) == 3 {
			return
		}
		for _, m := range alpha {
			rec(append(append([]mv(nil), seq...), m))
		}
	}
	rec(nil)
	if r.Thorough() {
		// a sample of the sequences of 4
		for i := 0; i < 4000; i++ {
			seq := make([]mv, 4)
			for k := range seq {
				seq[k] = alpha[r.R.Intn(len(alpha))]
			}
			ps := permutations(4)
			one(seq, ps[r.R.Intn(len(ps))])
		}
	}
	r.Res.Histogram["two-signer-cases"] = n
}

func permutations(k int) [][]int {
	var out [][]int
	idx := make([]int, k)
	for i := range idx {
		idx[i] = i
	}
	var pr func(i int)
	pr = func(i int) {
		if i == k {
			out = append(out, append([]int(nil), idx...))
			return
		}
		for j := i; j < k; j++ {
			idx[i], idx[j] = idx[j], idx[i]
			pr(i + 1)
			idx[i], idx[j] = idx[j], idx[i]
		}
	}
	pr(0)
	return out
}

// (a3) claims inside ONE second, with fractions whose spellings differ in length: the order of the index
// rows (by the text of the date) is then not the order in time, and only sorting by the parsed date
// (corpus, location.go, describe.go) gives the documented result; also equal dates (ties by blobref)
func sameSecond(r *hk.Run) {
	rnd := r.R
	N := 150
	if r.Thorough() {
		N = 1500
	}
	for i := 0; i < N; i++ {
		r.Case("same-second")
		g := newGenWorld(r)
		g.desc = true
		g.pn(0)
		nsign := 1 + rnd.Intn(2)
		n := 2 + rnd.Intn(5)
		base := int64(1000+rnd.Intn(3)) * sec
		var ds []int64
		for k := 0; k < n; k++ {
			d := base + fracPool[rnd.Intn(len(fracPool))]
			if rnd.Chance(10) {
				d += sec
			}
			ds = append(ds, d)
			kind := []string{"set", "set", "add", "del"}[rnd.Intn(4)]
			val := []string{"x", "y", "z"}[rnd.Intn(3)]
			if kind == "del" && rnd.Chance(40) {
				val = ""
			}
			g.claimNs(0, rnd.Intn(nsign), kind, "tag", val, d)
		}
		if rnd.Chance(25) && len(g.claims) > 0 {
			g.delNs("c"+strconv.Itoa(g.claims[rnd.Intn(len(g.claims))].id), 0, base+fracPool[rnd.Intn(len(fracPool))])
		}
		ts := []int64{0, base, base + sec, base + 2*sec}
		for k := 0; k < 3; k++ {
			ts = append(ts, ds[rnd.Intn(len(ds))])
		}
		for _, t := range ts {
			f := []string{"a", "0", "1"}[rnd.Intn(3)]
			g.qAttrAll(0, "tag", t, f)
			g.qValsAll(0, "tag", t, f)
			g.qHasAll(0, "tag", "x", t)
			g.qDescAll(0, "tag", t, rnd.Intn(nsign))
		}
		for _, m := range allModes {
			g.qClaims(m, 0, "a", "")
		}
		g.qOrder("inc", 0)
		g.qOrder("load", 0)
		if len(g.claims) >= 2 {
			r.Distinct(caseKey(g))
		}
		if i == 0 {
			r.Sample(map[string]any{"kind": "same-second", "ops": g.ops[:min(len(g.ops), 8)]})
		}
	}
}

// (b) random histories
func random(r *hk.Run) {
	rnd := r.R
	N := 1500
	if r.Thorough() {
		N = 20000
	}
	for i := 0; i < N; i++ {
		r.Case("random")
		g := newGenWorld(r)
		g.desc = i < N/8
		npn := 1 + rnd.Intn(2)
		for p := 0; p < npn; p++ {
			g.pn(p)
		}
		nsign := 1 + rnd.Intn(2)
		nattr := 1 + rnd.Intn(3)
		attrs := make([]string, nattr)
		for k := range attrs {
			attrs[k] = attrPool[rnd.Intn(len(attrPool))]
		}
		nval := 2 + rnd.Intn(3)
		vals := make([]string, nval)
		for k := range vals {
			vals[k] = valPool[rnd.Intn(len(valPool))]
		}
		allowTies := rnd.Chance(30)
		n := 2 + rnd.Intn(9)
		if r.Thorough() && rnd.Chance(25) {
			n = 10 + rnd.Intn(25) // beyond pdqsort's insertion-sort cut-off, with or without equal dates
		}
		future := rnd.Chance(15)
		fractions := rnd.Chance(30) // dates inside one second, fractions of different lengths
		used := map[int64]bool{}
		pickDate := func() int64 {
			for {
				var d int64
				switch {
				case future && rnd.Chance(20):
					d = (futureMin + int64(rnd.Intn(40))) * sec
				case allowTies:
					d = (1000 + int64(rnd.Intn(6))) * sec
				default:
					d = (1000 + int64(rnd.Intn(10*n+20))) * sec
				}
				if fractions {
					d = (d/sec/4*4)*sec + fracPool[rnd.Intn(len(fracPool))]
				}
				if allowTies || !used[d] {
					used[d] = true
					return d
				}
			}
		}
		rows := [2]int{}
		var lastDelete *gclaim
		deliveries := 0
		for deliveries < n {
			p := rnd.Intn(npn)
			s := rnd.Intn(nsign)
			switch {
			case len(g.claims) > 0 && rnd.Chance(22):
				// a delete claim: of a claim, of the newest delete claim (undelete chains), or of the permanode
				var tgt string
				switch {
				case lastDelete != nil && rnd.Chance(55):
					tgt = "c" + strconv.Itoa(lastDelete.id)
				case rnd.Chance(12):
					tgt = "p" + strconv.Itoa(p)
				default:
					tgt = "c" + strconv.Itoa(g.claims[rnd.Intn(len(g.claims))].id)
				}
				if tgt[0] == 'p' {
					rows[int(tgt[1]-'0')]++
				}
				if d := g.delNs(tgt, s, pickDate()); d != nil {
					lastDelete = d
					r.Hit("gen:delete-" + tgt[:1])
				}
			default:
				kind := []string{"set", "add", "add", "del"}[rnd.Intn(4)]
				val := vals[rnd.Intn(nval)]
				attr := attrs[rnd.Intn(nattr)]
				if (attr == "latitude" || attr == "longitude") && rnd.Chance(90) {
					val = []string{"1", "2.5", "-3", "40"}[rnd.Intn(4)]
				}
				if kind == "del" && rnd.Chance(35) {
					val = ""
				}
				if g.claimNs(p, s, kind, attr, val, pickDate()) != nil {
					rows[p]++
				}
			}
			deliveries++
			// query between deliveries too: the incremental cache at intermediate states
			if rnd.Chance(25) || deliveries == n {
				g.randomQueries(npn, attrs, vals, deliveries == n)
			}
		}
		if len(g.claims) >= 2 {
			r.Distinct(caseKey(g))
		}
		if i < 2 {
			r.Sample(map[string]any{"kind": "random-history", "ops": g.ops[:min(len(g.ops), 12)]})
		}
	}
}

func (g *gen) times() []int64 {
	// before everything, between, exactly at, after, far future, zero
	var ds []int64
	for _, c := range g.claims {
		ds = append(ds, c.date)
	}
	sort.Slice(ds, func(i, j int) bool { return ds[i] < ds[j] })
	ts := []int64{0, sec, (pastMax - 1) * sec, MaxTime * sec}
	if len(ds) > 0 {
		ts = append(ts, ds[0]-1, ds[0]-sec, ds[len(ds)-1], ds[len(ds)-1]+1, ds[len(ds)-1]+sec)
		m := ds[len(ds)/2]
		ts = append(ts, m, m+1, m-1, m/sec*sec, m/sec*sec+sec)
	}
	return ts
}

func (g *gen) randomQueries(npn int, attrs, vals []string, final bool) {
	rnd := g.r.R
	ts := g.times()
	filters := []string{"a", "0", "1", "u"}
	k := 3
	if final {
		k = 8
	}
	for q := 0; q < k; q++ {
		p := rnd.Intn(npn)
		attr := attrs[rnd.Intn(len(attrs))]
		t := ts[rnd.Intn(len(ts))]
		if t < sec {
			t = 0
		}
		f := filters[rnd.Intn(len(filters))]
		g.qAttrAll(p, attr, t, f)
		g.qValsAll(p, attr, t, f)
		g.qHasAll(p, attr, vals[rnd.Intn(len(vals))], t)
		for _, m := range corpusModes {
			g.qVia(m, p, t, f)
		}
		if attr == "latitude" || attr == "longitude" {
			g.qLocation(p, t, f)
		}
		if g.desc {
			g.qDescAll(p, attr, t, rnd.Intn(2))
		}
	}
	if final {
		for p := 0; p < npn; p++ {
			for _, m := range corpusModes {
				g.qOrder(m, p)
			}
			f := filters[rnd.Intn(len(filters))]
			af := ""
			if rnd.Bool() {
				af = attrs[rnd.Intn(len(attrs))]
			}
			for _, m := range allModes {
				g.qClaims(m, p, f, af)
				g.qDeleted(m, "p"+strconv.Itoa(p))
			}
		}
		for _, c := range g.claims {
			for _, m := range allModes {
				g.qDeleted(m, "c"+strconv.Itoa(c.id))
			}
		}
	}
}

// (c) delete / undelete chains with branches
func chains(r *hk.Run) {
	rnd := r.R
	N := 200
	if r.Thorough() {
		N = 3000
	}
	for i := 0; i < N; i++ {
		r.Case("delete-chain")
		g := newGenWorld(r)
		g.desc = i < N/4
		g.pn(0)
		base := []*gclaim{g.claim(0, 0, "set", "title", "v1", 1000), g.claim(0, rnd.Intn(2), "add", "title", "v2", 2000),
			g.claim(0, 0, "add", "tag", "t", 1500)}
		depth := 1 + rnd.Intn(7)
		tgt := "c" + strconv.Itoa(base[rnd.Intn(2)].id)
		if rnd.Chance(15) {
			tgt = "p0"
		}
		date := int64(3000)
		maxDepth := 0
		for d := 0; d < depth; d++ {
			date += int64(1 + rnd.Intn(5))
			dd := date
			if rnd.Chance(30) {
				dd = 500 + int64(d) // a delete claim dated before what it deletes: dates do not matter for deletion
			}
			dc := g.del(tgt, rnd.Intn(2), dd)
			if dc == nil {
				break
			}
			maxDepth = d + 1
			// a second deleter of the same target now and then (one may get undeleted, the other not)
			if rnd.Chance(25) {
				date++
				g.del(tgt, rnd.Intn(2), date)
				r.Hit("gen:two-deleters-of-one-target")
			}
			for _, m := range allModes {
				for _, c := range g.claims {
					g.qDeleted(m, "c"+strconv.Itoa(c.id))
				}
				g.qDeleted(m, "p0")
				g.qAttr(m, 0, "title", 0, "a")
				g.qClaims(m, 0, "a", "")
				if g.desc {
					g.qDesc(m, 0, "title", 0, 0)
				}
			}
			for _, m := range corpusModes {
				g.qVals(m, 0, "title", 0, "a")
				g.qVals(m, 0, "title", 1700*sec, "0")
				g.qHas(m, 0, "title", "v1", 0)
			}
			tgt = "c" + strconv.Itoa(dc.id)
		}
		r.Hit(fmt.Sprintf("chain-depth:%d", maxDepth))
		r.Distinct(caseKey(g))
		if i == 0 {
			r.Sample(map[string]any{"kind": "delete-chain", "depth": maxDepth, "ops": g.ops[:min(len(g.ops), 10)]})
		}
	}
}

// (d) malformed lines: both sides must refuse them and leave the state alone
func malformed(r *hk.Run) {
	r.Case("malformed")
	g := newGenWorld(r)
	g.pn(0)
	c := g.claim(0, 0, "set", "tag", "x", 1000)
	rk := strconv.FormatUint(c.rk, 10)
	bad := []string{
		"", "nop", "pn", "pn 2", "pn 0", "pn 0 0", "pn x",
		"claim 1 0 0 set 746167 78 1000 " + rk,        // id not above the last one
		"claim 2 1 0 set 746167 78 1000 " + rk,        // permanode 1 does not exist
		"claim 2 0 2 set 746167 78 1000 " + rk,        // signer
		"claim 2 0 0 put 746167 78 1000 " + rk,        // kind
		"claim 2 0 0 set 7461G7 78 1000 " + rk,        // hex
		"claim 2 0 0 set 746167 7 1000 " + rk,         // odd hex
		"claim 2 0 0 set 746167 FF 1000 " + rk,        // upper-case hex
		"claim 2 0 0 set 746167 ff 1000 " + rk,        // not UTF-8
		"claim 2 0 0 set 746167 c080 1000 " + rk,      // overlong UTF-8
		"claim 2 0 0 set 746167 eda080 1000 " + rk,    // surrogate
		"claim 2 0 0 set 746167 f4908080 1000 " + rk,  // beyond U+10FFFF
		"claim 2 0 0 set - 78 1000 " + rk,             // empty attribute
		"claim 2 0 0 set 746167 78 0 " + rk,           // date 0
		"claim 2 0 0 set 746167 78 01000 " + rk,       // leading zero
		"claim 2 0 0 set 746167 78 99999999999 " + rk, // beyond MaxTime
		"claim 2 0 0 set 746167 78 -5 " + rk,
		"claim 2 0 0 set 746167 78 1000. " + rk,   // empty fraction
		"claim 2 0 0 set 746167 78 1000.50 " + rk, // trailing zero
		"claim 2 0 0 set 746167 78 1000.0 " + rk,
		"claim 2 0 0 set 746167 78 1000.1234567891 " + rk, // ten digits
		"claim 2 0 0 set 746167 78 1000.5.5 " + rk,
		"claim 2 0 0 set 746167 78 .5 " + rk,
		"claim 2 0 0 set 746167 78 0.5 " + rk, // second 0
		"claim 2 0 0 set 746167 78 1000.5x " + rk,
		"claim 2 0 0 set 746167 78 9000000001 " + rk, // beyond MaxTime
		"attr inc 0 746167 1000.50 a", "attr inc 0 746167 z.5 a", "desc inc 0 746167 1000. 0", "delete 2 c1 0 2000.10 1",
		"claim 2 0 0 set 746167 78 1000 " + rk, // same content as claim 1: the same blob
		"claim 2 0 0 set 746167 78 1000",       // arity
		"claim 2 0 0 set 746167 78 1000 " + rk + " 1",
		"claim x 0 0 set 746167 78 1000 " + rk,
		"delete 2 c9 0 2000 1", "delete 2 p1 0 2000 1", "delete 2 x1 0 2000 1", "delete 2 c 0 2000 1", "delete 1 c1 0 2000 1",
		"delete 2 c1 3 2000 1", "delete 2 c1 0 0 1", "delete 2 c1 0 2000", "delete 2 c01 0 2000 1",
		"attr xxx 0 746167 z a", "attr inc 1 746167 z a", "attr inc 0 746167 0 a", "attr inc 0 746167 zz a", "attr inc 0 746167 z b",
		"attr inc 0 7461g7 z a", "attr inc 0 746167 z", "vals idx 0 746167 z a", "vals inc 0 746167 z a a", "has idx 0 746167 78 z",
		"has inc 0 746167 78", "via idx 0 z a", "via inc 0 z", "deleted inc c9", "deleted foo c1", "deleted inc", "deleted inc q1",
		"claims inc 0 a", "claims inc 0 a -", "claims foo 0 a *", "claims inc 0 q *", "order idx 0", "order inc 1", "order inc",
		"ATTR inc 0 746167 z a", "desc inc 0 746167 z", "desc inc 0 746167 z 2", "desc foo 0 746167 z 0", "desc inc 1 746167 z 0",
	}
	for _, l := range bad {
		out := g.op(l)
		if out != "bad-op" {
			r.Fail("malformed-accepted", l, "bad-op", out, []string{l})
		}
	}
	// the state is untouched
	g.qVals("inc", 0, "tag", 0, "a")
	g.qVals("load", 0, "tag", 0, "a")
	g.qAttr("idx", 0, "tag", 0, "a")
	g.qClaims("idx", 0, "a", "")
	// multi-byte UTF-8 of every length is accepted
	g.claim(0, 0, "add", "tag", "aé€😀", 2000)
	g.qVals("inc", 0, "tag", 0, "a")
	g.qVals("load", 0, "tag", 0, "a")
	g.qAttr("idx", 0, "tag", 2000*sec, "a")
	// fractions of a second, in their one spelling
	g.claimNs(0, 0, "add", "tag", "f", 2000*sec+500000000)
	g.qVals("inc", 0, "tag", 2000*sec+499999999, "a")
	g.qVals("load", 0, "tag", 2000*sec+500000000, "a")
	r.Hit("malformed-lines")
}

// probes re-execute the witnesses of the findings
func probes(r *hk.Run) {
	// F-C07-1 (known): corpus attribute queries ignore the deletion of an attribute claim
	func() {
		g := newGenWorld(nil)
		g.pn(0)
		g.claim(0, 0, "set", "title", "old", 1000)
		c := g.claim(0, 0, "set", "title", "new", 2000)
		g.del("c"+strconv.Itoa(c.id), 0, 3000)
		idx := g.op("attr idx 0 " + hk.Hex([]byte("title")) + " z a")
		inc := g.op("attr inc 0 " + hk.Hex([]byte("title")) + " z a")
		load := g.op("attr load 0 " + hk.Hex([]byte("title")) + " z a")
		r.Probe("F-C07-1", idx == hk.Hex([]byte("old")) && inc == hk.Hex([]byte("new")) && load == inc,
			fmt.Sprintf("after deleting the newest set-attribute claim: index path %s, live corpus %s, loaded corpus %s", idx, inc, load))
	}()
	// F-C07-2 (fixed 2f922c1): zero time + future-dated claim: the cache answered with the future value
	func() {
		g := newGenWorld(nil)
		g.pn(0)
		g.claim(0, 0, "set", "title", "now", 1000)
		g.claim(0, 0, "set", "title", "future", futureMin)
		inc := g.op("attr inc 0 " + hk.Hex([]byte("title")) + " z a")
		idx := g.op("attr idx 0 " + hk.Hex([]byte("title")) + " z a")
		r.Probe("F-C07-2", inc != idx, fmt.Sprintf("zero-time query with a claim dated 2099: live corpus %s, index path %s", inc, idx))
	}()
	// F-C07-3 (fixed f282908): the real LocationHelper on an index without corpus, nil owner, two signers
	func() {
		g := newGenWorld(nil)
		g.pn(0)
		g.claim(0, 0, "set", "latitude", "1", 4000)
		g.claim(0, 1, "set", "latitude", "2", 3000)
		g.claim(0, 0, "set", "longitude", "5", 1000)
		got := hk.Guard(func() string { return g.w.location(0, time.Time{}, "a") })
		r.Probe("F-C07-3", got != "1 5", "PermanodeLocation with latitude set by signer 0 at 4000 and by signer 1 at 3000: "+got)
	}()
}
