package c07

import (
	"strings"
	"testing"
	"time"
)

func fillRK(t *testing.T, w *world, lines []string) {
	for _, l := range lines {
		out := w.exec(strings.Fields(l))
		if out != "ok" {
			t.Fatalf("%s -> %s", l, out)
		}
	}
}

func TestLocationTwoSigners(t *testing.T) {
	g := newGenWorld(nil)
	g.pn(0)
	g.claim(0, 0, "set", "latitude", "1", 400)
	g.claim(0, 1, "set", "latitude", "2", 300)
	g.claim(0, 0, "set", "longitude", "5", 100)
	got := g.w.location(0, time.Time{}, "a")
	t.Logf("location = %s", got)
	if got != "1 5" {
		t.Errorf("got %s want 1 5", got)
	}
}
