package c07

import (
	"testing"
	"time"
)

// the witness of F-C07-3 on the real LocationHelper (index without corpus, nil owner, two signers)
func TestLocationTwoSigners(t *testing.T) {
	g := newGenWorld(nil)
	g.pn(0)
	g.claim(0, 0, "set", "latitude", "1", 4000)
	g.claim(0, 1, "set", "latitude", "2", 3000)
	g.claim(0, 0, "set", "longitude", "5", 1000)
	if got := g.w.location(0, time.Time{}, "a"); got != "1 5" {
		t.Errorf("got %s want 1 5", got)
	}
}
