package c11

import (
	"fmt"
	"io"
	"strings"
	"perkeep.org/pkg/blob"
	"verifharness/hk"
)

func NewExec() func(w []string) string { return func([]string) string { return "bad-op" } }

func Run(r *hk.Run) { r.Note("not built yet") }

// Scratch is a temporary probe.
func Scratch() {
	w, err := newWorld()
	if err != nil {
		panic(err)
	}
	put := func(s string) blob.Ref {
		br := blob.RefFromString(s)
		_, err := w.sto.ReceiveBlob(ctxbg, br, strings.NewReader(s))
		if err != nil {
			panic(err)
		}
		w.quiesce()
		return br
	}
	get := func(br blob.Ref) string {
		rc, _, err := w.sto.Fetch(ctxbg, br)
		if err != nil {
			return "ERR " + err.Error()
		}
		b, _ := io.ReadAll(rc)
		return string(b)
	}
	v := put("victim")
	wr := put("other-content")
	_ = wr
	encW := w.blobs.names[1]
	look := metaHeader + v.String() + "/6/" + encW + "\n"
	put(look)
	encL := w.blobs.names[2]
	// replace the victim's meta blob content by the ciphertext of the lookalike
	w.meta.m[w.meta.names[0]] = w.blobs.m[encL]
	w.freshKV()
	fmt.Println("restart:", w.start(nil))
	fmt.Println("fetch victim:", get(v))
	fmt.Println("fetch other:", get(wr))
}
