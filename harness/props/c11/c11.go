package c11

// c11.go: the generator and the property's own oracle.
//
// The oracle is the statement of C11, evaluated on the real code only:
//
//	leak      no stored byte string contains a received plaintext (>= 8 bytes), a plaintext ref (text,
//	          hex or raw digest); no blob name underneath is a plaintext ref; every stored blob is
//	          `0x02 || age v1 file` and (untampered) is named by its own digest
//	fetch     every Fetch returns exactly the bytes received under that ref (and their size) or fails
//	recover   after ANY prefix of the calls the encrypt layer made to the wrapped stores (a crash between
//	          two effects, including mid-compaction), a new storage over those stores with an empty meta
//	          index starts, maps every plain ref to the same `size/encref` as the live index did, and
//	          serves every blob whose receive had been acknowledged by then

import (
	"bytes"
	"context"
	"io"
	"runtime"
	"encoding/hex"
	"fmt"
	"sort"
	"strings"
	"time"

	"perkeep.org/pkg/blob"

	"verifharness/hk"
)

// abortRun unwinds the generator after a stall.
type abortRun struct{ why string }

type gen struct {
	r *hk.Run
	e *exec
	// per case
	tampered  bool
	scanned   int            // calls already leak-scanned
	ackAt     map[string]int // ref -> number of calls made when its receive was acknowledged
	sinceComp int            // generator heuristic: heap entries since the last compaction
}

func (g *gen) begin(label string) {
	if g.e != nil {
		g.e.close()
	}
	g.r.Case(label)
	g.e = newExecState()
	g.tampered, g.scanned, g.sinceComp = false, 0, 0
	g.ackAt = map[string]int{}
}

func (g *gen) op(line string) string {
	out := g.e.do(strings.Fields(line))
	g.r.Op(line, out)
	if strings.HasPrefix(out, "hang") || strings.HasPrefix(out, "broken") || out == "panic" {
		g.r.Fail("impl-"+strings.Fields(out)[0], line, "an answer", out, g.r.CaseOps())
	}
	if strings.Contains(out, "hang") {
		// a call into the store did not come back within callTimeout: goroutines are stuck, nothing
		// that follows would be meaningful
		panic(abortRun{"the store stalled at: " + line})
	}
	return out
}

// ---- oracle: leak ---------------------------------------------------------------------------------------

var ageMagic = []byte("\x02age-encryption.org/v1\n")

// needles of one plaintext blob
func needles(ref string, data []byte) [][]byte {
	var out [][]byte
	if len(data) >= 8 {
		out = append(out, data)
	}
	out = append(out, []byte(ref))
	if i := strings.IndexByte(ref, '-'); i > 0 {
		out = append(out, []byte(ref[i+1:]))
		if raw, err := hex.DecodeString(ref[i+1:]); err == nil {
			out = append(out, raw)
		}
	}
	return out
}

// leakScan checks everything written to the wrapped stores since the last scan against every plaintext
// known (against a sample of them when there are many).
func (g *gen) leakScan() {
	e := g.e
	if e.w == nil {
		return
	}
	e.w.callsMu.Lock()
	fresh := append([]call(nil), e.w.calls[g.scanned:]...)
	g.scanned = len(e.w.calls)
	e.w.callsMu.Unlock()
	if len(fresh) == 0 {
		return
	}
	refs := make([]string, 0, len(e.plain))
	for ref := range e.plain {
		refs = append(refs, ref)
	}
	sort.Strings(refs)
	if len(refs) > 400 {
		// the most recent receives and a random sample of the others
		recent := map[string]bool{}
		for i := len(e.labels) - 1; i >= 0 && len(recent) < 150; i-- {
			recent[e.labels[i]] = true
		}
		var pick []string
		for _, ref := range refs {
			if recent[ref] || g.r.R.Intn(len(refs)) < 150 {
				pick = append(pick, ref)
			}
		}
		refs = pick
	}
	plainRef := map[string]bool{}
	for ref := range e.plain {
		plainRef[ref] = true
	}
	for _, c := range fresh {
		for _, n := range c.names {
			g.r.ImplOnly("leak-name")
			if plainRef[n] {
				g.r.Fail("leak-plain-ref-as-name", "store "+c.store+" was given the name "+n, "a ciphertext digest", n, g.r.CaseOps())
			}
		}
		if !c.put {
			continue
		}
		g.r.ImplOnly("leak-bytes")
		if !bytes.HasPrefix(c.data, ageMagic) {
			g.r.Fail("leak-not-age-format", "store "+c.store+" got bytes that are not 0x02||age", hex.EncodeToString(ageMagic), hex.EncodeToString(c.data[:min(len(c.data), 24)]), g.r.CaseOps())
		}
		if blob.RefFromBytes(c.data).String() != c.names[0] {
			g.r.Fail("leak-name-not-digest", "store "+c.store+": blob name is not the digest of its bytes", blob.RefFromBytes(c.data).String(), c.names[0], g.r.CaseOps())
		}
		for _, ref := range refs {
			for k, nd := range needles(ref, e.plain[ref]) {
				if bytes.Contains(c.data, nd) {
					g.r.Fail(fmt.Sprintf("leak-plaintext-%d", k), "store "+c.store+" blob "+c.names[0]+" contains plaintext material of "+ref, "absent", hex.EncodeToString(nd[:min(len(nd), 32)]), g.r.CaseOps())
				}
			}
		}
	}
}

// ---- oracle: fetch --------------------------------------------------------------------------------------

// checkFetch fetches ref through sto and applies "exactly the original plaintext or fails".
func (g *gen) checkFetch(sto interface{}, where, ref string, must bool) string {
	e := g.e
	var data []byte
	var size uint32
	var cl string
	switch s := sto.(type) {
	case *world:
		if s.sto == nil {
			return "down"
		}
		data, size, cl = fetchRaw(s.sto, ref)
	}
	g.r.ImplOnly("fetch-oracle")
	if cl == "hang" {
		g.r.Fail("impl-hang", "Fetch("+ref+") did not return ("+where+")", "an answer", "hang", g.r.CaseOps())
		panic(abortRun{"Fetch stalled"})
	}
	want, known := e.plain[ref]
	if cl == "ok" {
		if !known || !bytes.Equal(data, want) || int(size) != len(want) {
			g.r.Fail("fetch-wrong-plaintext@"+where, "Fetch("+ref+") returned bytes that are not the blob received under that ref",
				fmt.Sprintf("%d bytes %s", len(want), hex.EncodeToString(want[:min(len(want), 24)])),
				fmt.Sprintf("%d bytes (size %d) %s", len(data), size, hex.EncodeToString(data[:min(len(data), 24)])), g.r.CaseOps())
		}
	} else if must {
		g.r.Fail("fetch-lost-blob@"+where, "Fetch("+ref+") of an acknowledged blob fails on untampered stores", "ok", cl, g.r.CaseOps())
	}
	return cl
}

// ---- oracle: recover ------------------------------------------------------------------------------------

// shadow builds a second encrypt storage with an EMPTY index over copies of the given sub-store contents.
func shadow(bm, mm map[string][]byte) (*world, error) {
	w := &world{blobs: newRawStore("E"), meta: newRawStore("M")}
	w.base = baseGoroutines
	w.blobs.m, w.meta.m = copyMap(bm), copyMap(mm)
	w.freshKV()
	err := w.start(nil)
	return w, err
}

// recoverCheck: the index rebuilt from (bm, mm) alone agrees with the live rows, and serves mustHave.
func (g *gen) recoverCheck(where string, bm, mm map[string][]byte, live map[string]string, mustHave []string) {
	g.r.ImplOnly("recover-oracle")
	w, err := shadow(bm, mm)
	defer w.close()
	if err != nil {
		g.r.Fail("recover-startup-fails@"+where, "a new storage over untampered wrapped stores does not start", "ok", err.Error(), g.r.CaseOps())
		if err == errHang {
			panic(abortRun{"start-up over a copy of the wrapped stores stalled"})
		}
		return
	}
	rebuilt := map[string]string{}
	for _, kv := range w.kv.rows() {
		rebuilt[kv[0]] = kv[1]
		if lv, ok := live[kv[0]]; ok && lv != kv[1] {
			// a blob with several meta lines (uploaded twice concurrently, or retried after a failed
			// index.Set) has several stored ciphertexts; the rebuilt index may name another one of them,
			// which is fine iff that one is served as exactly the blob
			g.r.Hit("recover:another-ciphertext-of-the-same-blob")
			if cl := g.checkFetch(w, "recover-"+where, kv[0], false); cl != "ok" {
				g.r.Fail("recover-different-mapping@"+where, "rebuilt index maps "+kv[0]+" to something that is not served", lv, kv[1]+" ("+cl+")", g.r.CaseOps())
			}
		}
	}
	// every acknowledged row must be back; the blobs themselves are fetched through the new storage
	// (all of them when there are few or in the thorough tier, else the latest and a random dozen)
	all := len(mustHave) <= 16 || g.r.Thorough()
	for i, ref := range mustHave {
		if _, ok := rebuilt[ref]; !ok {
			g.r.Fail("recover-row-lost@"+where, "acknowledged blob "+ref+" is not in the rebuilt index", live[ref], "absent", g.r.CaseOps())
			continue
		}
		if all || i >= len(mustHave)-2 || g.r.R.Intn(len(mustHave)) < 12 {
			g.checkFetch(w, "recover-"+where, ref, true)
		}
	}
}

func (g *gen) liveRows() map[string]string {
	m := map[string]string{}
	for _, kv := range g.e.w.kv.rows() {
		m[kv[0]] = kv[1]
	}
	return m
}

func (g *gen) ackedRefs() []string {
	var out []string
	for ref := range g.e.acked {
		out = append(out, ref)
	}
	sort.Strings(out)
	return out
}

// pointCheck: the oracles at the current (untampered, quiescent) point.
func (g *gen) pointCheck(recover bool) {
	g.leakScan()
	if g.tampered || !g.e.up {
		return
	}
	if recover {
		live := g.liveRows()
		acked := g.ackedRefs()
		for _, ref := range acked {
			if _, ok := live[ref]; !ok {
				g.r.Fail("index-row-missing", "acknowledged blob "+ref+" has no index row", "a row", "absent", g.r.CaseOps())
			}
		}
		g.recoverCheck("point", g.e.w.blobs.snapshot(), g.e.w.meta.snapshot(), live, acked)
	}
}

// crashPrefixes replays every prefix of the call log (optionally only every step-th) as a crash state.
func (g *gen) crashPrefixes(step int, partialRm bool) {
	e := g.e
	calls := e.w.callsCopy()
	live := g.liveRows()
	bm, mm := map[string][]byte{}, map[string][]byte{}
	type ack struct {
		ref string
		at  int
	}
	var acks []ack
	for ref, at := range g.ackAt {
		acks = append(acks, ack{ref, at})
	}
	sort.Slice(acks, func(i, j int) bool { return acks[i].at < acks[j].at || (acks[i].at == acks[j].at && acks[i].ref < acks[j].ref) })
	must := func(k int) []string {
		var out []string
		for _, a := range acks {
			if a.at <= k {
				out = append(out, a.ref)
			}
		}
		return out
	}
	for k := 0; k <= len(calls); k++ {
		if k > 0 {
			c := calls[k-1]
			m := bm
			if c.store == "M" {
				m = mm
			}
			if c.put {
				m[c.names[0]] = c.data
			} else {
				if partialRm && len(c.names) > 1 {
					// crash inside RemoveBlobs: only a prefix of the names is gone
					for _, j := range []int{1, len(c.names) / 2, len(c.names) - 1} {
						mp := copyMap(m)
						for _, n := range c.names[:j] {
							delete(mp, n)
						}
						g.r.Hit("crash:inside-remove")
						g.recoverCheck("crash-inside-remove", bm, mp, live, must(k-1))
					}
				}
				for _, n := range c.names {
					delete(m, n)
				}
				g.r.Hit("crash:after-remove")
			}
			if c.put && c.store == "M" && k < len(calls) && !calls[k].put {
				g.r.Hit("crash:between-upload-and-remove")
			}
		}
		interesting := k > 0 && k < len(calls) && (!calls[k].put || !calls[k-1].put)
		if k%step != 0 && !interesting && k != len(calls) {
			continue
		}
		g.r.Distinct(fmt.Sprintf("crash-prefix:%d:%d", g.r.Res.Cases, k))
		g.recoverCheck("crash-prefix", bm, mm, live, must(k))
	}
}

// uploadFirst: in the calls of one op (after the first skip ones), every removal from the meta store is
// preceded by an upload to it that no earlier removal has used up.
func (g *gen) uploadFirst(calls string, skip int) {
	toks := strings.Fields(calls)
	if len(toks) < skip {
		return
	}
	up := 0
	for _, t := range toks[skip:] {
		switch {
		case strings.HasPrefix(t, "M+"):
			up++
		case strings.HasPrefix(t, "M-"):
			g.r.Hit("order:upload-before-remove")
			if up == 0 {
				g.r.Fail("compaction-remove-before-upload", "small meta blobs were removed before the packed one was uploaded", "M+ before M-", calls, g.r.CaseOps())
			}
			up--
		}
	}
}

// ---- generator helpers ----------------------------------------------------------------------------------

// order: a feasible arrival order of the meta blobs present: enumeration order, shuffled inside windows.
func (g *gen) order(shuffle bool) string {
	names := g.e.w.meta.SortedNames()
	if len(names) == 0 {
		return "-"
	}
	if shuffle {
		for i := 0; i < len(names); i += 5 {
			j := min(i+5, len(names))
			for k := j - 1; k > i; k-- {
				x := i + g.r.R.Intn(k-i+1)
				names[k], names[x] = names[x], names[k]
			}
		}
	}
	toks := make([]string, len(names))
	for i, n := range names {
		toks[i] = g.e.w.meta.Tok(n)
	}
	return strings.Join(toks, ",")
}

func (g *gen) restart(mode string, shuffle bool) string {
	out := g.op("restart " + mode + " " + g.order(shuffle))
	g.r.Hit("restart:" + mode + ":" + out)
	if !g.tampered && out != "ok" {
		g.r.Fail("store-does-not-open", "CreateStorage / readAllMetaBlobs fails over wrapped stores nobody tampered with", "ok", out, g.r.CaseOps())
	}
	if out == "ok" {
		g.sinceComp = g.e.w.meta.count()
	}
	return out
}

func (g *gen) recv(kind string, data []byte) string {
	line := kind + " " + hk.Hex(data)
	out := g.op(line)
	ref := blob.RefFromBytes(data).String()
	if strings.HasPrefix(out, "ok") {
		if _, ok := g.ackAt[ref]; !ok {
			g.ackAt[ref] = g.e.w.numCalls()
		}
	}
	return out
}

func (g *gen) freshData(n int) []byte {
	for {
		b := g.r.R.Bytes(n)
		if _, dup := g.e.plain[blob.RefFromBytes(b).String()]; !dup {
			return b
		}
		if n < 4 {
			n++
		}
	}
}

func (g *gen) blobSize() int {
	switch g.r.R.Intn(12) {
	case 0:
		return 0
	case 1:
		return 1
	case 2:
		return 8 + g.r.R.Intn(4)
	case 3:
		return 65536 - 1 + g.r.R.Intn(3) // around age's 64 KiB chunk
	case 4:
		return 200 + g.r.R.Intn(2000)
	}
	return 12 + g.r.R.Intn(60)
}

func (g *gen) fetchAll(where string) {
	for i, ref := range g.e.labels {
		if i > 40 {
			break
		}
		g.op(fmt.Sprintf("fetch @%d", i+1))
		g.checkFetch(g.e.w, where, ref, !g.tampered && g.e.acked[ref])
	}
}

// ---- families -------------------------------------------------------------------------------------------

// small random histories with restarts at random points
func (g *gen) smallHistories(n int) {
	for c := 0; c < n; c++ {
		g.begin("small")
		var shape []string
		steps := 3 + g.r.R.Intn(10)
		for i := 0; i < steps; i++ {
			k := g.r.R.Intn(14)
			switch {
			case k < 5 || len(g.e.labels) == 0:
				g.recv("recv", g.freshData(g.blobSize()))
				shape = append(shape, "r")
			case k == 5: // duplicate
				ref := g.e.labels[g.r.R.Intn(len(g.e.labels))]
				g.recv("recv", g.e.plain[ref])
				g.r.Hit("recv:duplicate")
				shape = append(shape, "d")
			case k == 6: // wrong ref
				d := g.freshData(10 + g.r.R.Intn(20))
				other := blob.RefFromBytes(append([]byte("x"), d...)).String()
				out := g.op("recvas " + hk.Hex([]byte(other)) + " " + hk.Hex(d))
				g.r.Hit("recvas:" + out)
				shape = append(shape, "w")
			case k == 7:
				g.restart([]string{"keep", "wipe"}[g.r.R.Intn(2)], g.r.R.Bool())
				shape = append(shape, "R")
			case k == 8:
				after := "-"
				if g.r.R.Bool() {
					after = fmt.Sprintf("@%d", 1+g.r.R.Intn(len(g.e.labels)))
				} else if g.r.R.Bool() {
					after = hk.Hex([]byte("sha224-" + hex.EncodeToString(g.r.R.Bytes(1))))
				}
				g.op(fmt.Sprintf("enum %s %d", after, g.r.R.Intn(4)))
				shape = append(shape, "e")
			case k == 9:
				missing := blob.RefFromBytes(g.r.R.Bytes(9)).String()
				g.op("stat " + hk.Hex([]byte(missing)))
				g.op("fetch " + hk.Hex([]byte(missing)))
				shape = append(shape, "m")
			default:
				i := g.r.R.Intn(len(g.e.labels))
				g.op(fmt.Sprintf("stat @%d", i+1))
				g.op(fmt.Sprintf("fetch @%d", i+1))
				g.checkFetch(g.e.w, "live", g.e.labels[i], g.e.acked[g.e.labels[i]])
				shape = append(shape, "f")
			}
			g.op("dump")
			g.pointCheck(true)
		}
		g.op("calls")
		g.op("enum - 0")
		g.fetchAll("live")
		g.crashPrefixes(1, true)
		g.r.Distinct("small:" + strings.Join(shape, ""))
		if c < 2 {
			g.r.Sample(map[string]any{"family": "small", "ops": g.r.CaseOps()[:min(len(g.r.CaseOps()), 12)]})
		}
	}
}

// a history long enough for compaction: SmallMetaCountLimit receives and more (compaction inside a
// receive), one receive that loses the race against the packer it started (compaction aborted, heap
// emptied), a restart over more than SmallMetaCountLimit meta blobs (compaction inside the start-up
// scan), and again; restarts at random points in between
func (g *gen) compaction(n int, everyPoint bool, label string) {
	g.begin(label)
	phase, target := "A", 0
	for i := 1; i <= n || phase != "E"; i++ {
		if i > n+400 {
			break
		}
		kind := "recv"
		if phase == "B" && g.sinceComp == 100 {
			kind = "recvlate"
			g.r.Hit("recvlate:at-threshold")
		}
		g.recv(kind, g.freshData(12+g.r.R.Intn(30)))
		g.sinceComp++
		calls := g.op("calls")
		g.uploadFirst(calls, 2)
		if strings.Contains(calls, "M-") {
			g.r.Hit("compaction:during-receive")
			g.sinceComp = 1
			switch phase {
			case "A":
				phase = "B"
			case "D":
				phase = "E"
			}
		} else if kind == "recvlate" {
			g.sinceComp = 0
			g.r.Hit("compaction:aborted-by-race")
			phase, target = "C", i+30+g.r.R.Intn(40)
		}
		g.op("sum")
		if i%25 == 0 {
			g.op("dump")
		}
		if everyPoint || i%10 == 0 {
			g.pointCheck(true)
		} else {
			g.leakScan()
		}
		// (with more than 200 meta blobs the scan starts several packers at once, whose relative order
		// the harness cannot pin down; the theorems cover those schedules)
		forced := phase == "C" && i == target
		if (forced || (phase != "C" && g.r.R.Intn(40) == 0)) && g.e.w.meta.count() <= 200 {
			before := g.e.w.meta.count()
			g.restart([]string{"keep", "wipe"}[g.r.R.Intn(2)], true)
			calls := g.op("calls")
			g.uploadFirst(calls, 0)
			if strings.Contains(calls, "M-") {
				g.r.Hit("compaction:at-startup")
				g.r.Distinct(fmt.Sprintf("compaction:at-startup(meta=%d)", before))
			}
			if forced {
				phase = "D"
			}
			g.op("sum")
			g.op("dump")
			g.pointCheck(true)
			i2 := 1 + g.r.R.Intn(len(g.e.labels))
			g.op(fmt.Sprintf("fetch @%d", i2))
			g.checkFetch(g.e.w, "live", g.e.labels[i2-1], true)
		}
		if phase == "E" && i < n {
			phase = "B" // thorough: go round again
		}
	}
	g.op("dump")
	g.fetchAll("live")
	for i := 0; i < 30; i++ {
		j := g.r.R.Intn(len(g.e.labels))
		g.op(fmt.Sprintf("fetch @%d", j+1))
		g.checkFetch(g.e.w, "live", g.e.labels[j], true)
	}
	g.op("enum - 5")
	g.r.Distinct(fmt.Sprintf("%s:%d", label, n))
}

// the lookalike attack (finding F-C11-1) and its variations
func (g *gen) lookalikes() {
	hdr := hk.Hex([]byte(metaHeader))
	sl, nl := "2f", "0a"
	type variant struct {
		name  string
		build func() // after: recv V (@1), recv W (@2)
	}
	v := []byte("the victim's blob")
	w := []byte("another blob, longer than the victim")
	base := func() {
		g.recv("recv", v)
		g.recv("recv", w)
		// read both before anything is tampered with (the store is stateful across reads)
		for i := 1; i <= 2; i++ {
			g.op(fmt.Sprintf("fetch @%d", i))
			cl := g.checkFetch(g.e.w, "fetch-before-tamper", g.e.labels[i-1], true)
			g.r.Hit("warm:fetch-before-tamper:" + cl)
		}
	}
	finish := func(name string) {
		g.tampered = true
		out := g.restart("wipe", false)
		g.op("dump")
		for i := range g.e.labels {
			g.op(fmt.Sprintf("stat @%d", i+1))
			g.op(fmt.Sprintf("fetch @%d", i+1))
			g.checkFetch(g.e.w, "lookalike", g.e.labels[i], false)
		}
		// (no enum here: the lookalike's own ref differs between the real cipher and the model's, and so
		// would its place in the enumeration)
		g.r.Distinct("lookalike:" + name + ":" + out)
		g.r.Hit("lookalike:" + name + ":" + out)
		g.leakScan()
	}
	size := func(n int) string { return hk.Hex([]byte(fmt.Sprint(n))) }

	// the witness: the victim's meta blob is replaced by the stored ciphertext of a data blob that reads
	// `header, victim/size/ciphertext-of-W`
	g.begin("lookalike-witness")
	base()
	g.op(strings.Join([]string{"recv", hdr, "@1", sl, size(len(v)), sl, "E2", nl}, " "))
	g.op("copy M1 E3")
	g.tampered = true
	g.restart("wipe", false)
	g.op("dump")
	out := g.op("fetch @1")
	cl := g.checkFetch(g.e.w, "lookalike", g.e.labels[0], false)
	g.r.Probe("F-C11-1", strings.HasPrefix(out, "ok @2"),
		"recv V; recv W; recv `#camlistore/encmeta=2\\nV/size/enc(W)\\n`; meta blob of V := ciphertext of that blob; restart with empty index; Fetch(V) answered "+out+" ("+cl+")")
	g.r.Sample(map[string]any{"family": "lookalike-witness", "ops": g.r.CaseOps()})
	finish("witness")

	variants := []variant{
		{"planted-next-to-legit", func() {
			g.op(strings.Join([]string{"recv", hdr, "@1", sl, size(len(v)), sl, "E2", nl}, " "))
			g.op("plant M E3")
		}},
		{"wrong-size", func() {
			g.op(strings.Join([]string{"recv", hdr, "@1", sl, size(len(v) + 1), sl, "E1", nl}, " "))
			g.op("copy M1 E3")
		}},
		{"points-nowhere", func() {
			ghost := blob.RefFromBytes([]byte("no such ciphertext")).String()
			g.op(strings.Join([]string{"recv", hdr, "@1", sl, size(len(v)), sl, hk.Hex([]byte(ghost)), nl}, " "))
			g.op("copy M1 E3")
		}},
		{"points-to-garbage", func() {
			// a blob that does not decrypt, stored under its true digest, and a row that points to it:
			// the ciphertext digest check passes, the authenticated decryption must refuse
			g.recv("recv", []byte("a blob to be garbled"))
			g.op("garble E3 flip 25000")
			g.op("plant E E3")
			g.op(strings.Join([]string{"recv", hdr, "@1", sl, size(len(v)), sl, "E4", nl}, " "))
			g.op("copy M1 E5")
		}},
		{"two-fields", func() {
			g.op(strings.Join([]string{"recv", hdr, "@1", sl, "E2", nl}, " "))
			g.op("copy M1 E3")
		}},
		{"unknown-hash", func() {
			g.op(strings.Join([]string{"recv", hdr, hk.Hex([]byte("foo-0123abcd")), sl, size(3), sl, "E2", nl}, " "))
			g.op("copy M1 E3")
		}},
		{"no-final-newline", func() {
			g.op(strings.Join([]string{"recv", hdr, "@1", sl, size(len(v)), sl, "E2"}, " "))
			g.op("copy M1 E3")
		}},
		{"header-only", func() {
			g.op("recv " + hdr)
			g.op("copy M1 E3")
		}},
		{"no-newline-at-all", func() {
			g.op("recv " + hk.Hex([]byte(strings.TrimSuffix(metaHeader, "\n"))))
			g.op("copy M1 E3")
		}},
		{"bad-value", func() {
			g.op(strings.Join([]string{"recv", hdr, "@1", sl, hk.Hex([]byte("abc")), sl, hk.Hex([]byte("def")), nl}, " "))
			g.op("copy M1 E3")
		}},
		{"two-lines-swap-both", func() {
			g.op(strings.Join([]string{"recv", hdr, "@1", sl, size(len(w)), sl, "E2", nl, "@2", sl, size(len(v)), sl, "E1", nl}, " "))
			g.op("copy M1 E3")
			g.op("copy M2 E3")
		}},
		{"data-blob-as-meta", func() {
			g.op("copy M1 E2")
		}},
		{"meta-as-data-blob", func() {
			g.op("copy E1 M1")
		}},
	}
	for _, vr := range variants {
		g.begin("lookalike-" + vr.name)
		base()
		vr.build()
		finish(vr.name)
		if vr.name == "bad-value" {
			// a receive of the victim again repairs its row (fetchMeta errs, so it is not a duplicate)
			g.op("recv " + hk.Hex(v))
			g.op("dump")
			g.op("fetch @1")
			g.checkFetch(g.e.w, "lookalike", g.e.labels[0], false)
		}
	}
}

// every single-byte flip, truncation, extension and blob-for-blob substitution of small stored blobs.
// The store is stateful across reads, so every experiment runs FETCH-FIRST: the victim is read
// successfully through the live storage (once, or several times together with stat and enumerate) before
// its ciphertext or meta blob is modified, it is read again without a restart and after one, and once
// more after the original bytes are back.  Two pairs of blobs have equal plaintext lengths on purpose.
func (g *gen) tamperMatrix(masks []int, stride int) {
	g.begin("tamper-matrix")
	sizes := []int{0, 9, 9, 40, 40}
	for _, n := range sizes {
		g.recv("recv", g.freshData(n))
	}
	nb := len(sizes)
	g.op("dump")
	g.pointCheck(true)
	g.op("snap")
	g.tampered = true
	var toks []string
	for i := 1; i <= nb; i++ {
		toks = append(toks, fmt.Sprintf("E%d", i))
	}
	for i := 1; i <= nb; i++ {
		toks = append(toks, fmt.Sprintf("M%d", i))
	}
	length := func(tok string) int {
		l, _ := g.e.parseLoc(tok)
		c, _ := l.get()
		return len(c)
	}
	idx := func(tok string) int { return int(tok[1] - '0') }
	// read label i through the live storage; the stores hold the original bytes, so it must succeed
	read := func(i int, why string) {
		g.op(fmt.Sprintf("fetch @%d", i))
		cl := g.checkFetch(g.e.w, why, g.e.labels[i-1], true)
		g.r.Hit("warm:" + why + ":" + cl)
	}
	// warm: successful reads of the victim before it is tampered with (n = how thorough)
	warm := func(tok string, n int) {
		i := idx(tok)
		if tok[0] == 'M' {
			// the previous experiment may have left the storage down or its index incomplete
			g.restart("wipe", false)
		}
		read(i, "fetch-before-tamper")
		if n > 0 {
			read(i, "fetch-before-tamper")
			g.op(fmt.Sprintf("stat @%d", i))
			g.op("enum - 0")
			for j := 1; j <= nb; j++ {
				read(j, "fetch-before-tamper")
			}
		}
	}
	verdict := func(tok, kind string, v int) {
		i := idx(tok)
		if tok[0] == 'M' {
			// without a restart the meta store is not read: the live storage keeps serving
			if v%8 == 0 {
				read(i, "fetch-after-meta-tamper-live")
			}
			out := g.restart("wipe", false)
			g.r.Hit("tamper:meta:" + kind + ":restart-" + out)
			if out == "ok" {
				for j, ref := range g.e.labels {
					g.op(fmt.Sprintf("fetch @%d", j+1))
					g.checkFetch(g.e.w, "tamper-meta-"+kind, ref, false)
				}
			}
			g.op("restore")
		} else {
			out := g.op(fmt.Sprintf("fetch @%d", i))
			cl := g.checkFetch(g.e.w, "tamper-blob-"+kind, g.e.labels[i-1], false)
			g.r.Hit("tamper:blob:" + kind + ":fetch-" + cl)
			if cl == "ok" {
				g.r.Fail("tamper-undetected:"+kind, "a modified ciphertext blob was served", "corrupt", out, g.r.CaseOps())
			}
			if v%16 == 0 {
				// again, and a restart does not help either
				g.op(fmt.Sprintf("fetch @%d", i))
				g.checkFetch(g.e.w, "tamper-blob-"+kind, g.e.labels[i-1], false)
				g.restart([]string{"wipe", "keep"}[(v/16)%2], false)
				g.op(fmt.Sprintf("fetch @%d", i))
				cl := g.checkFetch(g.e.w, "tamper-blob-"+kind+"-restarted", g.e.labels[i-1], false)
				g.r.Hit("tamper:blob:" + kind + ":restarted-fetch-" + cl)
			}
			g.op("restore")
			if v%16 == 0 {
				// the original bytes are back: it is served again
				read(i, "refetch-after-swap-back")
			}
		}
		g.r.Distinct(fmt.Sprintf("tamper:%s:%s:%d", tok, kind, v))
	}
	for _, tok := range toks {
		n := length(tok)
		for pos := 0; pos < n; pos += stride {
			for _, m := range masks {
				warm(tok, b2i(pos%32 == 0 && m == masks[0]))
				g.op(fmt.Sprintf("garble %s flip %d", tok, pos*256+m))
				verdict(tok, "flip", pos)
			}
		}
		for l := 0; l < n; l += stride {
			warm(tok, b2i(l%32 == 0))
			g.op(fmt.Sprintf("garble %s trunc %d", tok, l))
			verdict(tok, "trunc", l)
		}
		for _, x := range []int{0, 1, 15, 63} {
			warm(tok, 1)
			g.op(fmt.Sprintf("garble %s extend %d", tok, x))
			verdict(tok, "extend", x)
		}
		warm(tok, 1)
		g.op("drop " + tok)
		verdict(tok, "drop", 0)
	}
	// blob-for-blob substitutions, also across the two stores and between blobs of equal plaintext length:
	// read everything, substitute, read live, restart, read, put the bytes back, read
	readAll := func(why string, must bool) {
		for j, ref := range g.e.labels {
			g.op(fmt.Sprintf("fetch @%d", j+1))
			cl := g.checkFetch(g.e.w, why, ref, must)
			g.r.Hit("warm:" + why + ":" + cl)
		}
	}
	sameLen := func(a, b string) bool {
		return a[0] == 'E' && b[0] == 'E' && sizes[idx(a)-1] == sizes[idx(b)-1]
	}
	round := 0
	subst := func(kind, a, b string) {
		round++
		g.restart("wipe", false) // clean stores: up, full index
		readAll("fetch-before-substitution", true)
		if round%3 == 0 {
			readAll("fetch-before-substitution", true)
			for j := 1; j <= nb; j++ {
				g.op(fmt.Sprintf("stat @%d", j))
			}
			g.op("enum - 0")
		}
		g.op(kind + " " + a + " " + b)
		tag := kind
		if sameLen(a, b) {
			tag += "-equal-length"
			g.r.Hit("warm:substitution-between-equal-length-plaintexts")
		}
		readAll("fetch-after-"+tag+"-live", false)
		readAll("fetch-after-"+tag+"-live", false)
		out := g.restart([]string{"wipe", "keep"}[round%2], false)
		g.r.Hit("tamper:" + kind + ":restart-" + out)
		g.op("dump")
		if out == "ok" {
			readAll("fetch-after-"+tag+"-restarted", false)
		}
		g.op("restore")
		if out == "ok" && a[0] == 'E' && b[0] == 'E' {
			// only ciphertext was touched: index and meta are intact, the bytes are back
			readAll("refetch-after-swap-back", true)
		}
		g.r.Distinct("tamper:" + kind + ":" + a + ":" + b)
	}
	for _, a := range toks {
		for _, b := range toks {
			if a == b {
				continue
			}
			subst("copy", a, b)
			if a < b {
				subst("swap", a, b)
			}
		}
	}
	g.restart("wipe", false)
	g.tampered = false
	g.op("dump")
	g.fetchAll("live")
}

// transient faults of the wrapped stores: a ReceiveBlob of `blobs` or `meta` fails once (the next one, or
// the one after) during a receive or during a compaction; the same upload is retried until it is
// acknowledged; the index is wiped and rebuilt (shadow storage) at every later point: every ACKNOWLEDGED
// blob must be served bit-identically after the rebuild.  A failed receive may or may not have stored
// anything; it must not make a later acknowledged receive unrecoverable.
func (g *gen) faults(rounds int) {
	for c := 0; c < rounds; c++ {
		g.begin("faults")
		var shape []string
		for i := 0; i < 1+g.r.R.Intn(3); i++ {
			g.recv("recv", g.freshData(g.blobSize()%300))
		}
		steps := 4 + g.r.R.Intn(6)
		for i := 0; i < steps; i++ {
			switch k := g.r.R.Intn(10); {
			case k < 6:
				store := []string{"E", "M"}[g.r.R.Intn(2)]
				at := 1 + g.r.R.Intn(2)
				g.op(fmt.Sprintf("fault %s %d", store, at))
				data := g.freshData(10 + g.r.R.Intn(40))
				out := g.recv("recv", data)
				shape = append(shape, store+fmt.Sprint(at))
				tries := 0
				for out == "err" && tries < 4 {
					tries++
					g.r.Hit("fault:receive-failed:" + store)
					g.op("dump")
					g.pointCheck(true)
					if g.r.R.Intn(3) == 0 {
						g.restart([]string{"keep", "wipe"}[g.r.R.Intn(2)], true)
						shape = append(shape, "R")
					}
					out = g.recv("recv", data) // the client retries the same upload
					if strings.HasPrefix(out, "ok") {
						g.r.Hit("fault:retry-acknowledged")
					}
				}
			case k < 8:
				g.recv("recv", g.freshData(10+g.r.R.Intn(40)))
				shape = append(shape, "r")
			case k == 8:
				g.restart([]string{"keep", "wipe"}[g.r.R.Intn(2)], true)
				shape = append(shape, "R")
			default:
				j := g.r.R.Intn(len(g.e.labels))
				g.op(fmt.Sprintf("fetch @%d", j+1))
				g.checkFetch(g.e.w, "live", g.e.labels[j], g.e.acked[g.e.labels[j]])
				shape = append(shape, "f")
			}
			g.op("dump")
			g.pointCheck(true)
		}
		g.op("fault E 0")
		g.op("fault M 0")
		g.op("calls")
		g.restart("wipe", true)
		g.op("dump")
		g.pointCheck(true)
		g.fetchAll("live")
		g.crashPrefixes(1, true)
		g.r.Distinct("faults:" + strings.Join(shape, ""))
	}

	// faults around compaction
	g.begin("faults-compaction")
	many := func(n int) {
		for i := 0; i < n; i++ {
			g.recv("recv", g.freshData(12+g.r.R.Intn(20)))
		}
		g.op("calls")
		g.op("sum")
		g.pointCheck(true)
	}
	retry := func(data []byte, why string) {
		out := g.recv("recv", data)
		for tries := 0; out == "err" && tries < 4; tries++ {
			g.r.Hit("fault:" + why + ":receive-failed")
			g.op("sum")
			g.pointCheck(true)
			out = g.recv("recv", data)
		}
		calls := g.op("calls")
		g.uploadFirst(calls, 0)
		if strings.Contains(calls, "M-") {
			g.r.Hit("fault:" + why + ":compaction-ran")
		} else {
			g.r.Hit("fault:" + why + ":no-compaction")
		}
		g.op("sum")
		g.pointCheck(true)
	}
	many(100)
	// the 101st receive starts the packer; the packer's upload of the packed meta blob fails
	g.op("fault M 2")
	retry(g.freshData(16), "packed-upload-fails")
	// more than SmallMetaCountLimit meta blobs at start-up: the scan's packer fails too, then succeeds
	g.op("fault M 1")
	g.restart("keep", true)
	c1 := g.op("calls")
	g.r.Hit("fault:startup-packed-upload-fails:" + map[bool]string{true: "compaction-ran", false: "no-compaction"}[strings.Contains(c1, "M-")])
	g.op("sum")
	g.pointCheck(true)
	g.restart("wipe", true)
	c2 := g.op("calls")
	g.uploadFirst(c2, 0)
	g.r.Hit("fault:startup-after-fault:" + map[bool]string{true: "compaction-ran", false: "no-compaction"}[strings.Contains(c2, "M-")])
	g.op("sum")
	g.op("dump")
	g.pointCheck(true)
	// the receive that would start the packer fails at its own meta write, then at its blobs write
	many(100 - g.e.w.meta.count())
	g.op("fault M 1")
	retry(g.freshData(16), "trigger-meta-write-fails")
	many(100 - g.e.w.meta.count())
	g.op("fault E 1")
	retry(g.freshData(16), "trigger-blobs-write-fails")
	g.op("fault E 0")
	g.op("fault M 0")
	g.restart("wipe", true)
	g.op("calls")
	g.op("dump")
	g.pointCheck(true)
	g.fetchAll("live")
	g.crashPrefixes(2, true)
	g.r.Distinct("faults-compaction")
}

// cancelledUpload (harness-only, no protocol ops): upload A hangs in the wrapped blobs store, which has
// not started reading the ciphertext; A's context is cancelled; upload B is received meanwhile and the
// stuck write completes while B's body has just been read.  Then everything handed to the wrapped stores
// is scanned as usual, and whatever was acknowledged must be served exactly.
func (g *gen) cancelledUpload() {
	g.begin("cancelled-upload")
	defer runtime.GOMAXPROCS(runtime.GOMAXPROCS(1)) // one P: the per-P caches of sync.Pool are deterministic
	e := g.e
	if e.w == nil {
		return
	}
	dataA := bytes.Repeat([]byte("public filler "), 200)
	dataB := append([]byte("TOP-SECRET plaintext of blob B "), g.r.R.Bytes(40)...)
	brA, brB := blob.RefFromBytes(dataA), blob.RefFromBytes(dataB)
	e.plain[brA.String()], e.plain[brB.String()] = dataA, dataB
	e.labels = append(e.labels, brA.String(), brB.String())
	st := &stallCtl{make(chan struct{}), make(chan struct{}), make(chan struct{})}
	e.w.blobs.mu.Lock()
	e.w.blobs.stall = st
	e.w.blobs.mu.Unlock()
	ctxA, cancelA := context.WithCancel(ctxbg)
	defer cancelA()
	doneA := make(chan error, 1)
	go func() {
		_, err := e.w.sto.ReceiveBlob(ctxA, brA, bytes.NewReader(dataA))
		doneA <- err
	}()
	select {
	case <-st.entered:
	case <-time.After(10 * time.Second):
		g.r.Fail("impl-hang", "upload A never reached the wrapped blobs store", "", "", nil)
		close(st.release)
		return
	}
	cancelA()
	aReturned, aErr := false, error(nil)
	select {
	case aErr = <-doneA:
		aReturned = true
		g.r.Hit("cancel:upload-returned-on-cancel")
	case <-time.After(150 * time.Millisecond):
		g.r.Hit("cancel:upload-waits-for-wrapped-store")
	}
	released := false
	srcB := &eofHook{r: bytes.NewReader(dataB), atEOF: func() {
		released = true
		close(st.release)
		<-st.done
	}}
	_, errB := e.w.sto.ReceiveBlob(ctxbg, brB, srcB)
	if !released {
		close(st.release)
	}
	if !aReturned {
		aErr = <-doneA
	}
	e.w.quiesce()
	g.r.ImplOnly("cancelled-upload")
	if aErr == nil {
		e.acked[brA.String()] = true
	}
	if errB == nil {
		e.acked[brB.String()] = true
	} else {
		g.r.Fail("cancel:second-upload-fails", "upload B failed after upload A was cancelled", "ok", errB.Error(), nil)
	}
	g.leakScan()
	for _, ref := range []string{brA.String(), brB.String()} {
		g.checkFetch(e.w, "cancelled-upload", ref, e.acked[ref])
	}
	g.recoverCheck("cancelled-upload", e.w.blobs.snapshot(), e.w.meta.snapshot(), g.liveRows(), g.ackedRefs())
	g.r.Distinct("cancelled-upload")
}

// eofHook yields data, then calls atEOF once before reporting io.EOF.
type eofHook struct {
	r     io.Reader
	atEOF func()
}

func (s *eofHook) Read(p []byte) (int, error) {
	n, err := s.r.Read(p)
	if err == io.EOF && s.atEOF != nil {
		f := s.atEOF
		s.atEOF = nil
		f()
	}
	return n, err
}

// duplicates: the SAME plaintext blob gets two small meta blobs - by two overlapping uploads of it (both
// pass the duplicate check; a barrier in the wrapped blobs store), or by a retry after its index.Set
// failed - then more than SmallMetaCountLimit receives (compaction packs both lines), then a restart with
// a wiped index: the store must open and serve every acknowledged blob.
func (g *gen) duplicates(how string) {
	g.begin("duplicates-" + how)
	for i := 0; i < 2+g.r.R.Intn(3); i++ {
		g.recv("recv", g.freshData(12+g.r.R.Intn(20)))
	}
	dup := g.freshData(20 + g.r.R.Intn(20))
	ref := blob.RefFromBytes(dup).String()
	ack := func(out string) {
		if strings.Contains(out, "ok") {
			if _, ok := g.ackAt[ref]; !ok {
				g.ackAt[ref] = g.e.w.numCalls()
			}
		}
	}
	switch how {
	case "overlap":
		out := g.op("recvover " + hk.Hex(dup))
		ack(out)
		g.r.Hit("duplicates:overlapping-uploads:" + strings.ReplaceAll(out, " ", "_"))
		// once more, now that the index has the row: both are duplicates
		g.op("recvover " + hk.Hex(dup))
	case "index-set-fails":
		g.op("fault I 1")
		out := g.recv("recv", dup)
		g.r.Hit("duplicates:index-set-fails:" + strings.Fields(out)[0])
		g.op("dump")
		g.pointCheck(true)
		out = g.recv("recv", dup)
		ack(out)
		g.r.Hit("duplicates:retry-after-index-set-failed:" + strings.Fields(out)[0])
	}
	g.op("dump")
	twoLines := strings.Count(g.e.dump(), g.e.labelOf(ref)+"/") >= 2
	g.r.Hit(fmt.Sprintf("duplicates:two-meta-blobs-for-one-blob=%v", twoLines))
	g.pointCheck(true)
	g.restart("wipe", true)
	g.op("dump")
	g.pointCheck(true)
	// enough further receives for a compaction that packs both lines
	compacted := false
	for i := 0; i < 140 && !compacted; i++ {
		g.recv("recv", g.freshData(12+g.r.R.Intn(20)))
		calls := g.op("calls")
		g.uploadFirst(calls, 2)
		if strings.Contains(calls, "M-") {
			compacted = true
			g.r.Hit("duplicates:compaction-packs-both-lines")
		}
		if i%20 == 0 {
			g.pointCheck(true)
		} else {
			g.leakScan()
		}
	}
	g.op("sum")
	g.op("dump")
	g.pointCheck(true)
	out := g.restart([]string{"wipe", "keep"}[g.r.R.Intn(2)], true)
	g.r.Hit("duplicates:restart-after-compaction:" + out)
	g.op("sum")
	g.op("fetch @" + fmt.Sprint(len(g.e.labels)))
	for i, l := range g.e.labels {
		if l == ref {
			g.op(fmt.Sprintf("fetch @%d", i+1))
			g.checkFetch(g.e.w, "duplicates", ref, true)
			break
		}
	}
	g.restart("wipe", true)
	g.pointCheck(true)
	g.fetchAll("live")
	g.crashPrefixes(5, false)
	g.r.Distinct("duplicates:" + how)
}

// keepRestart: a restart that KEEPS the meta index (an on-disk index survives an ordinary restart) at a
// chosen point of a history - before the first compaction, right after one, between two - then receives
// until the next compaction, then the index is lost: wiped-index rebuild with the usual oracle.
func (g *gen) keepRestart(before int, again bool) {
	g.begin(fmt.Sprintf("keep-restart-%d", before))
	compactions := 0
	recvUntil := func(n int, stopAtCompaction bool) {
		for i := 0; i < n; i++ {
			g.recv("recv", g.freshData(12+g.r.R.Intn(24)))
			calls := g.op("calls")
			g.uploadFirst(calls, 2)
			if strings.Contains(calls, "M-") {
				compactions++
				g.r.Hit("keep:compaction-after-kept-index-restart")
				g.op("sum")
				g.pointCheck(true)
				if stopAtCompaction {
					return
				}
			} else if i%15 == 0 {
				g.pointCheck(true)
			} else {
				g.leakScan()
			}
		}
	}
	recvUntil(before, false)
	g.op("dump")
	g.pointCheck(true)
	metas := g.e.w.meta.count()
	out := g.restart("keep", true)
	g.r.Hit(fmt.Sprintf("keep:restart-keep(after-%d-compactions):%s", compactions, out))
	g.op("calls")
	g.op("sum")
	g.pointCheck(true)
	// on to the next compaction (the heap now holds every meta blob the scan met)
	recvUntil(130, true)
	if again {
		g.restart("keep", true)
		g.op("calls")
		g.pointCheck(true)
		recvUntil(130, true)
	}
	g.op("dump")
	// the index is lost
	out = g.restart("wipe", true)
	g.r.Hit("keep:wipe-after-compaction:" + out)
	g.op("dump")
	g.pointCheck(true)
	g.fetchAll("live")
	for i := 0; i < 25; i++ {
		j := g.r.R.Intn(len(g.e.labels))
		g.op(fmt.Sprintf("fetch @%d", j+1))
		g.checkFetch(g.e.w, "live", g.e.labels[j], true)
	}
	g.crashPrefixes(4, false)
	g.r.Distinct(fmt.Sprintf("keep-restart:%d:%d:%v", before, metas, again))
}

// malformed op lines: both sides must refuse them the same way
func (g *gen) malformed() {
	g.begin("malformed")
	g.recv("recv", []byte("some blob content"))
	for _, l := range []string{
		"recv", "recv zz", "recv E9", "recv @7", "recvas @1", "fetch", "fetch @0", "fetch @2", "fetch 0G", "stat @1 @1",
		"enum - x", "enum @5 1", "garble E1 flop 3", "garble E1 flip x", "garble E4 flip 3", "garble Q1 flip 3",
		"copy E1", "copy E1 M9", "swap M0 E1", "drop", "drop E7", "plant X E1", "plant M E5", "restore",
		"fault", "fault E", "fault X 1", "fault I", "recvover", "recvover zz", "fault M -1", "fault M 1 1", "restart maybe M1", "restart wipe M2", "restart wipe -", "restart wipe M1,M1", "dump 1", "frobnicate", "calls x", "sum x", "snap x",
	} {
		g.op(l)
	}
	g.op("dump")
	g.r.Distinct("malformed")
}

// Run is the generator.
func Run(r *hk.Run) {
	defer Cleanup()
	g := &gen{r: r}
	defer func() {
		if g.e != nil {
			g.e.close()
		}
	}()
	r.Res.Rule = "distinct = (family, shape): small histories by op-kind sequence; every crash prefix of a call log; every (blob, tamper kind, position); every ordered pair of a substitution; every lookalike variant with its outcome; each compaction history by length"
	t0 := time.Now()
	lap := func(name string) {
		r.Note(fmt.Sprintf("family %s: %.1fs", name, time.Since(t0).Seconds()))
		t0 = time.Now()
	}
	type family struct {
		name string
		run  func()
	}
	th := r.Thorough()
	pick := func(q, t int) int {
		if th {
			return t
		}
		return q
	}
	fams := []family{
		{"lookalikes+malformed", func() { g.lookalikes(); g.malformed() }},
		{"keep-restart", func() {
			g.keepRestart(60, false)  // before the first compaction
			g.keepRestart(101, false) // right after the first compaction
			g.keepRestart(150, true)  // between compactions, and again
			if th {
				g.keepRestart(30, true)
				g.keepRestart(101, true)
				g.keepRestart(215, false)
			}
		}},
		{"faults", func() { g.faults(pick(6, 30)) }},
		{"cancelled-upload", g.cancelledUpload},
		{"duplicates", func() { g.duplicates("overlap"); g.duplicates("index-set-fails") }},
		{"tamper-matrix", func() { g.tamperMatrix([]int{1, 0x80, 0}[:pick(2, 3)], 1) }},
		{"small", func() { g.smallHistories(pick(12, 60)) }},
		{"compaction", func() { g.compaction(pick(230, 460), true, "compaction") }},
		{"crash-prefixes", func() { g.crashPrefixes(1, true) }},
	}
	if th {
		fams = append(fams,
			family{"compaction-b", func() { g.compaction(230, false, "compaction-b"); g.crashPrefixes(3, false) }},
			family{"big", func() { g.big(1600) }},
			family{"full-threshold", func() {
				g.fullThreshold(9950, "full-threshold-over")
				g.fullThreshold(9898, "full-threshold-exact")
			}})
	}
	func() {
		defer func() {
			if x := recover(); x != nil {
				if a, ok := x.(abortRun); ok {
					r.Note("run aborted: " + a.why)
					return
				}
				panic(x)
			}
		}()
		for _, f := range fams {
			if len(r.Res.Failures) > 0 {
				// the verdict is settled; what follows could only run into the same defect in worse ways
				// (a panic in one of the store's goroutines would take the evidence with it)
				r.Note("stopped before family " + f.name + ": an oracle failure is already recorded")
				break
			}
			f.run()
			lap(f.name)
		}
	}()
	r.Note("secrecy proper (that `0x02 || age(...)` reveals nothing about the plaintext) and the integrity of age/X25519/ChaCha20-Poly1305 are assumed, not checked; the oracle searches the stored bytes and names for plaintext material and tries every listed modification")
}

// big: a long untampered history (thorough only): the packed meta blob grows over many compactions
func (g *gen) big(n int) {
	g.begin("big")
	for i := 1; i <= n; i++ {
		g.recv("recv", g.freshData(12))
		calls := g.op("calls")
		g.uploadFirst(calls, 2)
		if strings.Contains(calls, "M-") {
			g.r.Hit("compaction:during-receive")
			g.op("sum")
		}
		g.leakScan()
		if i%250 == 0 {
			g.pointCheck(true)
		}
	}
	g.op("sum")
	g.restart("wipe", true)
	g.op("calls")
	g.op("sum")
	g.pointCheck(true)
	for i := 0; i < 50; i++ {
		j := g.r.R.Intn(len(g.e.labels))
		g.op(fmt.Sprintf("fetch @%d", j+1))
		g.checkFetch(g.e.w, "live", g.e.labels[j], true)
	}
	g.crashPrefixes(7, false)
	g.r.Distinct(fmt.Sprintf("big:%d", n))
}

// fullThreshold drives recordMeta / makePackedMetaBlob across FullMetaBlobSize lines without ten thousand
// receives: a data blob whose plaintext is a meta blob of `lines` lines is received and its ciphertext
// planted in the meta store (tampering, so only the fetch and leak oracles apply); after a restart the heap
// holds an entry of that many lines and the next compaction packs past (or exactly to) the threshold.
func (g *gen) fullThreshold(lines int, label string) {
	g.begin(label)
	g.recv("recv", g.freshData(20))
	var sb strings.Builder
	sb.WriteString(metaHeader)
	// (lines in descending ref order: the model's index is a sorted list, which this order fills cheaply)
	ghosts := make([]string, lines)
	for i := range ghosts {
		p := blob.RefFromBytes([]byte(fmt.Sprintf("ghost plain %d", i))).String()
		c := blob.RefFromBytes([]byte(fmt.Sprintf("ghost cipher %d", i))).String()
		ghosts[i] = fmt.Sprintf("%s/%d/%s\n", p, i%1000, c)
	}
	sort.Sort(sort.Reverse(sort.StringSlice(ghosts)))
	for _, l := range ghosts {
		sb.WriteString(l)
	}
	g.op("recv " + hk.Hex([]byte(sb.String())))
	g.op("plant M E2")
	g.tampered = true
	g.restart("wipe", false)
	g.op("calls")
	g.op("sum")
	for i := 0; i < 215; i++ {
		g.recv("recv", g.freshData(14))
		calls := g.op("calls")
		g.uploadFirst(calls, 2)
		if strings.Contains(calls, "M-") {
			g.r.Hit("compaction:across-full-threshold")
			g.op("sum")
		}
		if i == 214 {
			// the scan meets a meta blob of >= FullMetaBlobSize lines
			g.restart("keep", true)
			g.op("calls")
			g.op("sum")
		}
	}
	g.leakScan()
	for i := 0; i < 40; i++ {
		j := g.r.R.Intn(len(g.e.labels))
		if j == 1 {
			continue
		}
		g.op(fmt.Sprintf("fetch @%d", j+1))
		g.checkFetch(g.e.w, "full-threshold", g.e.labels[j], true)
	}
	g.r.Distinct(fmt.Sprintf("%s:%d", label, lines))
}
