package c11

// exec.go: the interpreter of the C11 line protocol on the real encrypt storage (see
// lean/PkVerif/Drv/C11.lean for the protocol).  Nothing here depends on the model.

import (
	"bytes"
	"errors"
	"fmt"
	"io"
	"os"
	"sort"
	"strconv"
	"strings"
	"sync/atomic"
	"time"

	"perkeep.org/pkg/blob"
	"perkeep.org/pkg/blobserver"

	"verifharness/hk"
)

type exec struct {
	w         *world
	up        bool
	labels    []string          // @n -> ref text
	plain     map[string][]byte // ref text -> the bytes received under it (first time)
	acked     map[string]bool   // ref text -> a receive of it was acknowledged
	callsSeen int
	savedB    map[string][]byte
	savedM    map[string][]byte
	decCache  map[string]decRes
	broken    string // set when the world could not be built
}

type decRes struct {
	plain []byte
	err   bool
}

func newExecState() *exec {
	e := &exec{plain: map[string][]byte{}, acked: map[string]bool{}, decCache: map[string]decRes{}}
	w, err := newWorld()
	if err != nil {
		e.broken = err.Error()
		return e
	}
	e.w, e.up = w, true
	return e
}

func (e *exec) close() {
	if e.w != nil {
		e.w.close()
	}
}

// NewExec returns a fresh interpreter (used by -replay).
func NewExec() func(words []string) string {
	e := newExecState()
	return func(ws []string) string { return e.do(ws) }
}

// ---- tokens and canonical views ----------------------------------------------------------------------

func parseTok(pre byte, w string) (int, bool) {
	if len(w) < 2 || w[0] != pre {
		return 0, false
	}
	for _, c := range w[1:] {
		if c < '0' || c > '9' {
			return 0, false
		}
	}
	n, err := strconv.Atoi(w[1:])
	if err != nil || n < 1 {
		return 0, false
	}
	return n - 1, true
}

type loc struct {
	st   *rawStore
	name string
}

func (e *exec) parseLoc(w string) (loc, bool) {
	if i, ok := parseTok('E', w); ok {
		if n, ok := e.w.blobs.nameAt(i); ok {
			return loc{e.w.blobs, n}, true
		}
		return loc{}, false
	}
	if i, ok := parseTok('M', w); ok {
		if n, ok := e.w.meta.nameAt(i); ok {
			return loc{e.w.meta, n}, true
		}
	}
	return loc{}, false
}

func (e *exec) refArg(w string) (string, bool) {
	if i, ok := parseTok('@', w); ok {
		if i < len(e.labels) {
			return e.labels[i], true
		}
		return "", false
	}
	if strings.HasPrefix(w, "@") {
		return "", false
	}
	b, ok := hk.UnHex(w)
	return string(b), ok
}

func (e *exec) segs(ws []string) ([]byte, bool) {
	var out []byte
	for _, w := range ws {
		if i, ok := parseTok('E', w); ok {
			n, ok := e.w.blobs.nameAt(i)
			if !ok {
				return nil, false
			}
			out = append(out, n...)
			continue
		}
		if i, ok := parseTok('@', w); ok {
			if i >= len(e.labels) {
				return nil, false
			}
			out = append(out, e.labels[i]...)
			continue
		}
		if strings.HasPrefix(w, "E") || strings.HasPrefix(w, "@") {
			return nil, false
		}
		b, ok := hk.UnHex(w)
		if !ok {
			return nil, false
		}
		out = append(out, b...)
	}
	return out, true
}

func (e *exec) labelOf(ref string) string {
	for i, l := range e.labels {
		if l == ref {
			return fmt.Sprintf("@%d", i+1)
		}
	}
	return hk.Hex([]byte(ref))
}

func isWord(b string) bool {
	if b == "" {
		return false
	}
	for i := 0; i < len(b); i++ {
		c := b[i]
		if !((c >= '0' && c <= '9') || (c >= 'a' && c <= 'z') || c == '-') {
			return false
		}
	}
	return true
}

func wordOrHex(b string) string {
	if isWord(b) {
		return b
	}
	return "x" + hk.Hex([]byte(b))
}

func (e *exec) canonVal(v string) string {
	parts := strings.Split(v, "/")
	if len(parts) != 2 {
		return "x" + hk.Hex([]byte(v))
	}
	tail := wordOrHex(parts[1])
	if n, ok := e.w.blobs.tokenNum(parts[1]); ok {
		tail = fmt.Sprintf("E%d", n)
	}
	return wordOrHex(parts[0]) + "/" + tail
}

func (e *exec) dec(c []byte) decRes {
	k := string(c)
	if r, ok := e.decCache[k]; ok {
		return r
	}
	p, err := decrypt(c)
	r := decRes{p, err != nil}
	if len(e.decCache) > 50000 {
		e.decCache = map[string]decRes{}
	}
	e.decCache[k] = r
	return r
}

// parseMetaText is the harness' own reading of a decrypted meta blob: header line, then
// newline-terminated lines `plain/size/enc` with a known plain ref.
func parseMetaText(text []byte) ([][2]string, bool) {
	parts := strings.Split(string(text), "\n")
	if len(parts) < 2 || parts[0]+"\n" != metaHeader || parts[len(parts)-1] != "" {
		return nil, false
	}
	var out [][2]string
	for _, l := range parts[1 : len(parts)-1] {
		f := strings.Split(l, "/")
		if len(f) != 3 {
			return nil, false
		}
		if _, ok := blob.ParseKnown(f[0]); !ok {
			return nil, false
		}
		out = append(out, [2]string{f[0], f[1] + "/" + f[2]})
	}
	return out, true
}

func (e *exec) showMetaBlob(c []byte) string {
	d := e.dec(c)
	if d.err {
		return "!"
	}
	ls, ok := parseMetaText(d.plain)
	if !ok {
		return "?"
	}
	var out []string
	for _, pv := range ls {
		out = append(out, e.labelOf(pv[0])+"/"+e.canonVal(pv[1]))
	}
	sort.Strings(out)
	return strings.Join(out, ";")
}

func (e *exec) showDataBlob(c []byte) string {
	d := e.dec(c)
	if d.err {
		return "!"
	}
	ref := blob.RefFromBytes(d.plain).String()
	for i, l := range e.labels {
		if l == ref {
			return fmt.Sprintf("@%d", i+1)
		}
	}
	if _, ok := parseMetaText(d.plain); ok {
		return "~"
	}
	return "?"
}

func b2i(b bool) int {
	if b {
		return 1
	}
	return 0
}

func (e *exec) dump() string {
	var idx []string
	for _, kv := range e.w.kv.rows() {
		idx = append(idx, e.labelOf(kv[0])+"="+e.canonVal(kv[1]))
	}
	sort.Strings(idx)
	var metas, blobs []string
	mNames, mM := e.w.meta.view()
	bNames, bM := e.w.blobs.view()
	for i, n := range mNames {
		if c, ok := mM[n]; ok {
			metas = append(metas, fmt.Sprintf("M%d{%s}", i+1, e.showMetaBlob(c)))
		}
	}
	for i, n := range bNames {
		if c, ok := bM[n]; ok {
			blobs = append(blobs, fmt.Sprintf("E%d>%s", i+1, e.showDataBlob(c)))
		}
	}
	return fmt.Sprintf("up=%d idx=[%s] meta=[%s] blobs=[%s]", b2i(e.up), strings.Join(idx, ","),
		strings.Join(metas, ","), strings.Join(blobs, ","))
}

func (e *exec) summary() string {
	var counts []int
	_, mM := e.w.meta.view()
	for _, c := range mM {
		n := 0
		if d := e.dec(c); !d.err {
			if ls, ok := parseMetaText(d.plain); ok {
				n = len(ls)
			}
		}
		counts = append(counts, n)
	}
	sort.Ints(counts)
	cs := make([]string, len(counts))
	for i, c := range counts {
		cs[i] = strconv.Itoa(c)
	}
	return fmt.Sprintf("up=%d idx=%d meta=%d lines=[%s] blobs=%d", b2i(e.up), len(e.w.kv.rows()), len(mM),
		strings.Join(cs, ","), e.w.blobs.count())
}

func (e *exec) showCall(c call) string {
	st := e.w.blobs
	if c.store == "M" {
		st = e.w.meta
	}
	toks := make([]string, len(c.names))
	for i, n := range c.names {
		toks[i] = st.Tok(n)
	}
	if c.put {
		return c.store + "+" + toks[0]
	}
	return c.store + "-" + strings.Join(toks, ",")
}

func (e *exec) callsOp() string {
	e.w.callsMu.Lock()
	fresh := append([]call(nil), e.w.calls[e.callsSeen:]...)
	e.callsSeen = len(e.w.calls)
	e.w.callsMu.Unlock()
	if len(fresh) == 0 {
		return "-"
	}
	out := make([]string, len(fresh))
	for i, c := range fresh {
		out[i] = e.showCall(c)
	}
	return strings.Join(out, " ")
}

// call runs f (a call into the store) on a goroutine of its own that the index holds never block, and
// gives up after callTimeout: the answer is then "hang" and the goroutine is abandoned.
func (e *exec) call(f func() string) string {
	done := make(chan string, 1)
	kv := e.w.kv
	go func() {
		kv.exemptMe()
		done <- hk.Guard(f)
	}()
	select {
	case out := <-done:
		return out
	case <-time.After(callTimeout):
		return "hang"
	}
}

// ---- API ops ----------------------------------------------------------------------------------------

func classify(err error) string {
	switch {
	case err == os.ErrNotExist:
		return "notexist"
	case err == blobserver.ErrCorruptBlob:
		return "corrupt"
	}
	return "err"
}

func (e *exec) recv(late bool, ref string, data []byte) string {
	e.labels = append(e.labels, ref)
	if _, ok := e.plain[ref]; !ok && blob.RefFromBytes(data).String() == ref {
		e.plain[ref] = data
	}
	if !e.up {
		return "down"
	}
	br, ok := blob.Parse(ref)
	if !ok {
		return "badref"
	}
	var n atomic.Int32
	e.w.meta.mu.Lock()
	e.w.meta.onRecv = func() {
		if n.Add(1) == 1 {
			e.w.kv.metaWritten(late)
		}
	}
	e.w.meta.mu.Unlock()
	out := e.call(func() string {
		sb, err := e.w.sto.ReceiveBlob(ctxbg, br, bytes.NewReader(data))
		if err != nil {
			return classify(err)
		}
		if sb.Ref != br {
			return "err"
		}
		return fmt.Sprintf("ok %d", sb.Size)
	})
	e.w.kv.release()
	e.w.kv.clearExempt()
	if out == "hang" {
		return out
	}
	e.w.meta.mu.Lock()
	e.w.meta.onRecv = nil
	e.w.meta.mu.Unlock()
	if !e.w.quiesce() {
		return "hang"
	}
	if strings.HasPrefix(out, "ok") {
		e.acked[ref] = true
	}
	return out
}

// recvOver: two overlapping ReceiveBlob calls of the same blob. A passes the duplicate check and hangs
// in the wrapped blobs store (which has not read its source yet); B runs from start to end; A resumes.
func (e *exec) recvOver(ref string, data []byte) string {
	e.labels = append(e.labels, ref)
	if _, ok := e.plain[ref]; !ok {
		e.plain[ref] = data
	}
	if !e.up {
		return "down"
	}
	br, ok := blob.Parse(ref)
	if !ok {
		return "badref"
	}
	var n atomic.Int32
	e.w.meta.mu.Lock()
	e.w.meta.onRecv = func() {
		if n.Add(1) == 1 {
			e.w.kv.metaWritten(false)
		}
	}
	e.w.meta.mu.Unlock()
	one := func() string {
		e.w.kv.exemptMe()
		return hk.Guard(func() string {
			sb, err := e.w.sto.ReceiveBlob(ctxbg, br, bytes.NewReader(data))
			if err != nil {
				return classify(err)
			}
			if sb.Ref != br {
				return "err"
			}
			return fmt.Sprintf("ok %d", sb.Size)
		})
	}
	bounded := func(c chan string) string {
		select {
		case out := <-c:
			return out
		case <-time.After(callTimeout):
			return "hang"
		}
	}
	oneB := func() string {
		c := make(chan string, 1)
		go func() { c <- one() }()
		return bounded(c)
	}
	st := &stallCtl{make(chan struct{}), make(chan struct{}), make(chan struct{})}
	e.w.blobs.mu.Lock()
	e.w.blobs.stall = st
	e.w.blobs.mu.Unlock()
	doneA := make(chan string, 1)
	go func() { doneA <- one() }()
	var outA, outB string
	select {
	case outA = <-doneA:
		// A did not reach the wrapped store (a duplicate): nothing overlaps
		e.w.blobs.mu.Lock()
		e.w.blobs.stall = nil
		e.w.blobs.mu.Unlock()
		outB = oneB()
	case <-st.entered:
		outB = oneB()
		e.w.kv.release()
		if !e.w.quiesceBut(1) {
			outB = "hang"
		}
		n.Store(0)
		close(st.release)
		outA = bounded(doneA)
	case <-time.After(callTimeout):
		outA, outB = "hang", "hang"
	}
	e.w.kv.release()
	e.w.kv.clearExempt()
	if outA == "hang" || outB == "hang" {
		return "hang"
	}
	e.w.meta.mu.Lock()
	e.w.meta.onRecv = nil
	e.w.meta.mu.Unlock()
	if !e.w.quiesce() {
		return "hang"
	}
	if strings.HasPrefix(outA, "ok") || strings.HasPrefix(outB, "ok") {
		e.acked[ref] = true
	}
	return outA + " " + outB
}

// fetchRaw fetches through sto: (bytes, size, class).
func fetchRaw(sto blobserver.Storage, ref string) ([]byte, uint32, string) {
	br, ok := blob.Parse(ref)
	if !ok {
		return nil, 0, "badref"
	}
	var data []byte
	var size uint32
	cl := boundedGuard(func() string {
		rc, sz, err := sto.Fetch(ctxbg, br)
		if err != nil {
			return classify(err)
		}
		defer rc.Close()
		b, err := io.ReadAll(rc)
		if err != nil {
			return "err"
		}
		data, size = b, sz
		return "ok"
	})
	return data, size, cl
}

// boundedGuard is hk.Guard with the call timeout (the goroutine is abandoned on a stall).
func boundedGuard(f func() string) string {
	done := make(chan string, 1)
	go func() { done <- hk.Guard(f) }()
	select {
	case out := <-done:
		return out
	case <-time.After(callTimeout):
		return "hang"
	}
}

func (e *exec) fetch(ref string) string {
	if !e.up {
		return "down"
	}
	data, size, cl := fetchRaw(e.w.sto, ref)
	if cl != "ok" {
		return cl
	}
	return fmt.Sprintf("ok %s %d", e.labelOf(blob.RefFromBytes(data).String()), size)
}

func (e *exec) stat(ref string) string {
	if !e.up {
		return "down"
	}
	br, ok := blob.Parse(ref)
	if !ok {
		return "badref"
	}
	return boundedGuard(func() string {
		out := "notexist"
		err := e.w.sto.StatBlobs(ctxbg, []blob.Ref{br}, func(sb blob.SizedRef) error {
			out = fmt.Sprintf("ok %d", sb.Size)
			return nil
		})
		if err != nil {
			return "err"
		}
		return out
	})
}

func (e *exec) enum(after string, limit int) string {
	if !e.up {
		return "down"
	}
	return boundedGuard(func() string {
		ch := make(chan blob.SizedRef, 16)
		errc := make(chan error, 1)
		go func() { errc <- e.w.sto.EnumerateBlobs(ctxbg, ch, after, limit) }()
		var out []string
		for sb := range ch {
			out = append(out, fmt.Sprintf("%s:%d", e.labelOf(sb.Ref.String()), sb.Size))
		}
		if err := <-errc; err != nil {
			return "err"
		}
		if len(out) == 0 {
			return "refs -"
		}
		return "refs " + strings.Join(out, ",")
	})
}

// ---- tampering --------------------------------------------------------------------------------------

// garbled returns c after the modification (kind, v); it always differs from c.
//
//	flip:   v = pos*256 + mask (mask 0 = 0xff), pos taken modulo len
//	trunc:  v = new length, taken modulo len (so it is shorter)
//	extend: v+1 bytes are appended
func garbled(c []byte, kind string, v int) []byte {
	out := append([]byte(nil), c...)
	switch kind {
	case "flip":
		if len(out) == 0 {
			return []byte{1}
		}
		pos, mask := (v/256)%len(out), byte(v%256)
		if mask == 0 {
			mask = 0xff
		}
		out[pos] ^= mask
	case "trunc":
		if len(out) == 0 {
			return []byte{1}
		}
		out = out[:v%len(out)]
	case "extend":
		for i := 0; i <= v%64; i++ {
			out = append(out, byte(v+i))
		}
	}
	return out
}

func (l loc) get() ([]byte, bool) {
	l.st.mu.Lock()
	defer l.st.mu.Unlock()
	c, ok := l.st.m[l.name]
	return c, ok
}

func (l loc) set(c []byte) {
	l.st.mu.Lock()
	defer l.st.mu.Unlock()
	l.st.m[l.name] = c
}

func (e *exec) restart(mode, order string) string {
	var names []string
	if order != "-" {
		for _, t := range strings.Split(order, ",") {
			i, ok := parseTok('M', t)
			n, ok2 := e.w.meta.nameAt(i)
			if !ok || !ok2 {
				return "bad-op"
			}
			names = append(names, n)
		}
	} else {
		names = []string{}
	}
	// the arrival order must list every meta blob present exactly once, and be one the scan can
	// produce: at most 5 fetches are in flight, started in enumeration order
	remaining := e.w.meta.SortedNames()
	if len(names) != len(remaining) {
		return "bad-op"
	}
	for _, n := range names {
		at := -1
		for i := 0; i < len(remaining) && i < 5; i++ {
			if remaining[i] == n {
				at = i
			}
		}
		if at < 0 {
			return "bad-op"
		}
		remaining = append(remaining[:at:at], remaining[at+1:]...)
	}
	if mode == "wipe" {
		e.w.freshKV()
	}
	err := e.w.start(names)
	e.up = err == nil
	if err != nil {
		if errors.Is(err, errHang) {
			return "hang"
		}
		return "err"
	}
	return "ok"
}

func (e *exec) do(ws []string) string {
	if e.broken != "" {
		return "broken " + e.broken
	}
	if len(ws) == 0 {
		return "bad-op"
	}
	switch ws[0] {
	case "recv", "recvlate":
		if len(ws) < 2 {
			return "bad-op"
		}
		b, ok := e.segs(ws[1:])
		if !ok {
			return "bad-op"
		}
		return e.recv(ws[0] == "recvlate", blob.RefFromBytes(b).String(), b)
	case "recvover":
		if len(ws) < 2 {
			return "bad-op"
		}
		b, ok := e.segs(ws[1:])
		if !ok {
			return "bad-op"
		}
		return e.recvOver(blob.RefFromBytes(b).String(), b)
	case "recvas":
		if len(ws) < 3 {
			return "bad-op"
		}
		ref, ok1 := e.refArg(ws[1])
		b, ok2 := e.segs(ws[2:])
		if !ok1 || !ok2 {
			return "bad-op"
		}
		return e.recv(false, ref, b)
	case "fetch", "stat":
		if len(ws) != 2 {
			return "bad-op"
		}
		ref, ok := e.refArg(ws[1])
		if !ok {
			return "bad-op"
		}
		if ws[0] == "fetch" {
			return e.fetch(ref)
		}
		return e.stat(ref)
	case "enum":
		if len(ws) != 3 {
			return "bad-op"
		}
		after, ok := e.refArg(ws[1])
		limit, err := strconv.Atoi(ws[2])
		if !ok || err != nil || limit < 0 || !allDigits(ws[2]) {
			return "bad-op"
		}
		return e.enum(after, limit)
	case "dump":
		if len(ws) != 1 {
			return "bad-op"
		}
		return e.dump()
	case "sum":
		if len(ws) != 1 {
			return "bad-op"
		}
		return e.summary()
	case "calls":
		if len(ws) != 1 {
			return "bad-op"
		}
		return e.callsOp()
	case "garble":
		if len(ws) != 4 || !(ws[2] == "flip" || ws[2] == "trunc" || ws[2] == "extend") || !allDigits(ws[3]) {
			return "bad-op"
		}
		v, err := strconv.Atoi(ws[3])
		l, ok := e.parseLoc(ws[1])
		if err != nil || !ok {
			return "bad-op"
		}
		c, ok := l.get()
		if !ok {
			return "noblob"
		}
		l.set(garbled(c, ws[2], v))
		return "ok"
	case "copy", "swap":
		if len(ws) != 3 {
			return "bad-op"
		}
		la, ok1 := e.parseLoc(ws[1])
		lb, ok2 := e.parseLoc(ws[2])
		if !ok1 || !ok2 {
			return "bad-op"
		}
		ca, ok1 := la.get()
		cb, ok2 := lb.get()
		if !ok1 || !ok2 {
			return "noblob"
		}
		la.set(cb)
		if ws[0] == "swap" {
			lb.set(ca)
		}
		return "ok"
	case "drop":
		if len(ws) != 2 {
			return "bad-op"
		}
		l, ok := e.parseLoc(ws[1])
		if !ok {
			return "bad-op"
		}
		if _, ok := l.get(); !ok {
			return "noblob"
		}
		l.st.mu.Lock()
		delete(l.st.m, l.name)
		l.st.mu.Unlock()
		return "ok"
	case "plant":
		if len(ws) != 3 || !(ws[1] == "M" || ws[1] == "E") {
			return "bad-op"
		}
		l, ok := e.parseLoc(ws[2])
		if !ok {
			return "bad-op"
		}
		c, ok := l.get()
		if !ok {
			return "noblob"
		}
		dst := e.w.blobs
		if ws[1] == "M" {
			dst = e.w.meta
		}
		dst.plant(blob.RefFromBytes(c).String(), c)
		return "ok"
	case "fault":
		if len(ws) != 3 || !(ws[1] == "E" || ws[1] == "M" || ws[1] == "I") || !allDigits(ws[2]) {
			return "bad-op"
		}
		k, err := strconv.Atoi(ws[2])
		if err != nil {
			return "bad-op"
		}
		if ws[1] == "I" {
			e.w.kv.mu.Lock()
			e.w.kv.failSetAt = k
			e.w.kv.mu.Unlock()
			return "ok"
		}
		st := e.w.blobs
		if ws[1] == "M" {
			st = e.w.meta
		}
		st.mu.Lock()
		st.failAt = k
		st.mu.Unlock()
		return "ok"
	case "snap":
		if len(ws) != 1 {
			return "bad-op"
		}
		e.savedB, e.savedM = e.w.blobs.snapshot(), e.w.meta.snapshot()
		return "ok"
	case "restore":
		if len(ws) != 1 {
			return "bad-op"
		}
		if e.savedB == nil {
			return "nosnap"
		}
		e.w.blobs.mu.Lock()
		e.w.blobs.m = copyMap(e.savedB)
		e.w.blobs.mu.Unlock()
		e.w.meta.mu.Lock()
		e.w.meta.m = copyMap(e.savedM)
		e.w.meta.mu.Unlock()
		return "ok"
	case "restart":
		if len(ws) != 3 || !(ws[1] == "keep" || ws[1] == "wipe") {
			return "bad-op"
		}
		return e.restart(ws[1], ws[2])
	}
	return "bad-op"
}

func allDigits(s string) bool {
	if s == "" {
		return false
	}
	for i := 0; i < len(s); i++ {
		if s[i] < '0' || s[i] > '9' {
			return false
		}
	}
	return true
}

func copyMap(m map[string][]byte) map[string][]byte {
	c := make(map[string][]byte, len(m))
	for k, v := range m {
		c[k] = v
	}
	return c
}
