// Package c11 is the correspondence harness of property C11 (the encrypting store leaks no plaintext,
// detects tampering, and is recoverable).
//
// world.go: the real encrypt storage (blobserver.CreateStorage("encrypt", …)) with a fixed test
// identity over two RAW map-backed sub-stores (they never verify digests, so tampered bytes reach
// the encrypt layer) and a scheduling-controlled sorted.KeyValue as meta index.
package c11

import (
	"bytes"
	"context"
	"errors"
	"fmt"
	"io"
	"os"
	"runtime"
	"sort"
	"sync"
	"time"

	"filippo.io/age"
	"go4.org/jsonconfig"

	"perkeep.org/pkg/blob"
	"perkeep.org/pkg/blobserver"
	_ "perkeep.org/pkg/blobserver/encrypt"
	"perkeep.org/pkg/sorted"
)

// The fixed test identity (an X25519 age secret key; generated once, offline).
const testIdentity = "AGE-SECRET-KEY-1ACRMUZ889J79XZPJ80RFJAF4NT9WM7GLVGMG83VFUEXYT2CLY6KSYUTYDR"

const agreement = "that encryption support hasn't been peer-reviewed, isn't finished, and its format might change."

var ctxbg = context.Background()

// ---- raw sub-store ---------------------------------------------------------------------------------

// rawStore is a blobserver.Storage over a Go map. It stores whatever bytes it is given under
// whatever name it is given and hands them back unverified.
type rawStore struct {
	label string // "E" (blobs) or "M" (meta): prefix of the canonical tokens
	mu    sync.Mutex
	m     map[string][]byte
	token map[string]int // name -> n of the n-th distinct name ever received (1-based)
	names []string       // token-1 -> name
	calls   *[]call // shared, ordered log of the calls made by the encrypt layer
	callsMu *sync.Mutex

	onRecv func() // called (outside the lock) after a blob was stored
	stall  *stallCtl
	failAt int    // transient fault armed: the failAt-th next ReceiveBlob fails (0 = none)

	// sequential-fetch mode (start-up scan): Fetch k returns only after the reader of Fetch k-1
	// was closed, in the order of seq.
	seq     []string
	seqNext int
	seqCond *sync.Cond
}

func newRawStore(label string) *rawStore {
	s := &rawStore{label: label, m: map[string][]byte{}, token: map[string]int{}}
	s.seqCond = sync.NewCond(&s.mu)
	return s
}

func (s *rawStore) tok(name string) string {
	if n, ok := s.token[name]; ok {
		return fmt.Sprintf("%s%d", s.label, n)
	}
	return s.label + "?"
}

// Tok is tok under the lock.
func (s *rawStore) Tok(name string) string {
	s.mu.Lock()
	defer s.mu.Unlock()
	return s.tok(name)
}

// stallCtl makes one ReceiveBlob hang before it starts reading its source (a stuck link that does not
// look at the context).
type stallCtl struct{ entered, release, done chan struct{} }

func (s *rawStore) ReceiveBlob(ctx context.Context, br blob.Ref, src io.Reader) (blob.SizedRef, error) {
	s.mu.Lock()
	st := s.stall
	s.stall = nil
	s.mu.Unlock()
	if st != nil {
		close(st.entered)
		<-st.release
		defer close(st.done)
	}
	b, err := io.ReadAll(src)
	if err != nil {
		return blob.SizedRef{}, err
	}
	name := br.String()
	s.mu.Lock()
	// transient fault: the failAt-th next ReceiveBlob fails once; nothing is stored
	if s.failAt == 1 {
		s.failAt = 0
		s.mu.Unlock()
		return blob.SizedRef{}, errTransient
	} else if s.failAt > 1 {
		s.failAt--
	}
	if _, ok := s.token[name]; !ok {
		s.names = append(s.names, name)
		s.token[name] = len(s.names)
	}
	s.m[name] = b
	s.record(call{store: s.label, put: true, names: []string{name}, data: b})
	cb := s.onRecv
	s.mu.Unlock()
	if cb != nil {
		cb()
	}
	return blob.SizedRef{Ref: br, Size: uint32(len(b))}, nil
}

type seqReader struct {
	*bytes.Reader
	s    *rawStore
	once sync.Once
	seq  bool
}

func (r *seqReader) Close() error {
	if r.seq {
		r.once.Do(func() {
			r.s.mu.Lock()
			r.s.seqNext++
			r.s.seqCond.Broadcast()
			r.s.mu.Unlock()
		})
	}
	return nil
}

func (s *rawStore) Fetch(ctx context.Context, br blob.Ref) (io.ReadCloser, uint32, error) {
	name := br.String()
	s.mu.Lock()
	defer s.mu.Unlock()
	seq := false
	if s.seq != nil {
		idx := -1
		for i, n := range s.seq {
			if n == name {
				idx = i
				break
			}
		}
		if idx >= 0 {
			seq = true
			for s.seq != nil && s.seqNext < idx {
				s.seqCond.Wait()
			}
		}
	}
	b, ok := s.m[name]
	if !ok {
		if seq {
			s.seqNext++
			s.seqCond.Broadcast()
		}
		return nil, 0, os.ErrNotExist
	}
	return &seqReader{Reader: bytes.NewReader(append([]byte(nil), b...)), s: s, seq: seq}, uint32(len(b)), nil
}

func (s *rawStore) StatBlobs(ctx context.Context, blobs []blob.Ref, fn func(blob.SizedRef) error) error {
	for _, br := range blobs {
		s.mu.Lock()
		b, ok := s.m[br.String()]
		s.mu.Unlock()
		if ok {
			if err := fn(blob.SizedRef{Ref: br, Size: uint32(len(b))}); err != nil {
				return err
			}
		}
	}
	return nil
}

func (s *rawStore) sortedNames() []string {
	ns := make([]string, 0, len(s.m))
	for n := range s.m {
		ns = append(ns, n)
	}
	sort.Strings(ns)
	return ns
}

func (s *rawStore) EnumerateBlobs(ctx context.Context, dest chan<- blob.SizedRef, after string, limit int) error {
	defer close(dest)
	s.mu.Lock()
	ns := s.sortedNames()
	var out []blob.SizedRef
	for _, n := range ns {
		if n <= after {
			continue
		}
		out = append(out, blob.SizedRef{Ref: blob.MustParse(n), Size: uint32(len(s.m[n]))})
		if limit > 0 && len(out) >= limit {
			break
		}
	}
	s.mu.Unlock()
	for _, sb := range out {
		select {
		case dest <- sb:
		case <-ctx.Done():
			return ctx.Err()
		}
	}
	return nil
}

func (s *rawStore) RemoveBlobs(ctx context.Context, blobs []blob.Ref) error {
	s.mu.Lock()
	defer s.mu.Unlock()
	var names []string
	for _, br := range blobs {
		names = append(names, br.String())
		delete(s.m, br.String())
	}
	s.record(call{store: s.label, names: names})
	return nil
}

// call is one call made to a wrapped store.
type call struct {
	store string // "E" or "M"
	put   bool   // ReceiveBlob (one name, data) or RemoveBlobs (names)
	names []string
	data  []byte
}

func (s *rawStore) record(c call) {
	if s.calls == nil {
		return
	}
	s.callsMu.Lock()
	*s.calls = append(*s.calls, c)
	s.callsMu.Unlock()
}

// plant stores bytes under a name without going through the encrypt layer (tampering).
func (s *rawStore) plant(name string, b []byte) {
	s.mu.Lock()
	defer s.mu.Unlock()
	if _, ok := s.token[name]; !ok {
		s.names = append(s.names, name)
		s.token[name] = len(s.names)
	}
	s.m[name] = append([]byte(nil), b...)
}

// ---- locked views for the generator / interpreter goroutine ----

func (s *rawStore) count() int {
	s.mu.Lock()
	defer s.mu.Unlock()
	return len(s.m)
}

func (s *rawStore) numNames() int {
	s.mu.Lock()
	defer s.mu.Unlock()
	return len(s.names)
}

func (s *rawStore) nameAt(i int) (string, bool) {
	s.mu.Lock()
	defer s.mu.Unlock()
	if i < 0 || i >= len(s.names) {
		return "", false
	}
	return s.names[i], true
}

func (s *rawStore) tokenNum(name string) (int, bool) {
	s.mu.Lock()
	defer s.mu.Unlock()
	n, ok := s.token[name]
	return n, ok
}

// view copies the token order and the contents.
func (s *rawStore) view() ([]string, map[string][]byte) {
	s.mu.Lock()
	defer s.mu.Unlock()
	m := make(map[string][]byte, len(s.m))
	for k, v := range s.m {
		m[k] = v
	}
	return append([]string(nil), s.names...), m
}

func (s *rawStore) SortedNames() []string {
	s.mu.Lock()
	defer s.mu.Unlock()
	return s.sortedNames()
}

func (s *rawStore) setContents(m map[string][]byte) {
	s.mu.Lock()
	s.m = m
	s.mu.Unlock()
}

func (w *world) numCalls() int {
	w.callsMu.Lock()
	defer w.callsMu.Unlock()
	return len(w.calls)
}

func (w *world) callsCopy() []call {
	w.callsMu.Lock()
	defer w.callsMu.Unlock()
	return append([]call(nil), w.calls...)
}

func (s *rawStore) snapshot() map[string][]byte {
	s.mu.Lock()
	defer s.mu.Unlock()
	c := make(map[string][]byte, len(s.m))
	for k, v := range s.m {
		c[k] = v
	}
	return c
}

// ---- scheduling-controlled index -------------------------------------------------------------------

// ctlKV wraps the in-memory sorted.KeyValue. While holdGets is set every Get blocks (the only Gets
// made then are those of a packer goroutine); lateSet makes the next Set wait until some Get of the
// same key has answered "not found" (the packer got there first).
type ctlKV struct {
	sorted.KeyValue
	mu       sync.Mutex
	cond     *sync.Cond
	holdGets bool // start-up scan in progress
	pending  bool // a ReceiveBlob wrote its meta blob and has not set its index row yet
	lateSet  bool
	exempt    map[uint64]bool
	failSetAt int // transient fault: the failSetAt-th next Set fails once (0 = none)
	missed   map[string]bool // keys a Get did not find
	sets     int
	baseline func() bool // reports whether goroutines beyond the baseline exist
}

func newCtlKV() *ctlKV {
	k := &ctlKV{KeyValue: sorted.NewMemoryKeyValue(), missed: map[string]bool{}}
	k.cond = sync.NewCond(&k.mu)
	return k
}

// curGID is the id of the calling goroutine.
func curGID() uint64 {
	var buf [64]byte
	n := runtime.Stack(buf[:], false)
	// "goroutine 123 [running]:"
	var id uint64
	for _, c := range buf[len("goroutine "):n] {
		if c < '0' || c > '9' {
			break
		}
		id = id*10 + uint64(c-'0')
	}
	return id
}

// exemptMe: the calling goroutine is the API caller (or the start-up scan itself); the holds are meant
// for the packer goroutines only and never block it.
func (k *ctlKV) exemptMe() {
	id := curGID()
	k.mu.Lock()
	if k.exempt == nil {
		k.exempt = map[uint64]bool{}
	}
	k.exempt[id] = true
	k.mu.Unlock()
}

func (k *ctlKV) clearExempt() {
	k.mu.Lock()
	k.exempt = nil
	k.mu.Unlock()
}

func (k *ctlKV) Get(key string) (string, error) {
	k.mu.Lock()
	if (k.holdGets || k.pending) && !k.exempt[curGID()] {
		for k.holdGets || k.pending {
			k.cond.Wait()
		}
	}
	k.mu.Unlock()
	v, err := k.KeyValue.Get(key)
	if err != nil {
		k.mu.Lock()
		k.missed[key] = true
		k.cond.Broadcast()
		k.mu.Unlock()
	}
	return v, err
}

func (k *ctlKV) Set(key, value string) error {
	k.mu.Lock()
	if k.lateSet {
		k.lateSet = false
		// let the packer (if one was spawned) run into the missing row first
		k.pending = false
		k.cond.Broadcast()
		deadline := time.Now().Add(5 * time.Second)
		for !k.missed[key] && k.baseline != nil && k.baseline() && time.Now().Before(deadline) {
			k.mu.Unlock()
			time.Sleep(50 * time.Microsecond)
			k.mu.Lock()
		}
	}
	fail := false
	if k.failSetAt == 1 {
		k.failSetAt, fail = 0, true
	} else if k.failSetAt > 1 {
		k.failSetAt--
	}
	k.mu.Unlock()
	var err error
	if fail {
		err = errTransient
	} else {
		err = k.KeyValue.Set(key, value)
	}
	k.mu.Lock()
	k.sets++
	k.pending = false
	k.cond.Broadcast()
	k.mu.Unlock()
	return err
}

// metaWritten is called when the ReceiveBlob in progress has written its single meta blob.
func (k *ctlKV) metaWritten(late bool) {
	k.mu.Lock()
	k.missed = map[string]bool{}
	if late {
		k.lateSet = true
	} else {
		k.pending = true
	}
	k.mu.Unlock()
}

func (k *ctlKV) release() {
	k.mu.Lock()
	k.pending, k.lateSet, k.holdGets = false, false, false
	k.cond.Broadcast()
	k.mu.Unlock()
}

func (k *ctlKV) hold(b bool) {
	k.mu.Lock()
	k.holdGets = b
	k.cond.Broadcast()
	k.mu.Unlock()
}

// rows returns the index content in key order.
func (k *ctlKV) rows() [][2]string {
	var out [][2]string
	it := k.KeyValue.Find("", "")
	for it.Next() {
		out = append(out, [2]string{it.Key(), it.Value()})
	}
	it.Close()
	return out
}

var (
	kvMu    sync.Mutex
	kvByID  = map[string]*ctlKV{}
	kvRegOK sync.Once
)

func registerKV() {
	kvRegOK.Do(func() {
		sorted.RegisterKeyValue("c11ctl", func(cfg jsonconfig.Obj) (sorted.KeyValue, error) {
			id := cfg.RequiredString("id")
			if err := cfg.Validate(); err != nil {
				return nil, err
			}
			kvMu.Lock()
			defer kvMu.Unlock()
			kv, ok := kvByID[id]
			if !ok {
				return nil, errors.New("c11ctl: unknown id")
			}
			return kv, nil
		})
	})
}

// ---- the world -------------------------------------------------------------------------------------

type loader struct{ sto map[string]blobserver.Storage }

func (l *loader) FindHandlerByType(string) (string, any, error) {
	return "", nil, blobserver.ErrHandlerTypeNotFound
}
func (l *loader) AllHandlers() (map[string]string, map[string]any) { return nil, nil }
func (l *loader) MyPrefix() string                                  { return "/enc/" }
func (l *loader) BaseURL() string                                   { return "http://localhost" }
func (l *loader) GetHandlerType(string) string                      { return "" }
func (l *loader) GetHandler(p string) (any, error)                  { return l.GetStorage(p) }
func (l *loader) GetStorage(p string) (blobserver.Storage, error) {
	if s, ok := l.sto[p]; ok {
		return s, nil
	}
	return nil, fmt.Errorf("c11: no storage at %q", p)
}

var (
	baseOnce       sync.Once
	baseGoroutines int
	identOnce      sync.Once
	ident          *age.X25519Identity
	identErr       error
	worldN         int
)

func identity() (*age.X25519Identity, error) {
	identOnce.Do(func() { ident, identErr = age.ParseX25519Identity(testIdentity) })
	return ident, identErr
}

// writeKeyFile writes the identity to a fresh 0600 temp file (newFromConfig wants a path); the caller
// removes it as soon as the storage is constructed.
func writeKeyFile() (string, error) {
	f, err := os.CreateTemp("", "pkh-c11-key-")
	if err != nil {
		return "", err
	}
	defer f.Close()
	if _, err := f.WriteString(testIdentity + "\n"); err != nil {
		os.Remove(f.Name())
		return "", err
	}
	return f.Name(), nil
}

// Cleanup is kept for the generator's defer; nothing outlives a start.
func Cleanup() {}

type world struct {
	blobs, meta *rawStore
	kv          *ctlKV
	kvID        string
	sto         blobserver.Storage // nil when the last start-up failed
	base        int                // goroutine baseline at quiescence
	callsMu     sync.Mutex
	calls       []call // every call the encrypt layer made to the wrapped stores, in order
}

func newWorld() (*world, error) {
	registerKV()
	if _, err := identity(); err != nil {
		return nil, err
	}
	w := &world{blobs: newRawStore("E"), meta: newRawStore("M")}
	baseOnce.Do(func() { baseGoroutines = runtime.NumGoroutine() })
	w.base = baseGoroutines
	w.blobs.calls, w.meta.calls = &w.calls, &w.calls
	w.blobs.callsMu, w.meta.callsMu = &w.callsMu, &w.callsMu
	w.freshKV()
	if err := w.start(nil); err != nil {
		return nil, err
	}
	return w, nil
}

func (w *world) freshKV() {
	kvMu.Lock()
	defer kvMu.Unlock()
	if w.kvID != "" {
		delete(kvByID, w.kvID)
	}
	worldN++
	w.kvID = fmt.Sprintf("kv%d", worldN)
	w.kv = newCtlKV()
	// (the API call itself runs on one goroutine beyond the baseline: exec.call)
	w.kv.baseline = func() bool { return runtime.NumGoroutine() > w.base+1 }
	kvByID[w.kvID] = w.kv
}

func (w *world) close() {
	w.quiesce()
	kvMu.Lock()
	delete(kvByID, w.kvID)
	kvMu.Unlock()
}

// quiesce waits until every goroutine the encrypt layer spawned (packers, scan helpers) is gone.
func (w *world) quiesce() bool { return w.quiesceBut(0) }

// quiesceBut waits until only `extra` goroutines beyond the baseline are left (an upload the harness
// keeps hanging on purpose).
func (w *world) quiesceBut(extra int) bool {
	deadline := time.Now().Add(callTimeout)
	for runtime.NumGoroutine() > w.base+extra {
		if time.Now().After(deadline) {
			return false
		}
		time.Sleep(20 * time.Microsecond)
	}
	return true
}

// callTimeout bounds every call into the store and every wait of the harness: a stall becomes a failure.
const callTimeout = 12 * time.Second

var errTransient = errors.New("c11: transient failure of the wrapped store")

var errHang = errors.New("c11: goroutines did not finish")

// start (re)creates the encrypt storage over the same sub-stores: the heap is lost, every meta
// blob is read again – in the order given (names), one at a time; packers spawned by the scan are
// held until the scan is over.
func (w *world) start(order []string) error {
	w.quiesce()
	w.sto = nil
	w.meta.mu.Lock()
	if order == nil {
		order = w.meta.sortedNames()
	}
	w.meta.seq, w.meta.seqNext = order, 0
	w.meta.mu.Unlock()
	keyFile, kerr := writeKeyFile()
	if kerr != nil {
		return kerr
	}
	defer os.Remove(keyFile)
	w.kv.hold(true)
	ld := &loader{sto: map[string]blobserver.Storage{"/b/": w.blobs, "/m/": w.meta}}
	type res struct {
		sto blobserver.Storage
		err error
	}
	done := make(chan res, 1)
	go func() {
		w.kv.exemptMe()
		sto, err := blobserver.CreateStorage("encrypt", ld, jsonconfig.Obj{
			"I_AGREE":   agreement,
			"keyFile":   keyFile,
			"blobs":     "/b/",
			"meta":      "/m/",
			"metaIndex": map[string]any{"type": "c11ctl", "id": w.kvID},
		})
		done <- res{sto, err}
	}()
	var sto blobserver.Storage
	var err error
	select {
	case r := <-done:
		sto, err = r.sto, r.err
	case <-time.After(callTimeout):
		err = errHang
	}
	w.kv.clearExempt()
	w.meta.mu.Lock()
	w.meta.seq = nil
	w.meta.seqCond.Broadcast()
	w.meta.mu.Unlock()
	w.kv.hold(false)
	ok := w.quiesce()
	if err != nil {
		return err
	}
	if !ok {
		return errHang
	}
	w.sto = sto
	return nil
}

// ---- what is underneath, decrypted with the identity the harness holds -------------------------------

const metaHeader = "#camlistore/encmeta=2\n"

// decrypt undoes `version byte || age(plaintext)`.
func decrypt(c []byte) ([]byte, error) {
	if len(c) == 0 {
		return nil, errors.New("empty")
	}
	if c[0] != 2 {
		return nil, errors.New("version")
	}
	r, err := age.Decrypt(bytes.NewReader(c[1:]), ident)
	if err != nil {
		return nil, err
	}
	return io.ReadAll(r)
}
