package c05

import (
	"errors"
	"strings"
	"sync"

	"perkeep.org/pkg/sorted"
)

// faultKV wraps the index's sorted.KeyValue. While a fault is armed (during one `frecv` op):
//
//	commit: a CommitBatch whose batch sets the key `have:<ref>` of the blob being received fails
//	set:    a direct Set of a `missing|<ref>|...` row of that blob fails
//	delete: every direct Delete fails (the index only logs those errors)
//
// Nothing reaches the wrapped store in a failing call. The faults are keyed by the blob so that they
// hit the synchronous ReceiveBlob of the op and not an asynchronous re-index of another blob.
type faultKV struct {
	sorted.KeyValue
	mu    sync.Mutex
	kind  string // "", commit, set, delete
	ref   string
	fired int

	iterPrefix string // a Find starting with this prefix gets a failing iterator (one shot)
	iterRows   int    // rows it yields before Next() turns false
	iterArmed  bool
}

// armIter: the next Find whose start key begins with prefix returns an iterator that yields at most
// rows entries, then Next() == false, and whose Close() reports an error (a transient read fault).
func (f *faultKV) armIter(prefix string, rows int) {
	f.mu.Lock()
	f.iterPrefix, f.iterRows, f.iterArmed = prefix, rows, true
	f.mu.Unlock()
}

func (f *faultKV) disarmIter() bool {
	f.mu.Lock()
	defer f.mu.Unlock()
	was := f.iterArmed
	f.iterArmed = false
	return !was // true: the fault was consumed
}

type faultIter struct {
	sorted.Iterator
	left int
}

func (it *faultIter) Next() bool {
	if it.left <= 0 {
		return false
	}
	it.left--
	return it.Iterator.Next()
}

func (it *faultIter) Close() error {
	it.Iterator.Close()
	return errInjected
}

func (f *faultKV) Find(start, end string) sorted.Iterator {
	inner := f.KeyValue.Find(start, end)
	f.mu.Lock()
	defer f.mu.Unlock()
	if f.iterArmed && start != "" && strings.HasPrefix(start, f.iterPrefix) {
		f.iterArmed = false
		return &faultIter{Iterator: inner, left: f.iterRows}
	}
	return inner
}

var errInjected = errors.New("c05: injected sorted.KeyValue failure")

func (f *faultKV) arm(kind, ref string) {
	f.mu.Lock()
	f.kind, f.ref, f.fired = kind, ref, 0
	f.mu.Unlock()
}

func (f *faultKV) disarm() int {
	f.mu.Lock()
	defer f.mu.Unlock()
	f.kind, f.ref = "", ""
	return f.fired
}

func (f *faultKV) hit(kind string, match func(ref string) bool) bool {
	f.mu.Lock()
	defer f.mu.Unlock()
	if f.kind != kind || !match(f.ref) {
		return false
	}
	f.fired++
	return true
}

func (f *faultKV) Set(key, value string) error {
	if f.hit("set", func(ref string) bool { return strings.HasPrefix(key, "missing|"+ref+"|") }) {
		return errInjected
	}
	return f.KeyValue.Set(key, value)
}

func (f *faultKV) Delete(key string) error {
	if f.hit("delete", func(string) bool { return true }) {
		return errInjected
	}
	return f.KeyValue.Delete(key)
}

// faultBatch records the mutations; the wrapped store's batch is begun only when the commit goes ahead
// (a store's BeginBatch may hold a lock or a transaction until CommitBatch, and there is no rollback).
type faultBatch struct {
	muts []mutation
}

type mutation struct {
	del        bool
	key, value string
}

func (b *faultBatch) Set(key, value string) { b.muts = append(b.muts, mutation{false, key, value}) }
func (b *faultBatch) Delete(key string)     { b.muts = append(b.muts, mutation{true, key, ""}) }

func (f *faultKV) BeginBatch() sorted.BatchMutation { return &faultBatch{} }

func (f *faultKV) CommitBatch(b sorted.BatchMutation) error {
	fb, ok := b.(*faultBatch)
	if !ok {
		return errors.New("c05: foreign batch")
	}
	if f.hit("commit", func(ref string) bool {
		for _, m := range fb.muts {
			if !m.del && m.key == "have:"+ref {
				return true
			}
		}
		return false
	}) {
		return errInjected
	}
	inner := f.KeyValue.BeginBatch()
	for _, m := range fb.muts {
		if m.del {
			inner.Delete(m.key)
		} else {
			inner.Set(m.key, m.value)
		}
	}
	return f.KeyValue.CommitBatch(inner)
}

// Wipe: Reindex needs a sorted.Wiper.
func (f *faultKV) Wipe() error {
	if w, ok := f.KeyValue.(sorted.Wiper); ok {
		return w.Wipe()
	}
	return errors.New("c05: wrapped KV is not a Wiper")
}
