package c05

import "verifharness/hk"

// Run is replaced by gen.go once the generator exists.
func Run(r *hk.Run) { r.Note("not built yet") }
