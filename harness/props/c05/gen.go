package c05

import (
	"fmt"
	"sort"
	"strings"

	"verifharness/hk"
)

// Set is one generated world: the blobs (in definition order) and the ids that get delivered.
type Set struct {
	Name    string
	Specs   []*Spec
	Deliver []int
	W       *World
}

type setBuilder struct {
	specs []*Spec
	next  int
}

func (b *setBuilder) add(s *Spec) int {
	b.next++
	s.ID = b.next
	b.specs = append(b.specs, s)
	return s.ID
}

const sec = int64(1000000000)

func dateOf(id int) int64 { return int64(1000+10*id) * sec }

func (b *setBuilder) key(k int) int        { return b.add(&Spec{Kind: "key", Key: k}) }
func (b *setBuilder) pn(signer, n int) int { return b.add(&Spec{Kind: "pn", Signer: signer, Nonce: n}) }
func (b *setBuilder) claim(signer, pn int, ct, attr, val string) int {
	id := b.add(&Spec{Kind: "claim", Signer: signer, PN: pn, CType: ct, Attr: attr, Val: val})
	b.specs[len(b.specs)-1].Date = dateOf(id)
	return id
}

// delAt: a delete claim with an explicit date (unix nanoseconds)
func (b *setBuilder) delAt(signer, target int, date int64) int {
	return b.add(&Spec{Kind: "del", Signer: signer, Target: target, Date: date})
}

// claimAt: a claim with an explicit date (unix nanoseconds)
func (b *setBuilder) claimAt(signer, pn int, ct, attr, val string, date int64) int {
	id := b.add(&Spec{Kind: "claim", Signer: signer, PN: pn, CType: ct, Attr: attr, Val: val})
	b.specs[len(b.specs)-1].Date = date
	return id
}
func (b *setBuilder) del(signer, target int) int {
	id := b.add(&Spec{Kind: "del", Signer: signer, Target: target})
	b.specs[len(b.specs)-1].Date = dateOf(id)
	return id
}
func (b *setBuilder) chunk(salt, size int) int {
	return b.add(&Spec{Kind: "opaque", Nonce: salt, Size: size})
}
func (b *setBuilder) bytes(parts ...Part) int { return b.add(&Spec{Kind: "bytes", Parts: parts}) }

// file: mtime in unix seconds (0 = none)
func (b *setBuilder) file(name int, mtime int64, parts ...Part) int {
	return b.add(&Spec{Kind: "file", Name: name, MTime: mtime * sec, Parts: parts})
}
func (b *setBuilder) sset(merge bool, refs ...int) int {
	return b.add(&Spec{Kind: "sset", Merge: merge, Refs: refs})
}
func (b *setBuilder) dir(name, sset int) int {
	return b.add(&Spec{Kind: "dir", Name: name, SSet: sset})
}

func (b *setBuilder) sizeOf(id int) int {
	// sizes of chunks are given; of bytes blobs: the sum of their parts
	s := b.specs[id-1]
	switch s.Kind {
	case "opaque":
		return s.Size
	case "bytes":
		n := 0
		for _, p := range s.Parts {
			n += p.Size
		}
		return n
	}
	return 0
}
func (b *setBuilder) c(id int) Part { return Part{'c', id, b.sizeOf(id)} }
func (b *setBuilder) y(id int) Part { return Part{'y', id, b.sizeOf(id)} }
func z(n int) Part                  { return Part{'z', 0, n} }

func (b *setBuilder) build(name string) (*World, error) {
	w := NewWorld()
	for _, s := range b.specs {
		s.Size, s.Mime, s.FSize, s.Whole, s.ImgW, s.ImgH = 0, "", 0, 0, 0, 0
		if s.Kind == "opaque" {
			s.Size = s.sizeGiven
		}
		if err := w.Add(s); err != nil {
			return nil, fmt.Errorf("%s: blob %d: %v", name, s.ID, err)
		}
	}
	return w, nil
}

// finish builds the world. Claims of one permanode with EQUAL dates are ordered by their blobrefs by
// the index (row keys) and by the corpus; the model orders them by id, so the attribute/value/type of
// such claims are dealt to the ids in blobref order (the ref of a claim does not depend on its id).
func (b *setBuilder) finish(name string, deliver []int) (*Set, error) {
	for _, s := range b.specs {
		if s.Kind == "opaque" {
			s.sizeGiven = s.Size
		}
	}
	for round := 0; ; round++ {
		w, err := b.build(name)
		if err != nil {
			return nil, err
		}
		groups := map[[2]int64][]*Spec{}
		for _, s := range b.specs {
			if s.Kind == "claim" {
				k := [2]int64{int64(s.PN), s.Date}
				groups[k] = append(groups[k], s)
			}
		}
		changed := false
		// delete claims of one target with equal dates differ in their signer only: deal the signers in blobref order
		delGroups := map[[2]int64][]*Spec{}
		for _, s := range b.specs {
			if s.Kind == "del" {
				k := [2]int64{int64(s.Target), s.Date}
				delGroups[k] = append(delGroups[k], s)
			}
		}
		for _, g := range delGroups {
			if len(g) < 2 {
				continue
			}
			type dc struct {
				signer int
				ref    string
			}
			var cs []dc
			for _, s := range g {
				cs = append(cs, dc{s.Signer, w.Blob[s.ID].BlobRef().String()})
			}
			sorted := append([]dc(nil), cs...)
			sort.Slice(sorted, func(i, j int) bool { return sorted[i].ref < sorted[j].ref })
			for i, s := range g {
				if sorted[i].ref != cs[i].ref {
					s.Signer = sorted[i].signer
					changed = true
				}
			}
		}
		for _, g := range groups {
			if len(g) < 2 {
				continue
			}
			type content struct {
				signer        int
				ct, attr, val string
				ref           string
			}
			var cs []content
			for _, s := range g {
				cs = append(cs, content{s.Signer, s.CType, s.Attr, s.Val, w.Blob[s.ID].BlobRef().String()})
			}
			sorted := append([]content(nil), cs...)
			sort.Slice(sorted, func(i, j int) bool { return sorted[i].ref < sorted[j].ref })
			for i, s := range g { // g is in ascending id order (specs order)
				if sorted[i].ref != cs[i].ref {
					s.Signer, s.CType, s.Attr, s.Val = sorted[i].signer, sorted[i].ct, sorted[i].attr, sorted[i].val
					changed = true
				}
			}
		}
		if !changed {
			return &Set{Name: name, Specs: b.specs, Deliver: deliver, W: w}, nil
		}
		if round > 6 {
			return nil, fmt.Errorf("%s: equal-date claims do not settle", name)
		}
	}
}

func seq(from, to int) []int {
	var out []int
	for i := from; i <= to; i++ {
		out = append(out, i)
	}
	return out
}

func without(ids []int, drop ...int) []int {
	var out []int
	for _, id := range ids {
		keep := true
		for _, d := range drop {
			if id == d {
				keep = false
			}
		}
		if keep {
			out = append(out, id)
		}
	}
	return out
}

// fixedSets are the hand-shaped worlds: every blob kind and every dependency mechanism of the property.
func FixedSets(r *hk.Rand) []*Set {
	var sets []*Set
	push := func(b *setBuilder, name string, deliver []int) {
		s, err := b.finish(name, deliver)
		if err != nil {
			panic(err)
		}
		sets = append(sets, s)
	}
	n := r.Intn(90) * 10
	{ // key, permanode, attribute claim, delete of the permanode
		b := &setBuilder{}
		k := b.key(0)
		p := b.pn(k, n+1)
		b.claim(k, p, "set", "i0", "s1")
		b.del(k, p)
		push(b, "pn-claim-delete", seq(1, 4))
	}
	{ // deletes of claims and of deletes
		b := &setBuilder{}
		k := b.key(0)
		p := b.pn(k, n+2)
		c := b.claim(k, p, "add", "i1", "s2")
		d1 := b.del(k, c)
		b.del(k, d1)
		push(b, "delete-chain", seq(1, 5))
	}
	{ // file with a two-level bytes tree and a hole
		b := &setBuilder{}
		c1 := b.chunk(n+1, 40)
		c2 := b.chunk(n+2, 50)
		y := b.bytes(b.c(c2), z(7))
		b.file(1, 0, b.c(c1), b.y(y))
		push(b, "file-tree", seq(1, 4))
	}
	{ // file + delete claim whose target is a file (neither permanode nor claim) + a never-arriving chunk
		b := &setBuilder{}
		k := b.key(1)
		c1 := b.chunk(n+3, 33)
		c2 := b.chunk(n+4, 44)
		f := b.file(2, 1500000000, b.c(c1), b.c(c2))
		b.del(k, f)
		push(b, "file-delete-target", seq(1, 5))
		b2 := &setBuilder{}
		k = b2.key(1)
		c1 = b2.chunk(n+3, 33)
		c2 = b2.chunk(n+4, 44)
		f = b2.file(2, 1500000000, b2.c(c1), b2.c(c2))
		b2.del(k, f)
		push(b2, "file-chunk-never", without(seq(1, 5), c2))
	}
	{ // directory with a static-set spread over merge sets
		b := &setBuilder{}
		c1 := b.chunk(1000+n, 60) // GIF
		f := b.file(3, 0, b.c(c1))
		s1 := b.sset(false, f, c1)
		s2 := b.sset(false)
		g := b.sset(true, s1, s2)
		b.dir(4, g)
		push(b, "dir-mergesets", seq(1, 6))
	}
	{ // two signers, path and member claims, camliContent
		b := &setBuilder{}
		k0 := b.key(0)
		k1 := b.key(1)
		p := b.pn(k0, n+3)
		q := b.pn(k1, n+4)
		b.claim(k1, p, "set", "p4", fmt.Sprintf("r%d", q))
		b.claim(k0, p, "add", "m", fmt.Sprintf("r%d", q))
		b.claim(k0, q, "del", "p4", fmt.Sprintf("r%d", p))
		push(b, "two-signers-paths", seq(1, 7))
	}
	{ // delete claim whose target never arrives, and whose signer key arrives
		b := &setBuilder{}
		k := b.key(0)
		p := b.pn(k, n+5)
		d := b.del(k, p)
		b.claim(k, p, "set", "o0", "s3")
		push(b, "target-never", without(seq(1, 4), p))
		_ = d
	}
	{ // claims whose key never arrives; delete claim on such a claim
		b := &setBuilder{}
		k0 := b.key(0)
		k1 := b.key(1)
		p := b.pn(k0, n+6)
		c := b.claim(k1, p, "set", "i0", "s5")
		b.del(k0, c)
		push(b, "key-never", without(seq(1, 5), k1))
	}
	{ // camliContent to a file with a time; attribute values overwritten; delete of an attribute claim
		b := &setBuilder{}
		k := b.key(0)
		c1 := b.chunk(n+7, 21)
		f := b.file(5, 1400000000, b.c(c1))
		p := b.pn(k, n+7)
		cc := b.claim(k, p, "set", "o0", fmt.Sprintf("r%d", f))
		t := b.claim(k, p, "set", "i0", "s8")
		b.del(k, t)
		_ = cc
		push(b, "content-file", seq(1, 7))
	}
	{ // two delete claims on one permanode, and a delete of one of them (the permanode stays deleted)
		b := &setBuilder{}
		k := b.key(0)
		p := b.pn(k, n+8)
		d1 := b.del(k, p)
		b.del(k, p)
		b.del(k, d1)
		push(b, "two-deleters-one-undone", seq(1, 5))
	}
	{ // two delete claims on one attribute claim, the later one deleted again
		b := &setBuilder{}
		k := b.key(1)
		p := b.pn(k, n+9)
		c := b.claim(k, p, "set", "i1", "s4")
		b.del(k, c)
		d2 := b.del(k, c)
		b.del(k, d2)
		push(b, "two-deleters-of-claim", seq(1, 6))
	}
	{ // three deleters of a permanode, two of them deleted, one of those deletions deleted again
		b := &setBuilder{}
		k := b.key(0)
		p := b.pn(k, n+10)
		d1 := b.del(k, p)
		d2 := b.del(k, p)
		x1 := b.del(k, d1)
		b.del(k, d2)
		b.del(k, x1)
		push(b, "deleters-chain", seq(1, 7))
	}
	{ // two permanodes; the creation time of the first comes from its content file, which is newer than
		// every claim: the file's arrival alone (no claim row) moves the permanode past the other one
		b := &setBuilder{}
		k := b.key(0)
		p1 := b.pn(k, n+11)
		p2 := b.pn(k, n+12)
		c1 := b.chunk(n+8, 25)
		f := b.file(5, 1450000000, b.c(c1))
		b.claim(k, p1, "set", "o0", fmt.Sprintf("r%d", f))
		b.claim(k, p2, "set", "i0", "s2")
		push(b, "late-content-file", seq(1, 7))
	}
	{ // the same with an older file (moves the permanode behind the other) and a content change between two files
		b := &setBuilder{}
		k := b.key(1)
		p1 := b.pn(k, n+13)
		p2 := b.pn(k, n+14)
		f1 := b.file(1, 500, z(3))
		f2 := b.file(5, 1460000000, z(4))
		b.claim(k, p2, "add", "i1", "s3")
		b.claim(k, p1, "set", "o0", fmt.Sprintf("r%d", f1))
		b.claim(k, p1, "set", "o0", fmt.Sprintf("r%d", f2))
		push(b, "content-file-switch", seq(1, 8))
	}
	{ // one signer, one permanode, one attribute, four claims within one second: the text of the dates
		// (RFC 3339 without trailing zeros: ...20Z, ...20.5Z, ...20.55Z, ...20.500000001Z) sorts differently from the times
		b := &setBuilder{}
		k := b.key(0)
		p := b.pn(k, n+15)
		base := dateOf(40)
		b.claimAt(k, p, "set", "i0", "s1", base)
		b.claimAt(k, p, "set", "i0", "s2", base+500000000)
		b.claimAt(k, p, "add", "i0", "s3", base+550000000)
		b.claimAt(k, p, "set", "i0", "s4", base+500000001)
		push(b, "same-second-claims", seq(1, 6))
	}
	{ // the same with the whole second last in time order, and a delete claim between two fractions
		b := &setBuilder{}
		k := b.key(1)
		p := b.pn(k, n+16)
		base := dateOf(50)
		c1 := b.claimAt(k, p, "set", "i1", "s1", base+999999999)
		b.claimAt(k, p, "set", "i1", "s2", base+sec)
		b.claimAt(k, p, "set", "i1", "s3", base+990000000)
		b.add(&Spec{Kind: "del", Signer: k, Target: c1, Date: base + 999000000})
		push(b, "second-boundary-claims", seq(1, 6))
	}
	{ // claims with EQUAL dates on one permanode and attribute (and a later one 1 ns after)
		b := &setBuilder{}
		k := b.key(0)
		p := b.pn(k, n+17)
		base := dateOf(60) + 250000000
		b.claimAt(k, p, "set", "i0", "s1", base)
		b.claimAt(k, p, "set", "i0", "s2", base)
		b.claimAt(k, p, "add", "i0", "s3", base)
		b.claimAt(k, p, "add", "i0", "s4", base+1)
		push(b, "equal-date-claims", seq(1, 6))
	}
	{ // rows at and beyond the size limits of every sorted.KeyValue (key 767, value 63000 bytes): the claim| row
		// of attr5 with a value that makes the row value 62999 / 63000 / 63001 / ~70000 bytes, a tag whose
		// 800-byte value pushes the signerattrvalue| KEY over the limit, a camliPath suffix that does so for path|
		b := &setBuilder{}
		k := b.key(0)
		p := b.pn(k, n+18)
		q := b.pn(k, n+19)
		const overhead = len("set-attribute") + 1 + len("attr5") + 1 + 1 + 63 // ct|attr|<value>|signer-ref
		for _, total := range []int{62999, 63000, 63001} {
			b.claim(k, p, "set", "o5", fmt.Sprintf("s%d", LongBase+total-overhead))
		}
		b.claim(k, q, "set", "o5", fmt.Sprintf("s%d", LongBase+70000))
		b.claim(k, q, "set", "i0", fmt.Sprintf("s%d", LongBase+800))
		b.claim(k, q, "set", fmt.Sprintf("p%d", LongBase+700), fmt.Sprintf("r%d", p))
		push(b, "oversized-rows", seq(1, 9))
	}
	{ // two delete claims of one permanode with the SAME claim date (two signers), and a delete of one of them
		b := &setBuilder{}
		k0 := b.key(0)
		k1 := b.key(1)
		p := b.pn(k0, n+20)
		d := dateOf(70) + 123000000
		d1 := b.delAt(k0, p, d)
		b.delAt(k1, p, d)
		b.del(k0, d1)
		push(b, "equal-date-deleters", seq(1, 6))
	}
	{ // the same on an attribute claim, plus a deleter with a different date and a delete of the other tied deleter
		b := &setBuilder{}
		k0 := b.key(0)
		k1 := b.key(1)
		p := b.pn(k1, n+21)
		c := b.claim(k0, p, "set", "i0", "s3")
		d := dateOf(80) + 500000000
		b.delAt(k0, c, d)
		d2 := b.delAt(k1, c, d)
		b.del(k1, d2)
		push(b, "equal-date-deleters-of-claim", seq(1, 7))
	}
	{ // claims whose VALUE names a blob that arrives later or never: member, content, path targets
		b := &setBuilder{}
		k := b.key(0)
		p := b.pn(k, n+22)
		q := b.pn(k, n+23) // withheld: never arrives in most schedules
		f := b.file(1, 0, z(5))
		b.claim(k, p, "add", "m", fmt.Sprintf("r%d", q))
		b.claim(k, p, "set", "o0", fmt.Sprintf("r%d", f))
		b.claim(k, p, "set", "p2", fmt.Sprintf("r%d", q))
		b.claim(k, p, "add", "m", fmt.Sprintf("r%d", f))
		push(b, "named-blobs-late-or-never", without(seq(1, 8), q))
	}
	{ // a second identity whose only blobs are a delete claim of somebody else's claim and a delete claim that
		// waits for a target that never arrives: its signerkeyid: row exists beside no attribute-claim row
		b := &setBuilder{}
		k0 := b.key(0)
		k1 := b.key(1)
		p := b.pn(k0, n+24)
		q := b.pn(k0, n+25) // withheld
		c := b.claim(k0, p, "set", "i1", "s2")
		b.del(k1, c)
		b.del(k1, q)
		push(b, "second-identity-only-deletes", without(seq(1, 7), q))
	}
	return sets
}

// RandomSet draws a world of n blobs with random kinds and references among the earlier blobs.
func RandomSet(r *hk.Rand, n int, idx int) *Set {
	for attempt := 0; ; attempt++ {
		b := &setBuilder{}
		salt := r.Intn(50) * 16
		var keys, pns, claims, dels, chunks, byts, files, ssets, all []int
		contentOwner := map[int]int{}
		claimsOn := map[int][]int{}
		usedDates := map[int64]bool{}
		pick := func(xs []int) int { return xs[r.Intn(len(xs))] }
		keys = append(keys, b.key(r.Intn(2)))
		all = append(all, keys[0])
		for len(b.specs) < n {
			id := 0
			switch k := r.Intn(12); {
			case k == 0 && len(keys) < 2:
				id = b.key(1 - b.specs[keys[0]-1].Key)
				keys = append(keys, id)
			case k <= 2:
				id = b.pn(pick(keys), salt+len(b.specs))
				pns = append(pns, id)
			case k <= 5 && len(pns) > 0:
				attr := []string{"i0", "i1", "i2", "m", "p2", "p4", "o0", "o1", "o5"}[r.Intn(9)]
				val := fmt.Sprintf("s%d", 1+r.Intn(5))
				if r.Chance(40) {
					val = fmt.Sprintf("r%d", pick(all))
				}
				pn := pick(pns)
				if len(files) > 0 && r.Chance(35) {
					attr, val = "o0", fmt.Sprintf("r%d", pick(files)) // camliContent -> a file
				}
				if attr == "o0" && val[0] == 'r' {
					// one permanode per content blob: equal creation times would be ordered by the real refs
					t, _ := atoiStrict(val[1:])
					if owner, used := contentOwner[t]; used && owner != pn {
						val = "s1"
					} else {
						contentOwner[t] = pn
					}
				}
				ct := []string{"set", "add", "del"}[r.Intn(3)]
				if val[0] == 's' && r.Chance(12) {
					// a value that no sorted.KeyValue stores (row value > 63000 bytes), or that makes a key too long
					val = fmt.Sprintf("s%d", LongBase+[]int{800, 62900, 62916, 62917, 70000}[r.Intn(5)])
				}
				if prev := claimsOn[pn]; len(prev) > 0 && r.Chance(60) {
					// the same signer, permanode and attribute within the same second as an earlier claim:
					// fractions whose RFC 3339 text sorts differently from the times, and equal dates
					e := b.specs[prev[r.Intn(len(prev))]-1]
					base := e.Date - e.Date%sec
					d := base + []int64{0, 500000000, 550000000, 500000001, 50000000, 999999999, 1, e.Date % sec}[r.Intn(8)]
					if d != e.Date && usedDates[d] {
						d = e.Date // an equal date rather than a date shared with another permanode
					}
					if !(e.Attr == "o0") {
						attr = e.Attr
						if val[0] == 'r' && attr != "m" && attr[0] != 'p' {
							val = fmt.Sprintf("s%d", 1+r.Intn(5))
						}
					}
					id = b.claimAt(e.Signer, pn, ct, attr, val, d)
				} else {
					id = b.claim(pick(keys), pn, ct, attr, val)
				}
				usedDates[b.specs[id-1].Date] = true
				claimsOn[pn] = append(claimsOn[pn], id)
				claims = append(claims, id)
			case k <= 7:
				var cands []int
				cands = append(cands, pns...)
				cands = append(cands, claims...)
				cands = append(cands, dels...)
				if r.Chance(15) || len(cands) == 0 {
					cands = all
				}
				tgt := pick(cands)
				if len(dels) > 0 && r.Chance(40) {
					tgt = b.specs[pick(dels)-1].Target // one more deleter for an already deleted target
				}
				id = b.del(pick(keys), tgt)
				dels = append(dels, id)
			case k == 8:
				if r.Chance(20) {
					id = b.chunk(1000+salt+len(b.specs), 50+r.Intn(30)) // a GIF
				} else {
					id = b.chunk(salt+len(b.specs), 10+r.Intn(60))
				}
				chunks = append(chunks, id)
			case k == 9 && len(chunks) > 0:
				var parts []Part
				for i := 0; i < 1+r.Intn(2); i++ {
					if len(byts) > 0 && r.Chance(30) {
						parts = append(parts, b.y(pick(byts)))
					} else {
						parts = append(parts, b.c(pick(chunks)))
					}
				}
				if r.Chance(50) {
					id = b.bytes(parts...)
					byts = append(byts, id)
				} else {
					mt := int64(0)
					if r.Chance(60) {
						mt = int64(1300000000 + 1000*len(b.specs))
						if r.Chance(30) {
							mt = int64(100 + len(b.specs)) // older than every claim
						}
					}
					id = b.file(r.Intn(8), mt, parts...)
					files = append(files, id)
				}
			case k == 10:
				if len(ssets) > 0 && r.Chance(40) {
					id = b.sset(true, pick(ssets))
				} else {
					var ms []int
					for i := 0; i < r.Intn(3); i++ {
						ms = append(ms, pick(all))
					}
					id = b.sset(false, ms...)
				}
				ssets = append(ssets, id)
			case k == 11 && len(ssets) > 0:
				id = b.dir(r.Intn(8), pick(ssets))
			}
			if id != 0 {
				all = append(all, id)
			}
		}
		deliver := seq(1, n)
		if r.Chance(35) {
			deliver = without(deliver, 1+r.Intn(n))
		}
		s, err := b.finish(fmt.Sprintf("random-%d", idx), deliver)
		if err == nil {
			return s
		}
		if attempt > 20 {
			panic(err)
		}
	}
}

// Shapes names the set-level shapes the C06 mirrors are sensitive to (histogram keys).
func (s *Set) Shapes() []string {
	deleters := map[int][]int{}
	isDel := map[int]bool{}
	for _, sp := range s.Specs {
		if sp.Kind == "del" {
			deleters[sp.Target] = append(deleters[sp.Target], sp.ID)
			isDel[sp.ID] = true
		}
	}
	out := map[string]bool{}
	for t, ds := range deleters {
		if len(ds) >= 2 {
			out["shape:multi-deleter-target"] = true
			for _, d := range ds {
				if len(deleters[d]) > 0 {
					out["shape:one-of-several-deleters-deleted"] = true
				}
			}
		}
		if isDel[t] {
			out["shape:delete-of-delete"] = true
		}
	}
	for _, sp := range s.Specs {
		if sp.Kind == "claim" && sp.Attr == "o0" && sp.Val[0] == 'r' {
			id, _ := atoiStrict(sp.Val[1:])
			if f := s.W.Specs[id]; f != nil && f.Kind == "file" && f.MTime != 0 {
				out["shape:content-file-with-time"] = true
			}
		}
	}
	delDates := map[[2]int64]int{}
	for _, sp := range s.Specs {
		if sp.Kind == "del" {
			k := [2]int64{int64(sp.Target), sp.Date}
			delDates[k]++
			if delDates[k] == 2 {
				out["shape:equal-date-delete-claims-on-a-target"] = true
				for _, d := range deleters[sp.Target] {
					if len(deleters[d]) > 0 && s.W.Specs[d].Date == sp.Date {
						out["shape:equal-date-deleter-itself-deleted"] = true
					}
				}
			}
		}
		if sp.Kind == "claim" && sp.Val[0] == 'r' {
			out["shape:claim-value-names-a-blob"] = true
			id, _ := atoiStrict(sp.Val[1:])
			in := false
			for _, x := range s.Deliver {
				if x == id {
					in = true
				}
			}
			if !in {
				out["shape:claim-value-names-a-blob-that-never-arrives"] = true
			}
		}
	}
	attrSigner, anySigner := map[int]bool{}, map[int]bool{}
	for _, sp := range s.Specs {
		switch sp.Kind {
		case "claim":
			attrSigner[sp.Signer], anySigner[sp.Signer] = true, true
		case "del":
			anySigner[sp.Signer] = true
		}
	}
	for k := range anySigner {
		if !attrSigner[k] {
			out["shape:signer-with-delete-claims-only"] = true
		}
	}
	type pnSec struct {
		pn  int
		sec int64
	}
	secs := map[pnSec][]int64{}
	for _, sp := range s.Specs {
		if sp.Kind == "claim" {
			k := pnSec{sp.PN, sp.Date / sec}
			for _, d := range secs[k] {
				if d == sp.Date {
					out["shape:equal-date-claims-on-a-permanode"] = true
				} else {
					out["shape:claims-within-one-second"] = true
				}
			}
			secs[k] = append(secs[k], sp.Date)
		}
	}
	for _, sp := range s.Specs {
		if sp.Kind == "claim" {
			if sp.Drop&1 != 0 {
				out["shape:claim-row-too-large-for-the-store"] = true
			}
			if sp.Drop&^1 != 0 {
				out["shape:key-too-large-for-the-store"] = true
			}
			if sp.Drop == 0 && strings.HasPrefix(sp.Val, "s") && len(sp.Val) >= 7 {
				out["shape:long-value-within-the-limits"] = true
			}
		}
	}
	var ks []string
	for k := range out {
		ks = append(ks, k)
	}
	sort.Strings(ks)
	return ks
}

// lateContentFiles counts the camliContent claims of an arrival order whose timed file arrives later.
func (s *Set) lateContentFiles(order []int) int {
	pos := map[int]int{}
	for i, id := range order {
		pos[id] = i + 1
	}
	n := 0
	for _, sp := range s.Specs {
		if sp.Kind != "claim" || sp.Attr != "o0" || sp.Val[0] != 'r' || pos[sp.ID] == 0 {
			continue
		}
		id, _ := atoiStrict(sp.Val[1:])
		if f := s.W.Specs[id]; f != nil && f.Kind == "file" && f.MTime != 0 && pos[id] > pos[sp.ID] {
			n++
		}
	}
	return n
}

// lateNamed counts the claims of an arrival order whose value names a blob that arrives later.
func (s *Set) lateNamed(order []int) int {
	pos := map[int]int{}
	for i, id := range order {
		pos[id] = i + 1
	}
	n := 0
	for _, sp := range s.Specs {
		if sp.Kind == "claim" && sp.Val[0] == 'r' && pos[sp.ID] > 0 {
			id, _ := atoiStrict(sp.Val[1:])
			if pos[id] > pos[sp.ID] {
				n++
			}
		}
	}
	return n
}

// lateDeleters counts the targets of an arrival order that receive a further delete claim while deleted.
func (s *Set) lateDeleters(order []int) int {
	seen := map[int]int{}
	n := 0
	for _, id := range order {
		if sp := s.W.Specs[id]; sp != nil && sp.Kind == "del" {
			if seen[sp.Target] > 0 {
				n++
			}
			seen[sp.Target]++
		}
	}
	return n
}

// ---- the oracle's own view of the world ----------------------------------------------------------------

// Stuck tells which delivered blobs cannot be fully indexed from the delivered set: a fetch
// dependency outside it, or (delete claims) a target that is not delivered or is itself fetch-stuck.
func (s *Set) Stuck(delivered map[int]bool) map[int]bool {
	fetchStuck := map[int]bool{}
	for id := range delivered {
		for _, d := range s.W.Deps(id) {
			if !delivered[d] {
				fetchStuck[id] = true
			}
		}
	}
	stuck := map[int]bool{}
	for id := range delivered {
		if fetchStuck[id] {
			stuck[id] = true
			continue
		}
		if sp := s.W.Specs[id]; sp.Kind == "del" {
			if !delivered[sp.Target] || fetchStuck[sp.Target] {
				stuck[id] = true
			}
		}
	}
	return stuck
}

// checkPending is the "remembered as pending" half of the property, evaluated on a dump and a pend line.
func (s *Set) checkPending(dump, pend string, delivered map[int]bool) string {
	stuck := s.Stuck(delivered)
	rows := strings.Split(dump, ";")
	hasRow := func(prefix string) bool {
		for _, r := range rows {
			if strings.HasPrefix(r, prefix) {
				return true
			}
		}
		return false
	}
	needs := ""
	if i := strings.Index(pend, ";neededby="); i > 0 {
		needs = "," + strings.TrimPrefix(pend[:i], "needs=") + ","
	}
	ids := make([]int, 0, len(delivered))
	for id := range delivered {
		ids = append(ids, id)
	}
	sort.Ints(ids)
	for _, id := range ids {
		b := fmt.Sprintf("b%d", id)
		indexed := false
		for _, r := range rows {
			if strings.HasPrefix(r, "have|"+b+"=") && strings.HasSuffix(r, ",1") {
				indexed = true
			}
		}
		missRow := hasRow("missing|" + b + ",")
		inNeeds := strings.Contains(needs, ","+b+">")
		if stuck[id] {
			if indexed {
				return b + " is marked indexed although a dependency is absent"
			}
			if !missRow {
				return b + " waits for a dependency but has no missing| row"
			}
			if !inNeeds {
				return b + " waits for a dependency but is not in needs"
			}
		} else {
			if !indexed {
				return b + " has all its dependencies but is not indexed"
			}
			if missRow {
				return b + " is indexed but still has a missing| row"
			}
		}
	}
	return ""
}

// ---- schedules -------------------------------------------------------------------------------------------

func permutations(ids []int) [][]int {
	if len(ids) <= 1 {
		return [][]int{append([]int(nil), ids...)}
	}
	var out [][]int
	for i := range ids {
		rest := append(append([]int(nil), ids[:i]...), ids[i+1:]...)
		for _, p := range permutations(rest) {
			out = append(out, append([]int{ids[i]}, p...))
		}
	}
	return out
}

func shuffled(r *hk.Rand, ids []int) []int {
	out := append([]int(nil), ids...)
	for i := len(out) - 1; i > 0; i-- {
		j := r.Intn(i + 1)
		out[i], out[j] = out[j], out[i]
	}
	return out
}

// Schedule is one case: how the delivered blobs of a set reach the source and the index.
type Schedule struct {
	Label    string
	Order    []int
	SrcFirst bool  // all blobs are in the source before the first arrival
	Dup      []int // positions after which the blob is delivered a second time
	Restart  int   // restart after this many arrivals (-1: never)
	Par      [][]int
	Reindex  bool
	Steps    bool // dump after every arrival (else only at the end)
	KV       string
	Corpus   bool
	Faults   map[int]string // arrival position -> commit|set|delete: that arrival meets a failing sorted.KeyValue
	// RestartFault "<meta|claim|deleted|missing> <rows>": the restart is preceded by a start whose scan of
	// that prefix fails after that many rows
	RestartFault string
	// ReindexLiveAt > 0: Index.Reindex on the running index after that many arrivals (blobs may be waiting)
	ReindexLiveAt int
	// Late: after Order, the running index is reindexed and restarted, and then these blobs (dependencies
	// that were withheld so far) arrive
	Late []int
}

// Hangs counts the ops that hit the watchdog; after MaxHangs of them no further case is run (each
// costs OpTimeout, and the failing histories are already recorded).
var (
	Hangs    int
	MaxHangs = 3
)

type caseResult struct {
	finalDump, finalPend string
	lastObs              string
}

// RunCase plays one schedule: the ops go to the run (for the model) and to the real index.
// obsEvery adds the C06 observations after every arrival and checks live == reload.
func RunCase(r *hk.Run, s *Set, sc *Schedule, obsEvery bool) caseResult {
	if Hangs >= MaxHangs {
		return caseResult{"hang", "hang", "hang"}
	}
	r.Case(s.Name + " " + sc.Label)
	ex := NewExecObj()
	var res caseResult
	hung := false
	op := func(line string) string {
		if hung {
			return "hang" // nothing is executed (nor recorded) after a hang
		}
		out := ex.Do(strings.Fields(line))
		r.Op(line, out)
		if out == "hang" {
			hung = true
			Hangs++
			w := strings.Fields(line)[0]
			r.Fail("c05-op-hangs:"+w, fmt.Sprintf("op %q did not return within %v: the index never quiesces or is deadlocked", line, OpTimeout),
				"an answer", "hang", r.CaseOps())
			res.finalDump, res.finalPend, res.lastObs = "hang", "hang", "hang"
		}
		return out
	}
	for _, sp := range s.Specs {
		if out := op(sp.DefLine()); out != "ok" && out != "hang" {
			r.Fail("c05-def-not-built", "def line not accepted by the interpreter: "+out, "ok", out, r.CaseOps())
		}
	}
	c := "0"
	if sc.Corpus {
		c = "1"
	}
	op("open " + sc.KV + " " + c)
	delivered := map[int]bool{}
	observe := func(when string) {
		if !obsEvery || hung {
			return
		}
		a, b := op("obs"), op("obsr")
		r.Hit("c06:observations")
		if hung {
			return
		}
		if a != b {
			r.Fail(classifyObsDiff(a, b), "live index+corpus answers differ from a fresh index.New+KeepInMemory over the same rows "+when,
				b, a, r.CaseOps())
		}
		res.lastObs = a
	}
	waited := map[string]bool{}
	staleRows := false
	check := func(when string) {
		if hung {
			return
		}
		if staleRows {
			op("dumpx")
			if !hung {
				res.finalDump, res.finalPend = "stale", "stale"
			}
			return
		}
		d, p := op("dump"), op("pend")
		if hung {
			return
		}
		for _, row := range strings.Split(d, ";") {
			switch {
			case strings.HasPrefix(row, "missing|"):
				b := row[len("missing|"):strings.IndexByte(row, ',')]
				if !waited[b] {
					waited[b] = true
					r.Hit("mech:missing-dependency-noted")
				}
			case strings.HasPrefix(row, "have|") && strings.HasSuffix(row, ",0"):
				r.Hit("mech:delete-claim-waits-for-target-meta")
			case strings.HasPrefix(row, "have|") && strings.HasSuffix(row, ",1"):
				b := row[len("have|"):strings.IndexByte(row, '=')]
				if waited[b] {
					delete(waited, b)
					r.Hit("mech:dependant-reindexed-when-dependency-arrived")
				}
			}
		}
		if msg := s.checkPending(d, p, delivered); msg != "" {
			r.Fail("c05-pending-not-remembered", msg+" "+when, "", d+" "+p, r.CaseOps())
		}
		res.finalDump, res.finalPend = d, p
	}
	// reindexOp runs a Reindex and requires what the property says of it: the rows (missing| rows included)
	// and the pending bookkeeping are those of before, since the blob set is the same.
	reindexOp := func(name, when string) {
		if hung || staleRows {
			return
		}
		d0, p0 := op("dump"), op("pend")
		out := op(name)
		r.Hit("sched:" + name)
		if strings.Contains(p0, "needs=b") {
			r.Hit("sched:" + name + "-while-blobs-are-waiting")
		}
		want := "ok"
		if len(s.Stuck(delivered)) > 0 {
			want = "needed"
		}
		if hung {
			return
		}
		if out != want {
			r.Fail("c05-reindex-status", "Reindex status "+when, want, out, r.CaseOps())
		}
		d1, p1 := op("dump"), op("pend")
		if hung {
			return
		}
		if d0 != d1 {
			r.Fail("c05-reindex-changes-rows", "the rows after "+name+" "+when+" differ from the rows before it (same blob set)", d0, d1, r.CaseOps())
		}
		if p0 != p1 {
			r.Fail("c05-reindex-changes-pending", "needs/neededBy after "+name+" "+when+" differ from before", p0, p1, r.CaseOps())
		}
		observe("after " + name + " " + when)
	}
	if sc.SrcFirst {
		for _, id := range s.Deliver {
			op(fmt.Sprintf("src %d", id))
		}
	}
	if sc.Par != nil {
		var gs []string
		for _, g := range sc.Par {
			gs = append(gs, idsTok(g))
			for _, id := range g {
				delivered[id] = true
			}
		}
		if out := op("par " + strings.Join(gs, "/")); out != "ok" && out != "hang" {
			r.Fail("c05-receive-error", "concurrent delivery reported an error", "ok", out, r.CaseOps())
		}
		r.Hit("sched:par")
		observe("after the concurrent arrivals")
	} else {
		if k := s.lateContentFiles(sc.Order); k > 0 {
			r.Res.Histogram["sched:content-file-arrives-after-its-camliContent-claim"] += k
		}
		if k := s.lateNamed(sc.Order); k > 0 {
			r.Res.Histogram["sched:claim-arrives-before-the-blob-its-value-names"] += k
		}
		if k := s.lateDeleters(sc.Order); k > 0 {
			r.Res.Histogram["sched:second-delete-claim-on-a-target"] += k
		}
		for i, id := range sc.Order {
			if !sc.SrcFirst {
				op(fmt.Sprintf("src %d", id))
			}
			if kind := sc.Faults[i]; kind != "" {
				out := op(fmt.Sprintf("frecv %d %s", id, kind))
				r.Hit("fault:" + kind)
				if kind == "delete" {
					staleRows = true // rows the index could not delete stay behind: only live == reload is required from here on
				}
				if out == "err" {
					// nothing of the failed arrival may be visible anywhere: live == reload right now
					r.Hit("fault:" + kind + ":receive-failed")
					if !staleRows {
						op("dump")
						op("pend")
					}
					observe(fmt.Sprintf("after the failed arrival %d (%s fails)", i+1, kind))
					// ... and the blob can be received again
					if out2 := op(fmt.Sprintf("recv %d", id)); out2 != "ok" && out2 != "hang" {
						r.Fail("c05-receive-error", fmt.Sprintf("ReceiveBlob of b%d failed again after the store recovered", id), "ok", out2, r.CaseOps())
					}
				}
			} else if out := op(fmt.Sprintf("recv %d", id)); out != "ok" && out != "hang" {
				r.Fail("c05-receive-error", fmt.Sprintf("ReceiveBlob of b%d reported an error", id), "ok", out, r.CaseOps())
			}
			delivered[id] = true
			for _, d := range sc.Dup {
				if d == i {
					op(fmt.Sprintf("recv %d", sc.Order[r.R.Intn(i+1)]))
					r.Hit("sched:duplicate")
				}
			}
			if sc.Steps && !sc.SrcFirst {
				check(fmt.Sprintf("after arrival %d", i+1))
			}
			observe(fmt.Sprintf("after arrival %d", i+1))
			if sc.ReindexLiveAt == i+1 {
				reindexOp("reindexlive", fmt.Sprintf("after arrival %d", i+1))
			}
			if sc.Restart == i+1 {
				before := op("pend")
				if sc.RestartFault != "" {
					// a start that meets a transient read fault in one of its scans must fail (and a later
					// start succeed), or else load exactly what a clean start loads
					out := op("frestart " + sc.RestartFault)
					r.Hit("fault:restart-scan:" + strings.Fields(sc.RestartFault)[0])
					if out == "err" {
						r.Hit("fault:restart-scan:start-failed")
					}
					observe(fmt.Sprintf("after the start with a failing %s scan at prefix %d", sc.RestartFault, i+1))
				}
				op("restart")
				after := op("pend")
				r.Hit("sched:restart")
				if before != after && !hung {
					r.Fail("c05-restart-forgets-pending", fmt.Sprintf("needs/neededBy after a restart at prefix %d differ from before", i+1), before, after, r.CaseOps())
				}
				observe(fmt.Sprintf("after the restart at prefix %d", i+1))
			}
		}
	}
	if sc.Reindex {
		reindexOp("reindex", "at the end")
	}
	if len(sc.Late) > 0 {
		reindexOp("reindexlive", "before the restart")
		before := op("pend")
		op("restart")
		after := op("pend")
		r.Hit("sched:restart")
		if before != after && !hung {
			r.Fail("c05-restart-forgets-pending", "needs/neededBy after the restart that follows a Reindex differ from before", before, after, r.CaseOps())
		}
		for _, id := range sc.Late {
			op(fmt.Sprintf("src %d", id))
			if out := op(fmt.Sprintf("recv %d", id)); out != "ok" && out != "hang" {
				r.Fail("c05-receive-error", fmt.Sprintf("ReceiveBlob of b%d reported an error", id), "ok", out, r.CaseOps())
			}
			delivered[id] = true
			check(fmt.Sprintf("after the late arrival of b%d", id))
			observe(fmt.Sprintf("after the late arrival of b%d", id))
			r.Hit("sched:dependency-arrives-after-reindex-and-restart")
		}
	}
	if sc.SrcFirst && sc.Par == nil && !sc.Reindex {
		// every dependency was in the source all along
		for id := range delivered {
			_ = id
		}
	}
	check("at the end")
	op("close")
	return res
}

// classifyObsDiff names the part of the query surface in which live and reloaded answers differ.
func classifyObsDiff(live, reload string) string {
	a, b := strings.Split(live, ";"), strings.Split(reload, ";")
	names := []string{"meta", "deleted", "permanode", "bymodtime", "bycreated", "claimback", "keyid"}
	for i := range a {
		if i < len(b) && i < len(names) && a[i] != b[i] {
			return "c06-live-differs-from-reload-" + names[i]
		}
	}
	return "c06-live-differs-from-reload"
}

var kvKinds = []string{"mem", "leveldb", "sqlite", "kvfile"}

// Explore runs the schedules of one set and compares every final state with the reference (the first
// schedule: dependency order). It is shared by C05 (obs=false) and C06 (obs=true).
func Explore(r *hk.Run, s *Set, obs bool, maxPerm int, extra int) {
	corpus := obs
	kvOf := func(i int) string {
		if i%9 == 4 {
			return "leveldb"
		}
		if i%9 == 7 {
			return "sqlite"
		}
		return "mem"
	}
	for _, k := range s.Shapes() {
		r.Hit(k)
	}
	ref := RunCase(r, s, &Schedule{Label: "in-order", Order: s.Deliver, Restart: -1, Steps: true, KV: "mem", Corpus: corpus}, obs)
	r.Distinct(s.Name + "|" + ref.finalDump)
	compare := func(label string, got caseResult) {
		if got.finalDump == "hang" || ref.finalDump == "hang" {
			return // reported as c05-op-hangs
		}
		if got.finalDump == "stale" {
			// a failing Delete left missing| rows behind: the answers must still be those of the reference
			if obs && got.lastObs != ref.lastObs {
				r.Fail("c06-answers-depend-on-schedule", "final query answers of schedule "+label+" differ from the in-order delivery",
					ref.lastObs, got.lastObs, r.CaseOps())
			}
			return
		}
		if got.finalDump != ref.finalDump {
			r.Fail("c05-rows-depend-on-schedule", "final rows of schedule "+label+" differ from the in-order delivery of the same blobs",
				ref.finalDump, got.finalDump, r.CaseOps())
		}
		if got.finalPend != ref.finalPend {
			r.Fail("c05-pending-depends-on-schedule", "final needs/neededBy of schedule "+label+" differ from the in-order delivery of the same blobs",
				ref.finalPend, got.finalPend, r.CaseOps())
		}
		if obs && got.lastObs != ref.lastObs {
			r.Fail("c06-answers-depend-on-schedule", "final query answers of schedule "+label+" differ from the in-order delivery",
				ref.lastObs, got.lastObs, r.CaseOps())
		}
	}
	n := len(s.Deliver)
	var orders [][]int
	if n <= maxPerm {
		orders = permutations(s.Deliver)
		r.Hit("sets:all-permutations")
	} else {
		for i := 0; i < extra*3; i++ {
			orders = append(orders, shuffled(r.R, s.Deliver))
		}
		r.Hit("sets:random-orders")
		// keys first, then every order of the other blobs, when those are few enough
		var keysFirst, others []int
		for _, id := range s.Deliver {
			if s.W.Specs[id].Kind == "key" {
				keysFirst = append(keysFirst, id)
			} else {
				others = append(others, id)
			}
		}
		if len(keysFirst) > 0 && len(others) <= maxPerm-1 {
			for _, p := range permutations(others) {
				orders = append(orders, append(append([]int(nil), keysFirst...), p...))
			}
			r.Hit("sets:keys-first-then-all-permutations")
		}
	}
	for i, o := range orders {
		sc := &Schedule{Label: "perm " + idsTok(o), Order: o, Restart: -1, Steps: i%7 == 0 || obs, KV: kvOf(i), Corpus: corpus || i%5 == 3}
		compare(sc.Label, RunCase(r, s, sc, obs))
		r.Hit("sched:permutation")
		r.Hit("kv:" + sc.KV)
	}
	// restarts at every prefix of a few orders
	for j := 0; j < extra; j++ {
		o := orders[r.R.Intn(len(orders))]
		for k := 1; k < n; k++ {
			sc := &Schedule{Label: fmt.Sprintf("restart@%d %s", k, idsTok(o)), Order: o, Restart: k, Steps: true, KV: kvOf(j + k), Corpus: corpus}
			if r.R.Chance(50) {
				sc.RestartFault = fmt.Sprintf("%s %d", []string{"meta", "claim", "deleted", "missing"}[r.R.Intn(4)], r.R.Intn(3))
				sc.Label = "f" + sc.Label
			}
			compare(sc.Label, RunCase(r, s, sc, obs))
		}
	}
	// duplicates
	for j := 0; j < extra; j++ {
		o := orders[r.R.Intn(len(orders))]
		sc := &Schedule{Label: "dups " + idsTok(o), Order: o, Restart: -1, Dup: []int{r.R.Intn(n), r.R.Intn(n)}, Steps: true, KV: "mem", Corpus: corpus}
		if r.R.Chance(30) {
			sc.Restart = 1 + r.R.Intn(n)
		}
		compare(sc.Label, RunCase(r, s, sc, obs))
	}
	// source complete before the first arrival
	{
		o := orders[r.R.Intn(len(orders))]
		sc := &Schedule{Label: "srcfirst " + idsTok(o), Order: o, SrcFirst: true, Restart: -1, KV: "mem", Corpus: corpus}
		compare(sc.Label, RunCase(r, s, sc, obs))
		r.Hit("sched:source-first")
	}
	// Reindex on the running index in the middle of a delivery (blobs may be waiting), and at its end
	for j := 0; j < extra; j++ {
		o := orders[r.R.Intn(len(orders))]
		sc := &Schedule{Label: "reindexlive " + idsTok(o), Order: o, Restart: -1, ReindexLiveAt: 1 + r.R.Intn(n), Steps: true, KV: kvOf(j + 3), Corpus: corpus}
		if r.R.Chance(40) && sc.ReindexLiveAt < n {
			sc.Restart = sc.ReindexLiveAt + 1
		}
		compare(sc.Label, RunCase(r, s, sc, obs))
	}
	// withheld dependencies: Reindex of the running index while blobs wait, restart, then the dependencies arrive
	if len(s.Deliver) < len(s.Specs) {
		in := map[int]bool{}
		for _, id := range s.Deliver {
			in[id] = true
		}
		var late []int
		for _, sp := range s.Specs {
			if !in[sp.ID] {
				late = append(late, sp.ID)
			}
		}
		all := append(append([]int(nil), s.Deliver...), late...)
		refAll := RunCase(r, s, &Schedule{Label: "all-arrived " + idsTok(all), Order: all, Restart: -1, Steps: true, KV: "mem", Corpus: corpus}, obs)
		for j := 0; j < extra; j++ {
			o := orders[r.R.Intn(len(orders))]
			sc := &Schedule{Label: "reindex-restart-late " + idsTok(o), Order: o, Restart: -1, Steps: true, KV: kvOf(j), Corpus: corpus, Late: late}
			got := RunCase(r, s, sc, obs)
			if got.finalDump != "hang" && refAll.finalDump != "hang" {
				if got.finalDump != refAll.finalDump {
					r.Fail("c05-waiting-blob-not-indexed-after-reindex-restart", "after Reindex, restart and the arrival of the withheld blobs the rows differ from those of delivering everything",
						refAll.finalDump, got.finalDump, r.CaseOps())
				}
				if got.finalPend != refAll.finalPend {
					r.Fail("c05-pending-depends-on-schedule", "after Reindex, restart and the arrival of the withheld blobs needs/neededBy differ from those of delivering everything",
						refAll.finalPend, got.finalPend, r.CaseOps())
				}
			}
		}
	}
	// transient failures of the index's sorted.KeyValue at one or two arrivals
	for j := 0; j < extra*2; j++ {
		o := orders[r.R.Intn(len(orders))]
		faults := map[int]string{}
		for k := 0; k < 1+r.R.Intn(2); k++ {
			kind := "commit"
			if x := r.R.Intn(10); x >= 8 {
				kind = "delete"
			} else if x >= 5 {
				kind = "set"
			}
			faults[r.R.Intn(n)] = kind
		}
		sc := &Schedule{Label: "kvfaults " + idsTok(o), Order: o, Restart: -1, Steps: true, KV: kvOf(j), Corpus: corpus, Faults: faults}
		compare(sc.Label, RunCase(r, s, sc, obs))
		r.Hit("sched:kv-faults")
	}
	// content last: every claim is indexed (and the orderings enumerated) before the files they point to
	{
		var first, lastIDs []int
		for _, id := range s.Deliver {
			switch s.W.Specs[id].Kind {
			case "file", "opaque", "bytes":
				lastIDs = append(lastIDs, id)
			default:
				first = append(first, id)
			}
		}
		if len(lastIDs) > 0 && len(first) > 0 {
			o := append(first, lastIDs...)
			sc := &Schedule{Label: "content-last " + idsTok(o), Order: o, Restart: -1, Steps: true, KV: "mem", Corpus: corpus}
			compare(sc.Label, RunCase(r, s, sc, obs))
			r.Hit("sched:content-last")
		}
	}
	// goroutine partitions
	for j := 0; j < extra; j++ {
		o := shuffled(r.R, s.Deliver)
		g := 2 + r.R.Intn(3)
		parts := make([][]int, g)
		for _, id := range o {
			k := r.R.Intn(g)
			parts[k] = append(parts[k], id)
		}
		var ne [][]int
		for _, p := range parts {
			if len(p) > 0 {
				ne = append(ne, p)
			}
		}
		sc := &Schedule{Label: "par", Par: ne, Restart: -1, KV: kvOf(j), Corpus: corpus}
		compare(sc.Label, RunCase(r, s, sc, obs))
	}
	// full reindex: after incremental delivery, and from the source alone
	{
		o := orders[r.R.Intn(len(orders))]
		sc := &Schedule{Label: "reindex-after " + idsTok(o), Order: o, Restart: -1, Reindex: true, KV: kvOf(r.R.Intn(9)), Corpus: corpus}
		compare(sc.Label, RunCase(r, s, sc, obs))
		sc = &Schedule{Label: "reindex-only", Order: nil, SrcFirst: true, Restart: -1, Reindex: true, KV: "mem", Corpus: corpus}
		got := RunCaseReindexOnly(r, s, sc, obs)
		compare(sc.Label, got)
	}
}

// RunCaseReindexOnly: the blobs are only put into the source; Reindex does all the indexing.
func RunCaseReindexOnly(r *hk.Run, s *Set, sc *Schedule, obs bool) caseResult {
	if Hangs >= MaxHangs {
		return caseResult{"hang", "hang", "hang"}
	}
	r.Case(s.Name + " " + sc.Label)
	ex := NewExecObj()
	hung := false
	op := func(line string) string {
		if hung {
			return "hang"
		}
		out := ex.Do(strings.Fields(line))
		r.Op(line, out)
		if out == "hang" {
			hung = true
			Hangs++
			r.Fail("c05-op-hangs:"+strings.Fields(line)[0], fmt.Sprintf("op %q did not return within %v", line, OpTimeout),
				"an answer", "hang", r.CaseOps())
		}
		return out
	}
	for _, sp := range s.Specs {
		op(sp.DefLine())
	}
	c := "0"
	if sc.Corpus {
		c = "1"
	}
	op("open " + sc.KV + " " + c)
	delivered := map[int]bool{}
	for _, id := range s.Deliver {
		op(fmt.Sprintf("src %d", id))
		delivered[id] = true
	}
	out := op("reindex")
	want := "ok"
	if len(s.Stuck(delivered)) > 0 {
		want = "needed"
	}
	if out != want && !hung {
		r.Fail("c05-reindex-status", "Reindex status", want, out, r.CaseOps())
	}
	var res caseResult
	if obs {
		a, b := op("obs"), op("obsr")
		if a != b && !hung {
			r.Fail(classifyObsDiff(a, b), "live answers differ from reload after Reindex", b, a, r.CaseOps())
		}
		res.lastObs = a
	}
	res.finalDump, res.finalPend = op("dump"), op("pend")
	if hung {
		return caseResult{"hang", "hang", "hang"}
	}
	if msg := s.checkPending(res.finalDump, res.finalPend, delivered); msg != "" {
		r.Fail("c05-pending-not-remembered", msg+" after Reindex", "", res.finalDump, r.CaseOps())
	}
	op("close")
	return res
}

// Malformed feeds both sides lines that are not ops.
func Malformed(r *hk.Run) {
	r.Case("malformed")
	ex := NewExecObj()
	for _, l := range []string{"recv 1", "open mem 2", "open disk 0", "def 0 key 0 1 -", "def 1 key 2 449 -", "def 1 pn 1 1 10",
		"def 1 opaque 1 5 -", "def 1 opaque 1 5 -", "def 2 file 10 1 0 5 - 1 0x0 c9:5", "def 2 claim 1 1 set i0 s1 5 5",
		"open mem 0", "open mem 0", "src 9", "recv x", "recv", "dump 1", "par 1,/2", "par 9", "frob", "obs", "close", "dump"} {
		r.Op(l, ex.Do(strings.Fields(l)))
	}
	r.Hit("malformed-stream")
}

// MalformedObs: the observation ops need a corpus and an open index.
func MalformedObs(r *hk.Run) {
	r.Case("malformed")
	ex := NewExecObj()
	for _, l := range []string{"obs", "obsr", "frecv 1 commit", "frestart meta 0", "open mem 1", "frecv 1", "frecv 1 boom", "frecv 9 commit", "frestart", "frestart rows 1", "frestart meta x", "frestart meta 1", "frestart deleted 0", "obs 1", "obs", "obsr", "restart", "obs", "reindex", "obsr", "close", "obs"} {
		r.Op(l, ex.Do(strings.Fields(l)))
	}
	r.Hit("malformed-stream")
}

// Run is the C05 generator.
func Run(r *hk.Run) {
	r.Res.Rule = "distinct (blob set, final row dump) pairs; every schedule of a set is compared with the set's in-order delivery"
	maxPerm, extra, nRandom := 5, 2, 12
	if r.Thorough() {
		maxPerm, extra, nRandom = 6, 4, 40
	}
	sets := FixedSets(r.R)
	for i := 0; i < nRandom; i++ {
		sets = append(sets, RandomSet(r.R, 3+r.R.Intn(5), i))
	}
	for i, s := range sets {
		Explore(r, s, false, maxPerm, extra)
		if i < 3 {
			r.Sample(map[string]any{"set": s.Name, "delivered": s.Deliver, "blobs": len(s.Specs)})
		}
		for _, sp := range s.Specs {
			r.Hit("kind:" + sp.Kind)
		}
	}
	Malformed(r)
	Probes(r)
}
