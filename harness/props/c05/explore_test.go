package c05

import (
	"fmt"
	"io"
	"log"
	"os"
	"strings"
	"testing"
)

// The scenarios of DESIGN §12 rows 13-16 (and the stale missing| row), kept as a readable trace:
// run with `cd /repo && go test -C /verif/harness -tags verif -run Explore -v ./props/c05/`.
func TestMain(m *testing.M) {
	log.SetOutput(io.Discard)
	os.Exit(m.Run())
}

// script runs op lines on a fresh exec; `def` lines are given as specs and built first.
func runScript(t *testing.T, specs []*Spec, ops ...string) []string {
	e := NewExecObj()
	var out []string
	tmp := NewWorld()
	for _, s := range specs {
		if err := tmp.Add(s); err != nil {
			t.Fatal(err)
		}
		l := s.DefLine()
		r := e.Do(strings.Fields(l))
		t.Logf("%-70s -> %s", l, r)
	}
	for _, op := range ops {
		r := e.Do(strings.Fields(op))
		t.Logf("%-20s -> %s", op, strings.ReplaceAll(r, ";", "\n      "))
		out = append(out, r)
	}
	e.Close()
	return out
}

func baseSpecs() []*Spec {
	return []*Spec{
		{ID: 1, Kind: "key", Key: 0},
		{ID: 2, Kind: "pn", Signer: 1, Nonce: 1},
		{ID: 3, Kind: "claim", Signer: 1, PN: 2, CType: "set", Attr: "i0", Val: "s1", Date: 1000 * sec},
		{ID: 4, Kind: "del", Signer: 1, Target: 2, Date: 2000 * sec},
		{ID: 5, Kind: "opaque", Nonce: 5, Size: 40},
		{ID: 6, Kind: "opaque", Nonce: 6, Size: 50},
		{ID: 7, Kind: "file", Name: 1, Parts: []Part{{'c', 5, 40}, {'c', 6, 50}}},
		{ID: 8, Kind: "del", Signer: 1, Target: 7, Date: 3000 * sec},
	}
}

func TestExploreRow13(t *testing.T) {
	// delete claim before its target, then restart, then the target
	runScript(t, baseSpecs(), "open mem 0", "src 1", "recv 1", "src 4", "recv 4", "dump", "pend", "restart", "pend",
		"src 2", "recv 2", "dump", "pend")
}

func TestExploreStaleMissing(t *testing.T) {
	// file before its chunks; restart between the chunks
	runScript(t, baseSpecs(), "open mem 0", "src 7", "recv 7", "src 5", "recv 5", "dump", "pend", "restart", "pend",
		"src 6", "recv 6", "dump", "pend")
}

func TestExploreRow14_15_16(t *testing.T) {
	runScript(t, baseSpecs(), "open mem 1", "src 1", "recv 1", "src 2", "recv 2", "src 4", "recv 4", "obs", "obsr", "restart", "obs")
	fmt.Println("---- 15")
	runScript(t, baseSpecs(), "open mem 1", "src 1", "recv 1", "src 4", "recv 4", "src 2", "recv 2", "dump", "obs", "obsr")
	fmt.Println("---- 16")
	runScript(t, baseSpecs(), "open mem 1", "src 1", "recv 1", "src 5", "recv 5", "src 6", "recv 6", "src 7", "recv 7", "src 8", "recv 8", "dump", "obs", "obsr")
}

func TestExploreSameSecond(t *testing.T) {
	base := 5000 * sec
	specs := func() []*Spec {
		return []*Spec{
			{ID: 1, Kind: "key", Key: 0},
			{ID: 2, Kind: "pn", Signer: 1, Nonce: 1},
			{ID: 3, Kind: "claim", Signer: 1, PN: 2, CType: "set", Attr: "i0", Val: "s1", Date: base},
			{ID: 4, Kind: "claim", Signer: 1, PN: 2, CType: "set", Attr: "i0", Val: "s2", Date: base + 500000000},
			{ID: 5, Kind: "claim", Signer: 1, PN: 2, CType: "set", Attr: "i0", Val: "s3", Date: base + 550000000},
			{ID: 6, Kind: "claim", Signer: 1, PN: 2, CType: "set", Attr: "i0", Val: "s4", Date: base + 500000001},
			{ID: 7, Kind: "claim", Signer: 1, PN: 2, CType: "set", Attr: "i0", Val: "s5", Date: base + 500000001},
		}
	}
	runScript(t, specs(), "open mem 1", "src 1", "recv 1", "src 2", "recv 2", "src 3", "recv 3", "src 4", "recv 4", "src 5", "recv 5", "src 6", "recv 6", "obs", "obsr", "src 7", "recv 7", "obs", "obsr", "dump")
	fmt.Println("---- reversed")
	runScript(t, specs(), "open mem 1", "src 1", "recv 1", "src 2", "recv 2", "src 7", "recv 7", "src 6", "recv 6", "src 5", "recv 5", "src 4", "recv 4", "src 3", "recv 3", "obs", "obsr")
}

func TestPrintWitnesses(t *testing.T) {
	for _, w := range append(Witnesses(), EqualDateWitness(), OversizedWitness()) {
		fmt.Printf("WITNESS %s %s\n", w.ID, strings.Join(w.Ops, " ;; "))
	}
}
