package c05

import (
	"fmt"
	"net/url"
	"os"
	"path/filepath"
	"sort"
	"strconv"
	"strings"
	"sync"
	"time"

	"perkeep.org/pkg/blob"
	"perkeep.org/pkg/blobserver"
	"perkeep.org/pkg/index"
	"perkeep.org/pkg/schema"
	"perkeep.org/pkg/sorted"
	"perkeep.org/pkg/sorted/kvfile"
	"perkeep.org/pkg/sorted/leveldb"
	"perkeep.org/pkg/sorted/sqlite"
	"perkeep.org/pkg/test"
	"perkeep.org/pkg/types/camtypes"

	"verifharness/hk"
)

// Exec interprets the C05/C06 line protocol on the real index.
type Exec struct {
	W      *World
	kvKind string
	withC  bool
	kv     sorted.KeyValue // the faultKV around the real store
	fkv    *faultKV
	dir    string
	src    *test.Fetcher
	Ix     *index.Index
	Corpus *index.Corpus
	opened bool
	dead   bool
	hung   bool // an op did not return within OpTimeout: the index is stuck, nothing more is executed
}

// OpTimeout bounds every op of the interpreter (arrival + wait for quiescence, restart, reindex, ...).
var OpTimeout = 20 * time.Second

var (
	liveMu   sync.Mutex
	liveExec *Exec
)

// NewExecObj returns a fresh interpreter; the previous one (if any) is closed.
func NewExecObj() *Exec {
	liveMu.Lock()
	defer liveMu.Unlock()
	if liveExec != nil {
		liveExec.Close()
	}
	e := &Exec{W: NewWorld(), src: new(test.Fetcher)}
	liveExec = e
	return e
}

// NewExec is the hk entry point.
func NewExec() func([]string) string {
	e := NewExecObj()
	return e.Do
}

// Close releases the KV and removes its temporary directory.
func (e *Exec) Close() {
	if e.hung {
		// the stuck goroutine still holds the index and its KV: only the directory is reclaimed
		if e.dir != "" {
			os.RemoveAll(e.dir)
			e.dir = ""
		}
		e.dead = true
		return
	}
	if e.Ix != nil {
		e.Ix.VerifAwaitReindex()
	}
	if e.kv != nil {
		e.kv.Close()
		e.kv = nil
	}
	if e.dir != "" {
		os.RemoveAll(e.dir)
		e.dir = ""
	}
	e.dead = true
}

func (e *Exec) openKV(kind string) error {
	err := e.openRawKV(kind)
	if err == nil {
		e.fkv = &faultKV{KeyValue: e.kv}
		e.kv = e.fkv
	}
	return err
}

func (e *Exec) openRawKV(kind string) error {
	if kind == "mem" {
		e.kv = sorted.NewMemoryKeyValue()
		return nil
	}
	dir, err := os.MkdirTemp("", "pkh-c05-")
	if err != nil {
		return err
	}
	e.dir = dir
	switch kind {
	case "leveldb":
		e.kv, err = leveldb.NewStorage(filepath.Join(dir, "ix.leveldb"))
	case "sqlite":
		e.kv, err = sqlite.NewStorage(filepath.Join(dir, "ix.sqlite"))
	case "kvfile":
		e.kv, err = kvfile.NewStorage(filepath.Join(dir, "ix.kv"))
	default:
		err = fmt.Errorf("bad kv kind")
	}
	return err
}

// newIndex opens an index over the case's KV and source, the way a server start does.
func (e *Exec) newIndex() error {
	ix, err := index.New(e.kv)
	if err != nil {
		return err
	}
	ix.InitBlobSource(e.src)
	e.Ix, e.Corpus = ix, nil
	if e.withC {
		c, err := ix.KeepInMemory()
		if err != nil {
			return err
		}
		e.Corpus = c
	}
	return nil
}

func (e *Exec) receive(id int) error {
	tb := e.W.Blob[id]
	_, err := blobserver.Receive(ctxbg, e.Ix, tb.BlobRef(), strings.NewReader(tb.Contents))
	return err
}

// Do executes one op line under a watchdog: an op that does not return within OpTimeout answers
// `hang` (a stuck index: an await that never ends, a deadlock in New, ...), and so does every later op.
func (e *Exec) Do(ws []string) string {
	if e.hung {
		return "hang"
	}
	done := make(chan string, 1)
	go func() { done <- hk.Guard(func() string { return e.do(ws) }) }()
	t := time.NewTimer(OpTimeout)
	defer t.Stop()
	select {
	case out := <-done:
		return out
	case <-t.C:
		e.hung = true
		return "hang"
	}
}

func (e *Exec) do(ws []string) string {
	if len(ws) == 0 || e.dead {
		return "bad-op"
	}
	if ws[0] == "def" {
		s, c, ok := ParseDef(ws[1:])
		if !ok || e.W.Specs[s.ID] != nil {
			return "bad-op"
		}
		if !e.refsDefined(s) {
			return "bad-op"
		}
		if err := e.W.Add(s); err != nil {
			return "err"
		}
		if s.Size != c.Size || s.Mime != c.Mime || s.FSize != c.FSize || s.Whole != c.Whole || s.ImgW != c.ImgW || s.ImgH != c.ImgH || s.Drop != c.Drop {
			return "mismatch"
		}
		return "ok"
	}
	if ws[0] == "open" {
		if e.opened || len(ws) != 3 || (ws[2] != "0" && ws[2] != "1") {
			return "bad-op"
		}
		switch ws[1] {
		case "mem", "leveldb", "sqlite", "kvfile":
		default:
			return "bad-op"
		}
		e.kvKind, e.withC = ws[1], ws[2] == "1"
		if err := e.openKV(ws[1]); err != nil {
			return "err"
		}
		if err := e.newIndex(); err != nil {
			return "err"
		}
		e.opened = true
		return "ok"
	}
	if !e.opened {
		return "bad-op"
	}
	switch ws[0] {
	case "src", "recv":
		if len(ws) != 2 {
			return "bad-op"
		}
		id, ok := atoiStrict(ws[1])
		if !ok || e.W.Specs[id] == nil {
			return "bad-op"
		}
		if ws[0] == "src" {
			e.src.AddBlob(e.W.Blob[id])
			return "ok"
		}
		err := e.receive(id)
		e.Ix.VerifAwaitReindex()
		if err != nil {
			return "err"
		}
		return "ok"
	case "frecv":
		// ReceiveBlob with a transient failure of the index's sorted.KeyValue (see faultKV)
		if len(ws) != 3 {
			return "bad-op"
		}
		id, ok := atoiStrict(ws[1])
		if !ok || e.W.Specs[id] == nil {
			return "bad-op"
		}
		switch ws[2] {
		case "commit", "set", "delete":
		default:
			return "bad-op"
		}
		e.fkv.arm(ws[2], e.W.Blob[id].BlobRef().String())
		err := e.receive(id)
		e.Ix.VerifAwaitReindex()
		e.fkv.disarm()
		if err != nil {
			return "err"
		}
		return "ok"
	case "par":
		if len(ws) != 2 {
			return "bad-op"
		}
		var groups [][]int
		for _, g := range strings.Split(ws[1], "/") {
			ids, ok := parseIDs(g)
			if !ok || len(ids) == 0 {
				return "bad-op"
			}
			for _, id := range ids {
				if e.W.Specs[id] == nil {
					return "bad-op"
				}
			}
			groups = append(groups, ids)
		}
		var wg sync.WaitGroup
		var mu sync.Mutex
		failed := false
		for _, g := range groups {
			wg.Add(1)
			go func(g []int) {
				defer wg.Done()
				for _, id := range g {
					e.src.AddBlob(e.W.Blob[id])
					if err := e.receive(id); err != nil {
						mu.Lock()
						failed = true
						mu.Unlock()
					}
				}
			}(g)
		}
		wg.Wait()
		e.Ix.VerifAwaitReindex()
		if failed {
			return "err"
		}
		return "ok"
	case "dump":
		if len(ws) != 1 {
			return "bad-op"
		}
		return e.Dump()
	case "dumpx":
		// the rows other than missing| rows (after failing Deletes the set of stale missing| rows
		// depends on the order in which the re-index goroutines ran)
		if len(ws) != 1 {
			return "bad-op"
		}
		var rows []string
		for _, r := range e.Rows() {
			if !strings.HasPrefix(r, "missing|") {
				rows = append(rows, r)
			}
		}
		return joinOrDashSep(rows, ";")
	case "pend":
		if len(ws) != 1 {
			return "bad-op"
		}
		return e.Pending()
	case "restart":
		if len(ws) != 1 {
			return "bad-op"
		}
		e.Ix.VerifAwaitReindex()
		if err := e.newIndex(); err != nil {
			return "err"
		}
		return "ok"
	case "reindex":
		if len(ws) != 1 {
			return "bad-op"
		}
		// the way `perkeepd -reindex` does it: wipe, open on the empty KV, Reindex
		e.Ix.VerifAwaitReindex()
		wiper, ok := e.kv.(sorted.Wiper)
		if !ok {
			return "err"
		}
		if err := wiper.Wipe(); err != nil {
			return "err"
		}
		ix, err := index.New(e.kv)
		if err != nil {
			return "err"
		}
		ix.InitBlobSource(e.src)
		rerr := ix.Reindex()
		e.Ix, e.Corpus = ix, nil
		if e.withC {
			c, err := ix.KeepInMemory()
			if err != nil {
				return "err"
			}
			e.Corpus = c
		}
		if rerr != nil {
			if strings.Contains(rerr.Error(), "still needed as dependencies") {
				return "needed"
			}
			return "err"
		}
		return "ok"
	case "frestart":
		// a start (index.New + KeepInMemory over the same KV) during which one prefix scan meets a
		// transient read fault: it must fail (the running index then stays) or load the same state
		if len(ws) != 3 {
			return "bad-op"
		}
		prefix, ok := map[string]string{"meta": "meta:", "claim": "claim|", "deleted": "deleted|", "missing": "missing|"}[ws[1]]
		k, ok2 := atoiStrict(ws[2])
		if !ok || !ok2 {
			return "bad-op"
		}
		e.Ix.VerifAwaitReindex()
		oldIx, oldC := e.Ix, e.Corpus
		e.fkv.armIter(prefix, k)
		err := e.newIndex()
		e.fkv.disarmIter()
		if err != nil {
			e.Ix, e.Corpus = oldIx, oldC
			return "err"
		}
		return "ok"
	case "reindexlive":
		// Index.Reindex on the running *Index (the way indextest.Reindex calls it): its in-memory
		// needs/neededBy maps and its corpus are kept, the rows are wiped and rebuilt
		if len(ws) != 1 {
			return "bad-op"
		}
		e.Ix.VerifAwaitReindex()
		if rerr := e.Ix.Reindex(); rerr != nil {
			if strings.Contains(rerr.Error(), "still needed as dependencies") {
				return "needed"
			}
			return "err"
		}
		return "ok"
	case "obs":
		if len(ws) != 1 || !e.withC {
			return "bad-op"
		}
		return e.Observe(e.Ix, e.Corpus)
	case "obsr":
		if len(ws) != 1 || !e.withC {
			return "bad-op"
		}
		ix, err := index.New(e.kv)
		if err != nil {
			return "err"
		}
		ix.InitBlobSource(e.src)
		c, err := ix.KeepInMemory()
		if err != nil {
			return "err"
		}
		return e.Observe(ix, c)
	case "close":
		if len(ws) != 1 {
			return "bad-op"
		}
		e.Close()
		return "ok"
	}
	return "bad-op"
}

func (e *Exec) refsDefined(s *Spec) bool {
	def := func(id int, kinds ...string) bool {
		x := e.W.Specs[id]
		if x == nil {
			return false
		}
		if len(kinds) == 0 {
			return true
		}
		for _, k := range kinds {
			if x.Kind == k {
				return true
			}
		}
		return false
	}
	switch s.Kind {
	case "pn":
		return def(s.Signer, "key")
	case "claim":
		if s.Val[0] == 'r' {
			n, _ := atoiStrict(s.Val[1:])
			if !def(n) {
				return false
			}
		}
		return def(s.Signer, "key") && def(s.PN, "pn")
	case "del":
		return def(s.Signer, "key") && def(s.Target)
	case "bytes", "file":
		for _, p := range s.Parts {
			switch p.Kind {
			case 'c':
				if !def(p.ID, "opaque") {
					return false
				}
			case 'y':
				if !def(p.ID, "bytes") {
					return false
				}
			}
		}
	case "dir":
		return def(s.SSet, "sset")
	case "sset":
		for _, r := range s.Refs {
			if s.Merge && !def(r, "sset") || !s.Merge && !def(r) {
				return false
			}
		}
	}
	return true
}

// ---- canonical dump of the index rows ------------------------------------------------------------------

func (e *Exec) refTok(s string) string {
	if s == "" {
		return "-"
	}
	if id, ok := e.W.IDOfRef[s]; ok {
		return "b" + strconv.Itoa(id)
	}
	if cid, ok := e.W.wholes[s]; ok {
		return "w" + strconv.Itoa(cid)
	}
	if len(s) > 14 {
		s = s[:14]
	}
	return "?" + s
}

// wholeTok names the digest of a whole file (it may coincide with the ref of a single chunk).
func (e *Exec) wholeTok(s string) string {
	if s == "" {
		return "-"
	}
	if cid, ok := e.W.wholes[s]; ok {
		return "w" + strconv.Itoa(cid)
	}
	return e.refTok(s)
}

func (e *Exec) keyIDTok(s string) string {
	if k, ok := e.W.KeyIDOf[s]; ok {
		return "K" + strconv.Itoa(k)
	}
	return "?" + s
}

func unreverseTime(s string) string {
	if !strings.HasPrefix(s, "rt") {
		return s
	}
	b := []byte(s[2:])
	for i, c := range b {
		if c >= '0' && c <= '9' {
			b[i] = '9' - (c - '0')
		}
	}
	return string(b)
}

func dateTok(s string) string {
	t, err := time.Parse(time.RFC3339, s)
	if err != nil {
		return "?" + s
	}
	return strconv.FormatInt(t.UnixNano(), 10)
}

func urld(s string) string {
	d, err := url.QueryUnescape(s)
	if err != nil {
		return s
	}
	return d
}

var (
	revOnce                      sync.Once
	revAttr, revVal, revName     map[string]string
	claimTypeTok, camliTypeToken map[string]string
)

func initRev() {
	revOnce.Do(func() {
		revAttr, revVal, revName = map[string]string{}, map[string]string{}, map[string]string{}
		for tok, s := range attrNames {
			revAttr[s] = tok
		}
		for n := 0; n < 64; n++ {
			revAttr["camliPath:"+SuffixString(n)] = "p" + strconv.Itoa(n)
			if n >= 2 {
				revAttr["attr"+strconv.Itoa(n)] = "o" + strconv.Itoa(n)
			}
			revVal[ValString(n)] = "s" + strconv.Itoa(n)
			revName[NameString(n)] = strconv.Itoa(n)
		}
		claimTypeTok = map[string]string{"set-attribute": "set", "add-attribute": "add", "del-attribute": "del", "delete": "delete"}
	})
}

func attrTok(s string) string {
	initRev()
	if sfx, ok := strings.CutPrefix(s, "camliPath:"); ok {
		if n, ok := longRun(sfx, 'y'); ok {
			return "p" + strconv.Itoa(n)
		}
	}
	if t, ok := revAttr[s]; ok {
		return t
	}
	return "?" + hexTok(s)
}

func longRun(s string, c byte) (int, bool) {
	if len(s) < 64 {
		return 0, false
	}
	for i := 0; i < len(s); i++ {
		if s[i] != c {
			return 0, false
		}
	}
	return LongBase + len(s), true
}

func suffixTok(s string) string {
	initRev()
	if n, ok := longRun(s, 'y'); ok {
		return strconv.Itoa(n)
	}
	if t, ok := revAttr["camliPath:"+s]; ok {
		return t[1:]
	}
	return "?" + hexTok(s)
}

func (e *Exec) valTok(s string) string {
	initRev()
	if id, ok := e.W.IDOfRef[s]; ok {
		return "r" + strconv.Itoa(id)
	}
	if t, ok := revVal[s]; ok {
		return t
	}
	if n, ok := longRun(s, 'x'); ok {
		return "s" + strconv.Itoa(n)
	}
	if len(s) > 40 {
		return fmt.Sprintf("?long%d", len(s))
	}
	return "?" + hexTok(s)
}

func nameTok(s string) string {
	initRev()
	if t, ok := revName[s]; ok {
		return t
	}
	return "?" + hexTok(s)
}

func mimeTok(m string) string {
	const p = "application/json; camliType="
	if strings.HasPrefix(m, p) {
		return "t:" + m[len(p):]
	}
	return "m:" + hexTok(m)
}

// CanonRow renders one index row as an abstract tuple.
func (e *Exec) CanonRow(k, v string) string {
	initRev()
	if k == "schemaversion" {
		return "schemaversion=" + v
	}
	if i := strings.IndexByte(k, ':'); i > 0 && !strings.Contains(k[:i], "|") {
		typ, arg := k[:i], k[i+1:]
		switch typ {
		case "meta":
			j := strings.IndexByte(v, '|')
			if j < 0 {
				return "?" + k
			}
			return "meta|" + e.refTok(arg) + "=" + v[:j] + "," + mimeTok(v[j+1:])
		case "have":
			if sz, ok := strings.CutSuffix(v, "|indexed"); ok {
				return "have|" + e.refTok(arg) + "=" + sz + ",1"
			}
			return "have|" + e.refTok(arg) + "=" + v + ",0"
		case "signerkeyid":
			return "signerkeyid|" + e.refTok(arg) + "=" + e.keyIDTok(v)
		}
		return "?" + k
	}
	kp := strings.Split(k, "|")
	vp := strings.Split(v, "|")
	bad := "?" + hexTok(k) + "=" + hexTok(v)
	nk := func(n int) bool { return len(kp) == n+1 }
	nv := func(n int) bool { return len(vp) == n }
	switch kp[0] {
	case "missing":
		if !nk(2) {
			return bad
		}
		return "missing|" + e.refTok(kp[1]) + "," + e.refTok(kp[2]) + "=" + v
	case "claim":
		if !nk(4) || !nv(4) {
			return bad
		}
		ct, ok := claimTypeTok[urld(vp[0])]
		if !ok {
			ct = "?" + vp[0]
		}
		attr, val := "-", "-"
		if ct != "delete" {
			attr, val = attrTok(urld(vp[1])), e.valTok(urld(vp[2]))
		} else if vp[1] != "" || vp[2] != "" {
			attr, val = "?"+vp[1], "?"+vp[2]
		}
		return "claim|" + e.refTok(kp[1]) + "," + e.keyIDTok(kp[2]) + "," + dateTok(kp[3]) + "," + e.refTok(kp[4]) +
			"=" + ct + "," + attr + "," + val + "," + e.refTok(vp[3])
	case "recpn":
		if !nk(3) {
			return bad
		}
		return "recpn|" + e.keyIDTok(kp[1]) + "," + dateTok(unreverseTime(kp[2])) + "," + e.refTok(kp[3]) + "=" + e.refTok(v)
	case "signertargetpath":
		if !nk(3) || !nv(4) {
			return bad
		}
		return "signertargetpath|" + e.keyIDTok(kp[1]) + "," + e.refTok(kp[2]) + "," + e.refTok(kp[3]) +
			"=" + dateTok(vp[0]) + "," + e.refTok(vp[1]) + "," + urld(vp[2]) + "," + suffixTok(urld(vp[3]))
	case "path":
		if !nk(5) || !nv(2) {
			return bad
		}
		return "path|" + e.keyIDTok(kp[1]) + "," + e.refTok(kp[2]) + "," + suffixTok(urld(kp[3])) + "," +
			dateTok(unreverseTime(kp[4])) + "," + e.refTok(kp[5]) + "=" + urld(vp[0]) + "," + e.refTok(vp[1])
	case "wholetofile":
		if !nk(2) {
			return bad
		}
		return "wholetofile|" + e.wholeTok(kp[1]) + "," + e.refTok(kp[2]) + "=" + v
	case "fileinfo":
		if !nk(1) || !nv(4) {
			return bad
		}
		return "fileinfo|" + e.refTok(kp[1]) + "=" + vp[0] + "," + nameTok(urld(vp[1])) + "," + hexTok(urld(vp[2])) + "," + e.wholeTok(vp[3])
	case "filetimes":
		if !nk(1) {
			return bad
		}
		t := urld(v)
		if t == "" {
			return "filetimes|" + e.refTok(kp[1]) + "=-"
		}
		return "filetimes|" + e.refTok(kp[1]) + "=" + dateTok(t)
	case "signerattrvalue":
		if !nk(5) {
			return bad
		}
		return "signerattrvalue|" + e.keyIDTok(kp[1]) + "," + attrTok(urld(kp[2])) + "," + e.valTok(urld(kp[3])) + "," +
			dateTok(unreverseTime(kp[4])) + "," + e.refTok(kp[5]) + "=" + e.refTok(v)
	case "deleted":
		if !nk(3) {
			return bad
		}
		return "deleted|" + e.refTok(kp[1]) + "," + dateTok(unreverseTime(kp[2])) + "," + e.refTok(kp[3]) + "=" + hexTok(v)
	case "edgeback":
		if !nk(3) || !nv(2) {
			return bad
		}
		return "edgeback|" + e.refTok(kp[1]) + "," + e.refTok(kp[2]) + "," + e.refTok(kp[3]) + "=" + urld(vp[0]) + "," + hexTok(urld(vp[1]))
	case "imagesize":
		if !nk(1) || !nv(2) {
			return bad
		}
		return "imagesize|" + e.refTok(kp[1]) + "=" + vp[0] + "," + vp[1]
	case "dirchild":
		if !nk(2) {
			return bad
		}
		return "dirchild|" + e.refTok(kp[1]) + "," + e.refTok(kp[2]) + "=" + v
	}
	return bad
}

// Rows returns the canonical tuples of all rows of the index storage, sorted.
func (e *Exec) Rows() []string {
	var rows []string
	it := e.kv.Find("", "")
	for it.Next() {
		rows = append(rows, e.CanonRow(it.Key(), it.Value()))
	}
	it.Close()
	sort.Strings(rows)
	return rows
}

func (e *Exec) Dump() string {
	rows := e.Rows()
	if len(rows) == 0 {
		return "-"
	}
	return strings.Join(rows, ";")
}

func uniqSorted(xs []string) []string {
	sort.Strings(xs)
	out := xs[:0]
	for i, x := range xs {
		if i == 0 || x != xs[i-1] {
			out = append(out, x)
		}
	}
	return out
}

func joinOrDash(xs []string) string {
	if len(xs) == 0 {
		return "-"
	}
	return strings.Join(xs, ",")
}

// Pending renders needs / neededBy / readyReindex (sets of pairs; duplicates dropped).
func (e *Exec) Pending() string {
	needs, neededBy, ready := e.Ix.VerifPending()
	var a, b, c []string
	for _, p := range needs {
		a = append(a, e.refTok(p[0])+">"+e.refTok(p[1]))
	}
	for _, p := range neededBy {
		b = append(b, e.refTok(p[0])+"<"+e.refTok(p[1]))
	}
	for _, r := range ready {
		c = append(c, e.refTok(r))
	}
	return "needs=" + joinOrDash(uniqSorted(a)) + ";neededby=" + joinOrDash(uniqSorted(b)) + ";ready=" + joinOrDash(uniqSorted(c))
}

// ---- the exported query surface (C06) --------------------------------------------------------------------

func timeTok(t time.Time, ok bool) string {
	if !ok {
		return "-"
	}
	return strconv.FormatInt(t.UnixNano(), 10)
}

// Observe renders the answers of the exported query methods of (ix, c) about every blob of the world.
func (e *Exec) Observe(ix *index.Index, c *index.Corpus) string {
	ix.RLock()
	defer ix.RUnlock()
	var metas, dels, pns []string
	ids := e.W.SortedIDs()
	for _, id := range ids {
		ref := e.W.Blob[id].BlobRef()
		if bm, err := ix.GetBlobMeta(ctxbg, ref); err == nil {
			ct := string(bm.CamliType)
			if ct == "" {
				ct = "-"
			}
			metas = append(metas, fmt.Sprintf("b%d:%d,%s", id, bm.Size, ct))
		} else if !os.IsNotExist(err) {
			metas = append(metas, fmt.Sprintf("b%d:err", id))
		}
		x, y := ix.IsDeleted(ref), c.IsDeleted(ref)
		if x || y {
			f := ""
			if x {
				f += "i"
			}
			if y {
				f += "c"
			}
			dels = append(dels, fmt.Sprintf("b%d:%s", id, f))
		}
	}
	for _, id := range ids {
		if e.W.Specs[id].Kind != "pn" {
			continue
		}
		ref := e.W.Blob[id].BlobRef()
		cls, err := ix.AppendClaims(ctxbg, nil, ref, "", "")
		var cs []string
		if err != nil {
			cs = []string{"err"}
		}
		for _, cl := range cls {
			cs = append(cs, e.refTok(cl.BlobRef.String()))
		}
		mt, ok := c.PermanodeModtime(ref)
		at, ok2 := c.PermanodeAnyTime(ref)
		var av []string
		for _, a := range []string{"tag", "title", "camliContent"} {
			v := c.PermanodeAttrValue(ref, a, time.Time{}, "")
			if v == "" {
				av = append(av, "-")
			} else {
				av = append(av, e.valTok(v))
			}
		}
		pns = append(pns, fmt.Sprintf("b%d:c=%s:t=%s:y=%s:a=%s", id, joinOrDash(cs), timeTok(mt, ok), timeTok(at, ok2), strings.Join(av, ",")))
	}
	var lm, cr []string
	c.EnumeratePermanodesLastModified(func(bm camtypes.BlobMeta) bool {
		lm = append(lm, e.refTok(bm.Ref.String()))
		return true
	})
	c.EnumeratePermanodesCreated(func(bm camtypes.BlobMeta) bool {
		cr = append(cr, e.refTok(bm.Ref.String()))
		return true
	}, true)
	// back references (claims whose value is the blob's ref), for every blob of the world, arrived or not;
	// Corpus.claimBack is documented as not sorted: compared as a set
	var backs []string
	for _, id := range ids {
		var cls []string
		c.ForeachClaimBack(e.W.Blob[id].BlobRef(), time.Time{}, func(cl *camtypes.Claim) bool {
			cls = append(cls, e.refTok(cl.BlobRef.String()))
			return true
		})
		if len(cls) > 0 {
			sort.Strings(cls)
			backs = append(backs, fmt.Sprintf("b%d:%s", id, strings.Join(cls, "+")))
		}
	}
	return "M=" + joinOrDash(metas) + ";D=" + joinOrDash(dels) + ";P=" + joinOrDashSep(pns, "/") + ";L=" + joinOrDash(lm) + ";C=" + joinOrDash(cr) + ";B=" + joinOrDash(backs) + ";K=" + joinOrDash(e.keyIDs(ix, c))
}

// keyIDs: Index.KeyId and Corpus.KeyId for every key blob of the world (`b1:K0`; `b1:K0/-` when the two differ)
func (e *Exec) keyIDs(ix *index.Index, c *index.Corpus) []string {
	var out []string
	for _, id := range e.W.SortedIDs() {
		if e.W.Specs[id].Kind != "key" {
			continue
		}
		ref := e.W.Blob[id].BlobRef()
		tok := func(s string, err error) string {
			if err != nil {
				return "-"
			}
			return e.keyIDTok(s)
		}
		a, b := tok(ix.KeyId(ctxbg, ref)), tok(c.KeyId(ctxbg, ref))
		switch {
		case a == "-" && b == "-":
		case a == b:
			out = append(out, fmt.Sprintf("b%d:%s", id, a))
		default:
			out = append(out, fmt.Sprintf("b%d:%s/%s", id, a, b))
		}
	}
	return out
}

func joinOrDashSep(xs []string, sep string) string {
	if len(xs) == 0 {
		return "-"
	}
	return strings.Join(xs, sep)
}

var _ = schema.TypePermanode
var _ blob.Ref
